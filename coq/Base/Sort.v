(* Byte-wise lexicographic order on strings (Go's < on strings), insertion sort by a key,
   and the fact every order-independence argument rests on: sorting two permutations of a
   list whose keys identify its elements gives the same list. *)
From Verif Require Import Base.Str.
From Coq Require Import Permutation Sorted.

Fixpoint str_leb (x y : str) : bool :=
  match x, y with
  | [], _ => true
  | _ :: _, [] => false
  | c :: x', d :: y' => if N.ltb c d then true else if N.eqb c d then str_leb x' y' else false
  end.

Lemma str_leb_refl x : str_leb x x = true.
Proof. induction x as [|c x IH]; cbn; [reflexivity|]. rewrite N.ltb_irrefl, N.eqb_refl. exact IH. Qed.

Lemma str_leb_total x y : str_leb x y = true \/ str_leb y x = true.
Proof.
  revert y; induction x as [|c x IH]; intros [|d y]; cbn; auto.
  destruct (N.ltb_spec c d) as [L|L]; [auto|].
  destruct (N.eqb_spec c d) as [E|E].
  - subst. rewrite N.ltb_irrefl, N.eqb_refl. apply IH.
  - right. destruct (N.ltb_spec d c) as [L'|L']; [reflexivity|]. lia.
Qed.

Lemma str_leb_antisym x y : str_leb x y = true -> str_leb y x = true -> x = y.
Proof.
  revert y; induction x as [|c x IH]; intros [|d y]; cbn; auto; try discriminate.
  destruct (N.ltb_spec c d) as [L|L].
  - intros _. destruct (N.ltb_spec d c) as [L'|L']; [lia|].
    destruct (N.eqb_spec d c) as [E|E]; [lia | discriminate].
  - destruct (N.eqb_spec c d) as [E|E]; [|discriminate]. subst.
    rewrite N.ltb_irrefl, N.eqb_refl. intros H1 H2. f_equal. apply IH; assumption.
Qed.

Lemma str_leb_trans x y z : str_leb x y = true -> str_leb y z = true -> str_leb x z = true.
Proof.
  revert y z; induction x as [|c x IH]; intros [|d y] [|e z]; cbn; auto; try discriminate.
  destruct (N.ltb_spec c d) as [L1|L1].
  - intros _. destruct (N.ltb_spec d e) as [L2|L2].
    + intros _. destruct (N.ltb_spec c e); [reflexivity | lia].
    + destruct (N.eqb_spec d e) as [E|E]; [|discriminate]. subst.
      intros _. destruct (N.ltb_spec c e); [reflexivity | lia].
  - destruct (N.eqb_spec c d) as [E|E]; [|discriminate]. subst. intro H1.
    destruct (N.ltb_spec d e) as [L2|L2]; [reflexivity|].
    destruct (N.eqb_spec d e) as [E|E]; [|discriminate]. intro H2. eapply IH; eassumption.
Qed.

Section ByKey.
  Context {A : Type} (key : A -> str).

  Definition kle (a c : A) : Prop := str_leb (key a) (key c) = true.

  Fixpoint insert (x : A) (l : list A) : list A :=
    match l with
    | [] => [x]
    | y :: r => if str_leb (key x) (key y) then x :: l else y :: insert x r
    end.

  Fixpoint sort_by (l : list A) : list A :=
    match l with [] => [] | x :: r => insert x (sort_by r) end.

  Lemma insert_perm x l : Permutation (insert x l) (x :: l).
  Proof.
    induction l as [|y r IH]; cbn; [reflexivity|].
    destruct (str_leb (key x) (key y)); [reflexivity|].
    rewrite IH. apply perm_swap.
  Qed.

  Lemma sort_by_perm l : Permutation (sort_by l) l.
  Proof. induction l as [|x r IH]; cbn; [reflexivity|]. rewrite insert_perm. constructor. exact IH. Qed.

  Lemma insert_sorted x l : StronglySorted kle l -> StronglySorted kle (insert x l).
  Proof.
    induction l as [|y r IH]; intro S; cbn; [repeat constructor|].
    inversion S as [|? ? S' F]; subst.
    destruct (str_leb (key x) (key y)) eqn:E.
    - constructor; [exact S|]. constructor; [exact E|].
      eapply Forall_impl; [|exact F]. intros a Ha. unfold kle in *. eapply str_leb_trans; eassumption.
    - constructor; [apply IH; exact S'|].
      assert (kle y x) as Hyx by (destruct (str_leb_total (key x) (key y)) as [T|T]; [congruence | exact T]).
      eapply Permutation_Forall; [symmetry; apply insert_perm|]. constructor; assumption.
  Qed.

  Lemma sort_by_sorted l : StronglySorted kle (sort_by l).
  Proof. induction l as [|x r IH]; cbn; [constructor | apply insert_sorted; exact IH]. Qed.

  (* keys identify elements of l *)
  Definition key_inj_on (l : list A) : Prop := forall a c, In a l -> In c l -> key a = key c -> a = c.

  Lemma sorted_perm_eq l l' :
    key_inj_on l -> StronglySorted kle l -> StronglySorted kle l' -> Permutation l l' -> l = l'.
  Proof.
    revert l'; induction l as [|x r IH]; intros l' KI S S' P.
    - apply Permutation_nil in P. subst. reflexivity.
    - destruct l' as [|y r']; [apply Permutation_sym, Permutation_nil in P; discriminate|].
      inversion S as [|? ? Sr F]; subst. inversion S' as [|? ? Sr' F']; subst.
      assert (x = y) as ->.
      { assert (In y (x :: r)) as Iy by (eapply Permutation_in; [symmetry; exact P | left; reflexivity]).
        assert (In x (y :: r')) as Ix by (eapply Permutation_in; [exact P | left; reflexivity]).
        destruct Iy as [E|Iy]; [exact E|]. destruct Ix as [E|Ix]; [symmetry; exact E|].
        rewrite Forall_forall in F, F'. specialize (F _ Iy). specialize (F' _ Ix).
        apply KI; [left; reflexivity | right; exact Iy |]. apply str_leb_antisym; assumption. }
      f_equal. apply IH; try assumption.
      + intros a c Ha Hc. apply KI; right; assumption.
      + eapply Permutation_cons_inv. exact P.
  Qed.

  Theorem sort_by_perm_eq l l' :
    key_inj_on l -> Permutation l l' -> sort_by l = sort_by l'.
  Proof.
    intros KI P. apply sorted_perm_eq.
    - intros a c Ha Hc. apply KI; eapply Permutation_in; try apply sort_by_perm; assumption.
    - apply sort_by_sorted.
    - apply sort_by_sorted.
    - rewrite sort_by_perm, P. symmetry. apply sort_by_perm.
  Qed.

  Lemma nodup_keys_inj l : NoDup (map key l) -> key_inj_on l.
  Proof.
    induction l as [|x r IH]; intros ND a c Ha Hc E; [destruct Ha|].
    inversion ND as [|? ? Hn ND']; subst.
    destruct Ha as [<-|Ha], Hc as [<-|Hc]; auto.
    - exfalso. apply Hn. rewrite E. apply in_map. exact Hc.
    - exfalso. apply Hn. rewrite <- E. apply in_map. exact Ha.
    - eapply IH; eassumption.
  Qed.
End ByKey.

Definition sort_str (l : list str) : list str := sort_by (fun x => x) l.

Theorem sort_str_perm_eq l l' : Permutation l l' -> sort_str l = sort_str l'.
Proof. apply sort_by_perm_eq. intros a c _ _ E. exact E. Qed.

(* de-duplication (a Go map's key set) keeping first occurrences *)
Fixpoint dedup (l : list str) : list str :=
  match l with
  | [] => []
  | x :: r => if mem_str x r then dedup r else x :: dedup r
  end.

Lemma dedup_In x l : In x (dedup l) <-> In x l.
Proof.
  induction l as [|y r IH]; cbn; [tauto|].
  destruct (mem_str y r) eqn:M.
  - rewrite IH. apply mem_str_In in M. split; [auto|]. intros [<-|H]; auto.
  - cbn. rewrite IH. tauto.
Qed.

Lemma dedup_NoDup l : NoDup (dedup l).
Proof.
  induction l as [|y r IH]; cbn; [constructor|].
  destruct (mem_str y r) eqn:M; [exact IH|]. constructor; [|exact IH].
  rewrite dedup_In. apply mem_str_not_In. exact M.
Qed.

(* two enumerations of the same set of names, sorted, coincide *)
Theorem sort_dedup_same_set l l' :
  (forall x, In x l <-> In x l') -> sort_str (dedup l) = sort_str (dedup l').
Proof.
  intro H. apply sort_str_perm_eq. apply NoDup_Permutation; try apply dedup_NoDup.
  intro x. rewrite !dedup_In. apply H.
Qed.
