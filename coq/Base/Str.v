(* Strings as lists of code points (bytes for ASCII); shared helpers.
   Model files contain definitions only; lemmas about them live here because
   every later file needs them. *)
From Coq Require Export List NArith Bool Ascii Lia.
From Coq Require String.
Export String.StringSyntax.
Export ListNotations.
Open Scope N_scope.

Definition str := list N.

(* Literal helper: [b "abc"] is the code-point list of an ASCII literal. *)
Definition b (s : String.string) : str := map N_of_ascii (String.list_ascii_of_string s).
Arguments b s%string_scope.

Fixpoint str_eqb (x y : str) : bool :=
  match x, y with
  | [], [] => true
  | c :: x', d :: y' => N.eqb c d && str_eqb x' y'
  | _, _ => false
  end.

Lemma str_eqb_eq x y : str_eqb x y = true <-> x = y.
Proof.
  revert y; induction x as [|c x IH]; intros [|d y]; simpl; split; intro H;
    try discriminate; try reflexivity.
  - apply andb_true_iff in H as [H1 H2]. apply N.eqb_eq in H1. apply IH in H2. congruence.
  - injection H as -> ->. rewrite N.eqb_refl. simpl. apply IH. reflexivity.
Qed.

Lemma str_eqb_refl x : str_eqb x x = true.
Proof. apply str_eqb_eq. reflexivity. Qed.

Lemma str_eqb_neq x y : str_eqb x y = false <-> x <> y.
Proof.
  split; intro H.
  - intro E. apply str_eqb_eq in E. congruence.
  - destruct (str_eqb x y) eqn:E; [|reflexivity]. apply str_eqb_eq in E. contradiction.
Qed.

Definition str_eq_dec (x y : str) : {x = y} + {x <> y}.
Proof. decide equality. apply N.eq_dec. Defined.

Fixpoint mem_str (x : str) (l : list str) : bool :=
  match l with
  | [] => false
  | y :: l' => str_eqb x y || mem_str x l'
  end.

Lemma mem_str_In x l : mem_str x l = true <-> In x l.
Proof.
  induction l as [|y l IH]; simpl.
  - split; [discriminate|tauto].
  - rewrite orb_true_iff, IH, str_eqb_eq. split; intros [H|H]; auto.
Qed.

Lemma mem_str_not_In x l : mem_str x l = false <-> ~ In x l.
Proof.
  rewrite <- mem_str_In. destruct (mem_str x l); split; intro H; congruence.
Qed.

(* association lists keyed by strings *)
Fixpoint assoc {A} (k : str) (l : list (str * A)) : option A :=
  match l with
  | [] => None
  | (k', v) :: l' => if str_eqb k k' then Some v else assoc k l'
  end.

Fixpoint is_prefix (p s : str) : bool :=
  match p, s with
  | [], _ => true
  | c :: p', d :: s' => N.eqb c d && is_prefix p' s'
  | _ :: _, [] => false
  end.

Lemma is_prefix_spec p s : is_prefix p s = true <-> exists t, s = p ++ t.
Proof.
  revert s; induction p as [|c p IH]; intros s; simpl.
  - split; [intros _; exists s; reflexivity | reflexivity].
  - destruct s as [|d s].
    + split; [discriminate | intros [t Ht]; discriminate].
    + rewrite andb_true_iff, N.eqb_eq, IH. split.
      * intros [-> [t ->]]. exists t. reflexivity.
      * intros [t Ht]. injection Ht as -> ->. split; [reflexivity | exists t; reflexivity].
Qed.

Definition is_suffix (p s : str) : bool := is_prefix (rev p) (rev s).

Lemma is_suffix_spec p s : is_suffix p s = true <-> exists t, s = t ++ p.
Proof.
  unfold is_suffix. rewrite is_prefix_spec. split; intros [t Ht].
  - exists (rev t). apply (f_equal (@rev N)) in Ht.
    rewrite rev_involutive, rev_app_distr, rev_involutive in Ht. exact Ht.
  - exists (rev t). rewrite Ht, rev_app_distr. reflexivity.
Qed.

Fixpoint drop_while (f : N -> bool) (s : str) : str :=
  match s with
  | [] => []
  | c :: s' => if f c then drop_while f s' else s
  end.

Definition concat_str (l : list str) : str := List.concat l.

(* ASCII case mapping: what unicode.ToUpper / ToLower do on code points < 128 *)
Definition is_lower (c : N) : bool := (97 <=? c) && (c <=? 122).
Definition is_upper (c : N) : bool := (65 <=? c) && (c <=? 90).
Definition to_upper (c : N) : N := if is_lower c then c - 32 else c.
Definition to_lower (c : N) : N := if is_upper c then c + 32 else c.
Definition is_digit (c : N) : bool := (48 <=? c) && (c <=? 57).
Definition is_letter (c : N) : bool := is_lower c || is_upper c.
Definition us : N := 95. (* '_' *)
Definition is_us (c : N) : bool := N.eqb c us.

(* GraphQL Name: [_A-Za-z][_0-9A-Za-z]* *)
Definition name_start (c : N) : bool := is_letter c || is_us c.
Definition name_cont (c : N) : bool := name_start c || is_digit c.
Definition is_gql_name (s : str) : bool :=
  match s with
  | [] => false
  | c :: s' => name_start c && forallb name_cont s'
  end.

(* generic result type with explicit panic / fuel exhaustion *)
Inductive res (A : Type) : Type :=
| Ok (a : A)
| Err (class : str)
| Panic (site : str)
| OutOfFuel.
Arguments Ok {A} a.
Arguments Err {A} class.
Arguments Panic {A} site.
Arguments OutOfFuel {A}.

Definition bind {A B} (r : res A) (f : A -> res B) : res B :=
  match r with
  | Ok a => f a
  | Err c => Err c
  | Panic s => Panic s
  | OutOfFuel => OutOfFuel
  end.
Notation "'do' x <- r ; k" := (bind r (fun x => k)) (at level 200, x pattern, r at level 100, k at level 200).

Fixpoint nat_eqb_list (x y : list nat) : bool :=
  match x, y with
  | [], [] => true
  | a :: x', c :: y' => Nat.eqb a c && nat_eqb_list x' y'
  | _, _ => false
  end.

Fixpoint list_eqb {A} (eqb : A -> A -> bool) (x y : list A) : bool :=
  match x, y with
  | [], [] => true
  | a :: x', c :: y' => eqb a c && list_eqb eqb x' y'
  | _, _ => false
  end.

Lemma list_eqb_eq {A} (eqb : A -> A -> bool) :
  (forall a c, eqb a c = true <-> a = c) ->
  forall x y, list_eqb eqb x y = true <-> x = y.
Proof.
  intros Heq x. induction x as [|a x IH]; intros [|c y]; simpl; split; intro H;
    try discriminate; try reflexivity.
  - apply andb_true_iff in H as [H1 H2]. apply Heq in H1. apply IH in H2. congruence.
  - injection H as -> ->. apply andb_true_iff. split; [apply Heq; reflexivity | apply IH; reflexivity].
Qed.

Definition option_eqb {A} (eqb : A -> A -> bool) (x y : option A) : bool :=
  match x, y with
  | None, None => true
  | Some a, Some c => eqb a c
  | _, _ => false
  end.
