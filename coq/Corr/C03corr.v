(* Correspondence for C03: the user's document as gqlparser parsed it, and the document genqlient
   emitted for one operation (re-parsed by gqlparser), both exported to Gen/Gql.v terms. *)
From Verif Require Import Base.Str Gen.Gql Gen.Doc.

Record c03_case := {
  t_id : nat;
  t_schema : schema;                 (* names and kinds only *)
  t_frags : list fragment;           (* every fragment of the user's merged document *)
  t_op : operation;                  (* the user's operation *)
  t_obs_op : operation;              (* emitted *)
  t_obs_frags : list fragment;       (* emitted, in order *)
}.

Fixpoint sels_eqb (l m : list sel) : bool :=
  match l, m with
  | [], [] => true
  | a :: l', c :: m' => sel_eqb a c && sels_eqb l' m'
  | _, _ => false
  end.

Definition op_eqb (x y : operation) : bool :=
  N.eqb (op_kind x) (op_kind y) && str_eqb (op_name x) (op_name y) && N.eqb (op_extra x) (op_extra y)
  && sels_eqb (op_sel x) (op_sel y).
Definition frag_eqb (x y : fragment) : bool :=
  str_eqb (fr_name x) (fr_name y) && str_eqb (fr_on x) (fr_on y) && N.eqb (fr_extra x) (fr_extra y)
  && sels_eqb (fr_sel x) (fr_sel y).

Definition c03_agrees (c : c03_case) : bool :=
  match emitted (t_schema c) (t_frags c) (t_op c) with
  | Some (o, fs) => op_eqb o (t_obs_op c) && list_eqb frag_eqb fs (t_obs_frags c)
  | None => false
  end.

Definition c03_mismatches (cs : list c03_case) : list nat :=
  map t_id (filter (fun c => negb (c03_agrees c)) cs).

(* ---- specification, evaluated on the OBSERVED document only ---- *)
(* in the re-parsed text every node has a position, so "synthesised" cannot be read off the line:
   the specification strips a leading __typename where the user's selection set has none *)
Fixpoint spec_sel (user obs : sel) {struct user} : bool :=
  let fix go (us os : list sel) {struct us} : bool :=
    match us, os with
    | [], [] => true
    | u :: us', o :: os' => spec_sel u o && go us' os'
    | _, _ => false
    end in
  match user, obs with
  | SField a n t _ e sub _, SField a' n' _ _ e' sub' _ =>
      str_eqb a a' && str_eqb n n' && N.eqb e e'
      && (if has_typename sub then go sub sub'
          else match sub' with
               | SField ta tn _ _ te [] _ :: rest =>
                   (* a bare `__typename` (own response key) that the user's set does not have *)
                   if str_eqb tn typename_name && str_eqb ta typename_name
                   then N.eqb te 0 && go sub rest
                   else go sub sub'
               | _ => go sub sub'
               end)
  | SInline c e sub _, SInline c' e' sub' _ => str_eqb c c' && N.eqb e e' && go sub sub'
  | SSpread n e _, SSpread n' e' _ => str_eqb n n' && N.eqb e e'
  | _, _ => false
  end.
Fixpoint spec_sels (us os : list sel) : bool :=
  match us, os with
  | [], [] => true
  | u :: us', o :: os' => spec_sel u o && spec_sels us' os'
  | _, _ => false
  end.

(* closure by plain iteration (an algorithm different from usedFragments) *)
Fixpoint closure_iter (fs : list fragment) (n : nat) (acc : list str) : list str :=
  match n with
  | O => acc
  | S k =>
      let more := flat_map (frag_spreads fs) acc in
      closure_iter fs k (fold_left (fun a x => if mem_str x a then a else a ++ [x]) more acc)
  end.
Fixpoint nodup_b (l : list str) : bool :=
  match l with [] => true | x :: r => negb (mem_str x r) && nodup_b r end.
Definition same_set (a c : list str) : bool :=
  forallb (fun x => mem_str x c) a && forallb (fun x => mem_str x a) c.

Definition c03_spec_ok (c : c03_case) : bool :=
  let o := t_op c in let o' := t_obs_op c in
  N.eqb (op_kind o) (op_kind o') && str_eqb (op_name o) (op_name o') && N.eqb (op_extra o) (op_extra o')
  && spec_sels (op_sel o) (op_sel o')
  && forallb (typenames_ok (t_schema c)) (op_sel o')
  && (let names := map fr_name (t_obs_frags c) in
      let roots := fold_left (fun a x => if mem_str x a then a else a ++ [x]) (spreads_of (op_sel o)) [] in
      nodup_b names && same_set names (closure_iter (t_frags c) (S (List.length (t_frags c))) roots))
  && forallb (fun f' => match find_frag (t_frags c) (fr_name f') with
                        | Some f => str_eqb (fr_on f) (fr_on f') && N.eqb (fr_extra f) (fr_extra f')
                                    && spec_sels (fr_sel f) (fr_sel f')
                                    && forallb (typenames_ok (t_schema c)) (fr_sel f')
                        | None => false
                        end) (t_obs_frags c).

Definition c03_specfails (cs : list c03_case) : list nat :=
  map t_id (filter (fun c => negb (c03_spec_ok c)) cs).
