(* Correspondence + in-kernel specification verdict for C11. *)
From Verif Require Import Base.Str Rt.Http.

Record c11_case := {
  g_id : nat;
  g_get : bool;
  g_ep : str;
  g_req : request;
  g_obs_url : res str;
  g_obs_body : res (list body_field);
}.

Definition bf_eqb (x y : body_field) : bool :=
  match x, y with
  | BQuery a, BQuery c => str_eqb a c
  | BVariables a, BVariables c => str_eqb a c
  | BOpName a, BOpName c => str_eqb a c
  | _, _ => false
  end.

Definition res_eqb {A} (eqb : A -> A -> bool) (x y : res A) : bool :=
  match x, y with
  | Ok a, Ok c => eqb a c
  | Err a, Err c => str_eqb a c
  | _, _ => false
  end.

Definition c11_agrees (c : c11_case) : bool :=
  if g_get c then res_eqb str_eqb (create_get (g_ep c) (g_req c)) (g_obs_url c)
  else res_eqb (list_eqb bf_eqb) (create_post (g_req c)) (g_obs_body c).

Definition c11_mismatches (cs : list c11_case) : list nat :=
  map g_id (filter (fun c => negb (c11_agrees c)) cs).

(* specification verdict on the observed URL / body *)
Definition c11_spec_ok (c : c11_case) : bool :=
  let r := g_req c in
  if g_get c then
    match g_obs_url c with
    | Ok u =>
        let e := split_endpoint (g_ep c) in
        let e' := split_endpoint u in
        let orig := parse_query (ep_rawquery e) in
        let got := parse_query (ep_rawquery e') in
        str_eqb (ep_base e') (ep_base e)
        && option_eqb str_eqb (ep_fragment e') (ep_fragment e)
        && forallb (fun k => list_eqb str_eqb (vget k got) (expected_param r orig k))
                   ([k_query; k_opname; k_variables] ++ map fst orig ++ map fst got)
    | _ => true
    end
  else
    match g_obs_body c with
    | Ok body =>
        list_eqb bf_eqb body
          ([BQuery (rq_query r)]
           ++ (match rq_variables r with Some v => [BVariables v] | None => [] end)
           ++ [BOpName (rq_opname r)])
    | _ => true
    end.

Definition c11_specfails (cs : list c11_case) : list nat :=
  map g_id (filter (fun c => negb (c11_spec_ok c)) cs).
