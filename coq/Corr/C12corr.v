From Verif Require Import Base.Str Rt.HttpResp.

Record c12_case := {
  h_id : nat;
  h_in : hcase;
  h_obs_out : outcome;
  h_obs_closes : nat;
  h_obs_data : bool;
}.

Definition outcome_eqb (a c : outcome) : bool :=
  match a, c with
  | OTransport, OTransport | ONil, ONil | OOther, OOther => true
  | OHTTPError s f n, OHTTPError t g m => N.eqb s t && Bool.eqb f g && Nat.eqb n m
  | OGqlErrors n, OGqlErrors m => Nat.eqb n m
  | _, _ => false
  end.

Definition c12_agrees (c : c12_case) : bool :=
  let r := run_response (h_in c) in
  outcome_eqb (r_out r) (h_obs_out c)
  && Nat.eqb (count_close (r_events r)) (h_obs_closes c)
  && Bool.eqb (r_data_decoded r) (h_obs_data c).

Definition c12_mismatches (cs : list c12_case) : list nat :=
  map h_id (filter (fun c => negb (c12_agrees c)) cs).

(* specification verdict on the observed behaviour *)
Definition c12_spec_ok (c : c12_case) : bool :=
  spec_outcome_ok (h_in c) (h_obs_out c)
  && Nat.eqb (h_obs_closes c) (if hc_do_err (h_in c) then 0 else 1)
  && (match h_obs_out c with OGqlErrors _ | ONil => h_obs_data c | _ => true end).

Definition c12_specfails (cs : list c12_case) : list nat :=
  map h_id (filter (fun c => negb (c12_spec_ok c)) cs).
