(* Correspondence for C18: the location prefix of real error messages against errors.go's model. *)
From Verif Require Import Base.Str Gen.Errors.
From Coq Require Import ZArith.

Record c18_case := {
  e_id : nat;
  e_file : str;              (* file relative to the config directory *)
  e_lit : option N;          (* Go: line of the literal's opening quote *)
  e_line : N;                (* line of the offending node inside the file / literal value *)
  e_true_line : N;           (* line of the offending node in the file on disk *)
  e_obs : str;               (* observed prefix "file:line" ("" when the message has none) *)
}.

Definition c18_model (c : c18_case) : str :=
  match e_lit c with
  | Some L => error_pos_string (pseudo_filename (e_file c) L) (Z.of_N (e_line c))
  | None => error_pos_string (e_file c) (Z.of_N (e_line c))
  end.

Definition c18_mismatches (cs : list c18_case) : list nat :=
  map e_id (filter (fun c => negb (str_eqb (c18_model c) (e_obs c))) cs).

(* specification: the prefix is file ":" true line *)
Definition c18_spec_ok (c : c18_case) : bool :=
  str_eqb (e_obs c) (e_file c ++ [colon] ++ dec (e_true_line c)).

Definition c18_specfails (cs : list c18_case) : list nat :=
  map e_id (filter (fun c => negb (c18_spec_ok c)) cs).
