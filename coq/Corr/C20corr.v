(* Correspondence for C20: one CLI run of the real binary = (was the config accepted by
   ReadAndValidateConfig in-process, what Generate returned in-process, the file system before,
   the write-opens strace saw on the scratch directory in order, the file system after). *)
From Verif Require Import Base.Str Gen.MainRun.

Record c20_case := {
  k_id : nat;
  k_cfg_ok : bool;
  k_gen : option (list (str * N));   (* in the order the binary was seen writing them *)
  k_fail : option nat;
  k_before : fsys;
  k_paths : list str;                (* every path to compare afterwards *)
  k_exit_ok : bool;                  (* binary exit status 0 *)
  k_writes : list (str * N);         (* observed opens-for-writing, with the content found afterwards *)
  k_after : fsys;
}.

Definition optN_eqb (x y : option N) : bool :=
  match x, y with Some a, Some c => N.eqb a c | None, None => true | _, _ => false end.

Definition pairs_eqb (x y : list (str * N)) : bool :=
  list_eqb (fun a c => str_eqb (fst a) (fst c) && N.eqb (snd a) (snd c)) x y.

Definition c20_agrees (c : c20_case) : bool :=
  let '(fs', tr, o) := run (k_cfg_ok c) (k_gen c) (k_fail c) (k_before c) in
  Bool.eqb (negb (is_error o)) (k_exit_ok c)
  && forallb (fun p => optN_eqb (fs_get fs' p) (fs_get (k_after c) p)) (k_paths c)
  && list_eqb str_eqb (map fst (writes_of tr)) (map fst (k_writes c)).

Definition c20_mismatches (cs : list c20_case) : list nat :=
  map k_id (filter (fun c => negb (c20_agrees c)) cs).

(* specification, judged on the observation alone *)
Definition c20_spec_ok (c : c20_case) : bool :=
  if negb (k_cfg_ok c) || match k_gen c with None => true | Some _ => false end
  then (* generation error: exit non-zero, no write-open at all, every path as before *)
    negb (k_exit_ok c)
    && match k_writes c with [] => true | _ => false end
    && forallb (fun p => optN_eqb (fs_get (k_before c) p) (fs_get (k_after c) p)) (k_paths c)
  else match k_gen c, k_fail c with
       | Some outs, None =>
           k_exit_ok c
           && forallb (fun pc => optN_eqb (fs_get (k_after c) (fst pc)) (Some (snd pc))) outs
           && forallb (fun p => mem_str p (map fst outs) || optN_eqb (fs_get (k_before c) p) (fs_get (k_after c) p)) (k_paths c)
       | _, _ => true
       end.

Definition c20_specfails (cs : list c20_case) : list nat :=
  map k_id (filter (fun c => negb (c20_spec_ok c)) cs).
