(* Correspondence for the converter (C01 C07 C09 C10): the declarations the real generator
   emitted (read back with go/ast, import aliases replaced by package paths) against
   Gen/Convert.v run on the exported AST. *)
From Verif Require Import Base.Str Base.Sort Gen.Consts Gen.Casing Gen.Gql Gen.Doc Gen.Directive Gen.Convert Gen.Wf.

Inductive odecl :=
| OStruct (name : str) (fields : list (str * str * str))          (* Go field name ("" embedded), type, json tag *)
| OIface (name : str) (methods : list (str * str)) (embeds : list str) (impls : list str)
| OEnum (name : str) (values : list (str * str))                   (* constant, GraphQL value *)
| OAlias (name builtin : str).

Definition odecl_name (d : odecl) : str :=
  match d with OStruct n _ => n | OIface n _ _ _ => n | OEnum n _ => n | OAlias n _ => n end.

Inductive obs :=
| ObsOk (decls : list odecl) (ops : list (str * str))   (* operation name, response type reference *)
| ObsErr (class : str)
| ObsPanic.

Record conv_case := {
  v_id : nat;
  v_schema : schema;
  v_cfg : config;
  v_frags : list fragment;
  v_ops : list operation;
  v_srcs : list (list lkind);
  v_obs : obs;
}.

Definition needs_marshaling (f : gofield) : bool :=
  match gf_name f with
  | [] => true
  | _ => match unwrap (gf_type f) with
         | GOpaque _ _ m u => nonempty m || nonempty u
         | GIface _ => true
         | _ => false
         end
  end.

Definition field_tag (f : gofield) : str :=
  if needs_marshaling f then b "-"
  else gf_json f ++ (if gf_omitempty f then b ",omitempty" else []).

Definition render_decl (nd : str * godecl) : odecl :=
  let '(n, d) := nd in
  match d with
  | DStruct _ fields _ _ => OStruct n (map (fun f => (gf_name f, reference (gf_type f), field_tag f)) fields)
  | DIface _ shared impls _ =>
      OIface n
        (flat_map (fun f => match gf_name f with [] => [] | g => [(b "Get" ++ g, reference (gf_type f))] end) shared)
        (flat_map (fun f => match gf_name f with [] => [reference (gf_type f)] | _ => [] end) shared)
        impls
  | DEnum _ vs => OEnum n vs
  | DAlias bi _ => OAlias n bi
  end.

Definition render (tm : typemap) : list odecl := map render_decl (sort_by fst tm).

Definition pair_eqb (x y : str * str) : bool := str_eqb (fst x) (fst y) && str_eqb (snd x) (snd y).
Definition triple_eqb (x y : str * str * str) : bool :=
  str_eqb (fst (fst x)) (fst (fst y)) && str_eqb (snd (fst x)) (snd (fst y)) && str_eqb (snd x) (snd y).

Definition odecl_eqb (x y : odecl) : bool :=
  match x, y with
  | OStruct n fs, OStruct n' fs' => str_eqb n n' && list_eqb triple_eqb fs fs'
  | OIface n ms es is, OIface n' ms' es' is' =>
      str_eqb n n' && list_eqb pair_eqb ms ms' && list_eqb str_eqb es es' && list_eqb str_eqb is is'
  | OEnum n vs, OEnum n' vs' => str_eqb n n' && list_eqb pair_eqb vs vs'
  | OAlias n bi, OAlias n' bi' => str_eqb n n' && str_eqb bi bi'
  | _, _ => false
  end.

Definition conv_model (c : conv_case) : res (typemap * list opinfo) :=
  let sch := v_schema c in
  generate_types sch (v_cfg c) (map (pre_frag sch) (v_frags c)) (v_srcs c)
                 (sort_by op_name (map (pre_op sch) (v_ops c))).

(* the hypotheses of Proofs/ConvertNoPanicFull.v (the strong form, which implies those of
   Proofs/ConvertNoPanic.v: strong_wf_implies_weak) hold of the program as exported (every type name,
   fragment and root type resolves): what the validator guarantees for an accepted document;
   and every exported position is inside the exported source it indexes ([pos_okb] against
   [v_srcs]: the lines parsePrecedingComment splits the source into) *)
Definition conv_wf (c : conv_case) : bool :=
  let sch := v_schema c in
  let frs := map (pre_frag sch) (v_frags c) in
  schema_okb sch && frags_okb2 sch frs (v_srcs c) && forallb (op_okb2 sch frs (v_srcs c)) (map (pre_op sch) (v_ops c))
  (* and the fragment hypothesis of the termination theorem (Proofs/ConvertFuel.v): no cycle of spreads *)
  && frags_acyclicb frs.

Definition conv_agrees (c : conv_case) : bool :=
  conv_wf c &&
  match conv_model c, v_obs c with
  | Ok (tm, infos), ObsOk ds os =>
      list_eqb odecl_eqb (render tm) ds
      && list_eqb pair_eqb (map (fun i => (oi_name i, oi_response i)) infos) os
  | Err e, ObsErr e' => str_eqb e e'
  | Panic _, ObsPanic => true
  | _, _ => false
  end.

Definition conv_mismatches (cs : list conv_case) : list nat :=
  map v_id (filter (fun c => negb (conv_agrees c)) cs).

(* for debugging a mismatch: what the model says *)
Definition conv_show (c : conv_case) : res (list odecl * list (str * str)) :=
  match conv_model c with
  | Ok (tm, infos) => Ok (render tm, map (fun i => (oi_name i, oi_response i)) infos)
  | Err e => Err e
  | Panic s => Panic s
  | OutOfFuel => OutOfFuel
  end.

(* names of declarations on which model and observation differ (debugging aid) *)
Fixpoint find_odecl (n : str) (l : list odecl) : option odecl :=
  match l with [] => None | d :: r => if str_eqb (odecl_name d) n then Some d else find_odecl n r end.
Definition conv_diff (c : conv_case) : list (str * option odecl * option odecl) :=
  match conv_model c, v_obs c with
  | Ok (tm, infos), ObsOk ds os =>
      let ms := render tm in
      flat_map (fun d => match find_odecl (odecl_name d) ds with
                         | Some d' => if odecl_eqb d d' then [] else [(odecl_name d, Some d, Some d')]
                         | None => [(odecl_name d, Some d, None)]
                         end) ms
      ++ flat_map (fun d => match find_odecl (odecl_name d) ms with Some _ => [] | None => [(odecl_name d, None, Some d)] end) ds
  | _, _ => []
  end.
