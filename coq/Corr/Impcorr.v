(* Correspondence record for the import aliases: what the IMPLEMENTATION's
   addImportFor logged during one generation, replayed in the model.
   imp_mismatches = ids where the model's aliases differ from the logged ones;
   imp_specfails  = ids where the specification rejects the implementation's log.
   Definitions only. *)
From Verif Require Import Base.Str Gen.Consts Gen.Imports.

Record imp_case := {
  ic_id : nat;
  ic_log : list (str * str);  (* (pkgPath, alias) per addImportFor call, in call order *)
}.

(* replaying add_import_for from imp_init over the logged paths gives exactly the
   logged aliases (and ends with Ok) *)
Definition imp_agrees (c : imp_case) : bool :=
  match run_adds (map fst (ic_log c)) with
  | Ok (_, al) => list_eqb str_eqb al (map snd (ic_log c))
  | _ => false
  end.

(* Specification verdict on the IMPLEMENTATION's log (never on the model's output):
   the aliases are pairwise distinct, and so are the paths (addImportFor is only
   reached for a path that has no alias yet). *)
Definition imp_spec_ok (c : imp_case) : bool :=
  nodup_str (map snd (ic_log c)) && nodup_str (map fst (ic_log c)).

Definition imp_mismatches (cs : list imp_case) : list nat :=
  map ic_id (filter (fun c => negb (imp_agrees c)) cs).

Definition imp_specfails (cs : list imp_case) : list nat :=
  map ic_id (filter (fun c => negb (imp_spec_ok c)) cs).

(* aliases in a log that go/token.IsIdentifier rejects (keyword last segments,
   see make_identifier_keyword_refuted); reported, not a mismatch *)
Definition imp_non_identifiers (cs : list imp_case) : list (nat * str) :=
  flat_map (fun c =>
    map (fun pa => (ic_id c, snd pa))
        (filter (fun pa => negb (is_identifier (snd pa))) (ic_log c))) cs.
