(* Correspondence for the pipeline properties C05 / C08 / C17: what the real Generate did on a
   generated project, against Gen/Pipeline.v run on the same sources. *)
From Verif Require Import Base.Str Base.Sort Gen.Consts Gen.Pipeline.

Record pipe_case := {
  p_id : nat;
  p_srcs : list source;                 (* operation files, in the order the harness created them *)
  p_valid : bool;                       (* gqlparser's verdict on the union document, computed by the harness directly *)
  p_obs : option gerr;                  (* None: Generate succeeded; Some e: error class of the real error *)
  p_obs_ops : list str;                 (* operation functions in the emitted file, in order (when it succeeded) *)
  p_obs_export : list str;              (* operation names in the exported-operations JSON, in order *)
  p_obs_types : list str;               (* top-level type declarations in the emitted file, in order *)
}.

Definition ordered_srcs (srcs : list source) : list source :=
  flat_map (fun n => match find_src srcs n with Some s => [s] | None => [] end)
           (expand (map src_name srcs)).

(* the model with a converter that accepts everything: predicts the pipeline's own verdict *)
Definition model_verdict (c : pipe_case) : gres output :=
  generate (fun _ => p_valid c) (fun _ o => Some (0, [])) (ordered_srcs (p_srcs c)).

Definition gerr_eqb (x y : gerr) : bool :=
  match x, y with
  | ENoMatch, ENoMatch | EBadFile, EBadFile | EInvalid, EInvalid | ENoQueries, ENoQueries
  | EAnonymous, EAnonymous | EKeyword, EKeyword | EConvert, EConvert | EConflict, EConflict => true
  | _, _ => false
  end.

Definition pipe_agrees (c : pipe_case) : bool :=
  match model_verdict c, p_obs c with
  | GOk out, None =>
      list_eqb str_eqb (map fst (out_ops out)) (p_obs_ops c)
      && (match p_obs_export c with [] => true | ex => list_eqb str_eqb (map fst (out_ops out)) ex end)
      && list_eqb str_eqb (sort_str (dedup (p_obs_types c))) (p_obs_types c)
  | GOk _, Some EConvert | GOk _, Some EConflict => true    (* conversion errors are outside this model *)
  (* a conversion error of an operation that sorts earlier wins over a later operation's name check *)
  | GErr EAnonymous, Some EConvert | GErr EAnonymous, Some EConflict
  | GErr EKeyword, Some EConvert | GErr EKeyword, Some EConflict => true
  | GErr e, Some e' => gerr_eqb e e'
  | _, _ => false
  end.

Definition pipe_mismatches (cs : list pipe_case) : list nat :=
  map p_id (filter (fun c => negb (pipe_agrees c)) cs).

(* specification (C05), judged on the observation alone: accepted => the validator accepted
   the union document and every operation is named and not a keyword *)
Definition pipe_spec_ok (c : pipe_case) : bool :=
  match p_obs c with
  | None =>
      p_valid c
      && forallb (fun d => negb (d_op d) || (negb (match d_name d with [] => true | _ => false end)
                                             && negb (mem_str (d_name d) go_keywords)))
                 (collect (p_srcs c))
      && negb (existsb src_bad (p_srcs c))
  | Some _ => true
  end.

Definition pipe_specfails (cs : list pipe_case) : list nat :=
  map p_id (filter (fun c => negb (pipe_spec_ok c)) cs).

(* schema side of C08: enum values after `extend enum` in several files come in the order of
   the SORTED file names *)
Record ext_case := {
  x_id : nat;
  x_files : list (str * (list str * list str));   (* file name -> (values defined there, values added by `extend` there) *)
  x_obs : list str;                                (* constants' GraphQL values in the emitted All<Enum> slice *)
}.

Definition ext_predict (c : ext_case) : list str :=
  let names := expand (map fst (x_files c)) in
  let get n := match assoc n (x_files c) with Some v => v | None => ([], []) end in
  flat_map (fun n => fst (get n)) names ++ flat_map (fun n => snd (get n)) names.

Definition ext_mismatches (cs : list ext_case) : list nat :=
  map x_id (filter (fun c => negb (list_eqb str_eqb (ext_predict c) (x_obs c))) cs).
