(* Correspondence for the runtime properties C02 C06 C19: what real encoding/json did with the
   compiled generated types (reflection dump) against Rt/JsonDecode.v run on the declarations
   the converter model produces for the same program. *)
From Verif Require Import Base.Str Base.Sort Gen.Gql Gen.Directive Gen.Convert Rt.JsonDecode Rt.Acyclic Rt.JsonEncode Rt.EncAcyclic Corr.Convcorr.
From Coq Require Import ZArith.

Inductive rres := RErr | RPanic | ROk (v : gval).
Record rt_obs := { ro_type : str; ro_json : jval; ro_result : rres; ro_remarshal : option jval }.
Record rt_case := { r_id : nat; r_prog : conv_case; r_obs : list rt_obs }.

(* ---- normal form: zero values vanish, struct fields and object keys are sorted ---- *)
Fixpoint jnorm (j : jval) : jval :=
  match j with
  | JArr l => JArr (map jnorm l)
  | JObj l => JObj (sort_by fst (map (fun kv => (fst kv, jnorm (snd kv))) l))
  | JNum id _ => JNum id true
  | x => x
  end.

Definition jzero (j : jval) : bool :=
  match j with
  | JNull => true | JBool false => true | JStr [] => true | JNum 0 _ => true | JObj [] => true | _ => false
  end.

Fixpoint jval_eqb (x y : jval) {struct x} : bool :=
  match x, y with
  | JNull, JNull => true
  | JBool a, JBool c => Bool.eqb a c
  | JNum a _, JNum c _ => Z.eqb a c
  | JStr a, JStr c => str_eqb a c
  | JArr a, JArr c =>
      (fix go (l m : list jval) : bool :=
         match l, m with [], [] => true | p :: l', q :: m' => jval_eqb p q && go l' m' | _, _ => false end) a c
  | JObj a, JObj c =>
      (fix go (l m : list (str * jval)) : bool :=
         match l, m with
         | [], [] => true
         | (k, p) :: l', (k', q) :: m' => str_eqb k k' && jval_eqb p q && go l' m'
         | _, _ => false
         end) a c
  | _, _ => false
  end.

Fixpoint gnorm (v : gval) : gval :=
  match v with
  | VScalar j => if jzero j then VZero else VScalar (jnorm j)
  | VPtr x => VPtr (gnorm x)
  | VSlice l => VSlice (map gnorm l)
  | VIface i x => VIface i (gnorm x)
  | VStruct n fs =>
      let fs' := flat_map (fun kv => let x := gnorm (snd kv) in
                                     match x with
                                     | VZero | VNilPtr | VNilSlice | VNilIface => []
                                     | VStruct _ [] => []
                                     | _ => [(fst kv, x)]
                                     end) fs in
      VStruct n (sort_by fst fs')
  | x => x
  end.

Fixpoint gval_eqb (x y : gval) {struct x} : bool :=
  match x, y with
  | VZero, VZero | VNilPtr, VNilPtr | VNilSlice, VNilSlice | VNilIface, VNilIface => true
  | VNilPtr, VNilIface | VNilIface, VNilPtr => true      (* the dump cannot tell a nil pointer from a nil interface *)
  | VScalar a, VScalar c => jval_eqb a c
  | VPtr a, VPtr c => gval_eqb a c
  | VSlice a, VSlice c =>
      (fix go (l m : list gval) : bool :=
         match l, m with [], [] => true | p :: l', q :: m' => gval_eqb p q && go l' m' | _, _ => false end) a c
  | VIface i a, VIface i' c => str_eqb i i' && gval_eqb a c
  | VStruct n a, VStruct n' c =>
      str_eqb n n' &&
      (fix go (l m : list (str * gval)) : bool :=
         match l, m with
         | [], [] => true
         | (k, p) :: l', (k', q) :: m' => str_eqb k k' && gval_eqb p q && go l' m'
         | _, _ => false
         end) a c
  | _, _ => false
  end.

Definition DFUEL : nat := 300.

Definition model_decode (tm : typemap) (o : rt_obs) : res gval :=
  decode tm Consts.tmpl_unmarshal_has_no_unmarshal_json DFUEL (GStruct (ro_type o)) (ro_json o) (VStruct (ro_type o) []).

Definition obs_agrees (tm : typemap) (o : rt_obs) : bool :=
  match model_decode tm o, ro_result o with
  | Ok v, ROk v' => gval_eqb (gnorm v) (gnorm v')
  | Err _, RErr => true
  | Panic _, RPanic => true
  | _, _ => false
  end.

(* what json.Marshal gave for the decoded value against Rt/JsonEncode.v on the model's value *)
Definition model_remarshal (tm : typemap) (o : rt_obs) : res jval :=
  do v <- model_decode tm o; encode tm DFUEL (GStruct (ro_type o)) v.

Definition re_agrees (tm : typemap) (o : rt_obs) : bool :=
  match ro_remarshal o with
  | None => true
  | Some j =>
      match model_decode tm o with
      | Ok v => match encode tm DFUEL (GStruct (ro_type o)) v with
                | Ok j' => jval_eqb (jnorm j') (jnorm j)
                | _ => false
                end
      | _ => true    (* a decode disagreement is reported by obs_agrees *)
      end
  end.

Definition rt_agrees (c : rt_case) : bool :=
  match conv_model (r_prog c) with
  | Ok (tm, _) =>
      (* the hypothesis of the termination theorem (Proofs/DecodeTerm.v) holds of the type map
         generated for this program: no cycle of embedded structs / implementations *)
      same_json_acyclicb tm
      (* ... and the hypothesis of the marshaling termination theorem (Proofs/EncodeTerm.v): no
         struct contains itself by value, FlattenedFields is defined for every struct *)
      && encode_termb tm
      && forallb (fun o => obs_agrees tm o && re_agrees tm o) (r_obs c)
  | _ => false
  end.

Definition rt_mismatches (cs : list rt_case) : list nat :=
  map r_id (filter (fun c => negb (rt_agrees c)) cs).

(* debugging aid: index of the first disagreeing observation, with both normal forms *)
Definition rt_first_diff (c : rt_case) : option (nat * res gval * rres) :=
  match conv_model (r_prog c) with
  | Ok (tm, _) =>
      (fix go (l : list rt_obs) (i : nat) :=
         match l with
         | [] => None
         | o :: r => if obs_agrees tm o then go r (S i)
                     else Some (i, match model_decode tm o with Ok v => Ok (gnorm v) | e => e end,
                                match ro_result o with ROk v => ROk (gnorm v) | e => e end)
         end) (r_obs c) O
  | _ => None
  end.

(* ---- C04: the variables a helper call sent against Rt/JsonEncode.v on the arguments ---- *)
Record call_obs := { co_input : str; co_args : list (str * gval); co_vars : jval }.
Record call_case := { c_id : nat; c_prog : conv_case; c_obs : list call_obs }.

Definition call_agrees (tm : typemap) (o : call_obs) : bool :=
  match encode tm DFUEL (GStruct (co_input o)) (VStruct (co_input o) (co_args o)) with
  | Ok j => jval_eqb (jnorm j) (jnorm (co_vars o))
  | _ => false
  end.

Definition call_case_agrees (c : call_case) : bool :=
  match conv_model (c_prog c) with
  | Ok (tm, _) => forallb (call_agrees tm) (c_obs c)
  | _ => false
  end.

Definition call_mismatches (cs : list call_case) : list nat :=
  map c_id (filter (fun c => negb (call_case_agrees c)) cs).

Definition call_first_diff (c : call_case) : option (nat * res jval * jval) :=
  match conv_model (c_prog c) with
  | Ok (tm, _) =>
      (fix go (l : list call_obs) (i : nat) :=
         match l with
         | [] => None
         | o :: r => if call_agrees tm o then go r (S i)
                     else Some (i, match encode tm DFUEL (GStruct (co_input o)) (VStruct (co_input o) (co_args o)) with Ok j => Ok (jnorm j) | e => e end,
                                jnorm (co_vars o))
         end) (c_obs c) O
  | _ => None
  end.
