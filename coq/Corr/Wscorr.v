(* Correspondence for C13/C14/C15: the controller's performed actions with the digest it
   observed on the real client after each of them. *)
From Verif Require Import Base.Str Rt.Ws Rt.WsSpec.
From Coq Require Import Arith.

Record obs := { o_reader : nat; o_calls : list nat; o_frames : nat; o_closes : nat; o_panicked : bool }.

Definition rtag (r : rpc) : nat :=
  match r with
  | RLoop => 1 | RRead => 2 | RLooked _ _ _ => 3 | RSend _ _ => 4
  | RErrLock => 5 | RErrLocked => 6 | RExit => 7 | RDone => 8
  end.
Definition atag (a : apc) : nat :=
  match a with
  | ASubWrite _ | AUnsubWrite _ | ACloseUnsub _ | ACloseWrite _ => 1
  | ACloseLock _ => 2
  | ADone _ => 3
  end.

Definition obs_of (s : st) : obs :=
  {| o_reader := rtag (reader s); o_calls := map atag (calls s); o_frames := List.length (frames s);
     o_closes := conn_closes s; o_panicked := panicked s |}.

Definition obs_eqb (x y : obs) : bool :=
  Nat.eqb (o_reader x) (o_reader y) && list_eqb Nat.eqb (o_calls x) (o_calls y)
  && Nat.eqb (o_frames x) (o_frames y) && Nat.eqb (o_closes x) (o_closes y)
  && Bool.eqb (o_panicked x) (o_panicked y).

Record ws_case := {
  w_id : nat;
  w_acts : list (label * obs);
  w_delivered : list (list N);     (* observed per subscription *)
  w_api_ok : list bool;            (* observed result of each API call, in call order (true = nil error) *)
  w_frames : option (list wframe); (* the frames observed on the wire after the handshake, oldest first
                                      (None: some frame carried an id the controller could not attribute) *)
}.

Definition wframe_eqb (x y : wframe) : bool :=
  match x, y with
  | WSubscribe i, WSubscribe j => Nat.eqb i j
  | WComplete i, WComplete j => Nat.eqb i j
  | WClose, WClose => true
  | _, _ => false
  end.

(* replay: every label must be enabled in the model and give the observed digest *)
Fixpoint replay (s : st) (acts : list (label * obs)) : option st :=
  match acts with
  | [] => Some s
  | (l, o) :: r =>
      match step s l with
      | Some s' => if obs_eqb (obs_of s') o then replay s' r else None
      | None => None
      end
  end.

Definition api_results (s : st) : list bool :=
  map (fun a => match a with ADone ok => ok | _ => false end) (calls s).

Definition ws_agrees (c : ws_case) : bool :=
  match replay init (w_acts c) with
  | Some s => list_eqb (list_eqb N.eqb) (map s_delivered (subs s)) (w_delivered c)
              && list_eqb Bool.eqb (api_results s) (w_api_ok c)
              && match w_frames c with
                 | Some fr => list_eqb wframe_eqb (rev (frames s)) fr
                 | None => true
                 end
  | None => false
  end.

Definition ws_mismatches (cs : list ws_case) : list nat :=
  map w_id (filter (fun c => negb (ws_agrees c)) cs).

(* specification verdict on the observation (independent of [step]): what each subscription
   received is a prefix of what the server sent it, judged from the labels alone *)
Fixpoint sent_for (i : nat) (acts : list (label * obs)) : list N :=
  match acts with
  | [] => []
  | (LServer (FData (Some j) p), _) :: r => if Nat.eqb i j then p :: sent_for i r else sent_for i r
  | _ :: r => sent_for i r
  end.

Fixpoint is_prefix_N (a c : list N) : bool :=
  match a, c with
  | [], _ => true
  | x :: a', y :: c' => N.eqb x y && is_prefix_N a' c'
  | _ :: _, [] => false
  end.

Fixpoint check_delivered (k : nat) (ds : list (list N)) (acts : list (label * obs)) : bool :=
  match ds with
  | [] => true
  | d :: r => is_prefix_N d (sent_for k acts) && check_delivered (S k) r acts
  end.

(* ... and, when the performed actions are a SEQUENCE of API calls in the sense of the grammar
   theorem (Rt/WsSpec.v: [sequential]), the frames observed on the wire are an accepted
   conversation *)
Definition ws_spec_ok (c : ws_case) : bool :=
  check_delivered 0 (w_delivered c) (w_acts c)
  && match w_frames c with
     | Some fr => if sequential (map fst (w_acts c)) then conv_ok [] [] fr else true
     | None => true
     end.
Definition ws_sequential_cases (cs : list ws_case) : nat :=
  List.length (filter (fun c => sequential (map fst (w_acts c))) cs).

Definition ws_specfails (cs : list ws_case) : list nat :=
  map w_id (filter (fun c => negb (ws_spec_ok c)) cs).

(* Start handshake cases *)
Record start_case := {
  sc_id : nat;
  sc_ops : list (bool * bool * bool);   (* fault, ack, garbage for each connection operation *)
  sc_ok : bool;                         (* Start returned nil *)
  sc_closes : nat;                      (* connection Close calls observed *)
  sc_reader : bool;                     (* a reader goroutine exists *)
}.

Definition run_start (ops : list (bool * bool * bool)) : start_st :=
  fold_left (fun s o => start_step s (fst (fst o)) (snd (fst o)) (snd o)) ops start_init.

Definition start_agrees (c : start_case) : bool :=
  let s := run_start (sc_ops c) in
  match sp s with
  | SOk => sc_ok c && Nat.eqb (sc_closes c) 0 && sc_reader c
  | SFail => negb (sc_ok c) && Nat.eqb (sc_closes c) (s_conn_closed s) && negb (sc_reader c)
  | _ => false
  end.

Definition start_mismatches (cs : list start_case) : list nat :=
  map sc_id (filter (fun c => negb (start_agrees c)) cs).
