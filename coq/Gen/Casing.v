(* Model of generate/util.go (casing helpers), the casing part of
   generate/config.go (forEnum) and names.go's enumValueName.
   Definitions only. *)
From Verif Require Import Base.Str.

Inductive casing := CDefault | CRaw | CAuto.

Definition casing_eqb (a c : casing) : bool :=
  match a, c with
  | CDefault, CDefault | CRaw, CRaw | CAuto, CAuto => true
  | _, _ => false
  end.

(* strings.TrimLeft(s, "_") *)
Definition trim_left_us (s : str) : str := drop_while is_us s.

(* changeFirst: on ASCII input DecodeRuneInString yields the first byte; the
   empty string is returned unchanged. *)
Definition change_first (f : N -> N) (s : str) : str :=
  match s with
  | [] => []
  | c :: r => f c :: r
  end.

Definition upper_first (s : str) : str := change_first to_upper (trim_left_us s).
Definition lower_first (s : str) : str := change_first to_lower (trim_left_us s).

(* snakeToCamel: drop every '_' and upper-case the rune that follows one *)
Fixpoint snake_go (next_upper : bool) (s : str) : str :=
  match s with
  | [] => []
  | c :: r =>
      if is_us c then snake_go true r
      else (if next_upper then to_upper c else c) :: snake_go false r
  end.
Definition snake_to_camel (s : str) : str := snake_go false s.

(* goConstName: strings.Map with the previous rune as state; prev = 0 initially *)
Fixpoint const_go (prev : N) (s : str) : str :=
  match s with
  | [] => []
  | c :: r =>
      if is_us c then const_go c r
      else (if is_us prev || N.eqb prev 0 then to_upper c else to_lower c) :: const_go c r
  end.
Definition go_const_name (s : str) : str :=
  match trim_left_us s with
  | [] => s
  | _ => const_go 0 s
  end.

(* ApplyCasing(s, algo, forceUpperFirst) *)
Definition apply_casing (s : str) (algo : casing) (force_upper : bool) : str :=
  let r := match algo with CAuto => snake_to_camel s | _ => s end in
  if force_upper then upper_first r else r.

(* the casing section of genqlient.yaml after validation: default, all_enums and
   the per-enum table hold one of the three algorithms or are unset *)
Record casing_cfg := {
  cc_default : option casing;
  cc_all_enums : option casing;
  cc_enums : list (str * casing);
}.

Definition get_default (c : casing_cfg) : casing :=
  match cc_default c with Some a => a | None => CDefault end.

Definition for_enum (c : casing_cfg) (gql_name : str) : casing :=
  match assoc gql_name (cc_enums c) with
  | Some a => a
  | None => match cc_all_enums c with Some a => a | None => get_default c end
  end.

(* names.go enumValueName *)
Definition enum_value_name (go_type_name : str) (algo : casing) (val : str) : str :=
  match algo with
  | CDefault => go_type_name ++ go_const_name val
  | CRaw => go_type_name ++ [us] ++ val
  | CAuto => go_type_name ++ apply_casing val CAuto true
  end.
