(* Model of generate/convert.go (with validation.go's selectionsMatch, names.go's type naming and
   the type map of generate.go): from validated operations to Go type declarations.
   Every place where the Go code dereferences a map lookup without a check is a [Panic];
   recursion that is not structural runs on explicit fuel ([OutOfFuel]).  Definitions only. *)
From Verif Require Import Base.Str Gen.Consts Gen.Casing Gen.Enum Gen.Gql Gen.Directive.

(* ---- configuration (the part of genqlient.yaml the converter reads) ---- *)
Record binding := { bd_type : str; bd_marshaler : str; bd_unmarshaler : str }.
Record config := {
  cfg_casing : casing_cfg;
  cfg_optional : N;              (* 0 unset/value, 1 pointer, 2 generic *)
  cfg_generic_type : str;
  cfg_struct_refs : bool;
  cfg_bindings : list (str * binding);
}.

(* ---- Go types ---- *)
Inductive gotype :=
| GOpaque (ref gql marshaler unmarshaler : str)
| GAlias (n : str)            (* goTypenameForBuiltinType *)
| GEnum (n : str)
| GStruct (n : str)
| GIface (n : str)
| GSlice (e : gotype)
| GPtr (e : gotype)
| GGeneric (ref : str) (e : gotype).

Record gofield := { gf_name : str; gf_type : gotype; gf_json : str; gf_gql : str; gf_omitempty : bool }.

Inductive godecl :=
| DStruct (gql : str) (fields : list gofield) (sel : list sel) (is_input : bool)
| DIface (gql : str) (shared : list gofield) (impls : list str) (sel : list sel)
| DEnum (gql : str) (values : list (str * str))
| DAlias (builtin gql : str).

Definition typemap := list (str * godecl).

Definition decl_gql (d : godecl) : str :=
  match d with DStruct g _ _ _ => g | DIface g _ _ _ => g | DEnum g _ => g | DAlias _ g => g end.
Definition decl_sel (d : godecl) : list sel :=
  match d with DStruct _ _ s _ => s | DIface _ _ _ s => s | _ => [] end.
Definition decl_type (n : str) (d : godecl) : gotype :=
  match d with DStruct _ _ _ _ => GStruct n | DIface _ _ _ _ => GIface n | DEnum _ _ => GEnum n | DAlias _ _ => GAlias n end.

Fixpoint tm_set (tm : typemap) (n : str) (d : godecl) : typemap :=
  match tm with
  | [] => [(n, d)]
  | (k, v) :: r => if str_eqb k n then (k, d) :: r else (k, v) :: tm_set r n d
  end.

Fixpoint unwrap (t : gotype) : gotype :=
  match t with GSlice e => unwrap e | GPtr e => unwrap e | GGeneric _ e => unwrap e | _ => t end.

Fixpoint reference (t : gotype) : str :=
  match t with
  | GOpaque r _ _ _ => r
  | GAlias n | GEnum n | GStruct n | GIface n => n
  | GSlice e => b "[]" ++ reference e
  | GPtr e => b "*" ++ reference e
  | GGeneric r e => r ++ b "[" ++ reference e ++ b "]"
  end.

(* validation.go selectionsMatch: names, aliases, order and fragment structure only *)
Fixpoint sel_match (x y : sel) {struct x} : bool :=
  let fix go (l m : list sel) {struct l} : bool :=
    match l, m with
    | [], [] => true
    | a :: l', c :: m' => sel_match a c && go l' m'
    | _, _ => false
    end in
  match x, y with
  | SField a n _ _ _ sub _, SField a' n' _ _ _ sub' _ => str_eqb n n' && str_eqb a a' && go sub sub'
  | SInline c _ sub _, SInline c' _ sub' _ => str_eqb c c' && go sub sub'
  | SSpread n _ _, SSpread n' _ _ => str_eqb n n'
  | _, _ => false
  end.
Fixpoint sels_match (l m : list sel) : bool :=
  match l, m with
  | [], [] => true
  | a :: l', c :: m' => sel_match a c && sels_match l' m'
  | _, _ => false
  end.

Definition ECONFLICT : str := b "conflict".

(* getType *)
Definition get_type (tm : typemap) (name gql : str) (sels : list sel) : res (option gotype) :=
  match assoc name tm with
  | None => Ok None
  | Some d =>
      if negb (str_eqb (decl_gql d) gql) then Err ECONFLICT
      else if sels_match sels (decl_sel d) then Ok (Some (decl_type name d))
      else Err ECONFLICT
  end.

(* addType *)
Definition add_type (tm : typemap) (name : str) (d : godecl) : res (gotype * typemap) :=
  do e <- get_type tm name (decl_gql d) (decl_sel d);
  match e with
  | Some t => Ok (t, tm)
  | None => Ok (decl_type name d, (name, d) :: tm)
  end.

(* addFragmentType: the types of a named fragment never replace a type that has the name *)
Definition add_fragment_type (tm : typemap) (name : str) (d : godecl) : res typemap :=
  match assoc name tm with
  | Some _ => Err ECONFLICT
  | None => Ok ((name, d) :: tm)
  end.

Fixpoint mfold {A B} (f : B -> A -> res B) (l : list A) (acc : B) : res B :=
  match l with
  | [] => Ok acc
  | x :: r => do acc' <- f acc x; mfold f r acc'
  end.

Section Conv.
  Variable sch : schema.
  Variable cfg : config.
  Variable frags : list fragment.
  Variable srcs : list (list lkind).

  Definition algo : casing := get_default (cfg_casing cfg).
  Definition cased (s : str) : str := apply_casing s algo true.

  (* ---- names.go (prefix lists are kept back-to-front: the head is the LAST part) ---- *)
  Definition join_prefix (p : list str) : str := concat_str (rev p).
  Definition type_name_parts (p : list str) (tn : str) : list str :=
    let tn' := cased tn in
    match p with
    | [] => p
    | [_] => p
    | _ => if is_suffix tn' (join_prefix p) then p else tn' :: p
    end.
  Definition next_prefix (p : list str) (parent alias : str) : list str :=
    cased alias :: type_name_parts p parent.
  Definition make_type_name (p : list str) (tn : str) : str := join_prefix (type_name_parts p tn).
  Definition make_long_type_name (p : list str) (tn : str) : str := join_prefix (cased tn :: p).

  Definition builtin_go (n : str) : option str := assoc n builtin_types.

  Definition possible_types (def : typedef) : list typedef :=
    match td_kind def with
    | KUnion => filter (fun t => mem_str (td_name t) (td_members def)) sch
    | KInterface => filter (fun t => match td_kind t with KObject => mem_str (td_name def) (td_ifaces t) | _ => false end) sch
    | _ => []
    end.

  Definition struct_ref (def : typedef) : bool :=
    cfg_struct_refs cfg && (match td_kind def with KObject | KInput => true | _ => false end).

  Definition pp := parse_preceding sch frags srcs.

  Definition pos_of (src : nat) (line : N) : option (nat * N) :=
    if N.eqb line 0 then None else Some (src, line).

  (* the implementation of an interface decl for a concrete GraphQL type *)
  Definition impl_for (tm : typemap) (impls : list str) (gql : str) : option str :=
    fold_left (fun acc i => match assoc i tm with
                            | Some d => if str_eqb (decl_gql d) gql then Some i else acc
                            | None => acc
                            end) impls None.

  (* de-duplication at the end of convertSelectionSet *)
  Fixpoint dedup_fields (fs : list gofield) (frag_names field_names : list str) : res (list gofield) :=
    match fs with
    | [] => Ok []
    | f :: r =>
        match gf_json f with
        | [] =>
            let n := reference (gf_type f) in
            if mem_str n frag_names then dedup_fields r frag_names field_names
            else do rest <- dedup_fields r (n :: frag_names) field_names; Ok (f :: rest)
        | j =>
            if mem_str j field_names then
              match unwrap (gf_type f) with
              | GOpaque _ _ _ _ | GEnum _ | GAlias _ => dedup_fields r frag_names field_names
              | GStruct _ | GIface _ => Err (b "duplicate-field")
              | _ => Err (b "unexpected-field-type")
              end
            else do rest <- dedup_fields r frag_names (j :: field_names); Ok (f :: rest)
        end
    end.

  Definition is_direct_ptr (t : gotype) : bool := match t with GPtr _ => true | _ => false end.

  Fixpoint convert_type (fuel : nat) (src : nat) (prefix : list str) (t : tyref) (sels : list sel)
           (opts : dir) (Q : fulldir) (tm : typemap) {struct fuel} : res (gotype * dir * typemap) :=
    match fuel with
    | O => OutOfFuel
    | S f =>
        if nonempty (d_bind opts) && negb (str_eqb (d_bind opts) (b "-"))
        then Ok (GOpaque (d_bind opts) (ty_base t) [] [], opts, tm)
        else
          match t with
          | TList e _ =>
              do (r, tm') <- convert_type f src prefix e sels opts Q tm;
              let '(g, o) := r in Ok (GSlice g, o, tm')
          | TNamed n nn =>
              match find_type sch n with
              | None => Panic (b "convertType: schema.Types[name] is nil")
              | Some def =>
                  do (g, tm') <- convert_definition f src prefix def sels opts Q tm;
                  if struct_ref def then
                    let g' := match d_pointer opts with Some false => g | _ => GPtr g end in
                    let o' := match d_omitempty opts with Some false => opts | _ => set_omitempty opts (Some true) end in
                    Ok (g', o', tm')
                  else if negb (pointer_is_false opts) && (get_b (d_pointer opts) || (negb nn && N.eqb (cfg_optional cfg) 1))
                  then Ok (GPtr g, opts, tm')
                  else if negb nn && N.eqb (cfg_optional cfg) 2
                  then Ok (GGeneric (cfg_generic_type cfg) g, opts, tm')
                  else Ok (g, opts, tm')
              end
          end
    end

  with convert_definition (fuel : nat) (src : nat) (prefix : list str) (def : typedef) (sels : list sel)
           (opts : dir) (Q : fulldir) (tm : typemap) {struct fuel} : res (gotype * typemap) :=
    match fuel with
    | O => OutOfFuel
    | S f =>
        match (match assoc (td_name def) (cfg_bindings cfg) with
               | Some bd => if str_eqb (d_bind opts) (b "-") then None else Some bd
               | None => None
               end) with
        | Some bd =>
            if nonempty (d_typename opts) then Err (b "binding-typename")
            else Ok (GOpaque (bd_type bd) (td_name def) (bd_marshaler bd) (bd_unmarshaler bd), tm)
        | None =>
            match (match builtin_go (td_name def) with
                   | Some g => if nonempty (d_typename opts) then None else Some g
                   | None => None
                   end) with
            | Some g => Ok (GOpaque g (td_name def) [] [], tm)
            | None =>
                (* the name *)
                do np <- (if nonempty (d_typename opts) then
                            if mem_str (d_typename opts) go_keywords then Err (b "keyword")
                            else
                              let name := match prefix with
                                          | [h] => if str_eqb h (d_typename opts)
                                                   then make_long_type_name prefix (td_name def) else d_typename opts
                                          | _ => d_typename opts
                                          end in
                              Ok (name, [d_typename opts])
                          else match td_kind def with
                               | KInput | KEnum => Ok (cased (td_name def), prefix)
                               | _ => Ok (make_type_name prefix (td_name def), prefix)
                               end);
                let '(name, prefix') := np in
                do existing <- get_type tm name (td_name def) sels;
                match existing with
                | Some t => Ok (t, tm)
                | None =>
                    let kind := if get_b (d_struct opts) && validate_struct_option def sels then KObject else td_kind def in
                    match kind with
                    | KObject =>
                        do (fields, tm1) <- convert_selection_set f src prefix' sels def Q tm;
                        match (if get_b (d_flatten opts) then validate_flatten_option sch frags def sels else FlatErr) with
                        | FlatPanic => Panic (b "validateFlattenOption: nil fragment definition")
                        | FlatIdx (Some i) =>
                            match nth_error fields i with
                            | Some fl => Ok (gf_type fl, tm1)
                            | None => Panic (b "flatten: fields[i] index out of range")
                            end
                        | FlatIdx None =>
                            Panic (b "flatten: fields[-1]")
                        | FlatErr => add_type tm1 name (DStruct (td_name def) fields sels false)
                        end
                    | KInput =>
                        do (t0, tm1) <- add_type tm name (DStruct (td_name def) [] [] true);
                        do (fields, tm2) <-
                          mfold (fun (acc : list gofield * typemap) (fd : fielddef) =>
                                   let '(done, tmx) := acc in
                                   (* input-object fields sit in the schema: no @genqlient comment above them *)
                                   do D <- pp NOtherNode (Some (td_name def, fd_name fd)) None (Some Q);
                                   do (r, tmy) <- convert_type f src prefix' (fd_type fd) [] (fd_main D) Q tmx;
                                   let '(g, o) := r in
                                   if negb (cfg_struct_refs cfg) && ty_nonnull (fd_type fd) && is_direct_ptr g && negb (get_b (d_omitempty o))
                                   then Err (b "input-pointer")
                                   else if negb (cfg_struct_refs cfg) && get_b (d_omitempty o) && ty_nonnull (fd_type fd) && negb (fd_has_default fd)
                                   then Err (b "input-omitempty")
                                   else Ok (done ++ [{| gf_name := cased (fd_name fd); gf_type := g; gf_json := fd_name fd;
                                                        gf_gql := fd_name fd; gf_omitempty := get_b (d_omitempty o) |}], tmy))
                                (td_fields def) ([], tm1);
                        Ok (GStruct name, tm_set tm2 name (DStruct (td_name def) fields [] true))
                    | KInterface | KUnion =>
                        do (shared, tm1) <- convert_selection_set f src prefix' sels def Q tm;
                        match (if get_b (d_flatten opts) then validate_flatten_option sch frags def sels else FlatErr) with
                        | FlatPanic => Panic (b "validateFlattenOption: nil fragment definition")
                        | FlatIdx (Some i) =>
                            match nth_error shared i with
                            | Some fl => Ok (gf_type fl, tm1)
                            | None => Panic (b "flatten: sharedFields[i] index out of range")
                            end
                        | FlatIdx None => Panic (b "flatten: sharedFields[-1]")
                        | FlatErr =>
                            let impls := possible_types def in
                            do (names, tm2) <-
                              mfold (fun (acc : list str * typemap) (idef : typedef) =>
                                       let '(done, tmx) := acc in
                                       do (g, tmy) <- convert_definition f src prefix' idef sels opts Q tmx;
                                       match g with
                                       | GStruct n => Ok (done ++ [n], tmy)
                                       | _ => Err (b "non-object-implementation")
                                       end)
                                    impls ([], tm1);
                            add_type tm2 name (DIface (td_name def) shared names sels)
                        end
                    | KEnum =>
                        match convert_enum name (for_enum (cfg_casing cfg) (td_name def)) (td_values def) with
                        | Ok vs => add_type tm name (DEnum (td_name def) vs)
                        | Err e => Err e
                        | Panic s => Panic s
                        | OutOfFuel => OutOfFuel
                        end
                    | KScalar =>
                        match builtin_go (td_name def) with
                        | Some g => add_type tm name (DAlias g (td_name def))
                        | None => Err (b "unknown-scalar")
                        end
                    end
                end
            end
        end
    end

  with convert_selection_set (fuel : nat) (src : nat) (prefix : list str) (sels : list sel)
           (containing : typedef) (Q : fulldir) (tm : typemap) {struct fuel} : res (list gofield * typemap) :=
    match fuel with
    | O => OutOfFuel
    | S f =>
        do (fields, tm') <-
          mfold (fun (acc : list gofield * typemap) (s : sel) =>
                   let '(done, tmx) := acc in
                   match s with
                   | SField alias name fty parent _ sub line =>
                       do D <- pp (NField (ty_base fty) sub) (Some (parent, name)) (pos_of src line) (Some Q);
                       let o := fd_main D in
                       let goname := cased (if nonempty (d_alias o) then d_alias o else alias) in
                       let prefix' := next_prefix prefix parent alias in
                       do (r, tmy) <- convert_type f src prefix' fty sub o Q tmx;
                       let '(g, _) := r in
                       Ok (done ++ [{| gf_name := goname; gf_type := g; gf_json := alias; gf_gql := name; gf_omitempty := false |}], tmy)
                   | SSpread name _ line =>
                       do D <- pp NOtherNode None (pos_of src line) (Some Q);
                       match find_fragment frags name with
                       | None => Panic (b "convertFragmentSpread: fragmentSpread.Definition is nil")
                       | Some fr =>
                           match find_type sch (fr_on fr) with
                           | None => Panic (b "convertFragmentSpread: fragment type definition is nil")
                           | Some ft =>
                               if negb (fragment_matches containing ft) then Ok (done, tmx)
                               else
                                 (* the fragment's type is looked up through the usual conflict check *)
                                 do e <- get_type tmx name (fr_on fr) (fr_sel fr);
                                 do (g, tmy) <- match e with
                                                | Some t => Ok (t, tmx)
                                                | None => convert_named_fragment f fr tmx
                                                end;
                                 let g' := match g, td_kind containing with
                                           | GIface n, KObject =>
                                               match assoc n tmy with
                                               | Some (DIface _ _ impls _) =>
                                                   match impl_for tmy impls (td_name containing) with
                                                   | Some i => GStruct i
                                                   | None => g
                                                   end
                                               | _ => g
                                               end
                                           | _, _ => g
                                           end in
                                 Ok (done ++ [{| gf_name := []; gf_type := g'; gf_json := []; gf_gql := []; gf_omitempty := false |}], tmy)
                           end
                       end
                   | SInline cond _ sub line =>
                       do D <- pp NOtherNode None (pos_of src line) (Some Q);
                       (* without a type condition the fragment applies to the type it is spread into *)
                       match (match cond with [] => Some containing | _ => find_type sch cond end) with
                       | None => Panic (b "convertInlineFragment: schema.Types[TypeCondition] is nil")
                       | Some ft =>
                           if negb (fragment_matches containing ft) then Ok (done, tmx)
                           else do (fs, tmy) <- convert_selection_set f src prefix sub containing Q tmx;
                                Ok (done ++ fs, tmy)
                       end
                   end)
                sels ([], tm);
        do uniq <- dedup_fields fields [] [];
        Ok (uniq, tm')
    end

  with convert_named_fragment (fuel : nat) (fr : fragment) (tm : typemap) {struct fuel} : res (gotype * typemap) :=
    match fuel with
    | O => OutOfFuel
    | S f =>
        match find_type sch (fr_on fr) with
        | None => Panic (b "convertNamedFragment: schema.Types[TypeCondition] is nil")
        | Some typ =>
            do D <- pp NFrag None (pos_of (fr_src fr) (fr_line fr)) None;
            do (fields, tm1) <- convert_selection_set f (fr_src fr) [fr_name fr] (fr_sel fr) typ D tm;
            match (if get_b (d_flatten (fd_main D)) then validate_flatten_option sch frags typ (fr_sel fr) else FlatErr) with
            | FlatPanic => Panic (b "validateFlattenOption: nil fragment definition")
            | FlatIdx (Some i) =>
                match nth_error fields i with
                | Some fl => Ok (gf_type fl, tm1)
                | None => Panic (b "flatten: fields[i] index out of range")
                end
            | FlatIdx None => Panic (b "flatten: fields[-1]")
            | FlatErr =>
                match td_kind typ with
                | KObject =>
                    do tm2 <- add_fragment_type tm1 (fr_name fr) (DStruct (td_name typ) fields (fr_sel fr) false);
                    Ok (GStruct (fr_name fr), tm2)
                | KInterface | KUnion =>
                    let impls := possible_types typ in
                    let inames := map (fun i => fr_name fr ++ upper_first (td_name i)) impls in
                    do tm2 <- add_fragment_type tm1 (fr_name fr) (DIface (td_name typ) fields inames (fr_sel fr));
                    do tm3 <-
                      mfold (fun (tmx : typemap) (idef : typedef) =>
                               do (ifields, tmy) <- convert_selection_set f (fr_src fr) [fr_name fr] (fr_sel fr) idef D tmx;
                               add_fragment_type tmy (fr_name fr ++ upper_first (td_name idef))
                                                 (DStruct (td_name idef) ifields (fr_sel fr) false))
                            impls tm2;
                    Ok (GIface (fr_name fr), tm3)
                | _ => Err (b "invalid-fragment-type")
                end
            end
        end
    end.

  (* ---- operations ---- *)
  Definition root_type (kind : N) : option typedef :=
    find_type sch (if N.eqb kind 0 then b "Query" else if N.eqb kind 1 then b "Mutation" else b "Subscription").

  Definition FUEL : nat := 400.

  Definition convert_arguments (o : operation) (Q : fulldir) (tm : typemap) : res (option str * typemap) :=
    match op_vars o with
    | [] => Ok (None, tm)
    | vars =>
        let name := b "__" ++ op_name o ++ b "Input" in
        do (fields, tm1) <-
          mfold (fun (acc : list gofield * typemap) (v : vardef) =>
                   let '(done, tmx) := acc in
                   if mem_str (vd_name v) go_keywords then Err (b "keyword") else
                   do D <- pp (NVar (ty_nonnull (vd_type v))) None (pos_of (op_src o) (vd_line v)) (Some Q);
                   do (r, tmy) <- convert_type FUEL (op_src o) [] (vd_type v) [] (fd_main D) Q tmx;
                   let '(g, opt) := r in
                   Ok (done ++ [{| gf_name := cased (vd_name v); gf_type := g; gf_json := vd_name v; gf_gql := vd_name v;
                                   gf_omitempty := get_b (d_omitempty opt) |}], tmy))
                vars ([], tm);
        do (t, tm2) <- add_type tm1 name (DStruct name fields [] true);
        match t with
        | GStruct n => Ok (Some n, tm2)
        | _ => Err (b "input-type-not-struct")
        end
    end.

  Definition convert_operation (o : operation) (Q : fulldir) (tm : typemap) : res (gotype * typemap) :=
    let tn := d_typename (fd_main Q) in
    let name := if nonempty tn then tn else op_name o ++ b "Response" in
    let prefix := if nonempty tn then [tn] else [op_name o] in
    match root_type (op_kind o) with
    | None => Panic (b "convertOperation: base type is nil")
    | Some base =>
        do (fields, tm1) <- convert_selection_set FUEL (op_src o) prefix (op_sel o) base Q tm;
        match (if get_b (d_flatten (fd_main Q)) then validate_flatten_option sch frags base (op_sel o) else FlatErr) with
        | FlatPanic => Panic (b "validateFlattenOption: nil fragment definition")
        | FlatIdx (Some i) =>
            match nth_error fields i with
            | Some fl => Ok (gf_type fl, tm1)
            | None => Panic (b "flatten: fields[i] index out of range")
            end
        | FlatIdx None => Panic (b "flatten: fields[-1]")
        | FlatErr => add_type tm1 name (DStruct (td_name base) fields (op_sel o) false)
        end
    end.

  Record opinfo := { oi_name : str; oi_input : option str; oi_response : str }.

  (* addOperation, as far as types are concerned (the operation is assumed validated: named) *)
  Definition add_operation (acc : typemap * list opinfo) (o : operation) : res (typemap * list opinfo) :=
    let '(tm, done) := acc in
    match op_name o with
    | [] => Err (b "anonymous")
    | _ =>
        if mem_str (op_name o) go_keywords then Err (b "keyword") else
        do D <- pp NOp None (pos_of (op_src o) (op_line o)) None;
        do (inp, tm1) <- convert_arguments o D tm;
        do (resp, tm2) <- convert_operation o D tm1;
        Ok (tm2, done ++ [{| oi_name := op_name o; oi_input := inp; oi_response := reference resp |}])
    end.

  Definition generate_types (ops : list operation) : res (typemap * list opinfo) :=
    mfold add_operation ops ([], []).
End Conv.
