(* Model of generate/genqlient_directive.go: the upward scan for `# @genqlient` comment lines,
   add (with conflict detection and `for:`), validate (per node kind), mergeOperationDirective
   (node > for > operation), validateStructOption and validateFlattenOption.
   The SYNTAX of one directive line is gqlparser's (the exporter parses each such line the way
   parseDirective does and hands over its arguments).  Definitions only. *)
From Verif Require Import Base.Str Gen.Gql.

Inductive dval := VBool (v : bool) | VStr (v : str) | VOther.
Inductive lkind :=
| LDir (args : list (str * dval))   (* a line `# @genqlient(...)` that parsed *)
| LDirBad                           (* a line starting with `# @genqlient` that does not parse as a @genqlient directive *)
| LComment                          (* any other line starting with `#` *)
| LOther.                           (* anything else: stops the scan *)

Record dir := {
  d_omitempty : option bool; d_pointer : option bool; d_struct : option bool; d_flatten : option bool;
  d_bind : str; d_typename : str; d_alias : str;
}.
Definition dir0 : dir :=
  {| d_omitempty := None; d_pointer := None; d_struct := None; d_flatten := None;
     d_bind := []; d_typename := []; d_alias := [] |}.

(* a directive with its `for:` table (type name, field name) -> directive; newest entry first *)
Record fulldir := { fd_main : dir; fd_for : list (str * str * dir) }.
Definition fulldir0 : fulldir := {| fd_main := dir0; fd_for := [] |}.

Definition get_b (o : option bool) : bool := match o with Some true => true | _ => false end.
Definition is_set (o : option bool) : bool := match o with Some _ => true | None => false end.
Definition pointer_is_false (d : dir) : bool := match d_pointer d with Some false => true | _ => false end.
Definition nonempty (s : str) : bool := match s with [] => false | _ => true end.

Definition EDIR : str := b "directive".

Definition set_omitempty d v := {| d_omitempty := v; d_pointer := d_pointer d; d_struct := d_struct d; d_flatten := d_flatten d; d_bind := d_bind d; d_typename := d_typename d; d_alias := d_alias d |}.
Definition set_pointer d v := {| d_omitempty := d_omitempty d; d_pointer := v; d_struct := d_struct d; d_flatten := d_flatten d; d_bind := d_bind d; d_typename := d_typename d; d_alias := d_alias d |}.
Definition set_struct d v := {| d_omitempty := d_omitempty d; d_pointer := d_pointer d; d_struct := v; d_flatten := d_flatten d; d_bind := d_bind d; d_typename := d_typename d; d_alias := d_alias d |}.
Definition set_flatten d v := {| d_omitempty := d_omitempty d; d_pointer := d_pointer d; d_struct := d_struct d; d_flatten := v; d_bind := d_bind d; d_typename := d_typename d; d_alias := d_alias d |}.
Definition set_bind d v := {| d_omitempty := d_omitempty d; d_pointer := d_pointer d; d_struct := d_struct d; d_flatten := d_flatten d; d_bind := v; d_typename := d_typename d; d_alias := d_alias d |}.
Definition set_typename d v := {| d_omitempty := d_omitempty d; d_pointer := d_pointer d; d_struct := d_struct d; d_flatten := d_flatten d; d_bind := d_bind d; d_typename := v; d_alias := d_alias d |}.
Definition set_alias d v := {| d_omitempty := d_omitempty d; d_pointer := d_pointer d; d_struct := d_struct d; d_flatten := d_flatten d; d_bind := d_bind d; d_typename := d_typename d; d_alias := v |}.

(* setBool / setString *)
Definition set_bool (cur : option bool) (v : dval) : res (option bool) :=
  match cur with
  | Some _ => Err EDIR
  | None => match v with VBool x => Ok (Some x) | _ => Err EDIR end
  end.
Definition set_string (cur : str) (v : dval) : res str :=
  match cur with
  | _ :: _ => Err EDIR
  | [] => match v with VStr x => Ok x | _ => Err EDIR end
  end.

Definition s_for : str := b "for".

(* first loop of add: the `for` argument(s) *)
Fixpoint find_for (args : list (str * dval)) (cur : str) : res str :=
  match args with
  | [] => Ok cur
  | (n, v) :: r =>
      if str_eqb n s_for then
        match cur with
        | _ :: _ => Err EDIR
        | [] => do x <- set_string [] v; find_for r x
        end
      else find_for r cur
  end.

Definition dot : N := 46.
Fixpoint split_dot_aux (cur : str) (s : str) : list str :=
  match s with
  | [] => [rev cur]
  | c :: r => if N.eqb c dot then rev cur :: split_dot_aux [] r else split_dot_aux (c :: cur) r
  end.
Definition split_dot (s : str) : list str := split_dot_aux [] s.

Fixpoint add_args (args : list (str * dval)) (d : dir) : res dir :=
  match args with
  | [] => Ok d
  | (n, v) :: r =>
      if str_eqb n (b "omitempty") then do x <- set_bool (d_omitempty d) v; add_args r (set_omitempty d x)
      else if str_eqb n (b "pointer") then do x <- set_bool (d_pointer d) v; add_args r (set_pointer d x)
      else if str_eqb n (b "struct") then do x <- set_bool (d_struct d) v; add_args r (set_struct d x)
      else if str_eqb n (b "flatten") then do x <- set_bool (d_flatten d) v; add_args r (set_flatten d x)
      else if str_eqb n (b "bind") then do x <- set_string (d_bind d) v; add_args r (set_bind d x)
      else if str_eqb n (b "typename") then do x <- set_string (d_typename d) v; add_args r (set_typename d x)
      else if str_eqb n (b "alias") then do x <- set_string (d_alias d) v; add_args r (set_alias d x)
      else if str_eqb n s_for then add_args r d
      else Err EDIR
  end.

(* genqlientDirective.add *)
Definition add (D : fulldir) (args : list (str * dval)) : res fulldir :=
  do f <- find_for args [];
  match f with
  | [] => do m <- add_args args (fd_main D); Ok {| fd_main := m; fd_for := fd_for D |}
  | _ =>
      match split_dot f with
      | [tn; fn] => do fd <- add_args args dir0; Ok {| fd_main := fd_main D; fd_for := (tn, fn, fd) :: fd_for D |}
      | _ => Err EDIR
      end
  end.

Fixpoint lookup_for (l : list (str * str * dir)) (tn fn : str) : option dir :=
  match l with
  | [] => None
  | (t, f, d) :: r => if str_eqb t tn && str_eqb f fn then Some d else lookup_for r tn fn
  end.

(* ---- fragmentMatches, validateStructOption, validateFlattenOption ---- *)
Definition fragment_matches (containing fragment : typedef) : bool :=
  str_eqb (td_name containing) (td_name fragment)
  || mem_str (td_name fragment) (td_ifaces containing)
  || (match td_kind fragment with KUnion => mem_str (td_name containing) (td_members fragment) | _ => false end).

Definition is_abstract_kind (k : kind) : bool := match k with KInterface | KUnion => true | _ => false end.

Definition validate_struct_option (typ : typedef) (sels : list sel) : bool :=
  is_abstract_kind (td_kind typ)
  && forallb (fun s => match s with SField _ _ _ _ _ _ _ => true | _ => false end) sels.

Inductive flat_res := FlatErr | FlatIdx (i : option nat) | FlatPanic.

Section Flatten.
  Variable sch : schema.
  Variable frags : list fragment.
  Fixpoint find_fragment (fs : list fragment) (n : str) : option fragment :=
    match fs with [] => None | f :: r => if str_eqb (fr_name f) n then Some f else find_fragment r n end.

  Fixpoint flatten_go (typ : typedef) (sels : list sel) (i : nat) (idx : option nat) : flat_res :=
    match sels with
    | [] => FlatIdx idx
    | s :: r =>
        match s with
        | SField _ n _ _ _ _ l =>
            if str_eqb n typename_name && N.eqb l 0 then flatten_go typ r (S i) idx else FlatErr
        | SInline _ _ _ _ => FlatErr
        | SSpread n _ _ =>
            match idx with
            | Some _ => FlatErr
            | None =>
                match find_fragment frags n with
                | None => FlatPanic
                | Some f =>
                    match find_type sch (fr_on f) with
                    | None => FlatPanic
                    | Some ft => if fragment_matches typ ft then flatten_go typ r (S i) (Some i) else FlatErr
                    end
                end
            end
        end
    end.
  Definition validate_flatten_option (typ : typedef) (sels : list sel) : flat_res :=
    match sels with [] => FlatErr | _ => flatten_go typ sels O None end.
End Flatten.

(* ---- validate ---- *)
Inductive node :=
| NOp | NFrag
| NVar (nonnull : bool)
| NField (field_type_base : str) (sub : list sel)
| NOtherNode.     (* inline fragment, fragment spread, input-object field definition: no case in validate *)

Section Validate.
  Variable sch : schema.
  Variable frags : list fragment.

  Definition typename_bind_conflict (d : dir) : bool :=
    nonempty (d_typename d) && nonempty (d_bind d) && negb (str_eqb (d_bind d) (b "-")).

  Definition validate_for_entry (e : str * str * dir) : bool :=
    let '(tn, fn, d) := e in
    match find_type sch tn with
    | None => false
    | Some t =>
        existsb (fun f => str_eqb (fd_name f) fn) (td_fields t)
        && negb (is_set (d_struct d) || is_set (d_flatten d))
        && negb (typename_bind_conflict d)
    end.

  Definition validate (n : node) (D : fulldir) : res unit :=
    if negb (forallb validate_for_entry (fd_for D)) then Err EDIR else
    let d := fd_main D in
    match n with
    | NOp => if nonempty (d_bind d) then Err EDIR else Ok tt
    | NFrag => if nonempty (d_bind d) || is_set (d_struct d) then Err EDIR else Ok tt
    | NVar nn =>
        if (is_set (d_omitempty d) && nn) || is_set (d_struct d) || is_set (d_flatten d)
           || (match fd_for D with [] => false | _ => true end) || typename_bind_conflict d
        then Err EDIR else Ok tt
    | NField tb sub =>
        if is_set (d_omitempty d) then Err EDIR else
        match find_type sch tb with
        | None => Panic (b "validate: schema.Types[field type] is nil")
        | Some typ =>
            if is_set (d_struct d) && negb (validate_struct_option typ sub) then Err EDIR else
            match (if is_set (d_flatten d) then validate_flatten_option sch frags typ sub else FlatIdx None) with
            | FlatPanic => Panic (b "validateFlattenOption: nil fragment definition")
            | FlatErr => Err EDIR
            | FlatIdx _ =>
                if (match fd_for D with [] => false | _ => true end) || typename_bind_conflict d
                then Err EDIR else Ok tt
            end
        end
    | NOtherNode => Err EDIR
    end.
End Validate.

(* ---- mergeOperationDirective ---- *)
Definition fill_b (target : option bool) (defaults : list (option bool)) : option bool :=
  match target with
  | Some _ => target
  | None => (fix go (l : list (option bool)) := match l with [] => None | Some v :: _ => Some v | None :: r => go r end) defaults
  end.
Definition fill_s (target : str) (defaults : list str) : str :=
  match target with
  | _ :: _ => target
  | [] => (fix go (l : list str) := match l with [] => [] | ((_ :: _) as v) :: _ => v | [] :: r => go r end) defaults
  end.

Definition merge (key : option (str * str)) (d : dir) (Q : fulldir) : dir :=
  let f := match key with
           | Some (tn, fn) => match lookup_for (fd_for Q) tn fn with Some x => x | None => dir0 end
           | None => dir0
           end in
  let q := fd_main Q in
  {| d_omitempty := fill_b (d_omitempty d) [d_omitempty f; d_omitempty q];
     d_pointer := fill_b (d_pointer d) [d_pointer f; d_pointer q];
     d_struct := fill_b (d_struct d) [d_struct q];
     d_flatten := fill_b (d_flatten d) [d_flatten q];
     d_bind := fill_s (d_bind d) [d_bind f; d_bind q];
     d_typename := fill_s (d_typename d) [d_typename f];
     d_alias := fill_s (d_alias d) [d_alias f; d_alias q] |}.

(* ---- parsePrecedingComment ---- *)
(* lines above [line] (1-based), nearest first.  The code walks `for i := pos.Line - 1; i > 0; i--`
   over `sourceLines[i-1]`: its FIRST access is index line-2, out of range (a run-time panic) iff
   line-1 exceeds the number of lines the source was split into. *)
Definition lines_above (src : list lkind) (line : N) : res (list lkind) :=
  if Nat.ltb (List.length src) (N.to_nat line - 1) then Panic (b "index out of range: sourceLines")
  else Ok (rev (firstn (N.to_nat line - 1) src)).

Fixpoint scan (ls : list lkind) (D : fulldir) (has : bool) : res (fulldir * bool) :=
  match ls with
  | [] => Ok (D, has)
  | LDir args :: r => do D' <- add D args; scan r D' true
  | LDirBad :: _ => Err EDIR
  | LComment :: r => scan r D has
  | LOther :: _ => Ok (D, has)
  end.

Section Preceding.
  Variable sch : schema.
  Variable frags : list fragment.
  Variable srcs : list (list lkind).

  (* pos: None for a synthesised node (no position: nothing is scanned) *)
  Definition parse_preceding (n : node) (key : option (str * str)) (pos : option (nat * N))
             (Q : option fulldir) : res fulldir :=
    do (D, has) <- match pos with
                    | Some (s, line) => do above <- lines_above (nth s srcs []) line; scan above fulldir0 false
                    | None => Ok (fulldir0, false)
                    end;
    do u <- (if has then validate sch frags n D else Ok tt);
    match Q with
    | None => Ok D
    | Some q =>
        let m := merge key (fd_main D) q in
        if typename_bind_conflict m then Err EDIR else Ok {| fd_main := m; fd_for := fd_for D |}
    end.
End Preceding.
