(* Model of generate.go usedFragments (transitive closure of fragment spreads, breadth-first
   over fragments, depth-first inside each selection set, with a seen-set) and
   preprocessQueryDocument (a leading __typename on every selection set of an
   interface/union-typed field that has no direct __typename field).  Definitions only. *)
From Verif Require Import Base.Str Gen.Gql.

(* spreads in the order validator.Walk meets them (it does not descend into the spread
   fragments here: the temporary document has no fragment definitions) *)
Fixpoint spreads_sel (s : sel) : list str :=
  match s with
  | SField _ _ _ _ _ sub _ => flat_map spreads_sel sub
  | SInline _ _ sub _ => flat_map spreads_sel sub
  | SSpread n _ _ => [n]
  end.
Definition spreads_of (l : list sel) : list str := flat_map spreads_sel l.

Fixpoint find_frag (fs : list fragment) (n : str) : option fragment :=
  match fs with
  | [] => None
  | f :: r => if str_eqb (fr_name f) n then Some f else find_frag r n
  end.

Definition frag_spreads (fs : list fragment) (n : str) : list str :=
  match find_frag fs n with Some f => spreads_of (fr_sel f) | None => [] end.

(* the observer: a spread not yet seen is appended to the result and to the queue *)
Fixpoint visit (seen queue : list str) (names : list str) : list str * list str :=
  match names with
  | [] => (seen, queue)
  | n :: r => if mem_str n seen then visit seen queue r else visit (seen ++ [n]) (queue ++ [n]) r
  end.

Fixpoint bfs (fs : list fragment) (fuel : nat) (seen queue : list str) : option (list str) :=
  match queue with
  | [] => Some seen
  | n :: q =>
      match fuel with
      | O => None
      | S f => let '(s', q') := visit seen q (frag_spreads fs n) in bfs fs f s' q'
      end
  end.

(* every name that can ever be seen *)
Definition universe (fs : list fragment) (roots : list str) : list str :=
  roots ++ flat_map (fun f => spreads_of (fr_sel f)) fs.

Definition used_fragments (fs : list fragment) (sels : list sel) : option (list str) :=
  let roots := spreads_of sels in
  let '(s, q) := visit [] [] roots in
  bfs fs (S (List.length (universe fs roots))) s q.

(* ---- preprocess ---- *)
(* a selection that puts __typename under the response key "__typename" (the key the generated
   unmarshaler dispatches on): the field's ALIAS decides (generate.go; `kind: __typename` does
   not count) *)
Definition is_typename_field (s : sel) : bool :=
  match s with SField a _ _ _ _ _ _ => str_eqb a typename_name | _ => false end.
Definition has_typename (l : list sel) : bool := existsb is_typename_field l.

Section Pre.
  Variable sch : schema.
  Fixpoint pre_sel (s : sel) : sel :=
    match s with
    | SField a n t p e sub l =>
        let sub' := map pre_sel sub in
        SField a n t p e
          (if is_abstract sch (ty_base t) && negb (has_typename sub')
           then synth_typename (ty_base t) :: sub' else sub') l
    | SInline c e sub l => SInline c e (map pre_sel sub) l
    | SSpread n e l => SSpread n e l
    end.
  Definition pre_sels (l : list sel) : list sel := map pre_sel l.
  Definition pre_frag (f : fragment) : fragment :=
    {| fr_name := fr_name f; fr_on := fr_on f; fr_extra := fr_extra f; fr_sel := pre_sels (fr_sel f); fr_line := fr_line f; fr_src := fr_src f |}.
  Definition pre_op (o : operation) : operation :=
    {| op_kind := op_kind o; op_name := op_name o; op_extra := op_extra o; op_sel := pre_sels (op_sel o); op_line := op_line o;
       op_src := op_src o; op_vars := op_vars o |}.
End Pre.

(* every selection set of an interface/union-typed field carries a direct __typename *)
Fixpoint typenames_ok (sch : schema) (s : sel) : bool :=
  match s with
  | SField _ _ t _ _ sub _ =>
      (negb (is_abstract sch (ty_base t)) || has_typename sub) && forallb (typenames_ok sch) sub
  | SInline _ _ sub _ => forallb (typenames_ok sch) sub
  | SSpread _ _ _ => true
  end.

(* removing what preprocess may add: synthesised (line 0) __typename fields *)
Definition is_synth (s : sel) : bool :=
  match s with SField _ n _ _ _ _ l => str_eqb n typename_name && N.eqb l 0 | _ => false end.
Fixpoint strip_sel (s : sel) : sel :=
  match s with
  | SField a n t p e sub l => SField a n t p e (flat_map (fun x => if is_synth x then [] else [strip_sel x]) sub) l
  | SInline c e sub l => SInline c e (flat_map (fun x => if is_synth x then [] else [strip_sel x]) sub) l
  | SSpread n e l => SSpread n e l
  end.
Definition strip_sels (l : list sel) : list sel :=
  flat_map (fun x => if is_synth x then [] else [strip_sel x]) l.

(* a document written by a user has no synthesised node *)
Fixpoint user_sel (s : sel) : bool :=
  match s with
  | SField _ _ _ _ _ sub l => negb (N.eqb l 0) && forallb user_sel sub
  | SInline _ _ sub l => forallb user_sel sub
  | SSpread _ _ _ => true
  end.

(* the document emitted for one operation: the operation, then the used fragments in order *)
Definition emitted (sch : schema) (fs : list fragment) (o : operation) : option (operation * list fragment) :=
  match used_fragments fs (op_sel o) with
  | None => None
  | Some names =>
      Some (pre_op sch o,
            flat_map (fun n => match find_frag fs n with Some f => [pre_frag sch f] | None => [] end) names)
  end.
