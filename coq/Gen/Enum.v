(* Model of the enum case of convertDefinition (convert.go) and of
   goEnumType.WriteDefinition (types.go).  Definitions only. *)
From Verif Require Import Base.Str Gen.Casing.

(* convert.go: the loop with the goNames map; [seen] is the key set of the map *)
Fixpoint convert_enum_go (T : str) (algo : casing) (seen : list str) (vs : list str)
  : res (list (str * str)) :=
  match vs with
  | [] => Ok []
  | v :: r =>
      let g := enum_value_name T algo v in
      if mem_str g seen then Err (b "EnumConflict")
      else do rest <- convert_enum_go T algo (g :: seen) r; Ok ((g, v) :: rest)
  end.

Definition convert_enum (T : str) (algo : casing) (vs : list str) : res (list (str * str)) :=
  convert_enum_go T algo [] vs.

(* Go name of the enum type: the typename option, else the cased GraphQL name *)
Definition enum_go_name (cfg : casing_cfg) (typename_opt : option str) (gql : str) : str :=
  match typename_opt with
  | Some t => t
  | None => apply_casing gql (get_default cfg) true
  end.

(* what WriteDefinition emits: `type T string`, the const block, `var AllT` *)
Record enum_decl := {
  ed_type : str;
  ed_consts : list (str * str * str);   (* (constant name, its Go type, its string value) *)
  ed_all_name : str;
  ed_all_elem_type : str;
  ed_all : list str;                    (* elements of AllT, in order *)
}.

Definition emit_enum (T : str) (cs : list (str * str)) : enum_decl :=
  {| ed_type := T;
     ed_consts := map (fun c => (fst c, T, snd c)) cs;
     ed_all_name := b "All" ++ T;
     ed_all_elem_type := T;
     ed_all := map fst cs |}.

Definition gen_enum (cfg : casing_cfg) (typename_opt : option str) (gql : str) (vs : list str)
  : res enum_decl :=
  let T := enum_go_name cfg typename_opt gql in
  do cs <- convert_enum T (for_enum cfg gql) vs;
  Ok (emit_enum T cs).

(* ---- specification side (what C16 demands), independent of the loop above ---- *)

(* the declaration is a bijection with the schema's value list *)
Definition enum_bijection_b (vs : list str) (d : enum_decl) : bool :=
  list_eqb str_eqb (map (fun c => snd c) (ed_consts d)) vs
  && forallb (fun c => str_eqb (snd (fst c)) (ed_type d)) (ed_consts d)
  && list_eqb str_eqb (ed_all d) (map (fun c => fst (fst c)) (ed_consts d))
  && (fix nodup (l : list str) : bool :=
        match l with [] => true | x :: r => negb (mem_str x r) && nodup r end)
       (map (fun c => fst (fst c)) (ed_consts d)).
