(* Model of generate/errors.go: errorPos.String, splitFilename, and the position-lifting rule
   of errorf; with the decimal printing/parsing (fmt %v of an int, strconv.Atoi) that the
   pseudo-filename "file.go:LINE" of parse.go goes through.  Definitions only. *)
From Verif Require Import Base.Str.
From Coq Require Import ZArith.

Definition colon : N := 58.
Definition digit (n : N) : N := 48 + n.

Definition bits (n : N) : nat := match n with N0 => O | Npos p => Pos.size_nat p end.

Fixpoint dec_aux (fuel : nat) (n : N) : str :=
  match fuel with
  | O => []
  | S f => if n <? 10 then [digit n] else dec_aux f (n / 10) ++ [digit (n mod 10)]
  end.
(* fmt.Sprintf("%v", n) for n >= 0 *)
Definition dec (n : N) : str := dec_aux (S (bits n)) n.

Definition is_digit (c : N) : bool := (48 <=? c) && (c <=? 57).

Fixpoint atoi_aux (acc : N) (s : str) : option N :=
  match s with
  | [] => Some acc
  | c :: r => if is_digit c then atoi_aux (acc * 10 + (c - 48)) r else None
  end.
(* strconv.Atoi restricted to what matters here: optional sign, then at least one digit *)
Definition atoi (s : str) : option Z :=
  match s with
  | [] => None
  | 43 :: (_ :: _) as r => option_map Z.of_N (atoi_aux 0 r)
  | 45 :: (_ :: _) as r => option_map (fun n => Z.opp (Z.of_N n)) (atoi_aux 0 r)
  | _ => option_map Z.of_N (atoi_aux 0 s)
  end.

(* strings.Split(s, ":") *)
Fixpoint split_colon_aux (cur : str) (s : str) : list str :=
  match s with
  | [] => [rev cur]
  | c :: r => if N.eqb c colon then rev cur :: split_colon_aux [] r else split_colon_aux (c :: cur) r
  end.
Definition split_colon (s : str) : list str := split_colon_aux [] s.

(* splitFilename *)
Definition split_filename (f : str) : str * Z :=
  match split_colon f with
  | [name; off] => match atoi off with Some n => (name, (n - 1)%Z) | None => (name, 0%Z) end
  | _ => (f, 0%Z)
  end.

Definition dec_z (z : Z) : str :=
  match z with
  | Z0 => dec 0
  | Zpos p => dec (Npos p)
  | Zneg p => 45 :: dec (Npos p)
  end.

(* errorPos.String *)
Definition error_pos_string (filename : str) (line : Z) : str :=
  let '(name, off) := split_filename filename in
  let l := (off + line)%Z in
  if (l =? 0)%Z then name else name ++ [colon] ++ dec_z l.

(* the pseudo-filename parse.go builds for a `# @genqlient` literal at Go line L *)
Definition pseudo_filename (gofile : str) (lit_line : N) : str := gofile ++ [colon] ++ dec lit_line.

(* ---- errorf's choice of position ---- *)
Record epos := { ep_file : str; ep_line : Z }.

Inductive wrapped :=
| WNone                                    (* no wrapped error *)
| WGenqlient (p : option epos)             (* a genqlient error (with or without position) *)
| WGraphQL (file : str) (line : option Z)  (* a gqlparser error: Extensions["file"], first location *)
| WOther.

Definition lift (explicit : option epos) (w : wrapped) : option epos :=
  match explicit with
  | Some p => Some p
  | None =>
      match w with
      | WGenqlient p => p
      | WGraphQL f l =>
          match f with
          | [] => None
          | _ => Some {| ep_file := f; ep_line := match l with Some x => x | None => 0%Z end |}
          end
      | _ => None
      end
  end.

Definition error_prefix (explicit : option epos) (w : wrapped) : option str :=
  option_map (fun p => error_pos_string (ep_file p) (ep_line p)) (lift explicit w).
