(* The GraphQL AST as genqlient sees it after gqlparser parsed and validated it (the harness
   exports gqlparser's AST into these terms), and the part of the schema genqlient consults.
   Definitions only. *)
From Verif Require Import Base.Str.

Inductive tyref :=
| TNamed (n : str) (nonnull : bool)
| TList (e : tyref) (nonnull : bool).

Fixpoint ty_base (t : tyref) : str :=
  match t with TNamed n _ => n | TList e _ => ty_base e end.
Definition ty_nonnull (t : tyref) : bool :=
  match t with TNamed _ b => b | TList _ b => b end.

Inductive kind := KScalar | KObject | KInterface | KUnion | KEnum | KInput.

Record fielddef := { fd_name : str; fd_type : tyref; fd_has_default : bool }.
Record typedef := {
  td_name : str; td_kind : kind;
  td_fields : list fielddef;    (* object / interface / input-object fields, in schema order *)
  td_ifaces : list str;         (* interfaces an object (or interface) declares *)
  td_members : list str;        (* union members *)
  td_values : list str;         (* enum values *)
}.
Definition schema := list typedef.

Fixpoint find_type (s : schema) (n : str) : option typedef :=
  match s with
  | [] => None
  | t :: r => if str_eqb (td_name t) n then Some t else find_type r n
  end.

Definition kind_eqb (a c : kind) : bool :=
  match a, c with
  | KScalar, KScalar | KObject, KObject | KInterface, KInterface | KUnion, KUnion | KEnum, KEnum | KInput, KInput => true
  | _, _ => false
  end.

Definition is_abstract (s : schema) (n : str) : bool :=
  match find_type s n with
  | Some t => match td_kind t with KInterface | KUnion => true | _ => false end
  | None => false
  end.

(* selections.  [extra] is an id of everything the model treats as opaque on the node:
   arguments with their values, directives.  [line] = 0 for a node genqlient synthesised
   (ast.Position == nil). *)
Inductive sel :=
| SField (alias name : str) (fty : tyref) (parent : str) (extra : N) (sub : list sel) (line : N)
| SInline (cond : str) (extra : N) (sub : list sel) (line : N)
| SSpread (name : str) (extra : N) (line : N).

Record fragment := { fr_name : str; fr_on : str; fr_extra : N; fr_sel : list sel; fr_line : N; fr_src : nat }.
Record vardef := { vd_name : str; vd_type : tyref; vd_line : N }.
Record operation := {
  op_kind : N;                (* 0 query, 1 mutation, 2 subscription *)
  op_name : str;
  op_extra : N;               (* variable definitions (names, types, defaults, directives) and operation directives *)
  op_sel : list sel;
  op_line : N;
  op_src : nat;               (* index of the source (file or Go literal) the definition was read from *)
  op_vars : list vardef;
}.

Definition typename_name : str := b "__typename".

(* the field preprocessQueryDocument inserts *)
Definition synth_typename (parent : str) : sel :=
  SField typename_name typename_name (TNamed (b "String") false) parent 0 [] 0.

Fixpoint sel_eqb (x y : sel) {struct x} : bool :=
  let fix sels_eqb (l m : list sel) {struct l} : bool :=
    match l, m with
    | [], [] => true
    | a :: l', c :: m' => sel_eqb a c && sels_eqb l' m'
    | _, _ => false
    end in
  match x, y with
  | SField a n _ _ e sub _, SField a' n' _ _ e' sub' _ =>
      str_eqb a a' && str_eqb n n' && N.eqb e e' && sels_eqb sub sub'
  | SInline c e sub _, SInline c' e' sub' _ => str_eqb c c' && N.eqb e e' && sels_eqb sub sub'
  | SSpread n e _, SSpread n' e' _ => str_eqb n n' && N.eqb e e'
  | _, _ => false
  end.
