(* Import aliases: an executable model of generate/imports.go
   (makeIdentifier, addImportFor, and the alias part of ref).
   Definitions only; the theorems are in Proofs/ImportsProofs.v.

   ASCII ONLY.  unicode.IsLetter / unicode.IsDigit are modelled by is_letter /
   is_digit of Base/Str.v, i.e. [A-Za-z] and [0-9]; strings are code-point lists
   that coincide with byte strings for ASCII, so strings.LastIndex(p, "/") and
   the slice p[i+1:] are position arithmetic on the list.  The development's
   trusted base already states that names (and package paths) are ASCII.

   State of the generator that matters here:
     g.imports     : map[pkgPath]alias   -> imps, an association list in insertion order
     g.usedAliases : map[alias]bool      -> used, the list of keys set to true
   Both are empty when the generator is created (imp_init). *)
From Verif Require Import Base.Str Gen.Consts.

Record imp_state := {
  imps : list (str * str);  (* package path -> alias, in insertion order *)
  used : list str;          (* the aliases handed out so far *)
}.

Definition imp_init : imp_state := {| imps := []; used := [] |}.

(* ---------- pkgPath[strings.LastIndex(pkgPath, "/")+1:] ---------- *)

Definition slash : N := 47.

(* acc is the segment read since the last '/', reversed *)
Fixpoint last_segment_aux (acc : str) (s : str) : str :=
  match s with
  | [] => rev acc
  | c :: s' => if N.eqb c slash then last_segment_aux [] s' else last_segment_aux (c :: acc) s'
  end.

(* the part after the last '/'; the whole string if there is none
   (LastIndex = -1, so the slice starts at 0) *)
Definition last_segment (s : str) : str := last_segment_aux [] s.

(* ---------- go/token.IsIdentifier ----------
     func IsIdentifier(name string) bool {
       if name == "" || IsKeyword(name) { return false }
       for i, c := range name {
         if !unicode.IsLetter(c) && c != '_' && (i == 0 || !unicode.IsDigit(c)) { return false }
       }
       return true
     }
   name_start = letter or '_', name_cont = name_start or digit (Base/Str.v). *)
Definition is_identifier (s : str) : bool :=
  match s with
  | [] => false
  | c :: s' => name_start c && forallb name_cont s' && negb (mem_str s go_keywords)
  end.

(* the munging loop of makeIdentifier; [kept] is goodChars.Len() > 0 *)
Fixpoint munge (kept : bool) (s : str) : str :=
  match s with
  | [] => []
  | c :: s' =>
      if is_letter c || is_us c || (kept && is_digit c)
      then c :: munge true s'
      else munge kept s'
  end.

Definition alias_word : str := b "alias".

Definition make_identifier (s : str) : str :=
  if is_identifier s then s
  else match munge false s with
       | [] => alias_word
       | m => m
       end.

(* ---------- strconv.Itoa for n >= 0 ---------- *)

(* little-endian decimal digits; fuel S n is always enough for n *)
Fixpoint digits_le (fuel n : nat) : list nat :=
  match fuel with
  | O => []
  | S f => if Nat.ltb n 10 then [n] else Nat.modulo n 10 :: digits_le f (Nat.div n 10)
  end.

Definition digit_char (d : nat) : N := 48 + N.of_nat d.

Definition dec (n : nat) : str := map digit_char (rev (digits_le (S n) n)).

(* inverse of dec on its image *)
Fixpoint value_le (l : list nat) : nat :=
  match l with
  | [] => O
  | d :: l' => (d + 10 * value_le l')%nat
  end.

Definition char_digit (c : N) : nat := N.to_nat (c - 48).

Definition undec (s : str) : nat := value_le (rev (map char_digit s)).

(* ---------- addImportFor ----------
     pkgName := makeIdentifier(pkgPath[strings.LastIndex(pkgPath, "/")+1:])
     alias = pkgName
     suffix := 2
     for g.usedAliases[alias] {
       alias = pkgName + strconv.Itoa(suffix)
       suffix++
     }
     g.imports[pkgPath] = alias
     g.usedAliases[alias] = true
     return alias
   The loop on explicit fuel; [cand] is the loop variable alias. *)
Fixpoint pick (fuel : nat) (base : str) (suffix : nat) (used : list str) (cand : str) : res str :=
  match fuel with
  | O => OutOfFuel
  | S f =>
      if mem_str cand used
      then pick f base (S suffix) used (base ++ dec suffix)
      else Ok cand
  end.

(* [imps st ++ [(path, alias)]] is the map assignment g.imports[pkgPath] = alias
   when pkgPath is not yet a key, which is the only way ref calls addImportFor
   (assoc returns the first binding, so a second binding of the same path would
   be invisible; Corr/Impcorr.v checks that logged paths are pairwise distinct). *)
Definition add_import_for (st : imp_state) (path : str) : res (imp_state * str) :=
  let base := make_identifier (last_segment path) in
  do alias <- pick (S (length (used st))) base 2 (used st) base;
  Ok ({| imps := imps st ++ [(path, alias)]; used := alias :: used st |}, alias).

(* the alias part of ref:
     alias, ok := g.imports[pkgPath]
     if !ok { alias = g.addImportFor(pkgPath) }
   (the importsLocked error and the own-package shortcut are not part of this model) *)
Definition ref_pkg (st : imp_state) (path : str) : res (imp_state * str) :=
  match assoc path (imps st) with
  | Some a => Ok (st, a)
  | None => add_import_for st path
  end.

(* a sequence of references; returns the final state and the alias given at each call *)
Fixpoint run_refs_from (st : imp_state) (paths : list str) : res (imp_state * list str) :=
  match paths with
  | [] => Ok (st, [])
  | p :: ps =>
      do (st1, a) <- ref_pkg st p;
      do (st2, al) <- run_refs_from st1 ps;
      Ok (st2, a :: al)
  end.

Definition run_refs (paths : list str) : res (imp_state * list str) :=
  run_refs_from imp_init paths.

(* a sequence of direct addImportFor calls (what the harness logs and replays) *)
Fixpoint run_adds_from (st : imp_state) (paths : list str) : res (imp_state * list str) :=
  match paths with
  | [] => Ok (st, [])
  | p :: ps =>
      do (st1, a) <- add_import_for st p;
      do (st2, al) <- run_adds_from st1 ps;
      Ok (st2, a :: al)
  end.

Definition run_adds (paths : list str) : res (imp_state * list str) :=
  run_adds_from imp_init paths.

(* pairwise distinct, decidably *)
Fixpoint nodup_str (l : list str) : bool :=
  match l with
  | [] => true
  | x :: l' => negb (mem_str x l') && nodup_str l'
  end.

(* just the aliases of a run (None if the run does not end with Ok) *)
Definition run_aliases (paths : list str) : option (list str) :=
  match run_refs paths with
  | Ok (_, al) => Some al
  | _ => None
  end.
