(* Model of generate/main.go readConfigGenerateAndWrite: read+validate the configuration,
   call Generate (a function of the configuration and the files it reads: it performs NO
   file-system mutation), and only when Generate returned every output successfully write
   them, in Go map-iteration order, each by MkdirAll(dir) then a truncating WriteFile.
   Contents are abstract ids (N): the harness numbers distinct byte strings.
   Definitions only. *)
From Verif Require Import Base.Str.

Definition fsys := list (str * N).           (* path -> content; the first binding wins *)
Definition fs_get (fs : fsys) (p : str) : option N := assoc p fs.
Definition fs_put (fs : fsys) (p : str) (c : N) : fsys := (p, c) :: fs.

Inductive fop := FMkdir (p : str) | FWrite (p : str) (c : N).   (* mutating operations attempted *)

Inductive outcome := Done | ErrConfig | ErrGenerate | ErrMkdir (p : str) | ErrWrite (p : str).

(* [fail]: index (counting from 0 over mkdir,write,mkdir,write,...) of the file-system
   operation that fails, if any.  A failing MkdirAll or a WriteFile that fails to open its
   target changes nothing. *)
Fixpoint write_all (outs : list (str * N)) (fail : option nat) (fs : fsys) (tr : list fop)
  : fsys * list fop * outcome :=
  match outs with
  | [] => (fs, tr, Done)
  | (p, c) :: rest =>
      match fail with
      | Some O => (fs, tr ++ [FMkdir p], ErrMkdir p)
      | Some (S O) => (fs, tr ++ [FMkdir p; FWrite p c], ErrWrite p)
      | Some (S (S k)) => write_all rest (Some k) (fs_put fs p c) (tr ++ [FMkdir p; FWrite p c])
      | None => write_all rest None (fs_put fs p c) (tr ++ [FMkdir p; FWrite p c])
      end
  end.

Definition run (cfg_ok : bool) (gen : option (list (str * N))) (fail : option nat) (fs : fsys)
  : fsys * list fop * outcome :=
  if negb cfg_ok then (fs, [], ErrConfig)
  else match gen with
       | None => (fs, [], ErrGenerate)
       | Some outs => write_all outs fail fs []
       end.

Definition writes_of (tr : list fop) : list (str * N) :=
  flat_map (fun o => match o with FWrite p c => [(p, c)] | FMkdir _ => [] end) tr.

Definition is_error (o : outcome) : bool := match o with Done => false | _ => true end.
Definition is_generation_error (o : outcome) : bool :=
  match o with ErrConfig | ErrGenerate => true | _ => false end.
