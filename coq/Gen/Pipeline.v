(* Model of the pipeline around the converter: generate/parse.go (expandFilenames, getQueries,
   getQueriesFromGo, getAndValidateQueries) and generate/generate.go (Generate: operation loop,
   type map, sorting of types and operations).  The validator and the per-operation converter
   are parameters (Section variables); everything genqlient itself does with their results is
   modelled.  Definitions only. *)
From Verif Require Import Base.Str Base.Sort Gen.Consts.

(* a top-level definition: operation or fragment, its name, and an id of its content
   (text modulo source position) *)
Record def := { d_op : bool; d_name : str; d_id : N }.

Inductive source :=
| SGraphql (name : str) (defs : list def)        (* .graphql / .gql / .graphqls file *)
| SGo (name : str) (lits : list (list def))      (* .go file: its `# @genqlient` literals in source order *)
| SBad (name : str).                             (* unknown extension, unreadable or unparsable *)

Definition src_name (s : source) : str :=
  match s with SGraphql n _ => n | SGo n _ => n | SBad n => n end.
Definition src_defs (s : source) : list def :=
  match s with SGraphql _ ds => ds | SGo _ lits => concat lits | SBad _ => [] end.
Definition src_bad (s : source) : bool := match s with SBad _ => true | _ => false end.

(* expandFilenames: the SET of matched names (a Go map), then sorted *)
Definition expand (matches : list str) : list str := sort_str (dedup matches).

Fixpoint find_src (fs : list source) (n : str) : option source :=
  match fs with
  | [] => None
  | s :: r => if str_eqb (src_name s) n then Some s else find_src r n
  end.

(* getQueries: the merged document, files in expanded order, definitions in file order *)
Definition collect (srcs : list source) : list def := flat_map src_defs srcs.
Definition ops_of (ds : list def) : list def := filter d_op ds.
Definition frags_of (ds : list def) : list def := filter (fun d => negb (d_op d)) ds.

Inductive gerr := ENoMatch | EBadFile | EInvalid | ENoQueries | EAnonymous | EKeyword | EConvert | EConflict.

Inductive gres (A : Type) := GOk (a : A) | GErr (e : gerr).
Arguments GOk {A} a. Arguments GErr {A} e.

(* the type map: Go type name -> declaration (id); re-adding an equal declaration is fine,
   a different one under the same name is a conflict (getType/addType) *)
Definition typemap := list (str * N).

Definition add_type (tm : typemap) (nd : str * N) : gres typemap :=
  match assoc (fst nd) tm with
  | Some d => if N.eqb d (snd nd) then GOk tm else GErr EConflict
  | None => GOk (nd :: tm)
  end.

Fixpoint add_types (tm : typemap) (nds : list (str * N)) : gres typemap :=
  match nds with
  | [] => GOk tm
  | nd :: r => match add_type tm nd with GOk tm' => add_types tm' r | GErr e => GErr e end
  end.

Section Generate.
  (* gqlparser's validator on the merged document (assumed insensitive to definition order) *)
  Variable V : list def -> bool.
  (* conversion of one operation in the context of all fragments: its emitted function (id)
     and the Go type declarations it needs; None = a conversion error *)
  Variable conv : list def -> def -> option (N * list (str * N)).

  Definition validate_operation (d : def) : gres unit :=
    match d_name d with
    | [] => GErr EAnonymous
    | _ => if mem_str (d_name d) go_keywords then GErr EKeyword else GOk tt
    end.

  Fixpoint add_operations (frags : list def) (ops : list def) (tm : typemap) (done : list (str * N))
    : gres (typemap * list (str * N)) :=
    match ops with
    | [] => GOk (tm, done)
    | o :: r =>
        match validate_operation o with
        | GErr e => GErr e
        | GOk _ =>
            match conv frags o with
            | None => GErr EConvert
            | Some (fn, decls) =>
                match add_types tm decls with
                | GErr e => GErr e
                | GOk tm' => add_operations frags r tm' (done ++ [(d_name o, fn)])
                end
            end
        end
    end.

  Record output := { out_types : list (str * N); out_ops : list (str * N) }.

  (* Generate, from the sources the expanded file names denote *)
  Definition generate (srcs : list source) : gres output :=
    match srcs with
    | [] => GErr ENoMatch
    | _ =>
        if existsb src_bad srcs then GErr EBadFile
        else let doc := collect srcs in
             if negb (V doc) then GErr EInvalid
             else match ops_of doc with
                  | [] => GErr ENoQueries
                  | _ =>
                      (* operations are converted in name order (stable sort), not in file order *)
                      let ops := sort_by d_name (ops_of doc) in
                      match add_operations (frags_of doc) ops [] [] with
                      | GErr e => GErr e
                      | GOk (tm, done) =>
                          GOk {| out_types := sort_by fst tm; out_ops := sort_by fst done |}
                      end
                  end
    end.
End Generate.
