(* The wrapper bookkeeping of types.go (SliceDepth, IsPointer, Unwrap) and the typing condition of
   the (un)marshal blocks that unmarshal.go.tmpl / marshal.go.tmpl emit for a field that needs
   special handling (abstract type or custom (un)marshaler).  Definitions only. *)
From Verif Require Import Base.Str Gen.Gql Gen.Directive Gen.Convert.

Fixpoint slice_depth (t : gotype) : nat := match t with GSlice e => S (slice_depth e) | _ => O end.
Fixpoint is_pointer (t : gotype) : bool :=
  match t with GSlice e => is_pointer e | GPtr _ => true | _ => false end.

Fixpoint wrap_slices (n : nat) (t : gotype) : gotype :=
  match n with O => t | S k => GSlice (wrap_slices k t) end.

(* the element type the templates write: `[*]Unwrap.Reference` *)
Definition leaf_of (t : gotype) : gotype := if is_pointer t then GPtr (unwrap t) else unwrap t.
(* the type the templates ASSUME the field has: `[]...[]` SliceDepth times around the leaf *)
Definition assumed (t : gotype) : gotype := wrap_slices (slice_depth t) (leaf_of t).

Fixpoint gotype_eqb (x y : gotype) : bool :=
  match x, y with
  | GOpaque r g m u, GOpaque r' g' m' u' => str_eqb r r' && str_eqb g g' && str_eqb m m' && str_eqb u u'
  | GAlias n, GAlias n' | GEnum n, GEnum n' | GStruct n, GStruct n' | GIface n, GIface n' => str_eqb n n'
  | GSlice e, GSlice e' | GPtr e, GPtr e' => gotype_eqb e e'
  | GGeneric r e, GGeneric r' e' => str_eqb r r' && gotype_eqb e e'
  | _, _ => false
  end.

(* Go typing of the emitted block, level by level.  With `dst : *C`:
     n > 0:  `*dst = make([]^n P, len(src))` needs C = []^n P;  `dst := &( *dst)[i]` then has type *elem(C)
     n = 0:  pointer leaf:  `*dst = new(T)` and `unmarshaler(src, *dst)` need C = *T
             value leaf:    `unmarshaler(src, dst)` needs C = T                                   *)
Fixpoint block_ok (n : nat) (P C : gotype) : bool :=
  match n with
  | O => gotype_eqb C P
  | S k => gotype_eqb C (wrap_slices (S k) P) && match C with GSlice e => block_ok k P e | _ => false end
  end.

Definition unmarshal_block_ok (W : gotype) : bool := block_ok (slice_depth W) (leaf_of W) W.

Fixpoint has_generic (t : gotype) : bool :=
  match t with GSlice e => has_generic e | GPtr e => has_generic e | GGeneric _ _ => true | _ => false end.

Definition is_named (g : gotype) : bool :=
  match g with GOpaque _ _ _ _ | GAlias _ | GEnum _ | GStruct _ | GIface _ => true | _ => false end.

(* the marshal block: `src := v.F`, n nested `for i, src := range src`, then
   `Marshaler(src)` (pointer leaf) or `Marshaler(&src)` (value leaf) with a parameter of type *T *)
Fixpoint strip_slices (n : nat) (t : gotype) : option gotype :=
  match n with
  | O => Some t
  | S k => match t with GSlice e => strip_slices k e | _ => None end
  end.
Definition marshal_block_ok (W : gotype) : bool :=
  match strip_slices (slice_depth W) W with
  | Some L => gotype_eqb L (leaf_of W)
  | None => false
  end.
