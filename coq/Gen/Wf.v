(* What "every name resolves" means for an exported program: the facts gqlparser's validator
   guarantees for an accepted document, as boolean checks (definitions only).  They are the
   hypotheses of Proofs/ConvertNoPanic.v and are evaluated on every explored program by
   Corr/Convcorr.v. *)
From Verif Require Import Base.Str Gen.Consts Gen.Gql Gen.Directive Gen.Convert.

Definition is_some {A} (o : option A) : bool := match o with Some _ => true | None => false end.

Section Wf.
  Variable sch : schema.
  Variable frags : list fragment.

  Fixpoint ty_okb (t : tyref) : bool :=
    match t with TNamed n _ => is_some (find_type sch n) | TList e _ => ty_okb e end.

  Fixpoint sel_okb (s : sel) : bool :=
    match s with
    | SField _ _ fty _ _ sub _ => ty_okb fty && forallb sel_okb sub
    | SInline c _ sub _ => (match c with [] => true | _ => is_some (find_type sch c) end) && forallb sel_okb sub
    | SSpread n _ _ => is_some (find_fragment frags n)
    end.

  Definition def_okb (d : typedef) : bool := forallb (fun fd => ty_okb (fd_type fd)) (td_fields d).
  Definition schema_okb : bool := forallb def_okb sch.
  Definition frag_okb (fr : fragment) : bool := is_some (find_type sch (fr_on fr)) && forallb sel_okb (fr_sel fr).
  Definition frags_okb : bool := forallb frag_okb frags.
  Definition op_okb (o : operation) : bool :=
    is_some (root_type sch (op_kind o)) && forallb sel_okb (op_sel o) && forallb (fun v => ty_okb (vd_type v)) (op_vars o).

End Wf.

(* ---- every position is inside its source.  parsePrecedingComment indexes the lines the source
   was split into with the node's line number (Gen/Directive.v lines_above): the access is in
   range iff line-1 <= number of lines.  (line = 0: synthesised node, nothing is indexed; the
   check is trivially true for lines 0 and 1.)  [src] is the index of the source of the enclosing
   operation / fragment definition. ---- *)
Definition pos_okb (srcs : list (list lkind)) (src : nat) (line : N) : bool :=
  Nat.leb (N.to_nat line - 1) (List.length (nth src srcs [])).

Section Pos.
  Variable srcs : list (list lkind).

  Fixpoint sel_posb (src : nat) (s : sel) : bool :=
    match s with
    | SField _ _ _ _ _ sub line => pos_okb srcs src line && forallb (sel_posb src) sub
    | SInline _ _ sub line => pos_okb srcs src line && forallb (sel_posb src) sub
    | SSpread _ _ line => pos_okb srcs src line
    end.
  Definition frag_posb (fr : fragment) : bool :=
    pos_okb srcs (fr_src fr) (fr_line fr) && forallb (sel_posb (fr_src fr)) (fr_sel fr).
  Definition frags_posb (frags : list fragment) : bool := forallb frag_posb frags.
  Definition op_posb (o : operation) : bool :=
    pos_okb srcs (op_src o) (op_line o) && forallb (sel_posb (op_src o)) (op_sel o)
    && forallb (fun v => pos_okb srcs (op_src o) (vd_line v)) (op_vars o).
End Pos.

(* ---- the stronger form used by the full no-panic theorem: in addition, every field has a
   non-empty alias (GraphQL: the alias defaults to the name), and every selection set has at most
   one synthesised `__typename` (preprocessing adds at most one) and at least one node that is
   not synthesised (the grammar has no empty selection set), and every node's position is inside
   its source ([pos_okb]) ---- *)
Definition flat_synth (s : sel) : bool :=
  match s with SField _ n _ _ _ _ l => str_eqb n typename_name && N.eqb l 0 | _ => false end.

Definition set_shape_okb (sels : list sel) : bool :=
  Nat.leb (List.length (filter flat_synth sels)) 1
  && match sels with [] => true | _ => existsb (fun s => negb (flat_synth s)) sels end.

Section Wf2.
  Variable sch : schema.
  Variable frags : list fragment.
  Variable srcs : list (list lkind).

  (* [src]: the source of the enclosing operation / fragment definition (positions, see above) *)
  Fixpoint sel_okb2 (src : nat) (s : sel) : bool :=
    match s with
    | SField a _ fty _ _ sub line =>
        nonempty a && ty_okb sch fty && set_shape_okb sub && pos_okb srcs src line && forallb (sel_okb2 src) sub
    | SInline c _ sub line =>
        (match c with [] => true | _ => is_some (find_type sch c) end) && set_shape_okb sub
        && pos_okb srcs src line && forallb (sel_okb2 src) sub
    | SSpread n _ line => is_some (find_fragment frags n) && pos_okb srcs src line
    end.
  Definition sels_okb2 (src : nat) (sels : list sel) : bool := set_shape_okb sels && forallb (sel_okb2 src) sels.
  Definition frag_okb2 (fr : fragment) : bool :=
    is_some (find_type sch (fr_on fr)) && pos_okb srcs (fr_src fr) (fr_line fr) && sels_okb2 (fr_src fr) (fr_sel fr).
  Definition frags_okb2 : bool := forallb frag_okb2 frags.
  Definition op_okb2 (o : operation) : bool :=
    is_some (root_type sch (op_kind o)) && pos_okb srcs (op_src o) (op_line o) && sels_okb2 (op_src o) (op_sel o)
    && forallb (fun v => ty_okb sch (vd_type v) && pos_okb srcs (op_src o) (vd_line v)) (op_vars o).
End Wf2.

(* ---- the hypotheses of the converter's TERMINATION theorem (Proofs/ConvertFuel.v), as
   executable checks: named fragments do not spread each other in a cycle (gqlparser's
   NoFragmentCycles), and the possible types of every type are object types ---- *)
From Coq Require Import Arith.
(* the fragments a selection spreads, directly or inside its fields and inline fragments *)
Fixpoint sel_spreads (s : sel) : list str :=
  match s with
  | SField _ _ _ _ _ sub _ => flat_map sel_spreads sub
  | SInline _ _ sub _ => flat_map sel_spreads sub
  | SSpread n _ _ => [n]
  end.
Definition sels_spreads (l : list sel) : list str := flat_map sel_spreads l.


(* candidate ranks by [length frags] rounds of relaxation, then checked *)
Definition frank_of (ranks : list (str * nat)) (n : str) : nat :=
  match assoc n ranks with Some r => r | None => 0%nat end.
Definition frank_okb (frags : list fragment) (ranks : list (str * nat)) : bool :=
  forallb (fun f0 => match find_fragment frags (fr_name f0) with
                     | Some fr => forallb (fun g => Nat.ltb (frank_of ranks g) (frank_of ranks (fr_name f0)))
                                          (sels_spreads (fr_sel fr))
                     | None => true
                     end) frags.
Definition frank_step (frags : list fragment) (ranks : list (str * nat)) : list (str * nat) :=
  map (fun fr => (fr_name fr, fold_right (fun g a => Nat.max (S (frank_of ranks g)) a) 0%nat (sels_spreads (fr_sel fr)))) frags.
Fixpoint frank_iter (frags : list fragment) (k : nat) (ranks : list (str * nat)) : list (str * nat) :=
  match k with O => ranks | S k' => frank_iter frags k' (frank_step frags ranks) end.
Definition frags_acyclicb (frags : list fragment) : bool :=
  frank_okb frags (frank_iter frags (length frags) []).


Definition impls_objectsb (sch : schema) : bool :=
  forallb (fun d => forallb (fun i => kind_eqb (td_kind i) KObject) (possible_types sch d)) sch.
