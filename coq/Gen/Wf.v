(* What "every name resolves" means for an exported program: the facts gqlparser's validator
   guarantees for an accepted document, as boolean checks (definitions only).  They are the
   hypotheses of Proofs/ConvertNoPanic.v and are evaluated on every explored program by
   Corr/Convcorr.v. *)
From Verif Require Import Base.Str Gen.Consts Gen.Gql Gen.Directive Gen.Convert.

Definition is_some {A} (o : option A) : bool := match o with Some _ => true | None => false end.

Section Wf.
  Variable sch : schema.
  Variable frags : list fragment.

  Fixpoint ty_okb (t : tyref) : bool :=
    match t with TNamed n _ => is_some (find_type sch n) | TList e _ => ty_okb e end.

  Fixpoint sel_okb (s : sel) : bool :=
    match s with
    | SField _ _ fty _ _ sub _ => ty_okb fty && forallb sel_okb sub
    | SInline c _ sub _ => (match c with [] => true | _ => is_some (find_type sch c) end) && forallb sel_okb sub
    | SSpread n _ _ => is_some (find_fragment frags n)
    end.

  Definition def_okb (d : typedef) : bool := forallb (fun fd => ty_okb (fd_type fd)) (td_fields d).
  Definition schema_okb : bool := forallb def_okb sch.
  Definition frag_okb (fr : fragment) : bool := is_some (find_type sch (fr_on fr)) && forallb sel_okb (fr_sel fr).
  Definition frags_okb : bool := forallb frag_okb frags.
  Definition op_okb (o : operation) : bool :=
    is_some (root_type sch (op_kind o)) && forallb sel_okb (op_sel o) && forallb (fun v => ty_okb (vd_type v)) (op_vars o).

End Wf.

(* ---- the stronger form used by the full no-panic theorem: in addition, every field has a
   non-empty alias (GraphQL: the alias defaults to the name), and every selection set has at most
   one synthesised `__typename` (preprocessing adds at most one) and at least one node that is
   not synthesised (the grammar has no empty selection set) ---- *)
Definition flat_synth (s : sel) : bool :=
  match s with SField _ n _ _ _ _ l => str_eqb n typename_name && N.eqb l 0 | _ => false end.

Definition set_shape_okb (sels : list sel) : bool :=
  Nat.leb (List.length (filter flat_synth sels)) 1
  && match sels with [] => true | _ => existsb (fun s => negb (flat_synth s)) sels end.

Section Wf2.
  Variable sch : schema.
  Variable frags : list fragment.

  Fixpoint sel_okb2 (s : sel) : bool :=
    match s with
    | SField a _ fty _ _ sub _ => nonempty a && ty_okb sch fty && set_shape_okb sub && forallb sel_okb2 sub
    | SInline c _ sub _ => (match c with [] => true | _ => is_some (find_type sch c) end) && set_shape_okb sub && forallb sel_okb2 sub
    | SSpread n _ _ => is_some (find_fragment frags n)
    end.
  Definition sels_okb2 (sels : list sel) : bool := set_shape_okb sels && forallb sel_okb2 sels.
  Definition frag_okb2 (fr : fragment) : bool := is_some (find_type sch (fr_on fr)) && sels_okb2 (fr_sel fr).
  Definition frags_okb2 : bool := forallb frag_okb2 frags.
  Definition op_okb2 (o : operation) : bool :=
    is_some (root_type sch (op_kind o)) && sels_okb2 (op_sel o) && forallb (fun v => ty_okb sch (vd_type v)) (op_vars o).
End Wf2.
