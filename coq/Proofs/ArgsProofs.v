(* convertArguments: the hidden __<Op>Input struct has exactly one field per declared variable,
   in order, whose JSON name is the variable's name (C04: "a key only for declared variables"). *)
From Verif Require Import Base.Str Gen.Consts Gen.Casing Gen.Gql Gen.Doc Gen.Directive Gen.Convert Proofs.ConvertProofs.
From Coq Require Import ZArith.

Lemma bind_ok2 {A B} (r : res A) (f : A -> res B) y : bind r f = Ok y -> exists x, r = Ok x /\ f x = Ok y.
Proof. destruct r; cbn; try discriminate. intro H. eexists; split; [reflexivity | exact H]. Qed.

Section Args.
  Variable sch : schema.
  Variable cfg : config.
  Variable frags : list fragment.
  Variable srcs : list (list lkind).

  Definition arg_step (o : operation) (Q : fulldir) :=
    fun (acc : list gofield * typemap) (v : vardef) =>
      let '(done, tmx) := acc in
      if mem_str (vd_name v) go_keywords then Err (b "keyword") else
      do D <- pp sch frags srcs (NVar (ty_nonnull (vd_type v))) None (pos_of (op_src o) (vd_line v)) (Some Q);
      do (r, tmy) <- convert_type sch cfg frags srcs FUEL (op_src o) [] (vd_type v) [] (fd_main D) Q tmx;
      let '(g, opt) := r in
      Ok (done ++ [{| gf_name := cased cfg (vd_name v); gf_type := g; gf_json := vd_name v; gf_gql := vd_name v;
                      gf_omitempty := get_b (d_omitempty opt) |}], tmy).

  Lemma arg_fold o Q vars : forall done tm fields tm',
    mfold (arg_step o Q) vars (done, tm) = Ok (fields, tm') ->
    map gf_json fields = map gf_json done ++ map vd_name vars
    /\ map gf_gql fields = map gf_gql done ++ map vd_name vars
    /\ Forall (fun v => mem_str (vd_name v) go_keywords = false) vars.
  Proof.
    induction vars as [|v r IH]; intros done tm fields tm' H; cbn [mfold] in H.
    - injection H as <- <-. rewrite !app_nil_r. repeat split. constructor.
    - apply bind_ok2 in H. destruct H as [[d1 t1] [Hs H]].
      unfold arg_step in Hs. destruct (mem_str (vd_name v) go_keywords) eqn:Ek; [discriminate|].
      apply bind_ok2 in Hs. destruct Hs as [D [_ Hs]]. apply bind_ok2 in Hs. destruct Hs as [[[g opt] tmy] [_ Hs]].
      injection Hs as <- <-. destruct (IH _ _ _ _ H) as [Hj [Hg Hk]].
      rewrite Hj, Hg, !map_app. cbn [map gf_json gf_gql]. rewrite <- !app_assoc. cbn [app]. repeat split.
      constructor; [exact Ek | exact Hk].
  Qed.

  (* the variables' struct: one field per declared variable, in declaration order, keyed by the
     variable's name; no variable is named by a Go keyword *)
  Theorem input_struct_has_one_field_per_variable o Q tm n tm' :
    convert_arguments sch cfg frags srcs o Q tm = Ok (Some n, tm') ->
    n = b "__" ++ op_name o ++ b "Input"
    /\ exists fields tm1,
         map gf_json fields = map vd_name (op_vars o)
         /\ map gf_gql fields = map vd_name (op_vars o)
         /\ Forall (fun v => mem_str (vd_name v) go_keywords = false) (op_vars o)
         /\ add_type tm1 n (DStruct n fields [] true) = Ok (GStruct n, tm').
  Proof.
    unfold convert_arguments. destruct (op_vars o) as [|v0 vs] eqn:Ev; [discriminate|]. cbv zeta. intro H.
    apply bind_ok2 in H. destruct H as [[fields tm1] [Hm H]]. apply bind_ok2 in H. destruct H as [[t tm2] [Ha H]].
    destruct t as [| | |sn| | | |]; try discriminate. injection H as E1 E2. subst sn tm2.
    change (mfold (arg_step o Q) (v0 :: vs) ([], tm) = Ok (fields, tm1)) in Hm.
    destruct (arg_fold _ _ _ _ _ _ _ Hm) as [Hj [Hg Hk]]. cbn [map app] in Hj, Hg.
    pose proof (add_type_sound _ _ _ _ _ Ha) as [_ [d' [_ [_ [_ Et]]]]].
    assert (En : n = b "__" ++ op_name o ++ b "Input") by (destruct d'; unfold decl_type in Et; try discriminate Et; injection Et as Et; exact Et).
    split; [exact En|]. exists fields, tm1. rewrite <- En in Ha. repeat split; assumption.
  Qed.

  (* operations without variables have no variables struct *)
  Theorem no_variables_no_struct o Q tm : op_vars o = [] -> convert_arguments sch cfg frags srcs o Q tm = Ok (None, tm).
  Proof. intro H. unfold convert_arguments. rewrite H. reflexivity. Qed.
End Args.
