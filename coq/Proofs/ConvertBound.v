(* C01, "no dangling type reference" at the converter's interfaces: every Go type that one of
   the four mutually recursive converter functions RETURNS -- and every field type of a field
   list that convert_selection_set returns -- names a declaration that is in the returned type
   map (built-in and bound types name nothing).  With Proofs/ConvertExt.v (declarations are never
   removed) the name stays declared until the end of the run: the response type of every
   operation and its input type are declared in the final type map. *)
From Verif Require Import Base.Str Gen.Consts Gen.Casing Gen.Enum Gen.Gql Gen.Doc Gen.Directive Gen.Convert Gen.Wf
  Proofs.DocProofs Proofs.ConvertProofs Proofs.DirectiveProofs Proofs.ConvertNoPanicFull Proofs.ConvertFuel Proofs.ConvertExt.
From Coq Require Import List.
Import ListNotations.

Module U := ConvertNoPanicFull.

(* the declaration a Go type refers to (through slices, pointers and the generic wrapper) exists *)
Definition bound (tm : typemap) (g : gotype) : Prop :=
  match unwrap g with
  | GStruct n | GIface n | GEnum n | GAlias n => assoc n tm <> None
  | _ => True
  end.
Definition fields_bound (tm : typemap) (fs : list gofield) : Prop := Forall (fun fl => bound tm (gf_type fl)) fs.

Lemma bound_ext tm tm' g : tm_ext tm tm' -> bound tm g -> bound tm' g.
Proof.
  unfold bound. intros He H. destruct (unwrap g); trivial;
    (destruct (assoc _ tm) as [d|] eqn:E; [rewrite (He _ _ E); discriminate | contradiction]).
Qed.
Lemma fields_bound_ext tm tm' fs : tm_ext tm tm' -> fields_bound tm fs -> fields_bound tm' fs.
Proof. intros He H. eapply Forall_impl; [|exact H]. intros fl Hb. exact (bound_ext _ _ _ He Hb). Qed.
Lemma bound_decl_type tm name d : assoc name tm = Some d -> bound tm (decl_type name d).
Proof. intro E. unfold bound. destruct d; cbn [decl_type unwrap]; rewrite E; discriminate. Qed.

Definition post {A} (P : typemap -> A -> Prop) (r : res (A * typemap)) : Prop :=
  match r with Ok (a, tm') => P tm' a | _ => True end.
Lemma post_ok {A} (P : typemap -> A -> Prop) r a tm' : post P r -> r = Ok (a, tm') -> P tm' a.
Proof. intros H ->. exact H. Qed.
Lemma ext_ok {A} tm (r : res (A * typemap)) a tm' : extends tm r -> r = Ok (a, tm') -> tm_ext tm tm'.
Proof. intros H ->. exact H. Qed.
Lemma post_bind {A B} (P : typemap -> B -> Prop) (r : res (A * typemap)) (k : A * typemap -> res (B * typemap)) :
  (forall a tm1, r = Ok (a, tm1) -> post P (k (a, tm1))) -> post P (bind r k).
Proof. destruct r as [[a tm1]| | |]; cbn [bind post]; trivial. intro H. exact (H a tm1 eq_refl). Qed.
Lemma post_bind_pure {B C} (P : typemap -> B -> Prop) (r : res C) (k : C -> res (B * typemap)) :
  (forall c, r = Ok c -> post P (k c)) -> post P (bind r k).
Proof. destruct r as [c| | |]; cbn [bind post]; trivial. intro H. exact (H c eq_refl). Qed.
Lemma post_bind1 {B} (P : typemap -> B -> Prop) (r : res typemap) (k : typemap -> res (B * typemap)) :
  (forall tm1, r = Ok tm1 -> post P (k tm1)) -> post P (bind r k).
Proof. destruct r as [tm1| | |]; cbn [bind post]; trivial. intro H. exact (H tm1 eq_refl). Qed.

(* an invariant carried through mfold *)
Lemma mfold_inv {A B} (Inv : B -> Prop) (step : B -> A -> res B) (l : list A) :
  (forall acc x acc', In x l -> Inv acc -> step acc x = Ok acc' -> Inv acc') ->
  forall acc accN, Inv acc -> mfold step l acc = Ok accN -> Inv accN.
Proof.
  induction l as [|x r IH]; intros H acc accN Hi E; cbn [mfold] in E.
  - injection E as <-. exact Hi.
  - destruct (step acc x) as [acc1| | |] eqn:E1; cbn [bind] in E; try discriminate.
    apply (IH (fun a y a' Hy => H a y a' (or_intror Hy)) acc1 accN); [|exact E].
    exact (H acc x acc1 (or_introl eq_refl) Hi E1).
Qed.

Lemma get_type_some_bound tm name gql sels t : get_type tm name gql sels = Ok (Some t) -> bound tm t.
Proof.
  unfold get_type. destruct (assoc name tm) as [d|] eqn:E; [|discriminate].
  destruct (negb (str_eqb (decl_gql d) gql)); [discriminate|].
  destruct (sels_match sels (decl_sel d)); [|discriminate]. intro H. injection H as <-. exact (bound_decl_type _ _ _ E).
Qed.
Lemma add_type_bound tm name d : post (fun tm' t => bound tm' t) (add_type tm name d).
Proof.
  unfold add_type. apply post_bind_pure. intros [t|] E; cbn [post].
  - exact (get_type_some_bound _ _ _ _ _ E).
  - apply bound_decl_type. cbn [assoc]. rewrite str_eqb_refl. reflexivity.
Qed.
Lemma assoc_tm_set_same tm n d : assoc n (tm_set tm n d) = Some d.
Proof.
  induction tm as [|[k v] r IH]; cbn [tm_set assoc]; [rewrite str_eqb_refl; reflexivity|].
  destruct (str_eqb k n) eqn:E; cbn [assoc].
  - apply str_eqb_eq in E. subst k. rewrite str_eqb_refl. reflexivity.
  - destruct (str_eqb n k) eqn:E2; [|exact IH]. apply str_eqb_eq in E2. subst k. rewrite str_eqb_refl in E. discriminate.
Qed.

Lemma dedup_fields_sub (P : gofield -> Prop) fs : forall a c us,
  Forall P fs -> dedup_fields fs a c = Ok us -> Forall P us.
Proof.
  induction fs as [|f r IH]; intros a c us HF E; cbn [dedup_fields] in E.
  - injection E as <-. constructor.
  - inversion HF as [|? ? Hf Hr]; subst.
    destruct (gf_json f) as [|j0 jr].
    + destruct (mem_str (reference (gf_type f)) a); [exact (IH _ _ _ Hr E)|].
      apply bind_ok' in E. destruct E as (rest & E1 & E2). injection E2 as <-. constructor; [exact Hf | exact (IH _ _ _ Hr E1)].
    + destruct (mem_str (j0 :: jr) c).
      * destruct (unwrap (gf_type f)); try discriminate; exact (IH _ _ _ Hr E).
      * apply bind_ok' in E. destruct E as (rest & E1 & E2). injection E2 as <-. constructor; [exact Hf | exact (IH _ _ _ Hr E1)].
Qed.

Lemma impl_for_bound tm impls gql i : impl_for tm impls gql = Some i -> assoc i tm <> None.
Proof.
  unfold impl_for.
  assert (G : forall acc, (forall j, acc = Some j -> assoc j tm <> None) ->
              fold_left (fun acc i0 => match assoc i0 tm with
                                       | Some d => if str_eqb (decl_gql d) gql then Some i0 else acc
                                       | None => acc end) impls acc = Some i -> assoc i tm <> None).
  { induction impls as [|x r IH]; intros acc Hacc E; cbn [fold_left] in E; [exact (Hacc _ E)|].
    refine (IH _ _ E). intros j Hj.
    destruct (assoc x tm) as [d|] eqn:Ex; [|exact (Hacc j Hj)].
    destruct (str_eqb (decl_gql d) gql); [|exact (Hacc j Hj)]. injection Hj as <-. rewrite Ex. discriminate. }
  apply G. intros j Hj. discriminate.
Qed.

(* the flatten tail shared by objects, interfaces, fragments and operations *)
Lemma flat_tail_bound tm1 (fields : list gofield) (fr : flat_res) (k : res (gotype * typemap)) s1 s2 s3 :
  fields_bound tm1 fields -> post (fun tm' t => bound tm' t) k ->
  post (fun tm' t => bound tm' t)
       (match fr with
        | FlatPanic => Panic s1
        | FlatIdx (Some i) => match nth_error fields i with Some fl => Ok (gf_type fl, tm1) | None => Panic s2 end
        | FlatIdx None => Panic s3
        | FlatErr => k
        end).
Proof.
  intros HF Hk. destruct fr as [|[i|]|]; cbn [post]; trivial.
  destruct (nth_error fields i) as [fl|] eqn:E; cbn [post]; trivial.
  exact (proj1 (Forall_forall _ _) HF fl (nth_error_In _ _ E)).
Qed.

Section Bound.
  Variable sch : schema.
  Variable cfg : config.
  Variable frags : list fragment.
  Variable srcs : list (list lkind).

  Notation ctype := (convert_type sch cfg frags srcs).
  Notation cdef := (convert_definition sch cfg frags srcs).
  Notation css := (convert_selection_set sch cfg frags srcs).
  Notation cnf := (convert_named_fragment sch cfg frags srcs).

  Notation Pt := (fun (tm' : typemap) (r : gotype * dir) => bound tm' (fst r)).
  Notation Pg := (fun (tm' : typemap) (g : gotype) => bound tm' g).
  Notation Pf := (fun (tm' : typemap) (fs : list gofield) => fields_bound tm' fs).

  Theorem convert_bound : forall f,
    (forall src prefix t sels opts Q tm, post Pt (ctype f src prefix t sels opts Q tm))
    /\ (forall src prefix def sels opts Q tm, post Pg (cdef f src prefix def sels opts Q tm))
    /\ (forall src prefix sels containing Q tm, post Pf (css f src prefix sels containing Q tm))
    /\ (forall fr tm, post Pg (cnf f fr tm)).
  Proof.
    induction f as [|f (IHt & IHd & IHs & IHn)].
    - repeat split; intros; exact I.
    - destruct (convert_extends sch cfg frags srcs f) as (Et & Ed & Es & En).
      split; [|split; [|split]].
      + (* convertType *)
        intros src prefix t sels opts Q tm. rewrite U.convert_type_S.
        destruct (nonempty (d_bind opts) && negb (str_eqb (d_bind opts) (b "-"))); [exact I|].
        destruct t as [n nn|e nn].
        * destruct (find_type sch n) as [def|]; [|exact I].
          apply post_bind. intros g tm' E. pose proof (post_ok _ _ _ _ (IHd _ _ _ _ _ _ _) E) as Hb. cbv beta iota zeta.
          destruct (struct_ref cfg def).
          { cbn [post fst]. destruct (d_pointer opts) as [[|]|]; exact Hb. }
          destruct (negb (pointer_is_false opts) && (get_b (d_pointer opts) || (negb nn && N.eqb (cfg_optional cfg) 1))); [exact Hb|].
          destruct (negb nn && N.eqb (cfg_optional cfg) 2); exact Hb.
        * apply post_bind. intros [g o] tm' E. exact (post_ok _ _ _ _ (IHt _ _ _ _ _ _ _) E).
      + (* convertDefinition *)
        intros src prefix def sels opts Q tm. rewrite U.convert_definition_S.
        assert (Htail : post Pg (U.def_tail sch cfg frags srcs f src prefix def sels opts Q tm)).
        { unfold U.def_tail.
          apply post_bind_pure. intros [name prefix'] _.
          apply post_bind_pure. intros [t0|] Eget; [exact (get_type_some_bound _ _ _ _ _ Eget)|].
          cbv zeta. match goal with |- post _ (match ?k with _ => _ end) => destruct k end.
          - (* scalar *) destruct (builtin_go (td_name def)); [apply add_type_bound | exact I].
          - (* object *)
            apply post_bind. intros fields tm1 E.
            apply flat_tail_bound; [exact (post_ok _ _ _ _ (IHs _ _ _ _ _ _) E) | apply add_type_bound].
          - (* interface *)
            apply post_bind. intros shared tm1 E.
            apply flat_tail_bound; [exact (post_ok _ _ _ _ (IHs _ _ _ _ _ _) E)|]. cbv zeta.
            apply post_bind. intros names tm2 _. apply add_type_bound.
          - (* union *)
            apply post_bind. intros shared tm1 E.
            apply flat_tail_bound; [exact (post_ok _ _ _ _ (IHs _ _ _ _ _ _) E)|]. cbv zeta.
            apply post_bind. intros names tm2 _. apply add_type_bound.
          - (* enum *)
            destruct (convert_enum name (for_enum (cfg_casing cfg) (td_name def)) (td_values def)); try exact I.
            apply add_type_bound.
          - (* input *)
            apply post_bind. intros t0 tm1 _. apply post_bind. intros fields tm2 _. cbn [post].
            unfold bound. cbn [unwrap]. rewrite assoc_tm_set_same. discriminate. }
        destruct (assoc (td_name def) (cfg_bindings cfg)) as [bd|].
        * destruct (str_eqb (d_bind opts) (b "-")); cbv beta iota.
          -- destruct (builtin_go (td_name def)) as [bg|];
               [destruct (nonempty (d_typename opts)); cbv beta iota; [exact Htail | exact I] | exact Htail].
          -- destruct (nonempty (d_typename opts)); exact I.
        * destruct (builtin_go (td_name def)) as [bg|];
            [destruct (nonempty (d_typename opts)); cbv beta iota; [exact Htail | exact I] | exact Htail].
      + (* convertSelectionSet *)
        intros src prefix sels containing Q tm. rewrite U.convert_selection_set_S2.
        apply post_bind. intros fields tm' E. apply post_bind_pure. intros uniq Eu. cbn [post].
        refine (dedup_fields_sub (fun fl => bound tm' (gf_type fl)) fields [] [] uniq _ Eu).
        (* the loop invariant: everything collected so far is declared in the current map *)
        refine (mfold_inv (fun acc : list gofield * typemap => fields_bound (snd acc) (fst acc)) _ sels _ ([], tm) (fields, tm') (Forall_nil _) E).
        intros [done tmx] s [done' tmy] _ Hinv Estep. cbn [fst snd] in *. unfold U.css_step in Estep.
        destruct s as [alias name fty parent extra sub line|cond extra sub line|name extra line].
        * apply bind_ok' in Estep. destruct Estep as (D & _ & Estep). cbv zeta in Estep.
          apply bind_ok' in Estep. destruct Estep as ([[g o] tmy'] & Ec & Estep). injection Estep as <- <-.
          pose proof (ext_ok _ _ _ _ (Et _ _ _ _ _ _ _) Ec) as Hext.
          apply Forall_app. split; [exact (fields_bound_ext _ _ _ Hext Hinv)|].
          constructor; [|constructor]. exact (post_ok _ _ _ _ (IHt _ _ _ _ _ _ _) Ec).
        * apply bind_ok' in Estep. destruct Estep as (D & _ & Estep).
          destruct (match cond with [] => Some containing | _ :: _ => find_type sch cond end) as [ft|]; [|discriminate].
          destruct (negb (fragment_matches containing ft)); [injection Estep as <- <-; exact Hinv|].
          apply bind_ok' in Estep. destruct Estep as ([fs tmy'] & Ec & Estep). injection Estep as <- <-.
          pose proof (ext_ok _ _ _ _ (Es _ _ _ _ _ _) Ec) as Hext.
          apply Forall_app. split; [exact (fields_bound_ext _ _ _ Hext Hinv)|].
          exact (post_ok _ _ _ _ (IHs _ _ _ _ _ _) Ec).
        * apply bind_ok' in Estep. destruct Estep as (D & _ & Estep).
          destruct (find_fragment frags name) as [fr|]; [|discriminate].
          destruct (find_type sch (fr_on fr)) as [ft|]; [|discriminate].
          destruct (negb (fragment_matches containing ft)); [injection Estep as <- <-; exact Hinv|].
          apply bind_ok' in Estep. destruct Estep as (e & Eget & Estep).
          apply bind_ok' in Estep. destruct Estep as ([g tmy'] & Ec & Estep). injection Estep as <- <-.
          assert (Hext : tm_ext tmx tmy' /\ bound tmy' g).
          { destruct e as [t|].
            - injection Ec as <- <-. split; [apply tm_ext_refl | exact (get_type_some_bound _ _ _ _ _ Eget)].
            - split; [exact (ext_ok _ _ _ _ (En _ _) Ec) | exact (post_ok _ _ _ _ (IHn _ _) Ec)]. }
          destruct Hext as (Hext & Hg).
          apply Forall_app. split; [exact (fields_bound_ext _ _ _ Hext Hinv)|].
          constructor; [|constructor]. cbn [gf_type].
          destruct g; try exact Hg. destruct (td_kind containing); try exact Hg.
          match goal with |- context [assoc ?n0 tmy'] => destruct (assoc n0 tmy') as [[| ? ? impls ? | |]|] end; try exact Hg.
          destruct (impl_for tmy' impls (td_name containing)) as [i|] eqn:Ei; [|exact Hg].
          unfold bound. cbn [unwrap]. exact (impl_for_bound _ _ _ _ Ei).
      + (* convertNamedFragment *)
        intros fr tm. rewrite U.convert_named_fragment_S.
        destruct (find_type sch (fr_on fr)) as [typ|]; [|exact I].
        apply post_bind_pure. intros D _.
        apply post_bind. intros fields tm1 E.
        apply flat_tail_bound; [exact (post_ok _ _ _ _ (IHs _ _ _ _ _ _) E)|].
        destruct (td_kind typ); try exact I.
        * (* object *)
          apply post_bind1. intros tm2 E2. cbn [post]. unfold bound. cbn [unwrap].
          unfold add_fragment_type in E2. destruct (assoc (fr_name fr) tm1); [discriminate|]. injection E2 as <-.
          cbn [assoc]. rewrite str_eqb_refl. discriminate.
        * cbv zeta. apply post_bind1. intros tm2 E2. apply post_bind1. intros tm3 E3. cbn [post].
          assert (H2 : assoc (fr_name fr) tm2 <> None).
          { unfold add_fragment_type in E2. destruct (assoc (fr_name fr) tm1); [discriminate|]. injection E2 as <-.
            cbn [assoc]. rewrite str_eqb_refl. discriminate. }
          assert (H3 : tm_ext tm2 tm3).
          { pose proof (extends1_mfold (fun (tmx : typemap) (idef : typedef) =>
                 bind (css f (fr_src fr) [fr_name fr] (fr_sel fr) idef D tmx)
                      (fun '(ifields, tmy) => add_fragment_type tmy (fr_name fr ++ upper_first (td_name idef))
                                                                (DStruct (td_name idef) ifields (fr_sel fr) false)))
                 (possible_types sch typ)) as Hm.
            specialize (Hm (fun tmx idef _ => extends1_bind _ _ _ (Es _ _ _ _ _ _)
                              (fun ifields tmy _ Hy => extends1_weaken _ _ _ Hy (add_fragment_type_extends _ _ _))) tm2).
            rewrite E3 in Hm. exact Hm. }
          unfold bound. cbn [unwrap]. destruct (assoc (fr_name fr) tm2) as [d|] eqn:Ed2; [|contradiction].
          rewrite (H3 _ _ Ed2). discriminate.
        * cbv zeta. apply post_bind1. intros tm2 E2. apply post_bind1. intros tm3 E3. cbn [post].
          assert (H2 : assoc (fr_name fr) tm2 <> None).
          { unfold add_fragment_type in E2. destruct (assoc (fr_name fr) tm1); [discriminate|]. injection E2 as <-.
            cbn [assoc]. rewrite str_eqb_refl. discriminate. }
          assert (H3 : tm_ext tm2 tm3).
          { pose proof (extends1_mfold (fun (tmx : typemap) (idef : typedef) =>
                 bind (css f (fr_src fr) [fr_name fr] (fr_sel fr) idef D tmx)
                      (fun '(ifields, tmy) => add_fragment_type tmy (fr_name fr ++ upper_first (td_name idef))
                                                                (DStruct (td_name idef) ifields (fr_sel fr) false)))
                 (possible_types sch typ)) as Hm.
            specialize (Hm (fun tmx idef _ => extends1_bind _ _ _ (Es _ _ _ _ _ _)
                              (fun ifields tmy _ Hy => extends1_weaken _ _ _ Hy (add_fragment_type_extends _ _ _))) tm2).
            rewrite E3 in Hm. exact Hm. }
          unfold bound. cbn [unwrap]. destruct (assoc (fr_name fr) tm2) as [d|] eqn:Ed2; [|contradiction].
          rewrite (H3 _ _ Ed2). discriminate.
  Qed.
End Bound.


(* ---- operations: the input and response types of every operation are declared at the end ---- *)
Definition op_declared (tm : typemap) (oi : opinfo) : Prop :=
  (forall n, oi_input oi = Some n -> assoc n tm <> None)
  /\ exists g, oi_response oi = reference g /\ bound tm g.

Lemma op_declared_ext tm tm' oi : tm_ext tm tm' -> op_declared tm oi -> op_declared tm' oi.
Proof.
  intros He (H1 & g & H2 & H3). split.
  - intros n Hn. specialize (H1 n Hn). destruct (assoc n tm) as [d|] eqn:E; [|contradiction]. rewrite (He _ _ E). discriminate.
  - exists g. split; [exact H2 | exact (bound_ext _ _ _ He H3)].
Qed.

Section OpsBound.
  Variable sch : schema.
  Variable cfg : config.
  Variable frags : list fragment.
  Variable srcs : list (list lkind).
  Variable fuel : nat.

  Lemma convert_arguments_bound o Q tm inp tm' :
    convert_arguments_with sch cfg frags srcs fuel o Q tm = Ok (inp, tm') ->
    forall n, inp = Some n -> assoc n tm' <> None.
  Proof.
    unfold convert_arguments_with. destruct (op_vars o) as [|v0 vars]; [intro H; injection H as <- <-; discriminate|].
    cbv zeta. intro H. apply bind_ok' in H. destruct H as ([fields tm1] & _ & H).
    apply bind_ok' in H. destruct H as ([t tm2] & Ea & H).
    pose proof (post_ok _ _ _ _ (add_type_bound _ _ _) Ea) as Hb.
    destruct t as [| | | | | | | ]; try discriminate. injection H as <- <-. intros n0 Hn. injection Hn as <-. exact Hb.
  Qed.

  Lemma convert_operation_bound o Q tm resp tm' :
    convert_operation_with sch cfg frags srcs fuel o Q tm = Ok (resp, tm') -> bound tm' resp.
  Proof.
    destruct (convert_bound sch cfg frags srcs fuel) as (_ & _ & IHs & _).
    unfold convert_operation_with. cbv zeta. destruct (root_type sch (op_kind o)) as [base|]; [|discriminate].
    intro H. apply bind_ok' in H. destruct H as ([fields tm1] & Es & H).
    pose proof (post_ok _ _ _ _ (IHs _ _ _ _ _ _) Es) as HF.
    pose proof (flat_tail_bound tm1 fields
                  (if get_b (d_flatten (fd_main Q)) then validate_flatten_option sch frags base (op_sel o) else FlatErr)
                  (add_type tm1 (if nonempty (d_typename (fd_main Q)) then d_typename (fd_main Q) else op_name o ++ b "Response")
                            (DStruct (td_name base) fields (op_sel o) false))
                  (b "validateFlattenOption: nil fragment definition") (b "flatten: fields[i] index out of range")
                  (b "flatten: fields[-1]") HF (add_type_bound _ _ _)) as HT.
    exact (post_ok _ _ _ _ HT H).
  Qed.

  Theorem add_operation_declares tm done o tm' done' :
    add_operation_with sch cfg frags srcs fuel (tm, done) o = Ok (tm', done') ->
    exists oi, done' = done ++ [oi] /\ op_declared tm' oi.
  Proof.
    unfold add_operation_with. destruct (op_name o) as [|c nm]; [discriminate|].
    destruct (mem_str (c :: nm) go_keywords); [discriminate|].
    intro H. apply bind_ok' in H. destruct H as (D & _ & H).
    apply bind_ok' in H. destruct H as ([inp tm1] & Ea & H).
    apply bind_ok' in H. destruct H as ([resp tm2] & Eo & H). injection H as <- <-.
    eexists. split; [reflexivity|]. split; cbn [oi_input oi_response].
    - intros n Hn. pose proof (convert_arguments_bound _ _ _ _ _ Ea n Hn) as Hb.
      pose proof (convert_operation_extends sch cfg frags srcs fuel o D tm1) as He. rewrite Eo in He. cbn [extends] in He.
      destruct (assoc n tm1) as [d|] eqn:E; [|contradiction]. rewrite (He _ _ E). discriminate.
    - exists resp. split; [reflexivity | exact (convert_operation_bound _ _ _ _ _ Eo)].
  Qed.

  (* the whole run: the input struct and the response type of EVERY operation are declared in
     the final type map *)
  Theorem generate_types_operation_types_declared ops tm infos :
    generate_types_with sch cfg frags srcs fuel ops = Ok (tm, infos) -> Forall (op_declared tm) infos.
  Proof.
    unfold generate_types_with.
    refine (mfold_inv (fun acc : typemap * list opinfo => Forall (op_declared (fst acc)) (snd acc)) _ ops _ ([], []) (tm, infos) (Forall_nil _)).
    intros [tm0 done0] o [tm1 done1] _ Hinv E. cbn [fst snd] in *.
    pose proof (add_operation_extends _ _ _ _ _ _ _ _ _ _ E) as (Hext & _).
    apply add_operation_declares in E. destruct E as (oi & -> & Hoi).
    apply Forall_app. split; [|constructor; [exact Hoi | constructor]].
    eapply Forall_impl; [|exact Hinv]. intros x Hx. exact (op_declared_ext _ _ _ Hext Hx).
  Qed.
End OpsBound.

Theorem generate_types_operation_types_declared_FUEL sch cfg frags srcs ops tm infos :
  generate_types sch cfg frags srcs ops = Ok (tm, infos) -> Forall (op_declared tm) infos.
Proof. rewrite <- generate_types_with_FUEL. apply generate_types_operation_types_declared. Qed.

Print Assumptions convert_bound.
Print Assumptions generate_types_operation_types_declared_FUEL.
