(* C01, "no dangling type reference" inside the declarations: the type map stays FIELD-CLOSED
   through every step of the converter -- whenever every field type of every struct declaration
   and every shared-field type of every interface declaration names a declaration of the map
   before a call, the same holds of the map the call returns.  The empty map is field-closed, so
   the final type map of every run is: no generated struct or interface getter mentions a type
   that the file does not declare (built-in and bound types name nothing here; they are imports). *)
From Verif Require Import Base.Str Gen.Consts Gen.Casing Gen.Enum Gen.Gql Gen.Doc Gen.Directive Gen.Convert Gen.Wf
  Proofs.DocProofs Proofs.ConvertProofs Proofs.DirectiveProofs Proofs.ConvertNoPanicFull Proofs.ConvertFuel Proofs.ConvertExt
  Proofs.ConvertBound.
From Coq Require Import List.
Import ListNotations.

Module U := ConvertNoPanicFull.

Definition decl_fields (d : godecl) : list gofield :=
  match d with DStruct _ fields _ _ => fields | DIface _ shared _ _ => shared | _ => [] end.

Definition closedF (tm : typemap) : Prop := forall n d, assoc n tm = Some d -> fields_bound tm (decl_fields d).

(* [bound] looks at the key set only *)
Definition keys_sub (tm tm' : typemap) : Prop := forall n, assoc n tm <> None -> assoc n tm' <> None.
Lemma bound_keys tm tm' g : keys_sub tm tm' -> bound tm g -> bound tm' g.
Proof. unfold bound. intros Hk H. destruct (unwrap g); trivial; exact (Hk _ H). Qed.
Lemma fields_bound_keys tm tm' fs : keys_sub tm tm' -> fields_bound tm fs -> fields_bound tm' fs.
Proof. intros Hk H. eapply Forall_impl; [|exact H]. intros fl Hb. exact (bound_keys _ _ _ Hk Hb). Qed.
Lemma keys_sub_ext tm tm' : tm_ext tm tm' -> keys_sub tm tm'.
Proof. intros He n H. destruct (assoc n tm) as [d|] eqn:E; [|contradiction]. rewrite (He _ _ E). discriminate. Qed.
Lemma keys_sub_tm_set tm n d : keys_sub tm (tm_set tm n d).
Proof.
  intros k H. destruct (str_eqb k n) eqn:E.
  - apply str_eqb_eq in E. subst k. rewrite assoc_tm_set_same. discriminate.
  - rewrite assoc_tm_set_other; assumption.
Qed.

Lemma closedF_nil : closedF [].
Proof. intros n d H. discriminate. Qed.

Lemma closedF_cons tm name d :
  closedF tm -> fields_bound tm (decl_fields d) -> closedF ((name, d) :: tm).
Proof.
  intros Hc Hd n x H. cbn [assoc] in H.
  assert (Hk : keys_sub tm ((name, d) :: tm)).
  { intros k Hk. cbn [assoc]. destruct (str_eqb k name); [discriminate | exact Hk]. }
  destruct (str_eqb n name).
  - injection H as <-. exact (fields_bound_keys _ _ _ Hk Hd).
  - exact (fields_bound_keys _ _ _ Hk (Hc _ _ H)).
Qed.

Lemma closedF_tm_set tm name d :
  closedF tm -> fields_bound tm (decl_fields d) -> closedF (tm_set tm name d).
Proof.
  intros Hc Hd n x H. destruct (str_eqb n name) eqn:E.
  - apply str_eqb_eq in E. subst n. rewrite assoc_tm_set_same in H. injection H as <-.
    exact (fields_bound_keys _ _ _ (keys_sub_tm_set _ _ _) Hd).
  - rewrite assoc_tm_set_other in H by exact E.
    exact (fields_bound_keys _ _ _ (keys_sub_tm_set _ _ _) (Hc _ _ H)).
Qed.

(* {closedF} r {closedF} *)
Definition cp {A} (tm : typemap) (r : res (A * typemap)) : Prop :=
  closedF tm -> match r with Ok (_, tm') => closedF tm' | _ => True end.
Definition cp1 (tm : typemap) (r : res typemap) : Prop :=
  closedF tm -> match r with Ok tm' => closedF tm' | _ => True end.

Lemma cp_ret {A} tm (a : A) : cp tm (Ok (a, tm)).
Proof. intro H. exact H. Qed.
Lemma cp_bind {A B} tm (r : res (A * typemap)) (k : A * typemap -> res (B * typemap)) :
  cp tm r -> (forall a tm1, r = Ok (a, tm1) -> cp tm1 (k (a, tm1))) -> cp tm (bind r k).
Proof.
  intros H1 H2 Hc. specialize (H1 Hc). destruct r as [[a tm1]| | |]; cbn [bind]; trivial. exact (H2 a tm1 eq_refl H1).
Qed.
Lemma cp_bind_pure {B C} tm (r : res C) (k : C -> res (B * typemap)) :
  (forall c, r = Ok c -> cp tm (k c)) -> cp tm (bind r k).
Proof. intros H Hc. destruct r as [c| | |]; cbn [bind]; trivial. exact (H c eq_refl Hc). Qed.
Lemma cp_bind1 {B} tm (r : res typemap) (k : typemap -> res (B * typemap)) :
  cp1 tm r -> (forall tm1, r = Ok tm1 -> cp tm1 (k tm1)) -> cp tm (bind r k).
Proof.
  intros H1 H2 Hc. specialize (H1 Hc). destruct r as [tm1| | |]; cbn [bind]; trivial. exact (H2 tm1 eq_refl H1).
Qed.
Lemma cp1_bind {A} tm (r : res (A * typemap)) (k : A * typemap -> res typemap) :
  cp tm r -> (forall a tm1, r = Ok (a, tm1) -> cp1 tm1 (k (a, tm1))) -> cp1 tm (bind r k).
Proof.
  intros H1 H2 Hc. specialize (H1 Hc). destruct r as [[a tm1]| | |]; cbn [bind]; trivial. exact (H2 a tm1 eq_refl H1).
Qed.
Lemma cp_mfold {A X} (step : A * typemap -> X -> res (A * typemap)) (l : list X) :
  (forall a tmx x, In x l -> cp tmx (step (a, tmx) x)) -> forall a tm, cp tm (mfold step l (a, tm)).
Proof.
  induction l as [|x r IH]; intros H a tm; [apply cp_ret|]. cbn [mfold].
  apply cp_bind; [apply H; left; reflexivity|]. intros a1 tm1 _. apply IH. intros a2 tmx y Hy. apply H. right; exact Hy.
Qed.
Lemma cp1_mfold {X} (step : typemap -> X -> res typemap) (l : list X) :
  (forall tmx x, In x l -> cp1 tmx (step tmx x)) -> forall tm, cp1 tm (mfold step l tm).
Proof.
  induction l as [|x r IH]; intros H tm Hc; [exact Hc|]. cbn [mfold].
  pose proof (H tm x (or_introl eq_refl) Hc) as H0.
  destruct (step tm x) as [tm1| | |]; cbn [bind]; trivial.
  exact (IH (fun tmx y Hy => H tmx y (or_intror Hy)) tm1 H0).
Qed.

Lemma add_type_closed tm name d : fields_bound tm (decl_fields d) -> cp tm (add_type tm name d).
Proof.
  intros Hd Hc. unfold add_type. destruct (get_type tm name (decl_gql d) (decl_sel d)) as [[t|]| | |]; cbn [bind]; trivial.
  exact (closedF_cons _ _ _ Hc Hd).
Qed.
Lemma add_fragment_type_closed tm name d : fields_bound tm (decl_fields d) -> cp1 tm (add_fragment_type tm name d).
Proof.
  intros Hd Hc. unfold add_fragment_type. destruct (assoc name tm); trivial. exact (closedF_cons _ _ _ Hc Hd).
Qed.

Lemma flat_tail_closed tm1 (fields : list gofield) (fr : flat_res) (k : res (gotype * typemap)) s1 s2 s3 :
  cp tm1 k ->
  cp tm1 (match fr with
          | FlatPanic => Panic s1
          | FlatIdx (Some i) => match nth_error fields i with Some fl => Ok (gf_type fl, tm1) | None => Panic s2 end
          | FlatIdx None => Panic s3
          | FlatErr => k
          end).
Proof.
  intros Hk. destruct fr as [|[i|]|]; try exact Hk; try (intro; exact I).
  destruct (nth_error fields i); [apply cp_ret | intro; exact I].
Qed.

Section Closed.
  Variable sch : schema.
  Variable cfg : config.
  Variable frags : list fragment.
  Variable srcs : list (list lkind).

  Notation ctype := (convert_type sch cfg frags srcs).
  Notation cdef := (convert_definition sch cfg frags srcs).
  Notation css := (convert_selection_set sch cfg frags srcs).
  Notation cnf := (convert_named_fragment sch cfg frags srcs).

  (* the fields collected by the input-object loop are declared in the map it returns *)
  Lemma input_fields_bound f src prefix' (def : typedef) Q tm1 fields tm2 :
    mfold (fun (acc : list gofield * typemap) (fd : fielddef) =>
             let '(done, tmx) := acc in
             do D <- pp sch frags srcs NOtherNode (Some (td_name def, fd_name fd)) None (Some Q);
             do (r, tmy) <- ctype f src prefix' (fd_type fd) [] (fd_main D) Q tmx;
             let '(g, o) := r in
             if negb (cfg_struct_refs cfg) && ty_nonnull (fd_type fd) && is_direct_ptr g && negb (get_b (d_omitempty o))
             then Err (b "input-pointer")
             else if negb (cfg_struct_refs cfg) && get_b (d_omitempty o) && ty_nonnull (fd_type fd) && negb (fd_has_default fd)
             then Err (b "input-omitempty")
             else Ok (done ++ [{| gf_name := cased cfg (fd_name fd); gf_type := g; gf_json := fd_name fd;
                                  gf_gql := fd_name fd; gf_omitempty := get_b (d_omitempty o) |}], tmy))
          (td_fields def) ([], tm1) = Ok (fields, tm2) ->
    fields_bound tm2 fields.
  Proof.
    destruct (convert_extends sch cfg frags srcs f) as (Et & _).
    destruct (convert_bound sch cfg frags srcs f) as (Bt & _).
    refine (mfold_inv (fun acc : list gofield * typemap => fields_bound (snd acc) (fst acc)) _ (td_fields def) _ ([], tm1) (fields, tm2) (Forall_nil _)).
    intros [done tmx] fd [done' tmy] _ Hinv E. cbn [fst snd] in *.
    apply bind_ok' in E. destruct E as (D & _ & E).
    apply bind_ok' in E. destruct E as ([[g o] tmy'] & Ec & E).
    destruct (negb (cfg_struct_refs cfg) && ty_nonnull (fd_type fd) && is_direct_ptr g && negb (get_b (d_omitempty o))); [discriminate|].
    destruct (negb (cfg_struct_refs cfg) && get_b (d_omitempty o) && ty_nonnull (fd_type fd) && negb (fd_has_default fd)); [discriminate|].
    injection E as <- <-.
    apply Forall_app. split; [exact (fields_bound_ext _ _ _ (ext_ok _ _ _ _ (Et _ _ _ _ _ _ _) Ec) Hinv)|].
    constructor; [|constructor]. exact (post_ok _ _ _ _ (Bt _ _ _ _ _ _ _) Ec).
  Qed.

  Theorem convert_closed : forall f,
    (forall src prefix t sels opts Q tm, cp tm (ctype f src prefix t sels opts Q tm))
    /\ (forall src prefix def sels opts Q tm, cp tm (cdef f src prefix def sels opts Q tm))
    /\ (forall src prefix sels containing Q tm, cp tm (css f src prefix sels containing Q tm))
    /\ (forall fr tm, cp tm (cnf f fr tm)).
  Proof.
    induction f as [|f (IHt & IHd & IHs & IHn)].
    - repeat split; intros; intro; exact I.
    - destruct (convert_extends sch cfg frags srcs f) as (Et & Ed & Es & En).
      destruct (convert_bound sch cfg frags srcs f) as (Bt & Bd & Bs & Bn).
      split; [|split; [|split]].
      + (* convertType *)
        intros src prefix t sels opts Q tm. rewrite U.convert_type_S.
        destruct (nonempty (d_bind opts) && negb (str_eqb (d_bind opts) (b "-"))); [apply cp_ret|].
        destruct t as [n nn|e nn].
        * destruct (find_type sch n) as [def|]; [|intro; exact I].
          apply cp_bind; [apply IHd|]. intros g tm' _. cbv beta iota zeta.
          destruct (struct_ref cfg def); [apply cp_ret|].
          destruct (negb (pointer_is_false opts) && (get_b (d_pointer opts) || (negb nn && N.eqb (cfg_optional cfg) 1))); [apply cp_ret|].
          destruct (negb nn && N.eqb (cfg_optional cfg) 2); apply cp_ret.
        * apply cp_bind; [apply IHt|]. intros [g o] tm' _. apply cp_ret.
      + (* convertDefinition *)
        intros src prefix def sels opts Q tm. rewrite U.convert_definition_S.
        assert (Htail : cp tm (U.def_tail sch cfg frags srcs f src prefix def sels opts Q tm)).
        { unfold U.def_tail.
          apply cp_bind_pure. intros [name prefix'] _.
          apply cp_bind_pure. intros [t0|] Eget; [apply cp_ret|].
          cbv zeta. match goal with |- cp _ (match ?k with _ => _ end) => destruct k end.
          - (* scalar *) destruct (builtin_go (td_name def)); [apply add_type_closed; constructor | intro; exact I].
          - (* object *)
            apply cp_bind; [apply IHs|]. intros fields tm1 E.
            apply flat_tail_closed. apply add_type_closed. exact (post_ok _ _ _ _ (Bs _ _ _ _ _ _) E).
          - (* interface *)
            apply cp_bind; [apply IHs|]. intros shared tm1 E.
            apply flat_tail_closed. cbv zeta.
            apply cp_bind.
            { apply cp_mfold. intros done tmx idef _.
              apply cp_bind; [apply IHd|]. intros g tmy _. destruct g; try (intro; exact I). apply cp_ret. }
            intros names tm2 E2. apply add_type_closed. cbn [decl_fields].
            refine (fields_bound_ext _ _ _ _ (post_ok _ _ _ _ (Bs _ _ _ _ _ _) E)).
            refine (ext_ok _ _ _ _ _ E2). apply extends_mfold. intros done tmx idef _.
            apply extends_bind; [apply Ed|]. intros g tmy _ Hy. destruct g; cbn [extends]; trivial.
          - (* union *)
            apply cp_bind; [apply IHs|]. intros shared tm1 E.
            apply flat_tail_closed. cbv zeta.
            apply cp_bind.
            { apply cp_mfold. intros done tmx idef _.
              apply cp_bind; [apply IHd|]. intros g tmy _. destruct g; try (intro; exact I). apply cp_ret. }
            intros names tm2 E2. apply add_type_closed. cbn [decl_fields].
            refine (fields_bound_ext _ _ _ _ (post_ok _ _ _ _ (Bs _ _ _ _ _ _) E)).
            refine (ext_ok _ _ _ _ _ E2). apply extends_mfold. intros done tmx idef _.
            apply extends_bind; [apply Ed|]. intros g tmy _ Hy. destruct g; cbn [extends]; trivial.
          - (* enum *)
            destruct (convert_enum name (for_enum (cfg_casing cfg) (td_name def)) (td_values def)); try (intro; exact I).
            apply add_type_closed. constructor.
          - (* input *)
            apply cp_bind; [apply add_type_closed; constructor|]. intros t0 tm1 _.
            apply cp_bind.
            { apply cp_mfold. intros done tmx fd _.
              apply cp_bind_pure. intros D _.
              apply cp_bind; [apply IHt|]. intros [g o] tmy _.
              destruct (negb (cfg_struct_refs cfg) && ty_nonnull (fd_type fd) && is_direct_ptr g && negb (get_b (d_omitempty o))); [intro; exact I|].
              destruct (negb (cfg_struct_refs cfg) && get_b (d_omitempty o) && ty_nonnull (fd_type fd) && negb (fd_has_default fd)); [intro; exact I|].
              apply cp_ret. }
            intros fields tm2 E2 Hc2. apply closedF_tm_set; [exact Hc2|]. cbn [decl_fields].
            exact (input_fields_bound _ _ _ _ _ _ _ _ E2). }
        destruct (assoc (td_name def) (cfg_bindings cfg)) as [bd|].
        * destruct (str_eqb (d_bind opts) (b "-")); cbv beta iota.
          -- destruct (builtin_go (td_name def)) as [bg|];
               [destruct (nonempty (d_typename opts)); cbv beta iota; [exact Htail | apply cp_ret] | exact Htail].
          -- destruct (nonempty (d_typename opts)); [intro; exact I | apply cp_ret].
        * destruct (builtin_go (td_name def)) as [bg|];
            [destruct (nonempty (d_typename opts)); cbv beta iota; [exact Htail | apply cp_ret] | exact Htail].
      + (* convertSelectionSet *)
        intros src prefix sels containing Q tm. rewrite U.convert_selection_set_S2.
        apply cp_bind.
        2:{ intros fields tm' _. apply cp_bind_pure. intros uniq _. apply cp_ret. }
        apply cp_mfold. intros done tmx s _. unfold U.css_step.
        destruct s as [alias name fty parent extra sub line|cond extra sub line|name extra line].
        * apply cp_bind_pure. intros D _. cbv zeta.
          apply cp_bind; [apply IHt|]. intros [g o] tmy _. apply cp_ret.
        * apply cp_bind_pure. intros D _.
          destruct (match cond with [] => Some containing | _ :: _ => find_type sch cond end) as [ft|]; [|intro; exact I].
          destruct (negb (fragment_matches containing ft)); [apply cp_ret|].
          apply cp_bind; [apply IHs|]. intros fs tmy _. apply cp_ret.
        * apply cp_bind_pure. intros D _.
          destruct (find_fragment frags name) as [fr|]; [|intro; exact I].
          destruct (find_type sch (fr_on fr)) as [ft|]; [|intro; exact I].
          destruct (negb (fragment_matches containing ft)); [apply cp_ret|].
          apply cp_bind_pure. intros e _.
          apply cp_bind; [destruct e; [apply cp_ret | apply IHn]|]. intros g tmy _. apply cp_ret.
      + (* convertNamedFragment *)
        intros fr tm. rewrite U.convert_named_fragment_S.
        destruct (find_type sch (fr_on fr)) as [typ|]; [|intro; exact I].
        apply cp_bind_pure. intros D _.
        apply cp_bind; [apply IHs|]. intros fields tm1 E.
        pose proof (post_ok _ _ _ _ (Bs _ _ _ _ _ _) E) as HF.
        apply flat_tail_closed.
        destruct (td_kind typ); try (intro; exact I).
        * (* object *)
          apply cp_bind1; [apply add_fragment_type_closed; exact HF|]. intros tm2 _. apply cp_ret.
        * cbv zeta. apply cp_bind1; [apply add_fragment_type_closed; exact HF|]. intros tm2 _.
          apply cp_bind1; [|intros tm3 _; apply cp_ret].
          apply cp1_mfold. intros tmx idef _.
          apply cp1_bind; [apply IHs|]. intros ifields tmy Ei.
          apply add_fragment_type_closed. exact (post_ok _ _ _ _ (Bs _ _ _ _ _ _) Ei).
        * cbv zeta. apply cp_bind1; [apply add_fragment_type_closed; exact HF|]. intros tm2 _.
          apply cp_bind1; [|intros tm3 _; apply cp_ret].
          apply cp1_mfold. intros tmx idef _.
          apply cp1_bind; [apply IHs|]. intros ifields tmy Ei.
          apply add_fragment_type_closed. exact (post_ok _ _ _ _ (Bs _ _ _ _ _ _) Ei).
  Qed.
End Closed.


Section OpsClosed.
  Variable sch : schema.
  Variable cfg : config.
  Variable frags : list fragment.
  Variable srcs : list (list lkind).
  Variable fuel : nat.

  Lemma convert_arguments_closed o Q tm : cp tm (convert_arguments_with sch cfg frags srcs fuel o Q tm).
  Proof.
    destruct (convert_closed sch cfg frags srcs fuel) as (IHt & _).
    destruct (convert_extends sch cfg frags srcs fuel) as (Et & _).
    destruct (convert_bound sch cfg frags srcs fuel) as (Bt & _).
    unfold convert_arguments_with. destruct (op_vars o) as [|v0 vars]; [apply cp_ret|].
    cbv zeta. apply cp_bind.
    { apply cp_mfold. intros done tmx v _.
      destruct (mem_str (vd_name v) go_keywords); [intro; exact I|].
      apply cp_bind_pure. intros D _.
      apply cp_bind; [apply IHt|]. intros [g opt] tmy _. apply cp_ret. }
    intros fields tm1 E.
    apply cp_bind.
    2:{ intros t tm2 _. destruct t; try (intro; exact I). apply cp_ret. }
    apply add_type_closed. cbn [decl_fields].
    refine (mfold_inv (fun acc : list gofield * typemap => fields_bound (snd acc) (fst acc)) _ (v0 :: vars) _ ([], tm) (fields, tm1) (Forall_nil _) E).
    intros [done tmx] v [done' tmy] _ Hinv Ev. cbn [fst snd] in *.
    destruct (mem_str (vd_name v) go_keywords); [discriminate|].
    apply bind_ok' in Ev. destruct Ev as (D & _ & Ev).
    apply bind_ok' in Ev. destruct Ev as ([[g opt] tmy'] & Ec & Ev). injection Ev as <- <-.
    apply Forall_app. split; [exact (fields_bound_ext _ _ _ (ext_ok _ _ _ _ (Et _ _ _ _ _ _ _) Ec) Hinv)|].
    constructor; [|constructor]. exact (post_ok _ _ _ _ (Bt _ _ _ _ _ _ _) Ec).
  Qed.

  Lemma convert_operation_closed o Q tm : cp tm (convert_operation_with sch cfg frags srcs fuel o Q tm).
  Proof.
    destruct (convert_closed sch cfg frags srcs fuel) as (_ & _ & IHs & _).
    destruct (convert_bound sch cfg frags srcs fuel) as (_ & _ & Bs & _).
    unfold convert_operation_with. cbv zeta. destruct (root_type sch (op_kind o)) as [base|]; [|intro; exact I].
    apply cp_bind; [apply IHs|]. intros fields tm1 E.
    apply flat_tail_closed. apply add_type_closed. exact (post_ok _ _ _ _ (Bs _ _ _ _ _ _) E).
  Qed.

  Lemma add_operation_closed tm done o tm' done' :
    add_operation_with sch cfg frags srcs fuel (tm, done) o = Ok (tm', done') -> closedF tm -> closedF tm'.
  Proof.
    unfold add_operation_with. destruct (op_name o) as [|c nm]; [discriminate|].
    destruct (mem_str (c :: nm) go_keywords); [discriminate|].
    intro H. apply bind_ok' in H. destruct H as (D & _ & H).
    apply bind_ok' in H. destruct H as ([inp tm1] & Ea & H).
    apply bind_ok' in H. destruct H as ([resp tm2] & Eo & H). injection H as <- <-.
    intro Hc. pose proof (convert_arguments_closed o D tm Hc) as H1. rewrite Ea in H1.
    pose proof (convert_operation_closed o D tm1 H1) as H2. rewrite Eo in H2. exact H2.
  Qed.

  (* the final type map of every run is field-closed: no struct field and no interface getter
     of any declaration mentions a type that is not declared *)
  Theorem generate_types_closed ops tm infos :
    generate_types_with sch cfg frags srcs fuel ops = Ok (tm, infos) -> closedF tm.
  Proof.
    unfold generate_types_with.
    refine (mfold_inv (fun acc : typemap * list opinfo => closedF (fst acc)) _ ops _ ([], []) (tm, infos) closedF_nil).
    intros [tm0 done0] o [tm1 done1] _ Hinv E. cbn [fst] in *. exact (add_operation_closed _ _ _ _ _ E Hinv).
  Qed.
End OpsClosed.

Theorem generate_types_closed_FUEL sch cfg frags srcs ops tm infos :
  generate_types sch cfg frags srcs ops = Ok (tm, infos) -> closedF tm.
Proof. rewrite <- generate_types_with_FUEL. apply generate_types_closed. Qed.

(* non-vacuity: the witness program of ConvertFuel.v generates, and its type map has struct
   declarations with fields of declared struct / interface types *)
Example t_closed_witness :
  exists tm infos, generate_types t_schema w_cfg t_frags [] [t_op] = Ok (tm, infos) /\ closedF tm
    /\ exists n d fl m, assoc n tm = Some d /\ In fl (decl_fields d) /\ unwrap (gf_type fl) = GStruct m.
Proof.
  destruct (generate_types t_schema w_cfg t_frags [] [t_op]) as [[tm infos]| | |] eqn:E; try (vm_compute in E; discriminate).
  exists tm, infos. split; [reflexivity|]. split; [exact (generate_types_closed_FUEL _ _ _ _ _ _ _ E)|].
  vm_compute in E. injection E as <- <-.
  match goal with |- exists n d fl m, assoc n ?T = _ /\ _ /\ _ =>
    let w := eval vm_compute in
      (find (fun nd => existsb (fun fl => match unwrap (gf_type fl) with GStruct _ => true | _ => false end) (decl_fields (snd nd))) T) in
    match w with
    | Some (?n, ?d) =>
        let fw := eval vm_compute in (find (fun fl => match unwrap (gf_type fl) with GStruct _ => true | _ => false end) (decl_fields d)) in
        match fw with Some ?fl =>
          let mw := eval vm_compute in (unwrap (gf_type fl)) in
          match mw with GStruct ?m => exists n, d, fl, m end end
    end
  end.
  split; [vm_compute; reflexivity|]. split; [vm_compute; tauto | vm_compute; reflexivity].
Qed.

Print Assumptions convert_closed.
Print Assumptions generate_types_closed_FUEL.
Print Assumptions t_closed_witness.
