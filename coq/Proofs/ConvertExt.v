(* C09, "adding an operation never changes the Go API of another", for the converter
   (Gen/Convert.v): no step of the four mutually recursive functions, of the argument / operation
   converters or of the operation loop ever CHANGES OR REMOVES a declaration that the type map
   already holds.  The only place that rewrites an entry (tm_set, for input objects) rewrites
   the placeholder it registered itself a moment earlier under a name that was absent from the
   incoming map.  Consequence: the declarations and operation entries generated for a list of
   operations are all there, unchanged, when further operations follow. *)
From Verif Require Import Base.Str Gen.Consts Gen.Casing Gen.Enum Gen.Gql Gen.Doc Gen.Directive Gen.Convert Gen.Wf
  Proofs.DocProofs Proofs.ConvertProofs Proofs.DirectiveProofs Proofs.ConvertNoPanicFull Proofs.ConvertFuel.
From Coq Require Import List.
Import ListNotations.

Module U := ConvertNoPanicFull.

Definition tm_ext (tm tm' : typemap) : Prop := forall n d, assoc n tm = Some d -> assoc n tm' = Some d.

Lemma tm_ext_refl tm : tm_ext tm tm.
Proof. intros n d H. exact H. Qed.
Lemma tm_ext_trans a c d : tm_ext a c -> tm_ext c d -> tm_ext a d.
Proof. intros H1 H2 n x H. apply H2, H1, H. Qed.
Lemma tm_ext_cons tm n d : assoc n tm = None -> tm_ext tm ((n, d) :: tm).
Proof.
  intros Hn k x H. cbn [assoc]. destruct (str_eqb k n) eqn:E; [|exact H].
  apply str_eqb_eq in E. subst k. rewrite Hn in H. discriminate.
Qed.
Lemma assoc_tm_set_other tm n d k : str_eqb k n = false -> assoc k (tm_set tm n d) = assoc k tm.
Proof.
  intro Hk. induction tm as [|[k' v] r IH]; cbn [tm_set assoc].
  - rewrite Hk. reflexivity.
  - destruct (str_eqb k' n) eqn:E; cbn [assoc].
    + apply str_eqb_eq in E. subst k'. rewrite Hk. reflexivity.
    + destruct (str_eqb k k'); [reflexivity | exact IH].
Qed.

(* results that carry a type map next to a value / results that are a type map *)
Definition extends {A} (tm : typemap) (r : res (A * typemap)) : Prop :=
  match r with Ok (_, tm') => tm_ext tm tm' | _ => True end.
Definition extends1 (tm : typemap) (r : res typemap) : Prop :=
  match r with Ok tm' => tm_ext tm tm' | _ => True end.

Lemma extends_bind {A B} tm (r : res (A * typemap)) (k : A * typemap -> res (B * typemap)) :
  extends tm r -> (forall a tm1, r = Ok (a, tm1) -> tm_ext tm tm1 -> extends tm (k (a, tm1))) -> extends tm (bind r k).
Proof.
  destruct r as [[a tm1]| | |]; cbn [bind extends]; trivial. intros H1 H2. exact (H2 a tm1 eq_refl H1).
Qed.
Lemma extends_weaken {A} tm tm1 (r : res (A * typemap)) : tm_ext tm tm1 -> extends tm1 r -> extends tm r.
Proof. destruct r as [[a tm2]| | |]; cbn [extends]; trivial. intros H1 H2. exact (tm_ext_trans _ _ _ H1 H2). Qed.
Lemma extends_bind_pure {B C} tm (r : res C) (k : C -> res (B * typemap)) :
  (forall c, r = Ok c -> extends tm (k c)) -> extends tm (bind r k).
Proof. destruct r as [c| | |]; cbn [bind extends]; trivial. intro H. exact (H c eq_refl). Qed.
Lemma extends_bind1 {B} tm (r : res typemap) (k : typemap -> res (B * typemap)) :
  extends1 tm r -> (forall tm1, r = Ok tm1 -> tm_ext tm tm1 -> extends tm (k tm1)) -> extends tm (bind r k).
Proof. destruct r as [tm1| | |]; cbn [bind extends extends1]; trivial. intros H1 H2. exact (H2 tm1 eq_refl H1). Qed.
Lemma extends1_bind {A} tm (r : res (A * typemap)) (k : A * typemap -> res typemap) :
  extends tm r -> (forall a tm1, r = Ok (a, tm1) -> tm_ext tm tm1 -> extends1 tm (k (a, tm1))) -> extends1 tm (bind r k).
Proof. destruct r as [[a tm1]| | |]; cbn [bind extends extends1]; trivial. intros H1 H2. exact (H2 a tm1 eq_refl H1). Qed.
Lemma extends1_weaken tm tm1 (r : res typemap) : tm_ext tm tm1 -> extends1 tm1 r -> extends1 tm r.
Proof. destruct r as [tm2| | |]; cbn [extends1]; trivial. intros H1 H2. exact (tm_ext_trans _ _ _ H1 H2). Qed.

Lemma extends_mfold {A X} (step : A * typemap -> X -> res (A * typemap)) (l : list X) :
  (forall a tmx x, In x l -> extends tmx (step (a, tmx) x)) -> forall a tm, extends tm (mfold step l (a, tm)).
Proof.
  induction l as [|x r IH]; intros H a tm; [apply tm_ext_refl|]. cbn [mfold].
  apply extends_bind; [apply H; left; reflexivity|]. intros a1 tm1 _ H1.
  apply (extends_weaken _ _ _ H1). apply IH. intros a2 tmx y Hy. apply H. right; exact Hy.
Qed.
Lemma extends1_mfold {X} (step : typemap -> X -> res typemap) (l : list X) :
  (forall tmx x, In x l -> extends1 tmx (step tmx x)) -> forall tm, extends1 tm (mfold step l tm).
Proof.
  induction l as [|x r IH]; intros H tm; [apply tm_ext_refl|]. cbn [mfold].
  specialize (H tm x (or_introl eq_refl)) as H0.
  destruct (step tm x) as [tm1| | |]; cbn [bind extends1] in *; trivial.
  apply (extends1_weaken _ _ _ H0). apply IH. intros tmx y Hy. apply H. right; exact Hy.
Qed.

Lemma get_type_none tm name gql sels : get_type tm name gql sels = Ok None -> assoc name tm = None.
Proof.
  unfold get_type. destruct (assoc name tm) as [d|]; [|reflexivity].
  destruct (negb (str_eqb (decl_gql d) gql)); [discriminate|]. destruct (sels_match sels (decl_sel d)); discriminate.
Qed.
Lemma add_type_extends tm name d : extends tm (add_type tm name d).
Proof.
  unfold add_type. apply extends_bind_pure. intros [t|] E; cbn [extends]; [apply tm_ext_refl|].
  apply tm_ext_cons. exact (get_type_none _ _ _ _ E).
Qed.
Lemma add_fragment_type_extends tm name d : extends1 tm (add_fragment_type tm name d).
Proof.
  unfold add_fragment_type. destruct (assoc name tm) eqn:E; cbn [extends1]; trivial. apply tm_ext_cons. exact E.
Qed.

(* the flatten tail shared by objects, interfaces, fragments and operations *)
Lemma flat_tail_extends tm tm1 (fields : list gofield) (fr : flat_res) (k : res (gotype * typemap)) s1 s2 s3 :
  tm_ext tm tm1 -> extends tm k ->
  extends tm (match fr with
              | FlatPanic => Panic s1
              | FlatIdx (Some i) => match nth_error fields i with Some fl => Ok (gf_type fl, tm1) | None => Panic s2 end
              | FlatIdx None => Panic s3
              | FlatErr => k
              end).
Proof.
  intros H1 Hk. destruct fr as [|[i|]|]; cbn [extends]; trivial.
  destruct (nth_error fields i); cbn [extends]; trivial.
Qed.

Section Ext.
  Variable sch : schema.
  Variable cfg : config.
  Variable frags : list fragment.
  Variable srcs : list (list lkind).

  Notation ctype := (convert_type sch cfg frags srcs).
  Notation cdef := (convert_definition sch cfg frags srcs).
  Notation css := (convert_selection_set sch cfg frags srcs).
  Notation cnf := (convert_named_fragment sch cfg frags srcs).

  Theorem convert_extends : forall f,
    (forall src prefix t sels opts Q tm, extends tm (ctype f src prefix t sels opts Q tm))
    /\ (forall src prefix def sels opts Q tm, extends tm (cdef f src prefix def sels opts Q tm))
    /\ (forall src prefix sels containing Q tm, extends tm (css f src prefix sels containing Q tm))
    /\ (forall fr tm, extends tm (cnf f fr tm)).
  Proof.
    induction f as [|f (IHt & IHd & IHs & IHn)].
    - repeat split; intros; exact I.
    - split; [|split; [|split]].
      + (* convertType *)
        intros src prefix t sels opts Q tm. rewrite U.convert_type_S.
        destruct (nonempty (d_bind opts) && negb (str_eqb (d_bind opts) (b "-"))); [apply tm_ext_refl|].
        destruct t as [n nn|e nn].
        * destruct (find_type sch n) as [def|]; [|exact I].
          apply extends_bind; [apply IHd|]. intros g tm' _ H1. cbv beta iota zeta.
          destruct (struct_ref cfg def); [exact H1|].
          destruct (negb (pointer_is_false opts) && (get_b (d_pointer opts) || (negb nn && N.eqb (cfg_optional cfg) 1))); [exact H1|].
          destruct (negb nn && N.eqb (cfg_optional cfg) 2); exact H1.
        * apply extends_bind; [apply IHt|]. intros [g o] tm' _ H1. exact H1.
      + (* convertDefinition *)
        intros src prefix def sels opts Q tm. rewrite U.convert_definition_S.
        assert (Htail : extends tm (U.def_tail sch cfg frags srcs f src prefix def sels opts Q tm)).
        { unfold U.def_tail.
          apply extends_bind_pure. intros [name prefix'] _.
          apply extends_bind_pure. intros [t0|] Eget; [apply tm_ext_refl|].
          pose proof (get_type_none _ _ _ _ Eget) as Hnone.
          cbv zeta. match goal with |- extends _ (match ?k with _ => _ end) => destruct k end.
          - (* scalar *) destruct (builtin_go (td_name def)); [apply add_type_extends | exact I].
          - (* object *)
            apply extends_bind; [apply IHs|]. intros fields tm1 _ H1.
            apply flat_tail_extends; [exact H1|]. apply (extends_weaken _ _ _ H1), add_type_extends.
          - (* interface *)
            apply extends_bind; [apply IHs|]. intros shared tm1 _ H1.
            apply flat_tail_extends; [exact H1|]. cbv zeta.
            apply (extends_weaken _ _ _ H1).
            apply extends_bind.
            { apply extends_mfold. intros done tmx idef _.
              apply extends_bind; [apply IHd|]. intros g tmy _ Hy. destruct g; cbn [extends]; trivial. }
            intros names tm2 _ H2. apply (extends_weaken _ _ _ H2), add_type_extends.
          - (* union *)
            apply extends_bind; [apply IHs|]. intros shared tm1 _ H1.
            apply flat_tail_extends; [exact H1|]. cbv zeta.
            apply (extends_weaken _ _ _ H1).
            apply extends_bind.
            { apply extends_mfold. intros done tmx idef _.
              apply extends_bind; [apply IHd|]. intros g tmy _ Hy. destruct g; cbn [extends]; trivial. }
            intros names tm2 _ H2. apply (extends_weaken _ _ _ H2), add_type_extends.
          - (* enum *)
            destruct (convert_enum name (for_enum (cfg_casing cfg) (td_name def)) (td_values def)); try exact I.
            apply add_type_extends.
          - (* input: the placeholder is registered under a name the incoming map does not have,
               and only that entry is rewritten afterwards *)
            apply extends_bind; [apply add_type_extends|]. intros t0 tm1 _ H1.
            apply extends_bind.
            { apply (extends_weaken _ _ _ H1). apply extends_mfold. intros done tmx fd _.
              apply extends_bind_pure. intros D _.
              apply extends_bind; [apply IHt|]. intros [g o] tmy _ Hy.
              destruct (negb (cfg_struct_refs cfg) && ty_nonnull (fd_type fd) && is_direct_ptr g && negb (get_b (d_omitempty o))); [exact I|].
              destruct (negb (cfg_struct_refs cfg) && get_b (d_omitempty o) && ty_nonnull (fd_type fd) && negb (fd_has_default fd)); [exact I|].
              exact Hy. }
            intros fields tm2 _ H2. cbn [extends]. intros k x Hk.
            rewrite assoc_tm_set_other; [exact (H2 k x Hk)|].
            apply str_eqb_neq. intro Heq. subst k. rewrite Hnone in Hk. discriminate. }
        destruct (assoc (td_name def) (cfg_bindings cfg)) as [bd|].
        * destruct (str_eqb (d_bind opts) (b "-")); cbv beta iota.
          -- destruct (builtin_go (td_name def)) as [bg|];
               [destruct (nonempty (d_typename opts)); cbv beta iota; [exact Htail | apply tm_ext_refl] | exact Htail].
          -- destruct (nonempty (d_typename opts)); [exact I | apply tm_ext_refl].
        * destruct (builtin_go (td_name def)) as [bg|];
            [destruct (nonempty (d_typename opts)); cbv beta iota; [exact Htail | apply tm_ext_refl] | exact Htail].
      + (* convertSelectionSet *)
        intros src prefix sels containing Q tm. rewrite U.convert_selection_set_S2.
        apply extends_bind.
        2:{ intros fields tm' _ H1. apply extends_bind_pure. intros uniq _. exact H1. }
        apply extends_mfold. intros done tmx s _. unfold U.css_step.
        destruct s as [alias name fty parent extra sub line|cond extra sub line|name extra line].
        * apply extends_bind_pure. intros D _. cbv zeta.
          apply extends_bind; [apply IHt|]. intros [g o] tmy _ Hy. exact Hy.
        * apply extends_bind_pure. intros D _.
          destruct (match cond with [] => Some containing | _ :: _ => find_type sch cond end) as [ft|]; [|exact I].
          destruct (negb (fragment_matches containing ft)); [apply tm_ext_refl|].
          apply extends_bind; [apply IHs|]. intros fs tmy _ Hy. exact Hy.
        * apply extends_bind_pure. intros D _.
          destruct (find_fragment frags name) as [fr|]; [|exact I].
          destruct (find_type sch (fr_on fr)) as [ft|]; [|exact I].
          destruct (negb (fragment_matches containing ft)); [apply tm_ext_refl|].
          apply extends_bind_pure. intros e _.
          apply extends_bind; [destruct e; [apply tm_ext_refl | apply IHn]|]. intros g tmy _ Hy. exact Hy.
      + (* convertNamedFragment *)
        intros fr tm. rewrite U.convert_named_fragment_S.
        destruct (find_type sch (fr_on fr)) as [typ|]; [|exact I].
        apply extends_bind_pure. intros D _.
        apply extends_bind; [apply IHs|]. intros fields tm1 _ H1.
        apply flat_tail_extends; [exact H1|]. apply (extends_weaken _ _ _ H1).
        destruct (td_kind typ); try exact I.
        * (* object *)
          apply extends_bind1; [apply add_fragment_type_extends|]. intros tm2 _ H2. exact H2.
        * cbv zeta. apply extends_bind1; [apply add_fragment_type_extends|]. intros tm2 _ H2.
          apply extends_bind1.
          { apply (extends1_weaken _ _ _ H2). apply extends1_mfold. intros tmx idef _.
            apply extends1_bind; [apply IHs|]. intros ifields tmy _ Hy.
            apply (extends1_weaken _ _ _ Hy), add_fragment_type_extends. }
          intros tm3 _ H3. exact H3.
        * cbv zeta. apply extends_bind1; [apply add_fragment_type_extends|]. intros tm2 _ H2.
          apply extends_bind1.
          { apply (extends1_weaken _ _ _ H2). apply extends1_mfold. intros tmx idef _.
            apply extends1_bind; [apply IHs|]. intros ifields tmy _ Hy.
            apply (extends1_weaken _ _ _ Hy), add_fragment_type_extends. }
          intros tm3 _ H3. exact H3.
  Qed.
End Ext.

(* ---- arguments, operations, the operation loop (with an explicit fuel, as in ConvertFuel.v) ---- *)
Section Ops.
  Variable sch : schema.
  Variable cfg : config.
  Variable frags : list fragment.
  Variable srcs : list (list lkind).
  Variable fuel : nat.

  Lemma convert_arguments_extends o Q tm : extends tm (convert_arguments_with sch cfg frags srcs fuel o Q tm).
  Proof.
    destruct (convert_extends sch cfg frags srcs fuel) as (IHt & _).
    unfold convert_arguments_with. destruct (op_vars o) as [|v0 vars]; [apply tm_ext_refl|].
    cbv zeta. apply extends_bind.
    { apply extends_mfold. intros done tmx v _.
      destruct (mem_str (vd_name v) go_keywords); [exact I|].
      apply extends_bind_pure. intros D _.
      apply extends_bind; [apply IHt|]. intros [g opt] tmy _ Hy. exact Hy. }
    intros fields tm1 _ H1. apply (extends_weaken _ _ _ H1).
    apply extends_bind; [apply add_type_extends|]. intros t tm2 _ H2. destruct t; cbn [extends]; trivial.
  Qed.

  Lemma convert_operation_extends o Q tm : extends tm (convert_operation_with sch cfg frags srcs fuel o Q tm).
  Proof.
    destruct (convert_extends sch cfg frags srcs fuel) as (_ & _ & IHs & _).
    unfold convert_operation_with. cbv zeta. destruct (root_type sch (op_kind o)) as [base|]; [|exact I].
    apply extends_bind; [apply IHs|]. intros fields tm1 _ H1.
    apply flat_tail_extends; [exact H1|]. apply (extends_weaken _ _ _ H1), add_type_extends.
  Qed.

  (* one more operation: every declaration is kept, the operation list gets a suffix *)
  Theorem add_operation_extends tm done o tm' done' :
    add_operation_with sch cfg frags srcs fuel (tm, done) o = Ok (tm', done') ->
    tm_ext tm tm' /\ exists l, done' = done ++ l.
  Proof.
    unfold add_operation_with. destruct (op_name o) as [|c nm]; [discriminate|].
    destruct (mem_str (c :: nm) go_keywords); [discriminate|].
    destruct (pp sch frags srcs NOp None (pos_of (op_src o) (op_line o)) None) as [D| | |]; cbn [bind]; try discriminate.
    pose proof (convert_arguments_extends o D tm) as Ha.
    destruct (convert_arguments_with sch cfg frags srcs fuel o D tm) as [[inp tm1]| | |]; cbn [bind]; try discriminate.
    pose proof (convert_operation_extends o D tm1) as Ho.
    destruct (convert_operation_with sch cfg frags srcs fuel o D tm1) as [[resp tm2]| | |]; cbn [bind]; try discriminate.
    intro H. injection H as <- <-. cbn [extends] in *. split; [exact (tm_ext_trans _ _ _ Ha Ho)|].
    eexists. reflexivity.
  Qed.

  Lemma mfold_app {A B} (f : B -> A -> res B) (l1 l2 : list A) acc :
    mfold f (l1 ++ l2) acc = bind (mfold f l1 acc) (mfold f l2).
  Proof.
    revert acc. induction l1 as [|x r IH]; intro acc; cbn [app mfold bind]; [reflexivity|].
    destruct (f acc x) as [acc'| | |]; cbn [bind]; [apply IH | reflexivity..].
  Qed.

  Lemma operations_extend ops : forall tm done tm' done',
    mfold (add_operation_with sch cfg frags srcs fuel) ops (tm, done) = Ok (tm', done') ->
    tm_ext tm tm' /\ exists l, done' = done ++ l.
  Proof.
    induction ops as [|o r IH]; intros tm done tm' done' H; cbn [mfold] in H.
    - injection H as <- <-. split; [apply tm_ext_refl|]. exists []. symmetry; apply app_nil_r.
    - destruct (add_operation_with sch cfg frags srcs fuel (tm, done) o) as [[tm1 done1]| | |] eqn:E; cbn [bind] in H; try discriminate.
      apply add_operation_extends in E. destruct E as (E1 & l1 & ->).
      apply IH in H. destruct H as (E2 & l2 & ->). split; [exact (tm_ext_trans _ _ _ E1 E2)|].
      exists (l1 ++ l2). symmetry; apply app_assoc.
  Qed.

  (* THE statement at the level of the property: generating ops1 ++ ops2 succeeds only if generating
     ops1 alone succeeds, and every declaration and every operation entry obtained for ops1 alone
     is there, unchanged, in the result for ops1 ++ ops2 *)
  Theorem generate_types_app_extends ops1 ops2 tm2 infos2 :
    generate_types_with sch cfg frags srcs fuel (ops1 ++ ops2) = Ok (tm2, infos2) ->
    exists tm1 infos1, generate_types_with sch cfg frags srcs fuel ops1 = Ok (tm1, infos1)
      /\ tm_ext tm1 tm2 /\ exists l, infos2 = infos1 ++ l.
  Proof.
    unfold generate_types_with. rewrite mfold_app.
    destruct (mfold (add_operation_with sch cfg frags srcs fuel) ops1 ([], [])) as [[tm1 infos1]| | |]; cbn [bind]; try discriminate.
    intro H. exists tm1, infos1. split; [reflexivity|]. exact (operations_extend _ _ _ _ _ H).
  Qed.

  (* and what happens next depends on the earlier operations only through their result *)
  Theorem generate_types_app_continues ops1 ops2 :
    generate_types_with sch cfg frags srcs fuel (ops1 ++ ops2)
    = bind (generate_types_with sch cfg frags srcs fuel ops1) (mfold (add_operation_with sch cfg frags srcs fuel) ops2).
  Proof. unfold generate_types_with. apply mfold_app. Qed.
End Ops.

Theorem generate_types_app_extends_FUEL sch cfg frags srcs ops1 ops2 tm2 infos2 :
  generate_types sch cfg frags srcs (ops1 ++ ops2) = Ok (tm2, infos2) ->
  exists tm1 infos1, generate_types sch cfg frags srcs ops1 = Ok (tm1, infos1)
    /\ tm_ext tm1 tm2 /\ exists l, infos2 = infos1 ++ l.
Proof. rewrite <- !generate_types_with_FUEL. apply generate_types_app_extends. Qed.

(* the response and input types of an earlier operation are the same declarations afterwards *)
Corollary earlier_operation_api_unchanged sch cfg frags srcs ops1 ops2 tm1 infos1 tm2 infos2 :
  generate_types sch cfg frags srcs ops1 = Ok (tm1, infos1) ->
  generate_types sch cfg frags srcs (ops1 ++ ops2) = Ok (tm2, infos2) ->
  (forall n d, assoc n tm1 = Some d -> assoc n tm2 = Some d)
  /\ (forall i oi, nth_error infos1 i = Some oi -> nth_error infos2 i = Some oi).
Proof.
  intros H1 H2. apply generate_types_app_extends_FUEL in H2. destruct H2 as (tm1' & infos1' & E & Hext & l & ->).
  rewrite H1 in E. injection E as <- <-. split; [exact Hext|].
  intros i oi Hi. rewrite nth_error_app1; [exact Hi|]. apply nth_error_Some. congruence.
Qed.

(* non-vacuity: two operations over the witness schema of ConvertFuel.v (an interface, fragments
   spreading each other, a recursive input type); the second one re-uses the fragments and the
   input type of the first *)
Definition x_op2 : operation :=
  {| op_kind := 0%N; op_name := b "R"; op_extra := 0%N;
     op_sel := [fld "u" (TNamed (b "U") true) "Query" [fld "id" (TNamed (b "ID") true) "U" []; SSpread (b "B") 0 0]];
     op_line := 0%N; op_src := 0;
     op_vars := [{| vd_name := b "g"; vd_type := TNamed (b "Filter") true; vd_line := 0%N |}] |}.

Example x_two_operations_convert :
  exists tm1 i1 tm2 i2,
    generate_types t_schema w_cfg t_frags [] [t_op] = Ok (tm1, i1)
    /\ generate_types t_schema w_cfg t_frags [] ([t_op] ++ [x_op2]) = Ok (tm2, i2)
    /\ (length i1 = 1 /\ length i2 = 2 /\ length tm1 < length tm2)%nat.
Proof.
  destruct (generate_types t_schema w_cfg t_frags [] [t_op]) as [[tm1 i1]| | |] eqn:E1; try (vm_compute in E1; discriminate).
  destruct (generate_types t_schema w_cfg t_frags [] ([t_op] ++ [x_op2])) as [[tm2 i2]| | |] eqn:E2; try (vm_compute in E2; discriminate).
  exists tm1, i1, tm2, i2. split; [reflexivity|]. split; [reflexivity|].
  vm_compute in E1. vm_compute in E2. injection E1 as <- <-. injection E2 as <- <-.
  vm_compute. repeat split; repeat constructor.
Qed.

Print Assumptions convert_extends.
Print Assumptions generate_types_app_extends.
Print Assumptions earlier_operation_api_unchanged.
