(* C07, "never loops", for the converter (Gen/Convert.v).

   Level 1  fuel is only a depth bound: for the four mutually recursive functions, once a fuel
            produces anything but OutOfFuel every larger fuel produces the SAME result.
   Level 2  termination: when named fragments are acyclic (what gqlparser's NoFragmentCycles rule
            guarantees) and the possible types of every abstract type are object types (what
            schema validation guarantees), every call of the four functions is defined for every
            large enough fuel.  Recursive INPUT types are covered: convertDefinition registers
            the input struct in the type map BEFORE it converts the fields, so every re-entry
            either finds the name or adds a new one, and the names that can be added come from a
            finite universe.
   Level 3  the fixed constant FUEL = 400 of convert_arguments / convert_operation is NOT a bound:
            a selection nested 140 deep runs out of it (witness below); what holds is that every
            call has a fuel from which the result is one fixed value, error or panic. *)
From Verif Require Import Base.Str Gen.Consts Gen.Casing Gen.Enum Gen.Gql Gen.Doc Gen.Directive Gen.Convert Gen.Wf
  Proofs.DocProofs Proofs.ConvertProofs Proofs.DirectiveProofs Proofs.ConvertNoPanicFull.
From Coq Require Import ZArith Lia Wf_nat PeanoNat.
Local Open Scope nat_scope.

(* the unfolding lemmas convert_type_S, convert_definition_S (with def_tail),
   convert_selection_set_S2 (with css_step) and convert_named_fragment_S *)
Module U := ConvertNoPanicFull.

(* as in Proofs/FuelProofs.v (this file does not depend on the run-time model) *)
Definition defined {A} (r : res A) : Prop := r <> OutOfFuel.

Lemma bind_defined {A B} (r : res A) (k : A -> res B) : defined (bind r k) -> defined r.
Proof. unfold defined. destruct r; cbn; congruence. Qed.

(* ------------------------------------------------------------------------------------------ *)
(* Level 1: fuel monotonicity                                                                 *)
(* ------------------------------------------------------------------------------------------ *)

(* [r'] extends [r]: if r is defined, r' is the same result *)
Definition ext {A} (r' r : res A) : Prop := defined r -> r' = r.

Lemma ext_refl {A} (r : res A) : ext r r.
Proof. intros _. reflexivity. Qed.

Lemma ext_bind {A B} (r' r : res A) (k' k : A -> res B) :
  ext r' r -> (forall a, r = Ok a -> ext (k' a) (k a)) -> ext (bind r' k') (bind r k).
Proof.
  intros Hr Hk Hd. pose proof (bind_defined _ _ Hd) as Hdr. rewrite (Hr Hdr).
  destruct r as [a| | |]; cbn [bind] in *; try reflexivity. exact (Hk a eq_refl Hd).
Qed.

Lemma ext_mfold {A B} (g f : B -> A -> res B) (l : list A) :
  (forall acc x, In x l -> ext (g acc x) (f acc x)) -> forall acc, ext (mfold g l acc) (mfold f l acc).
Proof.
  induction l as [|x r IH]; intros H acc; [apply ext_refl|]. cbn [mfold].
  apply ext_bind; [apply H; left; reflexivity|]. intros a _. apply IH. intros acc' y Hy. apply H. right; exact Hy.
Qed.

Section Mono.
  Variable sch : schema.
  Variable cfg : config.
  Variable frags : list fragment.
  Variable srcs : list (list lkind).

  Notation ctype := (convert_type sch cfg frags srcs).
  Notation cdef := (convert_definition sch cfg frags srcs).
  Notation css := (convert_selection_set sch cfg frags srcs).
  Notation cnf := (convert_named_fragment sch cfg frags srcs).

  Theorem convert_fuel_ext : forall f,
    (forall src prefix t sels opts Q tm,
        ext (ctype (S f) src prefix t sels opts Q tm) (ctype f src prefix t sels opts Q tm))
    /\ (forall src prefix def sels opts Q tm,
        ext (cdef (S f) src prefix def sels opts Q tm) (cdef f src prefix def sels opts Q tm))
    /\ (forall src prefix sels containing Q tm,
        ext (css (S f) src prefix sels containing Q tm) (css f src prefix sels containing Q tm))
    /\ (forall fr tm, ext (cnf (S f) fr tm) (cnf f fr tm)).
  Proof.
    induction f as [|f (IHt & IHd & IHs & IHn)].
    - repeat split; intros; intro Hd; exfalso; apply Hd; reflexivity.
    - split; [|split; [|split]].
      + (* convertType *)
        intros src prefix t sels opts Q tm. rewrite (U.convert_type_S _ _ _ _ (S f)), (U.convert_type_S _ _ _ _ f).
        destruct (nonempty (d_bind opts) && negb (str_eqb (d_bind opts) (b "-"))); [apply ext_refl|].
        destruct t as [n nn|e nn].
        * destruct (find_type sch n) as [def|]; [|apply ext_refl].
          apply ext_bind; [apply IHd | intros; apply ext_refl].
        * apply ext_bind; [apply IHt | intros; apply ext_refl].
      + (* convertDefinition *)
        intros src prefix def sels opts Q tm.
        rewrite (U.convert_definition_S _ _ _ _ (S f)), (U.convert_definition_S _ _ _ _ f).
        assert (Htail : ext (U.def_tail sch cfg frags srcs (S f) src prefix def sels opts Q tm)
                            (U.def_tail sch cfg frags srcs f src prefix def sels opts Q tm)).
        { unfold U.def_tail.
          apply ext_bind; [apply ext_refl|]. intros [name prefix'] _.
          apply ext_bind; [apply ext_refl|]. intros [t0|] _; [apply ext_refl|].
          cbv zeta. match goal with |- ext (match ?k with _ => _ end) _ => destruct k end.
          - (* scalar *) apply ext_refl.
          - (* object *) apply ext_bind; [apply IHs | intros; apply ext_refl].
          - (* interface *)
            apply ext_bind; [apply IHs|]. intros [shared tm1] _.
            destruct (if get_b (d_flatten opts) then validate_flatten_option sch frags def sels else FlatErr) as [|[i|]|];
              try apply ext_refl.
            apply ext_bind; [|intros; apply ext_refl].
            apply ext_mfold. intros [done tmx] idef _. apply ext_bind; [apply IHd | intros; apply ext_refl].
          - (* union *)
            apply ext_bind; [apply IHs|]. intros [shared tm1] _.
            destruct (if get_b (d_flatten opts) then validate_flatten_option sch frags def sels else FlatErr) as [|[i|]|];
              try apply ext_refl.
            apply ext_bind; [|intros; apply ext_refl].
            apply ext_mfold. intros [done tmx] idef _. apply ext_bind; [apply IHd | intros; apply ext_refl].
          - (* enum *) apply ext_refl.
          - (* input *)
            apply ext_bind; [apply ext_refl|]. intros [t0 tm1] _.
            apply ext_bind; [|intros; apply ext_refl].
            apply ext_mfold. intros [done tmx] fd _.
            apply ext_bind; [apply ext_refl|]. intros D _.
            apply ext_bind; [apply IHt | intros; apply ext_refl]. }
        destruct (assoc (td_name def) (cfg_bindings cfg)) as [bd|].
        * destruct (str_eqb (d_bind opts) (b "-")); cbv beta iota; [|apply ext_refl].
          destruct (builtin_go (td_name def)) as [bg|];
            [destruct (nonempty (d_typename opts)); cbv beta iota; [exact Htail | apply ext_refl] | exact Htail].
        * destruct (builtin_go (td_name def)) as [bg|];
            [destruct (nonempty (d_typename opts)); cbv beta iota; [exact Htail | apply ext_refl] | exact Htail].
      + (* convertSelectionSet *)
        intros src prefix sels containing Q tm.
        rewrite (U.convert_selection_set_S2 _ _ _ _ (S f)), (U.convert_selection_set_S2 _ _ _ _ f).
        apply ext_bind; [|intros; apply ext_refl].
        apply ext_mfold. intros [done tmx] s _. unfold U.css_step.
        destruct s as [alias name fty parent extra sub line|cond extra sub line|name extra line].
        * apply ext_bind; [apply ext_refl|]. intros D _. cbv zeta.
          apply ext_bind; [apply IHt | intros; apply ext_refl].
        * apply ext_bind; [apply ext_refl|]. intros D _.
          destruct (match cond with [] => Some containing | _ :: _ => find_type sch cond end) as [ft|]; [|apply ext_refl].
          destruct (negb (fragment_matches containing ft)); [apply ext_refl|].
          apply ext_bind; [apply IHs | intros; apply ext_refl].
        * apply ext_bind; [apply ext_refl|]. intros D _.
          destruct (find_fragment frags name) as [fr|]; [|apply ext_refl].
          destruct (find_type sch (fr_on fr)) as [ft|]; [|apply ext_refl].
          destruct (negb (fragment_matches containing ft)); [apply ext_refl|].
          apply ext_bind; [apply ext_refl|]. intros e _.
          apply ext_bind; [destruct e; [apply ext_refl | apply IHn] | intros; apply ext_refl].
      + (* convertNamedFragment *)
        intros fr tm. rewrite (U.convert_named_fragment_S _ _ _ _ (S f)), (U.convert_named_fragment_S _ _ _ _ f).
        destruct (find_type sch (fr_on fr)) as [typ|]; [|apply ext_refl].
        apply ext_bind; [apply ext_refl|]. intros D _.
        apply ext_bind; [apply IHs|]. intros [fields tm1] _.
        destruct (if get_b (d_flatten (fd_main D)) then validate_flatten_option sch frags typ (fr_sel fr) else FlatErr) as [|[i|]|];
          try apply ext_refl.
        destruct (td_kind typ); try apply ext_refl.
        * cbv zeta. apply ext_bind; [apply ext_refl|]. intros tm2 _.
          apply ext_bind; [|intros; apply ext_refl].
          apply ext_mfold. intros tmx idef _. apply ext_bind; [apply IHs | intros; apply ext_refl].
        * cbv zeta. apply ext_bind; [apply ext_refl|]. intros tm2 _.
          apply ext_bind; [|intros; apply ext_refl].
          apply ext_mfold. intros tmx idef _. apply ext_bind; [apply IHs | intros; apply ext_refl].
  Qed.

  (* ---- the statements without [ext] ---- *)
  Theorem convert_type_fuel_S f src prefix t sels opts Q tm :
    ctype f src prefix t sels opts Q tm <> OutOfFuel ->
    ctype (S f) src prefix t sels opts Q tm = ctype f src prefix t sels opts Q tm.
  Proof. exact (proj1 (convert_fuel_ext f) src prefix t sels opts Q tm). Qed.

  Theorem convert_definition_fuel_S f src prefix def sels opts Q tm :
    cdef f src prefix def sels opts Q tm <> OutOfFuel ->
    cdef (S f) src prefix def sels opts Q tm = cdef f src prefix def sels opts Q tm.
  Proof. exact (proj1 (proj2 (convert_fuel_ext f)) src prefix def sels opts Q tm). Qed.

  Theorem convert_selection_set_fuel_S f src prefix sels containing Q tm :
    css f src prefix sels containing Q tm <> OutOfFuel ->
    css (S f) src prefix sels containing Q tm = css f src prefix sels containing Q tm.
  Proof. exact (proj1 (proj2 (proj2 (convert_fuel_ext f))) src prefix sels containing Q tm). Qed.

  Theorem convert_named_fragment_fuel_S f fr tm :
    cnf f fr tm <> OutOfFuel -> cnf (S f) fr tm = cnf f fr tm.
  Proof. exact (proj2 (proj2 (proj2 (convert_fuel_ext f))) fr tm). Qed.

  (* ---- any amount of extra fuel ---- *)
  Lemma fuel_irrelevant_gen {A} (F : nat -> res A) :
    (forall f, F f <> OutOfFuel -> F (S f) = F f) -> forall f d, F f <> OutOfFuel -> F (d + f) = F f.
  Proof.
    intros HS f d Hd. induction d as [|d IH]; [reflexivity|].
    cbn [plus]. rewrite <- IH. apply HS. rewrite IH. exact Hd.
  Qed.

  Theorem convert_type_fuel_irrelevant f d src prefix t sels opts Q tm :
    ctype f src prefix t sels opts Q tm <> OutOfFuel ->
    ctype (d + f) src prefix t sels opts Q tm = ctype f src prefix t sels opts Q tm.
  Proof. apply (fuel_irrelevant_gen (fun n => ctype n src prefix t sels opts Q tm)). intro n. apply convert_type_fuel_S. Qed.

  Theorem convert_definition_fuel_irrelevant f d src prefix def sels opts Q tm :
    cdef f src prefix def sels opts Q tm <> OutOfFuel ->
    cdef (d + f) src prefix def sels opts Q tm = cdef f src prefix def sels opts Q tm.
  Proof. apply (fuel_irrelevant_gen (fun n => cdef n src prefix def sels opts Q tm)). intro n. apply convert_definition_fuel_S. Qed.

  Theorem convert_selection_set_fuel_irrelevant f d src prefix sels containing Q tm :
    css f src prefix sels containing Q tm <> OutOfFuel ->
    css (d + f) src prefix sels containing Q tm = css f src prefix sels containing Q tm.
  Proof. apply (fuel_irrelevant_gen (fun n => css n src prefix sels containing Q tm)). intro n. apply convert_selection_set_fuel_S. Qed.

  Theorem convert_named_fragment_fuel_irrelevant f d fr tm :
    cnf f fr tm <> OutOfFuel -> cnf (d + f) fr tm = cnf f fr tm.
  Proof. apply (fuel_irrelevant_gen (fun n => cnf n fr tm)). intro n. apply convert_named_fragment_fuel_S. Qed.

  (* two fuels that both produce a result produce the same one *)
  Corollary convert_type_fuel_agree f1 f2 src prefix t sels opts Q tm :
    ctype f1 src prefix t sels opts Q tm <> OutOfFuel -> ctype f2 src prefix t sels opts Q tm <> OutOfFuel ->
    ctype f1 src prefix t sels opts Q tm = ctype f2 src prefix t sels opts Q tm.
  Proof.
    intros H1 H2. destruct (Nat.le_ge_cases f1 f2) as [Hle|Hle].
    - replace f2 with ((f2 - f1) + f1) by lia. symmetry. apply convert_type_fuel_irrelevant, H1.
    - replace f1 with ((f1 - f2) + f2) by lia. apply convert_type_fuel_irrelevant, H2.
  Qed.

  Corollary convert_selection_set_fuel_agree f1 f2 src prefix sels containing Q tm :
    css f1 src prefix sels containing Q tm <> OutOfFuel -> css f2 src prefix sels containing Q tm <> OutOfFuel ->
    css f1 src prefix sels containing Q tm = css f2 src prefix sels containing Q tm.
  Proof.
    intros H1 H2. destruct (Nat.le_ge_cases f1 f2) as [Hle|Hle].
    - replace f2 with ((f2 - f1) + f1) by lia. symmetry. apply convert_selection_set_fuel_irrelevant, H1.
    - replace f1 with ((f1 - f2) + f2) by lia. apply convert_selection_set_fuel_irrelevant, H2.
  Qed.
End Mono.

(* ------------------------------------------------------------------------------------------ *)
(* Level 2: termination                                                                       *)
(* ------------------------------------------------------------------------------------------ *)

(* ---- generic facts about [defined] ---- *)
Lemma defined_bind {A B} (r : res A) (k : A -> res B) :
  defined r -> (forall a, r = Ok a -> defined (k a)) -> defined (bind r k).
Proof.
  unfold defined. intros Hr Hk. destruct r as [a| | |]; cbn [bind]; try discriminate.
  - apply Hk. reflexivity.
  - exfalso. apply Hr. reflexivity.
Qed.

Lemma mfold_defined {A B} (step : B -> A -> res B) (l : list A) :
  (forall acc x, In x l -> defined (step acc x)) -> forall acc, defined (mfold step l acc).
Proof.
  induction l as [|x r IH]; intros H acc; [discriminate|]. cbn [mfold].
  apply defined_bind; [apply H; left; reflexivity | intros a _; apply IH; intros acc' y Hy; apply H; right; exact Hy].
Qed.

(* the same with an invariant of the accumulator *)
Lemma mfold_defined_inv {A B} (Inv : B -> Prop) (step : B -> A -> res B) (l : list A) :
  (forall acc x, In x l -> Inv acc -> defined (step acc x) /\ forall acc', step acc x = Ok acc' -> Inv acc') ->
  forall acc, Inv acc -> defined (mfold step l acc).
Proof.
  induction l as [|x r IH]; intros H acc Hi; [discriminate|]. cbn [mfold].
  destruct (H acc x (or_introl eq_refl) Hi) as [Hd Hn].
  apply defined_bind; [exact Hd|]. intros a Ea. apply IH; [|exact (Hn a Ea)].
  intros acc' y Hy. apply H. right; exact Hy.
Qed.

Lemma no_crash_defined {A} (r : res A) : no_crash r -> defined r.
Proof. destruct r; cbn; intro H; try discriminate; contradiction. Qed.

(* finitely many eventually-true facts are eventually all true *)
Lemma uniform_bound {A} (Q : A -> nat -> Prop) (l : list A) :
  (forall x, In x l -> exists n, forall m, n <= m -> Q x m) ->
  exists n, forall m, n <= m -> forall x, In x l -> Q x m.
Proof.
  induction l as [|a l IH]; intro H.
  - exists 0. intros m _ x Hx. destruct Hx.
  - destruct (H a (or_introl eq_refl)) as [n1 H1].
    destruct IH as [n2 H2]; [intros x Hx; apply H; right; exact Hx|].
    exists (Nat.max n1 n2). intros m Hm x [<-|Hx]; [apply H1; lia | apply H2; [lia | exact Hx]].
Qed.

(* ---- the non-recursive helpers never run out of fuel ---- *)
Lemma get_type_defined tm name gql sels : defined (get_type tm name gql sels).
Proof. unfold get_type. destruct (assoc name tm); [|discriminate]. destruct (negb _); [discriminate|]. destruct (sels_match _ _); discriminate. Qed.
Lemma add_type_defined tm name d : defined (add_type tm name d).
Proof. unfold add_type. apply defined_bind; [apply get_type_defined | intros e _; destruct e; discriminate]. Qed.
Lemma add_fragment_type_defined tm name d : defined (add_fragment_type tm name d).
Proof. unfold add_fragment_type. destruct (assoc name tm); discriminate. Qed.
Lemma dedup_fields_defined fs : forall a c, defined (dedup_fields fs a c).
Proof.
  induction fs as [|f r IH]; intros a c; [discriminate|]. cbn [dedup_fields].
  destruct (gf_json f).
  - destruct (mem_str _ a); [apply IH|]. apply defined_bind; [apply IH | intros; discriminate].
  - destruct (mem_str _ c).
    + destruct (unwrap (gf_type f)); try discriminate; apply IH.
    + apply defined_bind; [apply IH | intros; discriminate].
Qed.
Lemma convert_enum_go_defined T al vs : forall seen, defined (convert_enum_go T al seen vs).
Proof.
  induction vs as [|v r IH]; intro seen; [discriminate|]. cbn [convert_enum_go].
  destruct (mem_str _ seen); [discriminate|]. apply defined_bind; [apply IH | intros; discriminate].
Qed.

Ltac dfd0 :=
  repeat first
    [ discriminate
    | apply get_type_defined | apply add_type_defined | apply add_fragment_type_defined | apply dedup_fields_defined
    | match goal with |- defined (bind _ _) => apply defined_bind; [| intros ? ?] end
    | match goal with |- defined (if ?c then _ else _) => destruct c end
    | match goal with |- defined (match ?x with _ => _ end) => destruct x end ].

Lemma validate_defined sch frags n D : defined (validate sch frags n D).
Proof.
  unfold validate. destruct (negb (forallb (validate_for_entry sch) (fd_for D))); [discriminate|].
  destruct n as [| |nn|tb sub|]; cbv zeta; dfd0.
Qed.

Lemma pp_defined sch frags srcs n key pos Q : defined (pp sch frags srcs n key pos Q).
Proof.
  unfold pp, parse_preceding. apply defined_bind.
  - destruct pos as [[s line]|]; [|discriminate]. apply defined_bind.
    + unfold lines_above. destruct (Nat.ltb _ _); discriminate.
    + intros above _. apply no_crash_defined, scan_total.
  - intros [D has] _. apply defined_bind.
    + destruct has; [apply validate_defined | discriminate].
    + intros u _. destruct Q as [q|]; [|discriminate]. destruct (typename_bind_conflict _); discriminate.
Qed.

Lemma flat_tail_defined {A} (fields : list gofield) (fr : flat_res) (k : res A) (mk : gofield -> res A) s1 s2 s3 :
  defined k -> (forall fl, defined (mk fl)) ->
  defined (match fr with
           | FlatPanic => Panic s1
           | FlatIdx (Some i) => match nth_error fields i with Some fl => mk fl | None => Panic s2 end
           | FlatIdx None => Panic s3
           | FlatErr => k
           end).
Proof.
  intros Hk Hmk. destruct fr as [|[i|]|]; try discriminate; [exact Hk|].
  destruct (nth_error fields i); [apply Hmk | discriminate].
Qed.

Ltac dfd :=
  repeat first
    [ discriminate
    | apply get_type_defined | apply add_type_defined | apply add_fragment_type_defined | apply dedup_fields_defined
    | apply pp_defined
    | match goal with |- defined (bind _ _) => apply defined_bind; [| intros ? ?] end
    | match goal with |- defined (if ?c then _ else _) => destruct c end
    | match goal with |- defined (match ?x with _ => _ end) => destruct x end ].

(* ---- the key set of the type map only grows ---- *)
Definition has_key (tm : typemap) (n : str) : bool := is_some (assoc n tm).
Definition keys_le (tm tm' : typemap) : Prop := forall n, has_key tm n = true -> has_key tm' n = true.

Lemma keys_le_refl tm : keys_le tm tm.
Proof. intros n H. exact H. Qed.
Lemma keys_le_trans a c d : keys_le a c -> keys_le c d -> keys_le a d.
Proof. intros H1 H2 n H. apply H2, H1, H. Qed.
Lemma keys_le_cons tm n d : keys_le tm ((n, d) :: tm).
Proof. intros k H. unfold has_key in *. cbn [assoc]. destruct (str_eqb k n); [reflexivity | exact H]. Qed.
Lemma keys_le_tm_set tm n d : keys_le tm (tm_set tm n d).
Proof.
  intros k. unfold has_key. induction tm as [|[k' v] r IH]; cbn [tm_set assoc]; [discriminate|].
  destruct (str_eqb k' n) eqn:E; cbn [assoc]; destruct (str_eqb k k'); auto.
Qed.

Definition grows {A} (tm : typemap) (r : res (A * typemap)) : Prop :=
  match r with Ok (_, tm') => keys_le tm tm' | _ => True end.

Lemma grows_bind {A B} tm (r : res (A * typemap)) (k : A * typemap -> res (B * typemap)) :
  grows tm r -> (forall a tm1, r = Ok (a, tm1) -> grows tm1 (k (a, tm1))) -> grows tm (bind r k).
Proof.
  destruct r as [[a tm1]| | |]; cbn [bind grows]; trivial. intros H1 H2. specialize (H2 a tm1 eq_refl).
  destruct (k (a, tm1)) as [[c tm2]| | |]; cbn [grows] in *; trivial. exact (keys_le_trans _ _ _ H1 H2).
Qed.
Lemma grows_bind_pure {B C} tm (r : res C) (k : C -> res (B * typemap)) :
  (forall c, r = Ok c -> grows tm (k c)) -> grows tm (bind r k).
Proof. destruct r as [c| | |]; cbn [bind grows]; trivial. intro H. exact (H c eq_refl). Qed.
Lemma grows_mfold {A X} (step : A * typemap -> X -> res (A * typemap)) (l : list X) :
  (forall a tmx x, In x l -> grows tmx (step (a, tmx) x)) -> forall a tm, grows tm (mfold step l (a, tm)).
Proof.
  induction l as [|x r IH]; intros H a tm; [apply keys_le_refl|]. cbn [mfold].
  apply grows_bind; [apply H; left; reflexivity|]. intros a1 tm1 _. apply IH. intros a2 tmx y Hy. apply H. right; exact Hy.
Qed.
Lemma add_type_grows tm name d : grows tm (add_type tm name d).
Proof.
  unfold add_type. destruct (get_type tm name (decl_gql d) (decl_sel d)) as [[t|]| | |]; cbn [bind grows]; trivial.
  - apply keys_le_refl.
  - apply keys_le_cons.
Qed.

(* ---- how many names of a finite universe are not yet keys of the type map ---- *)
Definition missing (Un : list str) (tm : typemap) : nat := length (filter (fun n => negb (has_key tm n)) Un).

Lemma missing_le_length Un tm : missing Un tm <= length Un.
Proof. unfold missing. induction Un as [|x r IH]; cbn; [lia|]. destruct (negb _); cbn; lia. Qed.

Lemma missing_mono Un tm tm' : keys_le tm tm' -> missing Un tm' <= missing Un tm.
Proof.
  intro H. unfold missing. induction Un as [|x r IH]; cbn [filter]; [lia|].
  destruct (has_key tm x) eqn:E.
  - rewrite (H x E). cbn. exact IH.
  - cbn [negb]. destruct (negb (has_key tm' x)); cbn [length]; lia.
Qed.

Lemma missing_lt Un tm tm' name :
  In name Un -> has_key tm name = false -> has_key tm' name = true -> keys_le tm tm' -> missing Un tm' < missing Un tm.
Proof.
  intros Hin H0 H1 Hle. induction Un as [|x r IH]; [destruct Hin|].
  assert (Hr : missing r tm' <= missing r tm) by (apply missing_mono, Hle).
  unfold missing in *. cbn [filter]. destruct Hin as [->|Hin].
  - rewrite H0, H1. cbn [negb length]. lia.
  - specialize (IH Hin). destruct (has_key tm x) eqn:E.
    + rewrite (Hle x E). cbn [negb]. exact IH.
    + cbn [negb]. destruct (negb (has_key tm' x)); cbn [length]; lia.
Qed.

Lemma flat_map_const_length {A B} (f : A -> list B) c (l : list A) :
  (forall x, length (f x) = c) -> length (flat_map f l) = length l * c.
Proof. intro H. induction l as [|x r IH]; cbn [flat_map length]; [reflexivity|]. rewrite app_length, H, IH. lia. Qed.

(* ---- the input side: recursion through the SCHEMA's input types ---- *)
Section Input.
  Variable sch : schema.
  Variable cfg : config.
  Variable frags : list fragment.
  Variable srcs : list (list lkind).

  Notation ctype := (convert_type sch cfg frags srcs).
  Notation cdef := (convert_definition sch cfg frags srcs).
  Notation css := (convert_selection_set sch cfg frags srcs).
  Notation cnf := (convert_named_fragment sch cfg frags srcs).

  (* what schema validation guarantees: the possible types of an abstract type are object types
     (for an interface by the definition of possible_types; for a union: its members are) *)
  Hypothesis Himpl : forall d i, In d sch -> In i (possible_types sch d) -> td_kind i = KObject.

  Lemma find_type_in n d : find_type sch n = Some d -> In d sch.
  Proof.
    clear Himpl. induction sch as [|t r IH]; cbn [find_type]; [discriminate|].
    destruct (str_eqb (td_name t) n); [intro H; injection H as <-; left; reflexivity | intro H; right; exact (IH H)].
  Qed.

  Lemma css_nil f src prefix containing Q tm : css (S f) src prefix [] containing Q tm = Ok ([], tm).
  Proof. rewrite U.convert_selection_set_S2. reflexivity. Qed.

  Lemma vso_not_abstract def sels : is_abstract_kind (td_kind def) = false -> validate_struct_option def sels = false.
  Proof. intro H. unfold validate_struct_option. rewrite H. reflexivity. Qed.

  (* an object definition needs one more fuel than its selection set *)
  Lemma cdef_object_from_css f sels Q :
    (forall src prefix containing tm, defined (css f src prefix sels containing Q tm)) ->
    forall src prefix idef opts tm, td_kind idef = KObject -> defined (cdef (S f) src prefix idef sels opts Q tm).
  Proof.
    intros Hc src prefix idef opts tm Hk. rewrite U.convert_definition_S.
    assert (Htail : defined (U.def_tail sch cfg frags srcs f src prefix idef sels opts Q tm)).
    { unfold U.def_tail. rewrite Hk.
      apply defined_bind; [dfd|]. intros [name prefix'] _.
      apply defined_bind; [apply get_type_defined|]. intros [t0|] _; [discriminate|].
      cbv zeta. destruct (get_b (d_struct opts) && validate_struct_option idef sels); cbv iota;
        (apply defined_bind; [apply Hc|]); intros [fields tm1] _; dfd. }
    destruct (assoc (td_name idef) (cfg_bindings cfg)) as [bd|].
    - destruct (str_eqb (d_bind opts) (b "-")); cbv beta iota; [|dfd].
      destruct (builtin_go (td_name idef)) as [bg|]; [destruct (nonempty (d_typename opts)); cbv beta iota; [exact Htail | discriminate] | exact Htail].
    - destruct (builtin_go (td_name idef)) as [bg|]; [destruct (nonempty (d_typename opts)); cbv beta iota; [exact Htail | discriminate] | exact Htail].
  Qed.

  (* ---- on the input side (empty selection) the key set of the type map only grows ---- *)
  Lemma css_nil_grows f src prefix containing Q tm : grows tm (css f src prefix [] containing Q tm).
  Proof. destruct f as [|f]; [exact I|]. rewrite css_nil. apply keys_le_refl. Qed.

  Lemma flat_tail_grows tm1 (fields : list gofield) (fr : flat_res) (k : res (gotype * typemap)) s1 s2 s3 :
    grows tm1 k ->
    grows tm1 (match fr with
               | FlatPanic => Panic s1
               | FlatIdx (Some i) => match nth_error fields i with Some fl => Ok (gf_type fl, tm1) | None => Panic s2 end
               | FlatIdx None => Panic s3
               | FlatErr => k
               end).
  Proof.
    intro Hk. destruct fr as [|[i|]|]; cbn [grows]; trivial.
    destruct (nth_error fields i); cbn [grows]; [apply keys_le_refl | trivial].
  Qed.

  Theorem input_grows : forall f,
    (forall src prefix t opts Q tm, grows tm (ctype f src prefix t [] opts Q tm))
    /\ (forall src prefix def opts Q tm, grows tm (cdef f src prefix def [] opts Q tm)).
  Proof.
    induction f as [|f (IHt & IHd)].
    - split; intros; exact I.
    - split.
      + intros src prefix t opts Q tm. rewrite U.convert_type_S.
        destruct (nonempty (d_bind opts) && negb (str_eqb (d_bind opts) (b "-"))); [apply keys_le_refl|].
        destruct t as [n nn|e nn].
        * destruct (find_type sch n) as [def|]; [|exact I].
          apply grows_bind; [apply IHd|]. intros g tm' _. cbv beta iota zeta.
          destruct (struct_ref cfg def); [apply keys_le_refl|].
          destruct (negb (pointer_is_false opts) && _); [apply keys_le_refl|].
          destruct (negb nn && _); apply keys_le_refl.
        * apply grows_bind; [apply IHt|]. intros [g o] tm' _. apply keys_le_refl.
      + intros src prefix def opts Q tm. rewrite U.convert_definition_S.
        assert (Htail : grows tm (U.def_tail sch cfg frags srcs f src prefix def [] opts Q tm)).
        { unfold U.def_tail.
          apply grows_bind_pure. intros [name prefix'] _.
          apply grows_bind_pure. intros [t0|] _; [apply keys_le_refl|].
          cbv zeta. match goal with |- grows _ (match ?k with _ => _ end) => destruct k end.
          - (* scalar *) destruct (builtin_go (td_name def)); [apply add_type_grows | exact I].
          - (* object *)
            apply grows_bind; [apply css_nil_grows|]. intros fields tm1 _. cbv beta iota.
            apply flat_tail_grows. apply add_type_grows.
          - (* interface *)
            apply grows_bind; [apply css_nil_grows|]. intros shared tm1 _. cbv beta iota.
            apply flat_tail_grows. cbv zeta.
            apply grows_bind; [|intros names tm2 _; apply add_type_grows].
            apply grows_mfold. intros done tmx idef _. cbv beta iota.
            apply grows_bind; [apply IHd|]. intros g tmy _. cbv beta iota. destruct g; try exact I. apply keys_le_refl.
          - (* union *)
            apply grows_bind; [apply css_nil_grows|]. intros shared tm1 _. cbv beta iota.
            apply flat_tail_grows. cbv zeta.
            apply grows_bind; [|intros names tm2 _; apply add_type_grows].
            apply grows_mfold. intros done tmx idef _. cbv beta iota.
            apply grows_bind; [apply IHd|]. intros g tmy _. cbv beta iota. destruct g; try exact I. apply keys_le_refl.
          - (* enum *)
            destruct (convert_enum name (for_enum (cfg_casing cfg) (td_name def)) (td_values def)); try exact I. apply add_type_grows.
          - (* input *)
            apply grows_bind; [apply add_type_grows|]. intros t0 tm1 _. cbv beta iota.
            apply grows_bind.
            + apply grows_mfold. intros done tmx fd _. cbv beta iota.
              apply grows_bind_pure. intros D _.
              apply grows_bind; [apply IHt|]. intros [g o] tmy _. cbv beta iota.
              destruct (negb (cfg_struct_refs cfg) && ty_nonnull (fd_type fd) && is_direct_ptr g && negb (get_b (d_omitempty o))); [exact I|].
              destruct (negb (cfg_struct_refs cfg) && get_b (d_omitempty o) && ty_nonnull (fd_type fd) && negb (fd_has_default fd)); [exact I|].
              apply keys_le_refl.
            + intros fields tm2 _. cbv beta iota. apply keys_le_tm_set. }
        destruct (assoc (td_name def) (cfg_bindings cfg)) as [bd|].
        * destruct (str_eqb (d_bind opts) (b "-")); cbv beta iota.
          -- destruct (builtin_go (td_name def)) as [bg|]; [destruct (nonempty (d_typename opts)); cbv beta iota; [exact Htail | apply keys_le_refl] | exact Htail].
          -- destruct (nonempty (d_typename opts)); [exact I | apply keys_le_refl].
        * destruct (builtin_go (td_name def)) as [bg|]; [destruct (nonempty (d_typename opts)); cbv beta iota; [exact Htail | apply keys_le_refl] | exact Htail].
  Qed.

  Lemma ctype_nil_keys f src prefix t opts Q tm r tm' :
    ctype f src prefix t [] opts Q tm = Ok (r, tm') -> keys_le tm tm'.
  Proof. intro E. pose proof (proj1 (input_grows f) src prefix t opts Q tm) as G. rewrite E in G. exact G. Qed.
End Input.

Section InputTerm.
  Variable sch : schema.
  Variable cfg : config.
  Variable frags : list fragment.
  Variable srcs : list (list lkind).

  Notation ctype := (convert_type sch cfg frags srcs).
  Notation cdef := (convert_definition sch cfg frags srcs).
  Notation css := (convert_selection_set sch cfg frags srcs).

  Hypothesis Himpl : forall d i, In d sch -> In i (possible_types sch d) -> td_kind i = KObject.

  (* the Go names an input struct can be registered under: the cased GraphQL name, or a typename
     option ([for:] table of the operation directive, or the option on the variable), or that
     typename followed by the cased GraphQL name *)
  Definition for_typenames (Q : fulldir) : list str := map (fun e => d_typename (snd e)) (fd_for Q).
  Definition name_univ (T : list str) : list str :=
    flat_map (fun d => cased cfg (td_name d) :: flat_map (fun t => [t; make_long_type_name cfg [t] (td_name d)]) T) sch.
  Definition tn_ok (T : list str) (o : dir) : Prop := d_typename o = [] \/ In (d_typename o) T.

  Lemma name_univ_length T : length (name_univ T) = length sch * (1 + length T * 2).
  Proof.
    unfold name_univ. apply flat_map_const_length. intro d. cbn [length plus]. f_equal.
    apply flat_map_const_length. intro t. reflexivity.
  Qed.

  Lemma lookup_for_in l tn fn x : lookup_for l tn fn = Some x -> exists a c, In (a, c, x) l.
  Proof.
    induction l as [|[[t f] d] r IH]; cbn [lookup_for]; [discriminate|].
    destruct (str_eqb t tn && str_eqb f fn).
    - intro H. injection H as ->. exists t, f. left; reflexivity.
    - intro H. destruct (IH H) as [a [c Hin]]. exists a, c. right; exact Hin.
  Qed.

  (* the options of an input-object field come from the [for:] table of the operation directive *)
  Lemma pp_input_tn tn fn Q D :
    pp sch frags srcs NOtherNode (Some (tn, fn)) None (Some Q) = Ok D -> tn_ok (for_typenames Q) (fd_main D).
  Proof.
    unfold pp, parse_preceding. cbn [bind].
    destruct (typename_bind_conflict _); [discriminate|]. intro H. injection H as <-. cbn [fd_main].
    unfold merge, tn_ok. cbn [d_typename fulldir0 fd_main dir0 fill_s].
    destruct (lookup_for (fd_for Q) tn fn) as [x|] eqn:El; [|left; reflexivity].
    destruct (d_typename x) as [|c r] eqn:Ex; [left; reflexivity|]. right.
    destruct (lookup_for_in _ _ _ _ El) as [a [c0 Hin]]. unfold for_typenames.
    apply in_map_iff. exists (a, c0, x). split; [exact Ex | exact Hin].
  Qed.

  Lemma tn_ok_incl T T' o : incl T T' -> tn_ok T o -> tn_ok T' o.
  Proof. intros Hi [H|H]; [left; exact H | right; apply Hi, H]. Qed.

  (* the name an input definition is registered under is in the universe *)
  Lemma input_name_in_univ T prefix def opts kd name prefix' :
    In def sch -> tn_ok T opts -> kd = KInput ->
    (if nonempty (d_typename opts) then
       if mem_str (d_typename opts) go_keywords then Err (b "keyword")
       else
         let name := match prefix with
                     | [h] => if str_eqb h (d_typename opts)
                              then make_long_type_name cfg prefix (td_name def) else d_typename opts
                     | _ => d_typename opts
                     end in
         Ok (name, [d_typename opts])
     else match kd with
          | KInput | KEnum => Ok (cased cfg (td_name def), prefix)
          | _ => Ok (make_type_name cfg prefix (td_name def), prefix)
          end) = Ok (name, prefix') ->
    In name (name_univ T).
  Proof.
    intros Hin Htn -> H. unfold name_univ. apply in_flat_map. exists def. split; [exact Hin|].
    destruct (nonempty (d_typename opts)) eqn:En.
    - destruct Htn as [Htn|Htn]; [rewrite Htn in En; discriminate En|].
      destruct (mem_str (d_typename opts) go_keywords); [discriminate H|]. cbv zeta in H. injection H as <- _.
      right. apply in_flat_map. exists (d_typename opts). split; [exact Htn|].
      destruct prefix as [|h [|h2 r]]; try (left; reflexivity).
      destruct (str_eqb h (d_typename opts)) eqn:Eh; [|left; reflexivity].
      apply str_eqb_eq in Eh. subst h. right; left; reflexivity.
    - injection H as <- _. left; reflexivity.
  Qed.

  (* all field types of the schema *)
  Definition schema_field_types : list tyref := flat_map (fun d => map fd_type (td_fields d)) sch.
  Lemma field_type_in def fd : In def sch -> In fd (td_fields def) -> In (fd_type fd) schema_field_types.
  Proof. intros Hd Hf. unfold schema_field_types. apply in_flat_map. exists def. split; [exact Hd | apply in_map, Hf]. Qed.

  (* with at most k names of the universe missing from the type map *)
  Definition ID (k : nat) : Prop :=
    exists n, forall m, n <= m -> forall Q T src prefix def sels opts tm,
      In def sch -> incl (for_typenames Q) T -> tn_ok T opts -> (sels = [] \/ td_kind def = KInput) ->
      missing (name_univ T) tm < k -> defined (cdef m src prefix def sels opts Q tm).
  Definition IT (k : nat) (t : tyref) : Prop :=
    exists n, forall m, n <= m -> forall Q T src prefix opts tm,
      incl (for_typenames Q) T -> tn_ok T opts ->
      missing (name_univ T) tm < k -> defined (ctype m src prefix t [] opts Q tm).

  Lemma IT_of_ID k : ID k -> forall t, IT k t.
  Proof.
    intros [n0 H0] t. induction t as [n nn|e [ne He] nn].
    - exists (S n0). intros m Hm Q T src prefix opts tm Hi Ht Hk. destruct m as [|f]; [lia|]. rewrite U.convert_type_S.
      destruct (nonempty (d_bind opts) && negb (str_eqb (d_bind opts) (b "-"))); [discriminate|].
      destruct (find_type sch n) as [def|] eqn:Ef; [|discriminate].
      apply defined_bind; [|intros [g tm'] _; dfd].
      apply (H0 f ltac:(lia) Q T); [exact (find_type_in sch _ _ Ef) | exact Hi | exact Ht | left; reflexivity | exact Hk].
    - exists (S ne). intros m Hm Q T src prefix opts tm Hi Ht Hk. destruct m as [|f]; [lia|]. rewrite U.convert_type_S.
      destruct (nonempty (d_bind opts) && negb (str_eqb (d_bind opts) (b "-"))); [discriminate|].
      apply defined_bind; [apply (He f ltac:(lia) Q T); assumption|]. intros [[g o] tm'] _. discriminate.
  Qed.

  Lemma ID_step k : ID k -> ID (S k).
  Proof.
    intro HID.
    destruct (uniform_bound (fun t m => forall Q T src prefix opts tm,
                incl (for_typenames Q) T -> tn_ok T opts ->
                missing (name_univ T) tm < k -> defined (ctype m src prefix t [] opts Q tm)) schema_field_types) as [n1 H1].
    { intros t _. destruct (IT_of_ID k HID t) as [n Hn]. exists n. intros m Hm. exact (Hn m Hm). }
    exists (S (S (S n1))). intros m Hm Q T src prefix def sels opts tm Hin Hi Ht Hcase Hk.
    destruct m as [|f]; [lia|]. assert (Hf : S (S n1) <= f) by lia. clear Hm.
    destruct f as [|f']; [lia|]. assert (Hf' : S n1 <= f') by lia.
    rewrite U.convert_definition_S.
    assert (Hobj : forall src0 prefix0 idef opts0 tm0, td_kind idef = KObject ->
                     defined (cdef (S f') src0 prefix0 idef [] opts0 Q tm0)).
    { intros src0 prefix0 idef opts0 tm0 Hko. apply cdef_object_from_css; [|exact Hko].
      intros src1 prefix1 containing tm1. destruct f' as [|f'']; [lia|]. rewrite css_nil. discriminate. }
    assert (Htail : defined (U.def_tail sch cfg frags srcs (S f') src prefix def sels opts Q tm)).
    { unfold U.def_tail.
      destruct (td_kind def) eqn:Hkd.
      6:{ (* input object *)
        apply defined_bind; [dfd|]. intros [name prefix'] Enp.
        apply defined_bind; [apply get_type_defined|]. intros [t0|] Eget; [discriminate|].
        cbv zeta. rewrite (vso_not_abstract def sels) by (rewrite Hkd; reflexivity).
        rewrite Bool.andb_false_r. cbv iota.
        pose proof (get_type_none _ _ _ _ Eget) as Hnone.
        pose proof (input_name_in_univ T prefix def opts KInput name prefix' Hin Ht eq_refl Enp) as HinU.
        assert (Eadd : add_type tm name (DStruct (td_name def) [] [] true)
                       = Ok (GStruct name, (name, DStruct (td_name def) [] [] true) :: tm)).
        { unfold add_type, get_type. cbn [decl_gql decl_sel]. rewrite Hnone. reflexivity. }
        rewrite Eadd. cbn [bind].
        apply defined_bind; [|intros [fields tm2] _; discriminate].
        apply (mfold_defined_inv (fun acc : list gofield * typemap => missing (name_univ T) (snd acc) < k)).
        - intros [done tmx] fd Hfd Hinv. cbn [snd] in Hinv. split.
          + apply defined_bind; [apply pp_defined|]. intros D ED.
            apply defined_bind.
            * apply (H1 (S f') ltac:(lia) (fd_type fd) (field_type_in _ _ Hin Hfd) Q T); [exact Hi | | exact Hinv].
              exact (tn_ok_incl _ _ _ Hi (pp_input_tn _ _ _ _ ED)).
            * intros [[g o] tmy] _. dfd.
          + intros [done' tmy] Estep. cbn [snd].
            apply U.bind_ok' in Estep. destruct Estep as [D [_ Estep]].
            apply U.bind_ok' in Estep. destruct Estep as [[[g o] tmy'] [Ect Estep]].
            pose proof (ctype_nil_keys sch cfg frags srcs _ _ _ _ _ _ _ _ _ Ect) as Hkeys.
            assert (tmy = tmy') as ->.
            { destruct (negb (cfg_struct_refs cfg) && ty_nonnull (fd_type fd) && is_direct_ptr g && negb (get_b (d_omitempty o))); [discriminate Estep|].
              destruct (negb (cfg_struct_refs cfg) && get_b (d_omitempty o) && ty_nonnull (fd_type fd) && negb (fd_has_default fd)); [discriminate Estep|].
              injection Estep as _ <-. reflexivity. }
            pose proof (missing_mono (name_univ T) _ _ Hkeys). lia.
        - cbn [snd].
          assert (missing (name_univ T) ((name, DStruct (td_name def) [] [] true) :: tm) < missing (name_univ T) tm); [|lia].
          apply (missing_lt _ _ _ name HinU).
          + unfold has_key. rewrite Hnone. reflexivity.
          + unfold has_key. cbn [assoc]. rewrite str_eqb_refl. reflexivity.
          + apply keys_le_cons. }
      all: destruct Hcase as [->|Hc]; [|discriminate Hc].
      all: apply defined_bind; [dfd|]; intros [name prefix'] _.
      all: (apply defined_bind; [apply get_type_defined|]); intros [t0|] _; [discriminate|].
      all: cbv zeta.
      all: destruct (get_b (d_struct opts) && validate_struct_option def []); cbv iota.
      all: try (rewrite css_nil; cbn [bind]; dfd; fail).
      all: try (dfd; fail).
      (* interface / union: the shared fields, then one definition per implementation *)
      1,2: rewrite css_nil; cbn [bind].
      1,2: apply flat_tail_defined; [|intros; discriminate].
      1,2: cbv zeta; (apply defined_bind; [|intros [names tm2] _; apply add_type_defined]).
      1,2: apply mfold_defined; intros [done tmx] idef Hidef.
      1,2: (apply defined_bind; [apply Hobj; exact (Himpl def idef Hin Hidef)|]); intros [g tmy] _; destruct g; discriminate.
      (* enum *)
      pose proof (convert_enum_go_defined name (for_enum (cfg_casing cfg) (td_name def)) (td_values def) []) as He.
      unfold convert_enum. destruct (convert_enum_go name (for_enum (cfg_casing cfg) (td_name def)) [] (td_values def)); try discriminate.
      - apply add_type_defined.
      - exfalso. apply He. reflexivity. }
    destruct (assoc (td_name def) (cfg_bindings cfg)) as [bd|].
    - destruct (str_eqb (d_bind opts) (b "-")); cbv beta iota; [|dfd].
      destruct (builtin_go (td_name def)) as [bg|]; [destruct (nonempty (d_typename opts)); cbv beta iota; [exact Htail | discriminate] | exact Htail].
    - destruct (builtin_go (td_name def)) as [bg|]; [destruct (nonempty (d_typename opts)); cbv beta iota; [exact Htail | discriminate] | exact Htail].
  Qed.

  Lemma ID_all k : ID k.
  Proof.
    induction k as [|k IH]; [|apply ID_step, IH].
    exists 0. intros m _ Q T src prefix def sels opts tm _ _ _ _ Hk. lia.
  Qed.
End InputTerm.

(* ---- the hypothesis on fragments: no cycle of spreads ---- *)
Definition frag_edge (frags : list fragment) (F G : str) : Prop :=
  exists fr, find_fragment frags F = Some fr /\ In G (sels_spreads (fr_sel fr)).

Definition frags_acyclic (frags : list fragment) : Prop :=
  exists rank : str -> nat, forall F G, frag_edge frags F G -> rank G < rank F.

Lemma find_fragment_some frags n fr : find_fragment frags n = Some fr -> In fr frags /\ fr_name fr = n.
Proof.
  induction frags as [|f r IH]; cbn [find_fragment]; [discriminate|].
  destruct (str_eqb (fr_name f) n) eqn:E.
  - intro H. injection H as <-. apply str_eqb_eq in E. split; [left; reflexivity | exact E].
  - intro H. destruct (IH H) as [H1 H2]. split; [right; exact H1 | exact H2].
Qed.

Theorem frank_okb_sound frags ranks : frank_okb frags ranks = true -> frags_acyclic frags.
Proof.
  intro H. exists (frank_of ranks). intros F G [fr [Hf Hg]].
  destruct (find_fragment_some _ _ _ Hf) as [Hin Hname].
  unfold frank_okb in H. rewrite forallb_forall in H. specialize (H fr Hin). rewrite Hname, Hf in H.
  rewrite forallb_forall in H. specialize (H G Hg). apply Nat.ltb_lt in H. exact H.
Qed.

Theorem frags_acyclicb_sound frags : frags_acyclicb frags = true -> frags_acyclic frags.
Proof. apply frank_okb_sound. Qed.

(* the hypothesis on the schema: the possible types of every type are object types *)
Definition impls_objects (sch : schema) : Prop :=
  forall d i, In d sch -> In i (possible_types sch d) -> td_kind i = KObject.
Lemma impls_objectsb_sound sch : impls_objectsb sch = true -> impls_objects sch.
Proof.
  intros H d i Hd Hi. unfold impls_objectsb in H. rewrite forallb_forall in H. specialize (H d Hd).
  rewrite forallb_forall in H. specialize (H i Hi). destruct (td_kind i); try discriminate H. reflexivity.
Qed.

(* ---- the response side: recursion through the selection tree and through fragment spreads ---- *)
Section Term.
  Variable sch : schema.
  Variable cfg : config.
  Variable frags : list fragment.
  Variable srcs : list (list lkind).

  Notation ctype := (convert_type sch cfg frags srcs).
  Notation cdef := (convert_definition sch cfg frags srcs).
  Notation css := (convert_selection_set sch cfg frags srcs).
  Notation cnf := (convert_named_fragment sch cfg frags srcs).
  Notation cstep := (U.css_step sch cfg frags srcs).

  Hypothesis Himpl : impls_objects sch.
  Variable rk : str -> nat.
  Hypothesis Hrk : forall F G, frag_edge frags F G -> rk G < rk F.

  (* definitions reached with an empty selection or of input kind: the input side *)
  Lemma input_def_bound : forall Q, exists n, forall m, n <= m -> forall src prefix def sels opts tm,
    In def sch -> (sels = [] \/ td_kind def = KInput) -> defined (cdef m src prefix def sels opts Q tm).
  Proof.
    intro Q. destruct (ID_all sch cfg frags srcs Himpl (S (length sch * (1 + S (length (fd_for Q)) * 2)))) as [n Hn].
    exists n. intros m Hm src prefix def sels opts tm Hin Hcase.
    apply (Hn m Hm Q (d_typename opts :: for_typenames Q)); [exact Hin | | | exact Hcase |].
    - intros x Hx. right; exact Hx.
    - right. left. reflexivity.
    - pose proof (missing_le_length (name_univ sch cfg (d_typename opts :: for_typenames Q)) tm) as Hle.
      rewrite name_univ_length in Hle. cbn [length] in Hle. unfold for_typenames in Hle |- *. rewrite map_length in Hle. lia.
  Qed.

  Definition CSS (l : list sel) : Prop :=
    forall Q, exists n, forall m, n <= m -> forall src prefix containing tm, defined (css m src prefix l containing Q tm).
  Definition STEP (s : sel) : Prop :=
    forall Q, exists n, forall m, n <= m -> forall src prefix containing acc, defined (cstep m src prefix containing Q acc s).
  Definition CDEF (l : list sel) : Prop :=
    forall Q, exists n, forall m, n <= m -> forall src prefix def opts tm, In def sch -> defined (cdef m src prefix def l opts Q tm).
  Definition CTYPE (t : tyref) (l : list sel) : Prop :=
    forall Q, exists n, forall m, n <= m -> forall src prefix opts tm, defined (ctype m src prefix t l opts Q tm).
  Definition CNF (fr : fragment) : Prop :=
    exists n, forall m, n <= m -> forall tm, defined (cnf m fr tm).

  Lemma css_of_steps l : Forall STEP l -> CSS l.
  Proof.
    intros HF Q.
    destruct (uniform_bound (fun s m => forall src prefix containing acc, defined (cstep m src prefix containing Q acc s)) l) as [n0 H0].
    { intros s Hs. rewrite Forall_forall in HF. destruct (HF s Hs Q) as [n Hn]. exists n. exact Hn. }
    exists (S n0). intros m Hm src prefix containing tm. destruct m as [|f]; [lia|]. rewrite U.convert_selection_set_S2.
    apply defined_bind.
    - apply mfold_defined. intros acc s Hs. apply (H0 f ltac:(lia) s Hs).
    - intros [fields tm'] _. apply defined_bind; [apply dedup_fields_defined | intros; discriminate].
  Qed.

  Lemma cdef_of_css l : CSS l -> CDEF l.
  Proof.
    intros HS Q. destruct (HS Q) as [n1 H1]. destruct (input_def_bound Q) as [n2 H2].
    exists (S (S (n1 + n2))). intros m Hm src prefix def opts tm Hin.
    destruct (td_kind def) eqn:Hkd.
    6:{ apply H2; [lia | exact Hin | right; exact Hkd]. }
    all: destruct m as [|f]; [lia|]; destruct f as [|f']; [lia|].
    all: assert (Hcss : forall src0 prefix0 containing tm0, defined (css f' src0 prefix0 l containing Q tm0))
           by (intros; apply H1; lia).
    all: assert (Hcss1 : forall src0 prefix0 containing tm0, defined (css (S f') src0 prefix0 l containing Q tm0))
           by (intros; apply H1; lia).
    all: pose proof (cdef_object_from_css sch cfg frags srcs f' l Q Hcss) as Hobj.
    all: rewrite U.convert_definition_S.
    all: assert (Htail : defined (U.def_tail sch cfg frags srcs (S f') src prefix def l opts Q tm)).
    all: try (destruct (assoc (td_name def) (cfg_bindings cfg)) as [bd|];
      [ destruct (str_eqb (d_bind opts) (b "-")); cbv beta iota; [|dfd];
        destruct (builtin_go (td_name def)) as [bg|]; [destruct (nonempty (d_typename opts)); cbv beta iota; [exact Htail | discriminate] | exact Htail]
      | destruct (builtin_go (td_name def)) as [bg|]; [destruct (nonempty (d_typename opts)); cbv beta iota; [exact Htail | discriminate] | exact Htail] ]).
    all: unfold U.def_tail; rewrite Hkd.
    all: apply defined_bind; [dfd|]; intros [name prefix'] _.
    all: (apply defined_bind; [apply get_type_defined|]); intros [t0|] _; [discriminate|].
    all: cbv zeta.
    all: destruct (get_b (d_struct opts) && validate_struct_option def l); cbv iota.
    all: try ((apply defined_bind; [apply Hcss1|]); intros [fields tm1] _; (apply flat_tail_defined; [|intros; discriminate]);
              try apply add_type_defined).
    all: try (dfd; fail).
    (* interface / union *)
    1,2: cbv zeta; (apply defined_bind; [|intros [names tm2] _; apply add_type_defined]).
    1,2: apply mfold_defined; intros [done tmx] idef Hidef.
    1,2: (apply defined_bind; [apply Hobj; exact (Himpl def idef Hin Hidef)|]); intros [g tmy] _; destruct g; discriminate.
    (* enum *)
    pose proof (convert_enum_go_defined name (for_enum (cfg_casing cfg) (td_name def)) (td_values def) []) as He.
    unfold convert_enum. destruct (convert_enum_go name (for_enum (cfg_casing cfg) (td_name def)) [] (td_values def)); try discriminate.
    - apply add_type_defined.
    - exfalso. apply He. reflexivity.
  Qed.

  Lemma ctype_of_cdef l : CDEF l -> forall t, CTYPE t l.
  Proof.
    intros HD t Q. destruct (HD Q) as [n0 H0]. induction t as [n nn|e [ne He] nn].
    - exists (S n0). intros m Hm src prefix opts tm. destruct m as [|f]; [lia|]. rewrite U.convert_type_S.
      destruct (nonempty (d_bind opts) && negb (str_eqb (d_bind opts) (b "-"))); [discriminate|].
      destruct (find_type sch n) as [def|] eqn:Ef; [|discriminate].
      apply defined_bind; [|intros [g tm'] _; dfd].
      apply H0; [lia | exact (find_type_in sch _ _ Ef)].
    - exists (S ne). intros m Hm src prefix opts tm. destruct m as [|f]; [lia|]. rewrite U.convert_type_S.
      destruct (nonempty (d_bind opts) && negb (str_eqb (d_bind opts) (b "-"))); [discriminate|].
      apply defined_bind; [apply He; lia|]. intros [[g o] tm'] _. discriminate.
  Qed.

  Lemma cnf_of_css fr : CSS (fr_sel fr) -> CNF fr.
  Proof.
    intro HS. destruct (find_type sch (fr_on fr)) as [typ|] eqn:Et.
    2:{ exists 1. intros m Hm tm. destruct m as [|f]; [lia|]. rewrite U.convert_named_fragment_S, Et. discriminate. }
    destruct (pp sch frags srcs NFrag None (pos_of (fr_src fr) (fr_line fr)) None) as [D| | |] eqn:ED.
    - destruct (HS D) as [n Hn]. exists (S n). intros m Hm tm. destruct m as [|f]; [lia|].
      rewrite U.convert_named_fragment_S, Et, ED. cbn [bind].
      apply defined_bind; [apply Hn; lia|]. intros [fields tm1] _.
      apply flat_tail_defined; [|intros; discriminate].
      destruct (td_kind typ); try discriminate.
      + apply defined_bind; [apply add_fragment_type_defined | intros; discriminate].
      + cbv zeta. apply defined_bind; [apply add_fragment_type_defined|]. intros tm2 _.
        apply defined_bind; [|intros; discriminate]. apply mfold_defined. intros tmx idef _.
        apply defined_bind; [apply Hn; lia|]. intros [ifields tmy] _. apply add_fragment_type_defined.
      + cbv zeta. apply defined_bind; [apply add_fragment_type_defined|]. intros tm2 _.
        apply defined_bind; [|intros; discriminate]. apply mfold_defined. intros tmx idef _.
        apply defined_bind; [apply Hn; lia|]. intros [ifields tmy] _. apply add_fragment_type_defined.
    - exists 1. intros m Hm tm. destruct m as [|f]; [lia|]. rewrite U.convert_named_fragment_S, Et, ED. discriminate.
    - exists 1. intros m Hm tm. destruct m as [|f]; [lia|]. rewrite U.convert_named_fragment_S, Et, ED. discriminate.
    - exfalso. exact (pp_defined _ _ _ _ _ _ _ ED).
  Qed.

  Lemma in_sels_spreads x l G : In x l -> In G (sel_spreads x) -> In G (sels_spreads l).
  Proof. intros Hx HG. unfold sels_spreads. apply in_flat_map. exists x. split; assumption. Qed.

  (* one step of the selection-set loop, given the fragments of rank below r *)
  Lemma step_of_rank r :
    (forall name fr, find_fragment frags name = Some fr -> rk name < r -> CNF fr) ->
    forall s, (forall G, In G (sel_spreads s) -> rk G < r) -> STEP s.
  Proof.
    intros HP s. induction s as [a n fty p e sub l IH|c e sub l IH|n e l] using sel_ind'; intros HG.
    - assert (HS : CSS sub).
      { apply css_of_steps. rewrite Forall_forall in IH |- *. intros x Hx. apply (IH x Hx).
        intros G HGx. apply HG. cbn [sel_spreads]. exact (in_sels_spreads _ _ _ Hx HGx). }
      intro Q. destruct (ctype_of_cdef sub (cdef_of_css sub HS) fty Q) as [n0 H0].
      exists n0. intros m Hm src prefix containing [done tmx]. unfold U.css_step.
      apply defined_bind; [apply pp_defined|]. intros D _. cbv zeta.
      apply defined_bind; [apply H0, Hm|]. intros [[g o] tmy] _. discriminate.
    - assert (HS : CSS sub).
      { apply css_of_steps. rewrite Forall_forall in IH |- *. intros x Hx. apply (IH x Hx).
        intros G HGx. apply HG. cbn [sel_spreads]. exact (in_sels_spreads _ _ _ Hx HGx). }
      intro Q. destruct (HS Q) as [n0 H0].
      exists n0. intros m Hm src prefix containing [done tmx]. unfold U.css_step.
      apply defined_bind; [apply pp_defined|]. intros D _.
      destruct (match c with [] => Some containing | _ :: _ => find_type sch c end) as [ft|]; [|discriminate].
      destruct (negb (fragment_matches containing ft)); [discriminate|].
      apply defined_bind; [apply H0, Hm|]. intros [fs tmy] _. discriminate.
    - intro Q. destruct (find_fragment frags n) as [fr|] eqn:Ef.
      + destruct (HP n fr Ef (HG n (or_introl eq_refl))) as [n0 H0].
        exists n0. intros m Hm src prefix containing [done tmx]. unfold U.css_step. rewrite Ef.
        apply defined_bind; [apply pp_defined|]. intros D _.
        destruct (find_type sch (fr_on fr)) as [ft|]; [|discriminate].
        destruct (negb (fragment_matches containing ft)); [discriminate|].
        apply defined_bind; [apply get_type_defined|]. intros e0 _.
        apply defined_bind; [destruct e0; [discriminate | apply H0, Hm]|]. intros [g tmy] _. discriminate.
      + exists 0. intros m _ src prefix containing [done tmx]. unfold U.css_step. rewrite Ef.
        apply defined_bind; [apply pp_defined|]. intros D _. discriminate.
  Qed.

  Lemma css_of_rank r :
    (forall name fr, find_fragment frags name = Some fr -> rk name < r -> CNF fr) ->
    forall l, (forall G, In G (sels_spreads l) -> rk G < r) -> CSS l.
  Proof.
    intros HP l HG. apply css_of_steps. rewrite Forall_forall. intros s Hs.
    apply (step_of_rank r HP). intros G HGs. apply HG. exact (in_sels_spreads _ _ _ Hs HGs).
  Qed.

  Lemma cnf_all_ranks : forall r name fr, find_fragment frags name = Some fr -> rk name < r -> CNF fr.
  Proof.
    induction r as [|r IH]; intros name fr Ef Hr; [lia|].
    apply cnf_of_css. apply (css_of_rank r IH). intros G HG.
    assert (rk G < rk name) by (apply Hrk; exists fr; split; assumption). lia.
  Qed.

  Lemma rank_bound (l : list str) : exists r, forall G, In G l -> rk G < r.
  Proof.
    induction l as [|x l [r Hr]]; [exists 0; intros G []|].
    exists (Nat.max (S (rk x)) r). intros G [<-|HG]; [lia|]. specialize (Hr G HG). lia.
  Qed.

  Theorem css_terminates_aux l : CSS l.
  Proof.
    destruct (rank_bound (sels_spreads l)) as [r Hr].
    apply (css_of_rank r); [|exact Hr]. intros name fr Ef _. exact (cnf_all_ranks (S (rk name)) name fr Ef ltac:(lia)).
  Qed.
End Term.

(* ------------------------------------------------------------------------------------------ *)
(* the theorems                                                                               *)
(* ------------------------------------------------------------------------------------------ *)
(* Hypotheses: the possible types of every type of the schema are object types, and no named
   fragment spreads itself, directly or through other fragments.  Nothing else: a name that does
   not resolve is a Panic of the model, which is a result.  The bound depends on the selection,
   the type reference and the directive in force (its [for:] table bounds the number of input
   struct names), not on the type map, the prefix, the options or the enclosing type. *)
Section Main.
  Variable sch : schema.
  Variable cfg : config.
  Variable frags : list fragment.
  Variable srcs : list (list lkind).
  Hypothesis Himpl : impls_objects sch.
  Hypothesis Hac : frags_acyclic frags.

  Theorem convert_selection_set_terminates sels Q :
    exists n, forall m, n <= m -> forall src prefix containing tm,
      convert_selection_set sch cfg frags srcs m src prefix sels containing Q tm <> OutOfFuel.
  Proof. destruct Hac as [rk Hrk]. exact (css_terminates_aux sch cfg frags srcs Himpl rk Hrk sels Q). Qed.

  Theorem convert_definition_terminates sels Q :
    exists n, forall m, n <= m -> forall src prefix def opts tm, In def sch ->
      convert_definition sch cfg frags srcs m src prefix def sels opts Q tm <> OutOfFuel.
  Proof.
    destruct Hac as [rk Hrk].
    exact (cdef_of_css sch cfg frags srcs Himpl sels (css_terminates_aux sch cfg frags srcs Himpl rk Hrk sels) Q).
  Qed.

  Theorem convert_type_terminates t sels Q :
    exists n, forall m, n <= m -> forall src prefix opts tm,
      convert_type sch cfg frags srcs m src prefix t sels opts Q tm <> OutOfFuel.
  Proof.
    destruct Hac as [rk Hrk].
    exact (ctype_of_cdef sch cfg frags srcs sels
             (cdef_of_css sch cfg frags srcs Himpl sels (css_terminates_aux sch cfg frags srcs Himpl rk Hrk sels)) t Q).
  Qed.

  (* for ANY fragment record (its own spreads are looked up in [frags]) *)
  Theorem convert_named_fragment_terminates fr :
    exists n, forall m, n <= m -> forall tm, convert_named_fragment sch cfg frags srcs m fr tm <> OutOfFuel.
  Proof.
    destruct Hac as [rk Hrk].
    exact (cnf_of_css sch cfg frags srcs fr (css_terminates_aux sch cfg frags srcs Himpl rk Hrk (fr_sel fr))).
  Qed.

  (* the input side on its own needs no hypothesis on the fragments: ANY input object type of the
     schema, recursive or not (`input Filter { and: [Filter!] }`), whatever selection it is
     compared with, and any type at all under the empty selection.  The measure is the number
     of names of [name_univ] that are not yet keys of the type map ([missing]); the bound is
     uniform in the type map, the prefix and the options. *)
  Theorem convert_input_definition_terminates Q :
    exists n, forall m, n <= m -> forall src prefix def sels opts tm,
      In def sch -> (sels = [] \/ td_kind def = KInput) ->
      convert_definition sch cfg frags srcs m src prefix def sels opts Q tm <> OutOfFuel.
  Proof. exact (input_def_bound sch cfg frags srcs Himpl Q). Qed.

  (* ---- with Level 1: from some fuel on, ONE result, which is a value, an error or a panic ---- *)
  Lemma total_gen {A} (F : nat -> res A) :
    (forall f, F f <> OutOfFuel -> F (S f) = F f) -> (exists n, forall m, n <= m -> F m <> OutOfFuel) ->
    exists n r, r <> OutOfFuel /\ forall m, n <= m -> F m = r.
  Proof.
    intros HS [n Hn]. exists n, (F n). split; [exact (Hn n (Nat.le_refl n))|].
    intros m Hm. replace m with ((m - n) + n) by lia. apply fuel_irrelevant_gen; [exact HS | exact (Hn n (Nat.le_refl n))].
  Qed.

  Corollary convert_selection_set_total sels Q src prefix containing tm :
    exists n r, r <> OutOfFuel /\ forall m, n <= m -> convert_selection_set sch cfg frags srcs m src prefix sels containing Q tm = r.
  Proof.
    apply total_gen; [intro f; apply convert_selection_set_fuel_S|].
    destruct (convert_selection_set_terminates sels Q) as [n Hn]. exists n. intros m Hm. apply Hn, Hm.
  Qed.

  Corollary convert_type_total t sels Q src prefix opts tm :
    exists n r, r <> OutOfFuel /\ forall m, n <= m -> convert_type sch cfg frags srcs m src prefix t sels opts Q tm = r.
  Proof.
    apply total_gen; [intro f; apply convert_type_fuel_S|].
    destruct (convert_type_terminates t sels Q) as [n Hn]. exists n. intros m Hm. apply Hn, Hm.
  Qed.

  Corollary convert_definition_total def sels Q src prefix opts tm : In def sch ->
    exists n r, r <> OutOfFuel /\ forall m, n <= m -> convert_definition sch cfg frags srcs m src prefix def sels opts Q tm = r.
  Proof.
    intro Hin. apply total_gen; [intro f; apply convert_definition_fuel_S|].
    destruct (convert_definition_terminates sels Q) as [n Hn]. exists n. intros m Hm. apply Hn; assumption.
  Qed.

  Corollary convert_named_fragment_total fr tm :
    exists n r, r <> OutOfFuel /\ forall m, n <= m -> convert_named_fragment sch cfg frags srcs m fr tm = r.
  Proof.
    apply total_gen; [intro f; apply convert_named_fragment_fuel_S|].
    destruct (convert_named_fragment_terminates fr) as [n Hn]. exists n. intros m Hm. apply Hn, Hm.
  Qed.

  (* with the no-panic theorem (Proofs/ConvertNoPanicFull.v): on a well-formed program the one
     result is a value or an error *)
  Corollary convert_selection_set_total_no_crash sels Q src prefix containing tm :
    schema_okb sch = true -> frags_okb2 sch frags srcs = true -> sels_okb2 sch frags srcs src sels = true ->
    exists n r, no_crash r /\ forall m, n <= m -> convert_selection_set sch cfg frags srcs m src prefix sels containing Q tm = r.
  Proof.
    intros H1 H2 H3. destruct (convert_selection_set_total sels Q src prefix containing tm) as [n [r [Hr Hn]]].
    exists n, r. split; [|exact Hn].
    pose proof (proj1 (proj2 (proj2 (U.convert_np sch cfg frags srcs H1 H2 n))) src prefix sels containing Q tm H3) as Hnp.
    rewrite (Hn n (Nat.le_refl n)) in Hnp. destruct r; cbn in *; try exact I; [exact Hnp | apply Hr; reflexivity].
  Qed.
End Main.

(* ------------------------------------------------------------------------------------------ *)
(* Level 3: the operations, with the fuel constant as a parameter                             *)
(* ------------------------------------------------------------------------------------------ *)
(* convert_arguments / convert_operation / add_operation / generate_types of Gen/Convert.v with
   FUEL replaced by a parameter; at FUEL they ARE the model's functions (by reflexivity) *)
Section WithFuel.
  Variable sch : schema.
  Variable cfg : config.
  Variable frags : list fragment.
  Variable srcs : list (list lkind).
  Variable fuel : nat.

  Definition convert_arguments_with (o : operation) (Q : fulldir) (tm : typemap) : res (option str * typemap) :=
    match op_vars o with
    | [] => Ok (None, tm)
    | vars =>
        let name := b "__" ++ op_name o ++ b "Input" in
        do (fields, tm1) <-
          mfold (fun (acc : list gofield * typemap) (v : vardef) =>
                   let '(done, tmx) := acc in
                   if mem_str (vd_name v) go_keywords then Err (b "keyword") else
                   do D <- pp sch frags srcs (NVar (ty_nonnull (vd_type v))) None (pos_of (op_src o) (vd_line v)) (Some Q);
                   do (r, tmy) <- convert_type sch cfg frags srcs fuel (op_src o) [] (vd_type v) [] (fd_main D) Q tmx;
                   let '(g, opt) := r in
                   Ok (done ++ [{| gf_name := cased cfg (vd_name v); gf_type := g; gf_json := vd_name v; gf_gql := vd_name v;
                                   gf_omitempty := get_b (d_omitempty opt) |}], tmy))
                vars ([], tm);
        do (t, tm2) <- add_type tm1 name (DStruct name fields [] true);
        match t with
        | GStruct n => Ok (Some n, tm2)
        | _ => Err (b "input-type-not-struct")
        end
    end.

  Definition convert_operation_with (o : operation) (Q : fulldir) (tm : typemap) : res (gotype * typemap) :=
    let tn := d_typename (fd_main Q) in
    let name := if nonempty tn then tn else op_name o ++ b "Response" in
    let prefix := if nonempty tn then [tn] else [op_name o] in
    match root_type sch (op_kind o) with
    | None => Panic (b "convertOperation: base type is nil")
    | Some base =>
        do (fields, tm1) <- convert_selection_set sch cfg frags srcs fuel (op_src o) prefix (op_sel o) base Q tm;
        match (if get_b (d_flatten (fd_main Q)) then validate_flatten_option sch frags base (op_sel o) else FlatErr) with
        | FlatPanic => Panic (b "validateFlattenOption: nil fragment definition")
        | FlatIdx (Some i) =>
            match nth_error fields i with
            | Some fl => Ok (gf_type fl, tm1)
            | None => Panic (b "flatten: fields[i] index out of range")
            end
        | FlatIdx None => Panic (b "flatten: fields[-1]")
        | FlatErr => add_type tm1 name (DStruct (td_name base) fields (op_sel o) false)
        end
    end.

  Definition add_operation_with (acc : typemap * list opinfo) (o : operation) : res (typemap * list opinfo) :=
    let '(tm, done) := acc in
    match op_name o with
    | [] => Err (b "anonymous")
    | _ =>
        if mem_str (op_name o) go_keywords then Err (b "keyword") else
        do D <- pp sch frags srcs NOp None (pos_of (op_src o) (op_line o)) None;
        do (inp, tm1) <- convert_arguments_with o D tm;
        do (resp, tm2) <- convert_operation_with o D tm1;
        Ok (tm2, done ++ [{| oi_name := op_name o; oi_input := inp; oi_response := reference resp |}])
    end.

  Definition generate_types_with (ops : list operation) : res (typemap * list opinfo) :=
    mfold add_operation_with ops ([], []).
End WithFuel.

Lemma generate_types_with_FUEL sch cfg frags srcs ops :
  generate_types_with sch cfg frags srcs FUEL ops = generate_types sch cfg frags srcs ops.
Proof. reflexivity. Qed.

Section Level3.
  Variable sch : schema.
  Variable cfg : config.
  Variable frags : list fragment.
  Variable srcs : list (list lkind).

  Notation gtw := (generate_types_with sch cfg frags srcs).

  (* fuel monotonicity of the whole type generation *)
  Theorem generate_types_fuel_S f ops : gtw f ops <> OutOfFuel -> gtw (S f) ops = gtw f ops.
  Proof.
    change (ext (gtw (S f) ops) (gtw f ops)). unfold generate_types_with.
    destruct (convert_fuel_ext sch cfg frags srcs f) as (IHt & _ & IHs & _).
    apply ext_mfold. intros [tm done] o _. unfold add_operation_with.
    destruct (op_name o); [apply ext_refl|]. destruct (mem_str _ go_keywords); [apply ext_refl|].
    apply ext_bind; [apply ext_refl|]. intros D _.
    apply ext_bind.
    - unfold convert_arguments_with. destruct (op_vars o) as [|v0 vs]; [apply ext_refl|]. cbv zeta.
      apply ext_bind; [|intros; apply ext_refl].
      apply ext_mfold. intros [done' tmx] v _. destruct (mem_str (vd_name v) go_keywords); [apply ext_refl|].
      apply ext_bind; [apply ext_refl|]. intros D' _. apply ext_bind; [apply IHt | intros; apply ext_refl].
    - intros [inp tm1] _. apply ext_bind; [|intros; apply ext_refl].
      unfold convert_operation_with. cbv zeta. destruct (root_type sch (op_kind o)) as [base|]; [|apply ext_refl].
      apply ext_bind; [apply IHs | intros; apply ext_refl].
  Qed.

  Hypothesis Himpl : impls_objects sch.
  Hypothesis Hac : frags_acyclic frags.

  Lemma add_operation_bound o : exists n, forall m, n <= m -> forall acc, defined (add_operation_with sch cfg frags srcs m acc o).
  Proof.
    destruct (pp sch frags srcs NOp None (pos_of (op_src o) (op_line o)) None) as [D| | |] eqn:ED.
    - destruct (uniform_bound (fun v m => forall src prefix opts tm,
                  defined (convert_type sch cfg frags srcs m src prefix (vd_type v) [] opts D tm)) (op_vars o)) as [n1 H1].
      { intros v _. exact (convert_type_terminates sch cfg frags srcs Himpl Hac (vd_type v) [] D). }
      destruct (convert_selection_set_terminates sch cfg frags srcs Himpl Hac (op_sel o) D) as [n2 H2].
      exists (Nat.max n1 n2). intros m Hm [tm done]. unfold add_operation_with.
      destruct (op_name o); [discriminate|]. destruct (mem_str _ go_keywords); [discriminate|].
      rewrite ED. cbn [bind]. apply defined_bind.
      + unfold convert_arguments_with. destruct (op_vars o) as [|v0 vs] eqn:Ev; [discriminate|]. cbv zeta.
        apply defined_bind.
        * apply mfold_defined. intros [done' tmx] v Hv. destruct (mem_str (vd_name v) go_keywords); [discriminate|].
          apply defined_bind; [apply pp_defined|]. intros D' _.
          apply defined_bind; [apply (H1 m ltac:(lia) v Hv)|]. intros [[g opt] tmy] _. discriminate.
        * intros [fields tm1] _. apply defined_bind; [apply add_type_defined|]. intros [t tm2] _. destruct t; discriminate.
      + intros [inp tm1] _. apply defined_bind; [|intros [resp tm2] _; discriminate].
        unfold convert_operation_with. cbv zeta. destruct (root_type sch (op_kind o)) as [base|]; [|discriminate].
        apply defined_bind; [apply H2; lia|]. intros [fields tm2] _.
        apply flat_tail_defined; [apply add_type_defined | intros; discriminate].
    - exists 0. intros m _ [tm done]. unfold add_operation_with.
      destruct (op_name o); [discriminate|]. destruct (mem_str _ go_keywords); [discriminate|]. rewrite ED. discriminate.
    - exists 0. intros m _ [tm done]. unfold add_operation_with.
      destruct (op_name o); [discriminate|]. destruct (mem_str _ go_keywords); [discriminate|]. rewrite ED. discriminate.
    - exfalso. exact (pp_defined _ _ _ _ _ _ _ ED).
  Qed.

  Theorem generate_types_terminates ops : exists n, forall m, n <= m -> gtw m ops <> OutOfFuel.
  Proof.
    destruct (uniform_bound (fun o m => forall acc, defined (add_operation_with sch cfg frags srcs m acc o)) ops) as [n Hn].
    { intros o _. exact (add_operation_bound o). }
    exists n. intros m Hm. unfold generate_types_with. apply mfold_defined. intros acc o Ho. exact (Hn m Hm o Ho acc).
  Qed.

  (* for every program there is a fuel from which the type generation gives ONE result, which is
     a value, an error or a panic; and if the model's fixed FUEL gives a result at all, it is
     that one *)
  Theorem generate_types_total ops :
    exists n r, r <> OutOfFuel /\ (forall m, n <= m -> gtw m ops = r)
                /\ (generate_types sch cfg frags srcs ops <> OutOfFuel -> generate_types sch cfg frags srcs ops = r).
  Proof.
    destruct (generate_types_terminates ops) as [n Hn].
    assert (Hirr : forall f d, gtw f ops <> OutOfFuel -> gtw (d + f) ops = gtw f ops).
    { intros f d. apply (fuel_irrelevant_gen (fun k => gtw k ops)). intro k. apply generate_types_fuel_S. }
    exists n, (gtw n ops). split; [exact (Hn n (Nat.le_refl n))|]. split.
    - intros m Hm. replace m with ((m - n) + n) by lia. apply Hirr. exact (Hn n (Nat.le_refl n)).
    - rewrite <- generate_types_with_FUEL. intro Hd. destruct (Nat.le_ge_cases FUEL n) as [Hle|Hle].
      + replace n with ((n - FUEL) + FUEL) by lia. symmetry. apply Hirr, Hd.
      + replace FUEL with ((FUEL - n) + n) at 1 by lia. apply Hirr. exact (Hn n (Nat.le_refl n)).
  Qed.
End Level3.

(* ------------------------------------------------------------------------------------------ *)
(* non-vacuity: a program with a fragment that spreads another, an interface field and a      *)
(* recursive input type as a variable                                                         *)
(* ------------------------------------------------------------------------------------------ *)
(* interface Node { id: ID! }
   type U implements Node { id: ID!  name: String!  friends: [U!] }
   type V implements Node { id: ID! }
   input Filter { and: [Filter!]  not: Filter  name: String }
   type Query { node: Node  u: U! }

   query Q($f: Filter) { node { __typename id ... on U { ...A } }  u { ...A } }
   fragment A on U { name ...B }
   fragment B on U { id friends { id } }                                                       *)
Definition mkfd (n : String.string) (t : tyref) : fielddef := {| fd_name := b n; fd_type := t; fd_has_default := false |}.
Arguments mkfd n%string_scope t.
Definition fld (a : String.string) (ty : tyref) (parent : String.string) (sub : list sel) : sel :=
  SField (b a) (b a) ty (b parent) 0 sub 0.
Arguments fld a%string_scope ty parent%string_scope sub.

Definition t_schema : schema :=
  [ {| td_name := b "Query"; td_kind := KObject;
       td_fields := [mkfd "node" (TNamed (b "Node") false); mkfd "u" (TNamed (b "U") true)];
       td_ifaces := []; td_members := []; td_values := [] |};
    {| td_name := b "Node"; td_kind := KInterface; td_fields := [mkfd "id" (TNamed (b "ID") true)];
       td_ifaces := []; td_members := []; td_values := [] |};
    {| td_name := b "U"; td_kind := KObject;
       td_fields := [mkfd "id" (TNamed (b "ID") true); mkfd "name" (TNamed (b "String") true);
                     mkfd "friends" (TList (TNamed (b "U") true) false)];
       td_ifaces := [b "Node"]; td_members := []; td_values := [] |};
    {| td_name := b "V"; td_kind := KObject; td_fields := [mkfd "id" (TNamed (b "ID") true)];
       td_ifaces := [b "Node"]; td_members := []; td_values := [] |};
    {| td_name := b "Filter"; td_kind := KInput;
       td_fields := [mkfd "and" (TList (TNamed (b "Filter") true) false); mkfd "not" (TNamed (b "Filter") false);
                     mkfd "name" (TNamed (b "String") false)];
       td_ifaces := []; td_members := []; td_values := [] |};
    {| td_name := b "ID"; td_kind := KScalar; td_fields := []; td_ifaces := []; td_members := []; td_values := [] |};
    {| td_name := b "String"; td_kind := KScalar; td_fields := []; td_ifaces := []; td_members := []; td_values := [] |} ].

Definition t_fragA : fragment :=
  {| fr_name := b "A"; fr_on := b "U"; fr_extra := 0%N;
     fr_sel := [fld "name" (TNamed (b "String") true) "U" []; SSpread (b "B") 0 0]; fr_line := 0%N; fr_src := 0 |}.
Definition t_fragB : fragment :=
  {| fr_name := b "B"; fr_on := b "U"; fr_extra := 0%N;
     fr_sel := [fld "id" (TNamed (b "ID") true) "U" [];
                fld "friends" (TList (TNamed (b "U") true) false) "U" [fld "id" (TNamed (b "ID") true) "U" []]];
     fr_line := 0%N; fr_src := 0 |}.
Definition t_frags : list fragment := [t_fragA; t_fragB].
Definition t_op : operation :=
  {| op_kind := 0%N; op_name := b "Q"; op_extra := 0%N;
     op_sel := [fld "node" (TNamed (b "Node") false) "Query"
                  [fld "__typename" (TNamed (b "String") true) "Node" [];
                   fld "id" (TNamed (b "ID") true) "Node" [];
                   SInline (b "U") 0 [SSpread (b "A") 0 0] 0];
                fld "u" (TNamed (b "U") true) "Query" [SSpread (b "A") 0 0]];
     op_line := 0%N; op_src := 0;
     op_vars := [{| vd_name := b "f"; vd_type := TNamed (b "Filter") false; vd_line := 0%N |}] |}.

(* the hypotheses hold (by the executable checks), and so do those of the no-panic theorem *)
Example t_hypotheses :
  impls_objects t_schema /\ frags_acyclic t_frags
  /\ schema_okb t_schema = true /\ frags_okb2 t_schema t_frags [] = true /\ forallb (op_okb2 t_schema t_frags []) [t_op] = true.
Proof.
  split; [apply impls_objectsb_sound; vm_compute; reflexivity|].
  split; [apply frags_acyclicb_sound; vm_compute; reflexivity|].
  repeat split; vm_compute; reflexivity.
Qed.

(* A spreads B: the edge is there, the check is not vacuous *)
Example t_edge : frag_edge t_frags (b "A") (b "B").
Proof. exists t_fragA. split; [reflexivity | vm_compute; left; reflexivity]. Qed.

(* the converter returns a value with the model's fixed fuel: the response types, the two fragment
   types, the input struct of the operation and the struct of the recursive input type *)
Example t_converts :
  exists tm ops, generate_types t_schema w_cfg t_frags [] [t_op] = Ok (tm, ops)
    /\ map fst tm = [b "QResponse"; b "QU"; b "QNode"; b "QNodeV"; b "QNodeU"; b "A"; b "B"; b "BFriendsU"; b "__QInput"; b "Filter"].
Proof. eexists. eexists. split; vm_compute; reflexivity. Qed.

(* the recursive input type alone: registered before its fields are converted, found on re-entry *)
Example t_recursive_input_converts :
  exists g tm, convert_type t_schema w_cfg t_frags [] 5 0 [] (TNamed (b "Filter") false) [] dir0 fulldir0 [] = Ok (g, tm)
    /\ map fst tm = [b "Filter"].
Proof. eexists. eexists. split; vm_compute; reflexivity. Qed.

Example t_total : forall ops,
  exists n r, r <> OutOfFuel /\ (forall m, n <= m -> generate_types_with t_schema w_cfg t_frags [] m ops = r)
              /\ (generate_types t_schema w_cfg t_frags [] ops <> OutOfFuel -> generate_types t_schema w_cfg t_frags [] ops = r).
Proof. exact (generate_types_total t_schema w_cfg t_frags [] (proj1 t_hypotheses) (proj1 (proj2 t_hypotheses))). Qed.

(* ------------------------------------------------------------------------------------------ *)
(* acyclicity is needed: a fragment that spreads itself is converted forever                  *)
(* ------------------------------------------------------------------------------------------ *)
(* fragment F on U { ...F }   (gqlparser rejects it: NoFragmentCycles) *)
Definition l_U : typedef := {| td_name := b "U"; td_kind := KObject; td_fields := []; td_ifaces := []; td_members := []; td_values := [] |}.
Definition l_schema : schema := [l_U].
Definition l_fr : fragment :=
  {| fr_name := b "F"; fr_on := b "U"; fr_extra := 0%N; fr_sel := [SSpread (b "F") 0 0]; fr_line := 0%N; fr_src := 0 |}.

Example l_checkb : frags_acyclicb [l_fr] = false /\ impls_objectsb l_schema = true.
Proof. split; vm_compute; reflexivity. Qed.

Example l_cyclic : ~ frags_acyclic [l_fr].
Proof.
  intros [rk Hrk]. assert (H : rk (b "F") < rk (b "F")); [|lia].
  apply Hrk. exists l_fr. split; [reflexivity | left; reflexivity].
Qed.

Example l_fuel_5 : convert_named_fragment l_schema w_cfg [l_fr] [] 5 l_fr [] = OutOfFuel.
Proof. vm_compute. reflexivity. Qed.
Example l_fuel_50 : convert_named_fragment l_schema w_cfg [l_fr] [] 50 l_fr [] = OutOfFuel.
Proof. vm_compute. reflexivity. Qed.
Example l_fuel_400 : convert_named_fragment l_schema w_cfg [l_fr] [] FUEL l_fr [] = OutOfFuel.
Proof. vm_compute. reflexivity. Qed.

Theorem self_spread_diverges : forall n tm, assoc (b "F") tm = None ->
  convert_named_fragment l_schema w_cfg [l_fr] [] n l_fr tm = OutOfFuel.
Proof.
  induction n as [n IH] using lt_wf_ind. intros tm Hn.
  destruct n as [|[|f]]; [reflexivity | reflexivity |].
  rewrite U.convert_named_fragment_S.
  cbn -[convert_selection_set convert_named_fragment].
  rewrite U.convert_selection_set_S2.
  cbn -[convert_selection_set convert_named_fragment].
  unfold get_type. replace (assoc [70%N] tm) with (@None godecl) by (symmetry; exact Hn).
  cbn [bind]. rewrite (IH f) by (lia || exact Hn). reflexivity.
Qed.

Corollary self_spread_never_defined :
  ~ exists n, forall m, n <= m -> convert_named_fragment l_schema w_cfg [l_fr] [] m l_fr [] <> OutOfFuel.
Proof. intros [n Hn]. apply (Hn n (Nat.le_refl n)). apply self_spread_diverges. reflexivity. Qed.

(* the hypothesis on the schema is needed as well: a union that lists itself as a member
   (schema validation rejects it: union members must be object types) *)
Definition u_U : typedef := {| td_name := b "U"; td_kind := KUnion; td_fields := []; td_ifaces := []; td_members := [b "U"]; td_values := [] |}.

Example u_checkb : impls_objectsb [u_U] = false.
Proof. vm_compute. reflexivity. Qed.

Theorem self_union_diverges : forall n src Q,
  convert_definition [u_U] w_cfg [] [] n src [] u_U [] dir0 Q [] = OutOfFuel.
Proof.
  induction n as [n IH] using lt_wf_ind. intros src Q.
  destruct n as [|[|f]]; [reflexivity | reflexivity |].
  rewrite U.convert_definition_S.
  cbn -[convert_selection_set convert_definition].
  rewrite css_nil. cbn [bind]. rewrite (IH (S f)) by lia. reflexivity.
Qed.

(* ------------------------------------------------------------------------------------------ *)
(* the model's fixed FUEL is a depth cap, not a bound: three units of fuel per nesting level   *)
(* ------------------------------------------------------------------------------------------ *)
(* type Query { q: Query }    query Q { q { q { ... } } }   nested k deep *)
Definition d_schema : schema :=
  [ {| td_name := b "Query"; td_kind := KObject; td_fields := [mkfd "q" (TNamed (b "Query") false)];
       td_ifaces := []; td_members := []; td_values := [] |} ].
Fixpoint d_nest (k : nat) : list sel :=
  match k with O => [] | S k' => [fld "q" (TNamed (b "Query") false) "Query" (d_nest k')] end.
Definition d_op (k : nat) : operation :=
  {| op_kind := 0%N; op_name := b "Q"; op_extra := 0%N; op_sel := d_nest k; op_line := 0%N; op_src := 0; op_vars := [] |}.

Example d_hypotheses : impls_objects d_schema /\ frags_acyclic [].
Proof. split; [apply impls_objectsb_sound | apply frags_acyclicb_sound]; vm_compute; reflexivity. Qed.

Definition res_is_ok {A} (r : res A) : bool := match r with Ok _ => true | _ => false end.
Lemma res_is_ok_sound {A} (r : res A) : res_is_ok r = true -> exists a, r = Ok a.
Proof. destruct r as [a| | |]; try discriminate. intros _. exists a. reflexivity. Qed.

(* 100 levels fit *)
Example d_100_converts : exists r, generate_types d_schema w_cfg [] [] [d_op 100] = Ok r.
Proof. apply res_is_ok_sound. vm_compute. reflexivity. Qed.
(* 140 levels do not: the model runs out of its fuel although the program is acyclic ... *)
Example d_140_out_of_fuel : generate_types d_schema w_cfg [] [] [d_op 140] = OutOfFuel.
Proof. vm_compute. reflexivity. Qed.
(* ... and more fuel converts it *)
Example d_140_converts_with_more : exists r, generate_types_with d_schema w_cfg [] [] 500 [d_op 140] = Ok r.
Proof. apply res_is_ok_sound. vm_compute. reflexivity. Qed.

Print Assumptions convert_fuel_ext.
Print Assumptions convert_type_fuel_irrelevant.
Print Assumptions convert_selection_set_terminates.
Print Assumptions convert_type_terminates.
Print Assumptions convert_definition_terminates.
Print Assumptions convert_named_fragment_terminates.
Print Assumptions convert_input_definition_terminates.
Print Assumptions convert_selection_set_total_no_crash.
Print Assumptions frags_acyclicb_sound.
Print Assumptions generate_types_fuel_S.
Print Assumptions generate_types_total.
Print Assumptions self_spread_diverges.
Print Assumptions self_union_diverges.
Print Assumptions t_converts.
