(* C01, "no dangling type reference" in the interface declarations: whenever generation
   succeeds, every implementation that an interface declaration of the final type map lists (the
   arms of its generated __unmarshal / __marshal switch) is a declaration of that map.

   The property is NOT an invariant of single steps: convert_named_fragment registers the
   interface with the names of its implementation structs BEFORE it generates them.  What is
   shown for every call is a frame statement: a declaration of the returned map is either a
   declaration of the incoming map, unchanged, or all implementations it lists are declared in
   the returned map. *)
From Verif Require Import Base.Str Gen.Consts Gen.Casing Gen.Enum Gen.Gql Gen.Doc Gen.Directive Gen.Convert Gen.Wf
  Proofs.DocProofs Proofs.ConvertProofs Proofs.DirectiveProofs Proofs.ConvertNoPanicFull Proofs.ConvertFuel Proofs.ConvertExt
  Proofs.ConvertBound Proofs.ConvertClosed.
From Coq Require Import List.
Import ListNotations.

Module U := ConvertNoPanicFull.

Definition impls_of (d : godecl) : list str := match d with DIface _ _ impls _ => impls | _ => [] end.
Definition names_bound (tm : typemap) (l : list str) : Prop := Forall (fun n => assoc n tm <> None) l.

Lemma names_bound_keys tm tm' l : keys_sub tm tm' -> names_bound tm l -> names_bound tm' l.
Proof. intros Hk H. eapply Forall_impl; [|exact H]. intros n Hn. exact (Hk _ Hn). Qed.

(* old declarations are untouched, new ones list declared implementations only *)
Definition fresh_ok (tm tm' : typemap) : Prop :=
  forall n d, assoc n tm' = Some d -> assoc n tm = Some d \/ names_bound tm' (impls_of d).

Lemma fresh_ok_refl tm : fresh_ok tm tm.
Proof. intros n d H. left. exact H. Qed.
Lemma fresh_ok_trans a c e : tm_ext c e -> fresh_ok a c -> fresh_ok c e -> fresh_ok a e.
Proof.
  intros He H1 H2 n d H. destruct (H2 _ _ H) as [Hc|Hb]; [|right; exact Hb].
  destruct (H1 _ _ Hc) as [Ha|Hb]; [left; exact Ha|]. right. exact (names_bound_keys _ _ _ (keys_sub_ext _ _ He) Hb).
Qed.
Lemma fresh_ok_cons tm name d : names_bound ((name, d) :: tm) (impls_of d) -> fresh_ok tm ((name, d) :: tm).
Proof.
  intros Hd n x H. cbn [assoc] in H. destruct (str_eqb n name); [injection H as <-; right; exact Hd | left; exact H].
Qed.

(* the triple: the map is extended, and what is new is fine *)
Definition T {A} (tm : typemap) (r : res (A * typemap)) : Prop :=
  match r with Ok (_, tm') => tm_ext tm tm' /\ fresh_ok tm tm' | _ => True end.
Definition T1 (tm : typemap) (r : res typemap) : Prop :=
  match r with Ok tm' => tm_ext tm tm' /\ fresh_ok tm tm' | _ => True end.

Lemma T_ret {A} tm (a : A) : T tm (Ok (a, tm)).
Proof. split; [apply tm_ext_refl | apply fresh_ok_refl]. Qed.
Lemma T_bind {A B} tm (r : res (A * typemap)) (k : A * typemap -> res (B * typemap)) :
  T tm r -> (forall a tm1, r = Ok (a, tm1) -> T tm1 (k (a, tm1))) -> T tm (bind r k).
Proof.
  destruct r as [[a tm1]| | |]; cbn [bind T]; trivial. intros (E1 & F1) H2. specialize (H2 a tm1 eq_refl).
  destruct (k (a, tm1)) as [[c tm2]| | |]; cbn [T] in *; trivial. destruct H2 as (E2 & F2).
  split; [exact (tm_ext_trans _ _ _ E1 E2) | exact (fresh_ok_trans _ _ _ E2 F1 F2)].
Qed.
Lemma T_bind_pure {B C} tm (r : res C) (k : C -> res (B * typemap)) :
  (forall c, r = Ok c -> T tm (k c)) -> T tm (bind r k).
Proof. destruct r as [c| | |]; cbn [bind T]; trivial. intro H. exact (H c eq_refl). Qed.
Lemma T_bind1 {B} tm (r : res typemap) (k : typemap -> res (B * typemap)) :
  T1 tm r -> (forall tm1, r = Ok tm1 -> T tm1 (k tm1)) -> T tm (bind r k).
Proof.
  destruct r as [tm1| | |]; cbn [bind T T1]; trivial. intros (E1 & F1) H2. specialize (H2 tm1 eq_refl).
  destruct (k tm1) as [[c tm2]| | |]; cbn [T] in *; trivial. destruct H2 as (E2 & F2).
  split; [exact (tm_ext_trans _ _ _ E1 E2) | exact (fresh_ok_trans _ _ _ E2 F1 F2)].
Qed.
Lemma T1_bind {A} tm (r : res (A * typemap)) (k : A * typemap -> res typemap) :
  T tm r -> (forall a tm1, r = Ok (a, tm1) -> T1 tm1 (k (a, tm1))) -> T1 tm (bind r k).
Proof.
  destruct r as [[a tm1]| | |]; cbn [bind T T1]; trivial. intros (E1 & F1) H2. specialize (H2 a tm1 eq_refl).
  destruct (k (a, tm1)) as [tm2| | |]; cbn [T1] in *; trivial. destruct H2 as (E2 & F2).
  split; [exact (tm_ext_trans _ _ _ E1 E2) | exact (fresh_ok_trans _ _ _ E2 F1 F2)].
Qed.
Lemma T_mfold {A X} (step : A * typemap -> X -> res (A * typemap)) (l : list X) :
  (forall a tmx x, In x l -> T tmx (step (a, tmx) x)) -> forall a tm, T tm (mfold step l (a, tm)).
Proof.
  induction l as [|x r IH]; intros H a tm; [apply T_ret|]. cbn [mfold].
  apply T_bind; [apply H; left; reflexivity|]. intros a1 tm1 _. apply IH. intros a2 tmx y Hy. apply H. right; exact Hy.
Qed.
Lemma T1_mfold {X} (step : typemap -> X -> res typemap) (l : list X) :
  (forall tmx x, In x l -> T1 tmx (step tmx x)) -> forall tm, T1 tm (mfold step l tm).
Proof.
  induction l as [|x r IH]; intros H tm; [split; [apply tm_ext_refl | apply fresh_ok_refl]|]. cbn [mfold].
  pose proof (H tm x (or_introl eq_refl)) as H0.
  destruct (step tm x) as [tm1| | |]; cbn [bind T1] in *; trivial. destruct H0 as (E1 & F1).
  pose proof (IH (fun tmx y Hy => H tmx y (or_intror Hy)) tm1) as H2.
  destruct (mfold step r tm1) as [tm2| | |]; cbn [T1] in *; trivial. destruct H2 as (E2 & F2).
  split; [exact (tm_ext_trans _ _ _ E1 E2) | exact (fresh_ok_trans _ _ _ E2 F1 F2)].
Qed.

Lemma add_type_T tm name d : names_bound tm (impls_of d) -> T tm (add_type tm name d).
Proof.
  intro Hd. unfold add_type. destruct (get_type tm name (decl_gql d) (decl_sel d)) as [[t|]| | |] eqn:E; cbn [bind T]; trivial.
  - split; [apply tm_ext_refl | apply fresh_ok_refl].
  - pose proof (get_type_none _ _ _ _ E) as Hn. split; [exact (tm_ext_cons _ _ _ Hn)|].
    apply fresh_ok_cons. exact (names_bound_keys _ _ _ (keys_sub_ext _ _ (tm_ext_cons _ _ d Hn)) Hd).
Qed.
Lemma add_fragment_type_T1 tm name d : impls_of d = [] -> T1 tm (add_fragment_type tm name d).
Proof.
  intro Hd. unfold add_fragment_type. destruct (assoc name tm) eqn:E; cbn [T1]; trivial.
  split; [exact (tm_ext_cons _ _ _ E)|]. apply fresh_ok_cons. rewrite Hd. constructor.
Qed.

Lemma flat_tail_T tm1 (fields : list gofield) (fr : flat_res) (k : res (gotype * typemap)) s1 s2 s3 :
  T tm1 k ->
  T tm1 (match fr with
         | FlatPanic => Panic s1
         | FlatIdx (Some i) => match nth_error fields i with Some fl => Ok (gf_type fl, tm1) | None => Panic s2 end
         | FlatIdx None => Panic s3
         | FlatErr => k
         end).
Proof.
  intros Hk. destruct fr as [|[i|]|]; try exact Hk; try exact I.
  destruct (nth_error fields i); [apply T_ret | exact I].
Qed.

(* every step of a loop that registers [nm x] leaves all of them registered at the end *)
Lemma mfold_registers {X} (step : typemap -> X -> res typemap) (nm : X -> str) (l : list X) :
  (forall tmx x tmy, step tmx x = Ok tmy -> tm_ext tmx tmy /\ assoc (nm x) tmy <> None) ->
  forall tm tm', mfold step l tm = Ok tm' -> tm_ext tm tm' /\ Forall (fun x => assoc (nm x) tm' <> None) l.
Proof.
  intro H. induction l as [|x r IH]; intros tm tm' E; cbn [mfold] in E.
  - injection E as <-. split; [apply tm_ext_refl | constructor].
  - destruct (step tm x) as [tm1| | |] eqn:E1; cbn [bind] in E; try discriminate.
    destruct (H _ _ _ E1) as (X1 & B1). destruct (IH _ _ E) as (X2 & B2).
    split; [exact (tm_ext_trans _ _ _ X1 X2)|]. constructor; [|exact B2].
    exact (keys_sub_ext _ _ X2 _ B1).
Qed.

Section Impls.
  Variable sch : schema.
  Variable cfg : config.
  Variable frags : list fragment.
  Variable srcs : list (list lkind).

  Notation ctype := (convert_type sch cfg frags srcs).
  Notation cdef := (convert_definition sch cfg frags srcs).
  Notation css := (convert_selection_set sch cfg frags srcs).
  Notation cnf := (convert_named_fragment sch cfg frags srcs).

  (* the names collected by the implementation loop of an interface are declared at its end *)
  Lemma impl_names_bound f src prefix' sels opts Q impls tm1 names tm2 :
    mfold (fun (acc : list str * typemap) (idef : typedef) =>
             let '(done, tmx) := acc in
             do (g, tmy) <- cdef f src prefix' idef sels opts Q tmx;
             match g with
             | GStruct n => Ok (done ++ [n], tmy)
             | _ => Err (b "non-object-implementation")
             end) impls ([], tm1) = Ok (names, tm2) ->
    names_bound tm2 names.
  Proof.
    destruct (convert_extends sch cfg frags srcs f) as (_ & Ed & _).
    destruct (convert_bound sch cfg frags srcs f) as (_ & Bd & _).
    refine (mfold_inv (fun acc : list str * typemap => names_bound (snd acc) (fst acc)) _ impls _ ([], tm1) (names, tm2) (Forall_nil _)).
    intros [done tmx] idef [done' tmy] _ Hinv E. cbn [fst snd] in *.
    apply bind_ok' in E. destruct E as ([g tmy'] & Ec & E).
    pose proof (post_ok _ _ _ _ (Bd _ _ _ _ _ _ _) Ec) as Hb.
    destruct g; try discriminate. injection E as <- <-.
    apply Forall_app. split; [exact (names_bound_keys _ _ _ (keys_sub_ext _ _ (ext_ok _ _ _ _ (Ed _ _ _ _ _ _ _) Ec)) Hinv)|].
    constructor; [exact Hb | constructor].
  Qed.

  Theorem convert_impls : forall f,
    (forall src prefix t sels opts Q tm, T tm (ctype f src prefix t sels opts Q tm))
    /\ (forall src prefix def sels opts Q tm, T tm (cdef f src prefix def sels opts Q tm))
    /\ (forall src prefix sels containing Q tm, T tm (css f src prefix sels containing Q tm))
    /\ (forall fr tm, T tm (cnf f fr tm)).
  Proof.
    induction f as [|f (IHt & IHd & IHs & IHn)].
    - repeat split; intros; exact I.
    - destruct (convert_extends sch cfg frags srcs f) as (Et & Ed & Es & En).
      split; [|split; [|split]].
      + (* convertType *)
        intros src prefix t sels opts Q tm. rewrite U.convert_type_S.
        destruct (nonempty (d_bind opts) && negb (str_eqb (d_bind opts) (b "-"))); [apply T_ret|].
        destruct t as [n nn|e nn].
        * destruct (find_type sch n) as [def|]; [|exact I].
          apply T_bind; [apply IHd|]. intros g tm' _. cbv beta iota zeta.
          destruct (struct_ref cfg def); [apply T_ret|].
          destruct (negb (pointer_is_false opts) && (get_b (d_pointer opts) || (negb nn && N.eqb (cfg_optional cfg) 1))); [apply T_ret|].
          destruct (negb nn && N.eqb (cfg_optional cfg) 2); apply T_ret.
        * apply T_bind; [apply IHt|]. intros [g o] tm' _. apply T_ret.
      + (* convertDefinition *)
        intros src prefix def sels opts Q tm. rewrite U.convert_definition_S.
        assert (Htail : T tm (U.def_tail sch cfg frags srcs f src prefix def sels opts Q tm)).
        { unfold U.def_tail.
          apply T_bind_pure. intros [name prefix'] _.
          apply T_bind_pure. intros [t0|] Eget; [apply T_ret|].
          pose proof (get_type_none _ _ _ _ Eget) as Hnone.
          cbv zeta. match goal with |- T _ (match ?k with _ => _ end) => destruct k end.
          - (* scalar *) destruct (builtin_go (td_name def)); [apply add_type_T; constructor | exact I].
          - (* object *)
            apply T_bind; [apply IHs|]. intros fields tm1 _.
            apply flat_tail_T. apply add_type_T. constructor.
          - (* interface *)
            apply T_bind; [apply IHs|]. intros shared tm1 _.
            apply flat_tail_T. cbv zeta.
            apply T_bind.
            { apply T_mfold. intros done tmx idef _.
              apply T_bind; [apply IHd|]. intros g tmy _. destruct g; try exact I. apply T_ret. }
            intros names tm2 E2. apply add_type_T. cbn [impls_of]. exact (impl_names_bound _ _ _ _ _ _ _ _ _ _ E2).
          - (* union *)
            apply T_bind; [apply IHs|]. intros shared tm1 _.
            apply flat_tail_T. cbv zeta.
            apply T_bind.
            { apply T_mfold. intros done tmx idef _.
              apply T_bind; [apply IHd|]. intros g tmy _. destruct g; try exact I. apply T_ret. }
            intros names tm2 E2. apply add_type_T. cbn [impls_of]. exact (impl_names_bound _ _ _ _ _ _ _ _ _ _ E2).
          - (* enum *)
            destruct (convert_enum name (for_enum (cfg_casing cfg) (td_name def)) (td_values def)); try exact I.
            apply add_type_T. constructor.
          - (* input: relative to tm (where the name is absent); the placeholder and the completed
               struct list no implementations *)
            unfold add_type at 1. unfold get_type at 1. rewrite Hnone. cbn [bind decl_type].
            match goal with |- T tm (bind ?m ?k) => destruct m as [[fields tm2]| | |] eqn:E2 end; cbn [bind T]; trivial.
            assert (Hm : T ((name, DStruct (td_name def) [] [] true) :: tm) (Ok (fields, tm2))).
            { rewrite <- E2. apply T_mfold. intros done tmx fd _.
              apply T_bind_pure. intros D _.
              apply T_bind; [apply IHt|]. intros [g o] tmy _.
              destruct (negb (cfg_struct_refs cfg) && ty_nonnull (fd_type fd) && is_direct_ptr g && negb (get_b (d_omitempty o))); [exact I|].
              destruct (negb (cfg_struct_refs cfg) && get_b (d_omitempty o) && ty_nonnull (fd_type fd) && negb (fd_has_default fd)); [exact I|].
              apply T_ret. }
            cbn [T] in Hm. destruct Hm as (X2 & F2). split.
            + intros k x Hk. rewrite assoc_tm_set_other.
              * apply X2. cbn [assoc]. destruct (str_eqb k name) eqn:Ek; [|exact Hk].
                apply str_eqb_eq in Ek. subst k. rewrite Hnone in Hk. discriminate.
              * apply str_eqb_neq. intro Heq. subst k. rewrite Hnone in Hk. discriminate.
            + intros k x Hk. destruct (str_eqb k name) eqn:Ek.
              * apply str_eqb_eq in Ek. subst k. rewrite assoc_tm_set_same in Hk. injection Hk as <-. right. constructor.
              * rewrite assoc_tm_set_other in Hk by exact Ek.
                destruct (F2 _ _ Hk) as [Hold|Hnew].
                -- left. cbn [assoc] in Hold. rewrite Ek in Hold. exact Hold.
                -- right. exact (names_bound_keys _ _ _ (keys_sub_tm_set _ _ _) Hnew). }
        destruct (assoc (td_name def) (cfg_bindings cfg)) as [bd|].
        * destruct (str_eqb (d_bind opts) (b "-")); cbv beta iota.
          -- destruct (builtin_go (td_name def)) as [bg|];
               [destruct (nonempty (d_typename opts)); cbv beta iota; [exact Htail | apply T_ret] | exact Htail].
          -- destruct (nonempty (d_typename opts)); [exact I | apply T_ret].
        * destruct (builtin_go (td_name def)) as [bg|];
            [destruct (nonempty (d_typename opts)); cbv beta iota; [exact Htail | apply T_ret] | exact Htail].
      + (* convertSelectionSet *)
        intros src prefix sels containing Q tm. rewrite U.convert_selection_set_S2.
        apply T_bind.
        2:{ intros fields tm' _. apply T_bind_pure. intros uniq _. apply T_ret. }
        apply T_mfold. intros done tmx s _. unfold U.css_step.
        destruct s as [alias name fty parent extra sub line|cond extra sub line|name extra line].
        * apply T_bind_pure. intros D _. cbv zeta.
          apply T_bind; [apply IHt|]. intros [g o] tmy _. apply T_ret.
        * apply T_bind_pure. intros D _.
          destruct (match cond with [] => Some containing | _ :: _ => find_type sch cond end) as [ft|]; [|exact I].
          destruct (negb (fragment_matches containing ft)); [apply T_ret|].
          apply T_bind; [apply IHs|]. intros fs tmy _. apply T_ret.
        * apply T_bind_pure. intros D _.
          destruct (find_fragment frags name) as [fr|]; [|exact I].
          destruct (find_type sch (fr_on fr)) as [ft|]; [|exact I].
          destruct (negb (fragment_matches containing ft)); [apply T_ret|].
          apply T_bind_pure. intros e _.
          apply T_bind; [destruct e; [apply T_ret | apply IHn]|]. intros g tmy _. apply T_ret.
      + (* convertNamedFragment *)
        intros fr tm. rewrite U.convert_named_fragment_S.
        destruct (find_type sch (fr_on fr)) as [typ|]; [|exact I].
        apply T_bind_pure. intros D _.
        apply T_bind; [apply IHs|]. intros fields tm1 _.
        apply flat_tail_T.
        assert (Hstep : forall tmx idef,
                  T1 tmx (bind (css f (fr_src fr) [fr_name fr] (fr_sel fr) idef D tmx)
                               (fun '(ifields, tmy) => add_fragment_type tmy (fr_name fr ++ upper_first (td_name idef))
                                                                         (DStruct (td_name idef) ifields (fr_sel fr) false)))).
        { intros tmx idef. apply T1_bind; [apply IHs|]. intros ifields tmy _. apply add_fragment_type_T1. reflexivity. }
        assert (Hiface : forall impls,
                  T tm1 (do tm2 <- add_fragment_type tm1 (fr_name fr)
                                     (DIface (td_name typ) fields (map (fun i => fr_name fr ++ upper_first (td_name i)) impls) (fr_sel fr));
                         do tm3 <- mfold (fun (tmx : typemap) (idef : typedef) =>
                                            do (ifields, tmy) <- css f (fr_src fr) [fr_name fr] (fr_sel fr) idef D tmx;
                                            add_fragment_type tmy (fr_name fr ++ upper_first (td_name idef))
                                                              (DStruct (td_name idef) ifields (fr_sel fr) false)) impls tm2;
                         Ok (GIface (fr_name fr), tm3))).
        { intro impls. unfold add_fragment_type at 1. destruct (assoc (fr_name fr) tm1) eqn:Efr; cbn [bind T]; trivial.
          match goal with |- T tm1 (bind ?m _) => destruct m as [tm3| | |] eqn:E3 end; cbn [bind T]; trivial.
          (* the loop registers every implementation name *)
          assert (Hreg : forall tmx (x : typedef) tmy,
                    (do (ifields, tmy0) <- css f (fr_src fr) [fr_name fr] (fr_sel fr) x D tmx;
                     add_fragment_type tmy0 (fr_name fr ++ upper_first (td_name x))
                                       (DStruct (td_name x) ifields (fr_sel fr) false)) = Ok tmy ->
                    tm_ext tmx tmy /\ assoc (fr_name fr ++ upper_first (td_name x)) tmy <> None).
          { intros tmx x tmy Ex. pose proof (Hstep tmx x) as Hx. rewrite Ex in Hx. cbn [T1] in Hx. split; [exact (proj1 Hx)|].
            apply bind_ok' in Ex. destruct Ex as ([ifields tmy'] & _ & Ex).
            unfold add_fragment_type in Ex. destruct (assoc _ tmy'); [discriminate|]. injection Ex as <-.
            cbn [assoc]. rewrite str_eqb_refl. discriminate. }
          pose proof (mfold_registers _ (fun i : typedef => fr_name fr ++ upper_first (td_name i)) impls Hreg _ _ E3) as (X3 & B3).
          pose proof (T1_mfold _ impls (fun tmx x _ => Hstep tmx x) ((fr_name fr, DIface (td_name typ) fields (map (fun i => fr_name fr ++ upper_first (td_name i)) impls) (fr_sel fr)) :: tm1)) as H3.
          rewrite E3 in H3. cbn [T1] in H3. destruct H3 as (_ & F3).
          split; [exact (tm_ext_trans _ _ _ (tm_ext_cons _ _ _ Efr) X3)|].
          intros k x Hk. destruct (F3 _ _ Hk) as [Hold|Hnew]; [|right; exact Hnew].
          cbn [assoc] in Hold. destruct (str_eqb k (fr_name fr)); [|left; exact Hold].
          injection Hold as <-. right. cbn [impls_of]. unfold names_bound. apply Forall_map. exact B3. }
        destruct (td_kind typ); try exact I.
        * (* object *)
          apply T_bind1; [apply add_fragment_type_T1; reflexivity|]. intros tm2 _. apply T_ret.
        * cbv zeta. apply Hiface.
        * cbv zeta. apply Hiface.
  Qed.
End Impls.


Section OpsImpls.
  Variable sch : schema.
  Variable cfg : config.
  Variable frags : list fragment.
  Variable srcs : list (list lkind).
  Variable fuel : nat.

  Lemma convert_arguments_T o Q tm : T tm (convert_arguments_with sch cfg frags srcs fuel o Q tm).
  Proof.
    destruct (convert_impls sch cfg frags srcs fuel) as (IHt & _).
    unfold convert_arguments_with. destruct (op_vars o) as [|v0 vars]; [apply T_ret|].
    cbv zeta. apply T_bind.
    { apply T_mfold. intros done tmx v _.
      destruct (mem_str (vd_name v) go_keywords); [exact I|].
      apply T_bind_pure. intros D _.
      apply T_bind; [apply IHt|]. intros [g opt] tmy _. apply T_ret. }
    intros fields tm1 _.
    apply T_bind; [apply add_type_T; constructor|]. intros t tm2 _. destruct t; try exact I. apply T_ret.
  Qed.

  Lemma convert_operation_T o Q tm : T tm (convert_operation_with sch cfg frags srcs fuel o Q tm).
  Proof.
    destruct (convert_impls sch cfg frags srcs fuel) as (_ & _ & IHs & _).
    unfold convert_operation_with. cbv zeta. destruct (root_type sch (op_kind o)) as [base|]; [|exact I].
    apply T_bind; [apply IHs|]. intros fields tm1 _.
    apply flat_tail_T. apply add_type_T. constructor.
  Qed.

  Lemma add_operation_fresh tm done o tm' done' :
    add_operation_with sch cfg frags srcs fuel (tm, done) o = Ok (tm', done') -> tm_ext tm tm' /\ fresh_ok tm tm'.
  Proof.
    unfold add_operation_with. destruct (op_name o) as [|c nm]; [discriminate|].
    destruct (mem_str (c :: nm) go_keywords); [discriminate|].
    intro H. apply bind_ok' in H. destruct H as (D & _ & H).
    apply bind_ok' in H. destruct H as ([inp tm1] & Ea & H).
    apply bind_ok' in H. destruct H as ([resp tm2] & Eo & H). injection H as <- <-.
    pose proof (convert_arguments_T o D tm) as H1. rewrite Ea in H1. cbn [T] in H1. destruct H1 as (X1 & F1).
    pose proof (convert_operation_T o D tm1) as H2. rewrite Eo in H2. cbn [T] in H2. destruct H2 as (X2 & F2).
    split; [exact (tm_ext_trans _ _ _ X1 X2) | exact (fresh_ok_trans _ _ _ X2 F1 F2)].
  Qed.

  (* every implementation that an interface declaration of the final type map lists is declared *)
  Theorem generate_types_impls_declared ops tm infos :
    generate_types_with sch cfg frags srcs fuel ops = Ok (tm, infos) ->
    forall n d, assoc n tm = Some d -> names_bound tm (impls_of d).
  Proof.
    unfold generate_types_with. intro E.
    assert (H : tm_ext [] tm /\ fresh_ok [] tm).
    { refine (mfold_inv (fun acc : typemap * list opinfo => tm_ext [] (fst acc) /\ fresh_ok [] (fst acc)) _ ops _ ([], []) (tm, infos)
                        (conj (tm_ext_refl _) (fresh_ok_refl _)) E).
      intros [tm0 done0] o [tm1 done1] _ (X0 & F0) Eo. cbn [fst] in *.
      apply add_operation_fresh in Eo. destruct Eo as (X1 & F1).
      split; [exact (tm_ext_trans _ _ _ X0 X1) | exact (fresh_ok_trans _ _ _ X1 F0 F1)]. }
    destruct H as (_ & F). intros n d Hn. destruct (F _ _ Hn) as [Hold|Hnew]; [discriminate | exact Hnew].
  Qed.
End OpsImpls.

Theorem generate_types_impls_declared_FUEL sch cfg frags srcs ops tm infos :
  generate_types sch cfg frags srcs ops = Ok (tm, infos) ->
  forall n d, assoc n tm = Some d -> names_bound tm (impls_of d).
Proof. rewrite <- generate_types_with_FUEL. apply generate_types_impls_declared. Qed.

(* non-vacuity: the witness program has an interface declaration with a non-empty implementation list *)
Example t_impls_witness :
  exists tm infos, generate_types t_schema w_cfg t_frags [] [t_op] = Ok (tm, infos)
    /\ existsb (fun nd => match impls_of (snd nd) with [] => false | _ => true end) tm = true.
Proof.
  destruct (generate_types t_schema w_cfg t_frags [] [t_op]) as [[tm infos]| | |] eqn:E; try (vm_compute in E; discriminate).
  exists tm, infos. split; [reflexivity|]. vm_compute in E. injection E as <- <-. vm_compute. reflexivity.
Qed.

Print Assumptions convert_impls.
Print Assumptions generate_types_impls_declared_FUEL.
Print Assumptions t_impls_witness.
