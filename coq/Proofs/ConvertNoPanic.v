(* C07 for the converter: on inputs whose names resolve (what the validator guarantees) and whose
   positions are inside their sources (Gen/Wf.v op_posb / frags_posb: the line index of
   parsePrecedingComment is in range), the only Panic sites of Gen/Convert.v that can be reached
   are the flatten INDEX sites; every unchecked map / pointer dereference of convert.go and
   genqlient_directive.go is unreachable. *)
From Verif Require Import Base.Str Gen.Consts Gen.Casing Gen.Enum Gen.Gql Gen.Doc Gen.Directive Gen.Convert Gen.Wf Proofs.ConvertProofs
  Proofs.DirectiveProofs.
From Coq Require Import ZArith.

(* the sites that remain: indexing the converted fields with the position of the spread *)
Definition flat_site (s : str) : bool := is_prefix (b "flatten:") s || is_prefix (b "validateFlattenOption:") s.

Definition ok_res {A} (r : res A) : Prop :=
  match r with Panic s => flat_site s = true | _ => True end.

Lemma ok_bind {A B} (r : res A) (k : A -> res B) :
  ok_res r -> (forall a, r = Ok a -> ok_res (k a)) -> ok_res (bind r k).
Proof. destruct r; cbn; auto. Qed.

Lemma no_crash_ok {A} (r : res A) : no_crash r -> ok_res r.
Proof. destruct r; cbn; tauto. Qed.

Lemma ok_mfold {A B} (step : B -> A -> res B) (l : list A) :
  (forall acc x, In x l -> ok_res (step acc x)) -> forall acc, ok_res (mfold step l acc).
Proof.
  induction l as [|x r IH]; intros H acc; [exact I|]. cbn [mfold].
  apply ok_bind; [apply H; left; reflexivity | intros a _; apply IH; intros acc' y Hy; apply H; right; exact Hy].
Qed.


Section WF.
  Variable sch : schema.
  Variable cfg : config.
  Variable frags : list fragment.
  Variable srcs : list (list lkind).

  Notation ty_okb := (Wf.ty_okb sch).
  Notation sel_okb := (Wf.sel_okb sch frags).
  Notation def_okb := (Wf.def_okb sch).
  Notation schema_okb := (Wf.schema_okb sch).
  Notation frag_okb := (Wf.frag_okb sch frags).
  Notation frags_okb := (Wf.frags_okb sch frags).
  Notation op_okb := (Wf.op_okb sch frags).

  Hypothesis Hsch : schema_okb = true.
  Hypothesis Hfr : frags_okb = true.
  Hypothesis Hfrp : frags_posb srcs frags = true.

  Lemma find_type_in n d : find_type sch n = Some d -> In d sch.
  Proof.
    clear Hsch Hfr Hfrp. induction sch as [|t r IH]; cbn [find_type]; [discriminate|].
    destruct (str_eqb (td_name t) n); [intro H; injection H as <-; left; reflexivity | intro H; right; exact (IH H)].
  Qed.

  Lemma def_ok_of_in d : In d sch -> def_okb d = true.
  Proof. intro H. unfold schema_okb in Hsch. rewrite forallb_forall in Hsch. exact (Hsch d H). Qed.

  Lemma find_fragment_in n fr : find_fragment frags n = Some fr -> In fr frags.
  Proof.
    clear Hsch Hfr Hfrp. unfold find_fragment. induction frags as [|f r IH]; cbn; [discriminate|].
    destruct (str_eqb (fr_name f) n); [intro H; injection H as <-; left; reflexivity | intro H; right; exact (IH H)].
  Qed.

  Lemma frag_ok_of_find n fr : find_fragment frags n = Some fr -> frag_okb fr = true.
  Proof. intro H. apply find_fragment_in in H. unfold frags_okb in Hfr. rewrite forallb_forall in Hfr. exact (Hfr fr H). Qed.

  Lemma frag_pos_of_find n fr : find_fragment frags n = Some fr -> frag_posb srcs fr = true.
  Proof. intro H. apply find_fragment_in in H. unfold frags_posb in Hfrp. rewrite forallb_forall in Hfrp. exact (Hfrp fr H). Qed.

  Lemma possible_in d i : In i (possible_types sch d) -> In i sch.
  Proof. unfold possible_types. destruct (td_kind d); try (intros []); intro H; apply filter_In in H; exact (proj1 H). Qed.

  (* generic solver for goals [ok_res e]: follows binds, ifs and matches; Panic leaves must be
     flatten sites *)
  Ltac okr :=
    repeat first
      [ exact I
      | match goal with |- ok_res (Panic _) => vm_compute; reflexivity end
      | match goal with |- ok_res (bind _ _) => apply ok_bind; [| intros ? ?] end
      | match goal with |- ok_res (if ?c then _ else _) => destruct c end
      | match goal with |- ok_res (match ?x with _ => _ end) => destruct x end
      | match goal with |- ok_res (let '(_, _) := ?p in _) => destruct p end ].

  Lemma validate_ok n D :
    (match n with NField tb _ => is_some (find_type sch tb) = true | _ => True end) ->
    ok_res (validate sch frags n D).
  Proof.
    intro Hn. unfold validate.
    destruct (negb (forallb (validate_for_entry sch) (fd_for D))); [exact I|].
    destruct n as [| |nn|tb sub|]; cbv zeta.
    - okr.
    - okr.
    - okr.
    - destruct (is_set (d_omitempty (fd_main D))); [exact I|].
      destruct (find_type sch tb) as [typ|]; [|discriminate Hn]. okr.
    - exact I.
  Qed.

  Lemma pp_ok n key pos Q :
    (match n with NField tb _ => is_some (find_type sch tb) = true | _ => True end) ->
    pos_in_range srcs pos ->
    ok_res (parse_preceding sch frags srcs n key pos Q).
  Proof.
    intros Hn Hp. unfold parse_preceding. apply ok_bind.
    - destruct pos as [[s line]|]; [|exact I]. cbn in Hp.
      destruct (lines_above_pos_ok _ _ _ Hp) as [above ->]. cbn [bind]. apply no_crash_ok, scan_total.
    - intros [D has] _. apply ok_bind.
      + destruct has; [apply validate_ok, Hn | exact I].
      + intros u _. destruct Q as [q|]; [|exact I]. destruct (typename_bind_conflict _); exact I.
  Qed.
  Lemma convert_type_S f (src : nat) (prefix : list str) (t : tyref) (sels : list sel) (opts : dir) (Q : fulldir) (tm : typemap) : convert_type sch cfg frags srcs (S f) src prefix t sels opts Q tm =

        if nonempty (d_bind opts) && negb (str_eqb (d_bind opts) (b "-"))
        then Ok (GOpaque (d_bind opts) (ty_base t) [] [], opts, tm)
        else
          match t with
          | TList e _ =>
              do (r, tm') <- convert_type sch cfg frags srcs f src prefix e sels opts Q tm;
              let '(g, o) := r in Ok (GSlice g, o, tm')
          | TNamed n nn =>
              match find_type sch n with
              | None => Panic (b "convertType: schema.Types[name] is nil")
              | Some def =>
                  do (g, tm') <- convert_definition sch cfg frags srcs f src prefix def sels opts Q tm;
                  if struct_ref cfg def then
                    let g' := match d_pointer opts with Some false => g | _ => GPtr g end in
                    let o' := match d_omitempty opts with Some false => opts | _ => set_omitempty opts (Some true) end in
                    Ok (g', o', tm')
                  else if negb (pointer_is_false opts) && (get_b (d_pointer opts) || (negb nn && N.eqb (cfg_optional cfg) 1))
                  then Ok (GPtr g, opts, tm')
                  else if negb nn && N.eqb (cfg_optional cfg) 2
                  then Ok (GGeneric (cfg_generic_type cfg) g, opts, tm')
                  else Ok (g, opts, tm')
              end
          end.
  Proof. reflexivity. Qed.

  Definition def_tail f (src : nat) (prefix : list str) (def : typedef) (sels : list sel) (opts : dir) (Q : fulldir) (tm : typemap) : res (gotype * typemap) :=
                do np <- (if nonempty (d_typename opts) then
                            if mem_str (d_typename opts) go_keywords then Err (b "keyword")
                            else
                              let name := match prefix with
                                          | [h] => if str_eqb h (d_typename opts)
                                                   then make_long_type_name cfg prefix (td_name def) else d_typename opts
                                          | _ => d_typename opts
                                          end in
                              Ok (name, [d_typename opts])
                          else match td_kind def with
                               | KInput | KEnum => Ok (cased cfg (td_name def), prefix)
                               | _ => Ok (make_type_name cfg prefix (td_name def), prefix)
                               end);
                let '(name, prefix') := np in
                do existing <- get_type tm name (td_name def) sels;
                match existing with
                | Some t => Ok (t, tm)
                | None =>
                    let kind := if get_b (d_struct opts) && validate_struct_option def sels then KObject else td_kind def in
                    match kind with
                    | KObject =>
                        do (fields, tm1) <- convert_selection_set sch cfg frags srcs f src prefix' sels def Q tm;
                        match (if get_b (d_flatten opts) then validate_flatten_option sch frags def sels else FlatErr) with
                        | FlatPanic => Panic (b "validateFlattenOption: nil fragment definition")
                        | FlatIdx (Some i) =>
                            match nth_error fields i with
                            | Some fl => Ok (gf_type fl, tm1)
                            | None => Panic (b "flatten: fields[i] index out of range")
                            end
                        | FlatIdx None =>
                            Panic (b "flatten: fields[-1]")
                        | FlatErr => add_type tm1 name (DStruct (td_name def) fields sels false)
                        end
                    | KInput =>
                        do (t0, tm1) <- add_type tm name (DStruct (td_name def) [] [] true);
                        do (fields, tm2) <-
                          mfold (fun (acc : list gofield * typemap) (fd : fielddef) =>
                                   let '(done, tmx) := acc in
                                   
                                   do D <- pp sch frags srcs NOtherNode (Some (td_name def, fd_name fd)) None (Some Q);
                                   do (r, tmy) <- convert_type sch cfg frags srcs f src prefix' (fd_type fd) [] (fd_main D) Q tmx;
                                   let '(g, o) := r in
                                   if negb (cfg_struct_refs cfg) && ty_nonnull (fd_type fd) && is_direct_ptr g && negb (get_b (d_omitempty o))
                                   then Err (b "input-pointer")
                                   else if negb (cfg_struct_refs cfg) && get_b (d_omitempty o) && ty_nonnull (fd_type fd) && negb (fd_has_default fd)
                                   then Err (b "input-omitempty")
                                   else Ok (done ++ [{| gf_name := cased cfg (fd_name fd); gf_type := g; gf_json := fd_name fd;
                                                        gf_gql := fd_name fd; gf_omitempty := get_b (d_omitempty o) |}], tmy))
                                (td_fields def) ([], tm1);
                        Ok (GStruct name, tm_set tm2 name (DStruct (td_name def) fields [] true))
                    | KInterface | KUnion =>
                        do (shared, tm1) <- convert_selection_set sch cfg frags srcs f src prefix' sels def Q tm;
                        match (if get_b (d_flatten opts) then validate_flatten_option sch frags def sels else FlatErr) with
                        | FlatPanic => Panic (b "validateFlattenOption: nil fragment definition")
                        | FlatIdx (Some i) =>
                            match nth_error shared i with
                            | Some fl => Ok (gf_type fl, tm1)
                            | None => Panic (b "flatten: sharedFields[i] index out of range")
                            end
                        | FlatIdx None => Panic (b "flatten: sharedFields[-1]")
                        | FlatErr =>
                            let impls := possible_types sch def in
                            do (names, tm2) <-
                              mfold (fun (acc : list str * typemap) (idef : typedef) =>
                                       let '(done, tmx) := acc in
                                       do (g, tmy) <- convert_definition sch cfg frags srcs f src prefix' idef sels opts Q tmx;
                                       match g with
                                       | GStruct n => Ok (done ++ [n], tmy)
                                       | _ => Err (b "non-object-implementation")
                                       end)
                                    impls ([], tm1);
                            add_type tm2 name (DIface (td_name def) shared names sels)
                        end
                    | KEnum =>
                        match convert_enum name (for_enum (cfg_casing cfg) (td_name def)) (td_values def) with
                        | Ok vs => add_type tm name (DEnum (td_name def) vs)
                        | Err e => Err e
                        | Panic s => Panic s
                        | OutOfFuel => OutOfFuel
                        end
                    | KScalar =>
                        match builtin_go (td_name def) with
                        | Some g => add_type tm name (DAlias g (td_name def))
                        | None => Err (b "unknown-scalar")
                        end
                    end
                end.

  Lemma convert_definition_S f (src : nat) (prefix : list str) (def : typedef) (sels : list sel) (opts : dir) (Q : fulldir) (tm : typemap) : convert_definition sch cfg frags srcs (S f) src prefix def sels opts Q tm =

        match (match assoc (td_name def) (cfg_bindings cfg) with
               | Some bd => if str_eqb (d_bind opts) (b "-") then None else Some bd
               | None => None
               end) with
        | Some bd =>
            if nonempty (d_typename opts) then Err (b "binding-typename")
            else Ok (GOpaque (bd_type bd) (td_name def) (bd_marshaler bd) (bd_unmarshaler bd), tm)
        | None =>
            match (match builtin_go (td_name def) with
                   | Some g => if nonempty (d_typename opts) then None else Some g
                   | None => None
                   end) with
            | Some g => Ok (GOpaque g (td_name def) [] [], tm)
            | None =>
                
                def_tail f src prefix def sels opts Q tm
            end
        end.
  Proof. reflexivity. Qed.

  Lemma convert_selection_set_S f (src : nat) (prefix : list str) (sels : list sel) (containing : typedef) (Q : fulldir) (tm : typemap) : convert_selection_set sch cfg frags srcs (S f) src prefix sels containing Q tm =

        do (fields, tm') <-
          mfold (fun (acc : list gofield * typemap) (s : sel) =>
                   let '(done, tmx) := acc in
                   match s with
                   | SField alias name fty parent _ sub line =>
                       do D <- pp sch frags srcs (NField (ty_base fty) sub) (Some (parent, name)) (pos_of src line) (Some Q);
                       let o := fd_main D in
                       let goname := cased cfg (if nonempty (d_alias o) then d_alias o else alias) in
                       let prefix' := next_prefix cfg prefix parent alias in
                       do (r, tmy) <- convert_type sch cfg frags srcs f src prefix' fty sub o Q tmx;
                       let '(g, _) := r in
                       Ok (done ++ [{| gf_name := goname; gf_type := g; gf_json := alias; gf_gql := name; gf_omitempty := false |}], tmy)
                   | SSpread name _ line =>
                       do D <- pp sch frags srcs NOtherNode None (pos_of src line) (Some Q);
                       match find_fragment frags name with
                       | None => Panic (b "convertFragmentSpread: fragmentSpread.Definition is nil")
                       | Some fr =>
                           match find_type sch (fr_on fr) with
                           | None => Panic (b "convertFragmentSpread: fragment type definition is nil")
                           | Some ft =>
                               if negb (fragment_matches containing ft) then Ok (done, tmx)
                               else
                                 
                                 do e <- get_type tmx name (fr_on fr) (fr_sel fr);
                                 do (g, tmy) <- match e with
                                                | Some t => Ok (t, tmx)
                                                | None => convert_named_fragment sch cfg frags srcs f fr tmx
                                                end;
                                 let g' := match g, td_kind containing with
                                           | GIface n, KObject =>
                                               match assoc n tmy with
                                               | Some (DIface _ _ impls _) =>
                                                   match impl_for tmy impls (td_name containing) with
                                                   | Some i => GStruct i
                                                   | None => g
                                                   end
                                               | _ => g
                                               end
                                           | _, _ => g
                                           end in
                                 Ok (done ++ [{| gf_name := []; gf_type := g'; gf_json := []; gf_gql := []; gf_omitempty := false |}], tmy)
                           end
                       end
                   | SInline cond _ sub line =>
                       do D <- pp sch frags srcs NOtherNode None (pos_of src line) (Some Q);
                       
                       match (match cond with [] => Some containing | _ => find_type sch cond end) with
                       | None => Panic (b "convertInlineFragment: schema.Types[TypeCondition] is nil")
                       | Some ft =>
                           if negb (fragment_matches containing ft) then Ok (done, tmx)
                           else do (fs, tmy) <- convert_selection_set sch cfg frags srcs f src prefix sub containing Q tmx;
                                Ok (done ++ fs, tmy)
                       end
                   end)
                sels ([], tm);
        do uniq <- dedup_fields fields [] [];
        Ok (uniq, tm').
  Proof. reflexivity. Qed.

  Lemma convert_named_fragment_S f (fr : fragment) (tm : typemap) : convert_named_fragment sch cfg frags srcs (S f) fr tm =

        match find_type sch (fr_on fr) with
        | None => Panic (b "convertNamedFragment: schema.Types[TypeCondition] is nil")
        | Some typ =>
            do D <- pp sch frags srcs NFrag None (pos_of (fr_src fr) (fr_line fr)) None;
            do (fields, tm1) <- convert_selection_set sch cfg frags srcs f (fr_src fr) [fr_name fr] (fr_sel fr) typ D tm;
            match (if get_b (d_flatten (fd_main D)) then validate_flatten_option sch frags typ (fr_sel fr) else FlatErr) with
            | FlatPanic => Panic (b "validateFlattenOption: nil fragment definition")
            | FlatIdx (Some i) =>
                match nth_error fields i with
                | Some fl => Ok (gf_type fl, tm1)
                | None => Panic (b "flatten: fields[i] index out of range")
                end
            | FlatIdx None => Panic (b "flatten: fields[-1]")
            | FlatErr =>
                match td_kind typ with
                | KObject =>
                    do tm2 <- add_fragment_type tm1 (fr_name fr) (DStruct (td_name typ) fields (fr_sel fr) false);
                    Ok (GStruct (fr_name fr), tm2)
                | KInterface | KUnion =>
                    let impls := possible_types sch typ in
                    let inames := map (fun i => fr_name fr ++ upper_first (td_name i)) impls in
                    do tm2 <- add_fragment_type tm1 (fr_name fr) (DIface (td_name typ) fields inames (fr_sel fr));
                    do tm3 <-
                      mfold (fun (tmx : typemap) (idef : typedef) =>
                               do (ifields, tmy) <- convert_selection_set sch cfg frags srcs f (fr_src fr) [fr_name fr] (fr_sel fr) idef D tmx;
                               add_fragment_type tmy (fr_name fr ++ upper_first (td_name idef))
                                                 (DStruct (td_name idef) ifields (fr_sel fr) false))
                            impls tm2;
                    Ok (GIface (fr_name fr), tm3)
                | _ => Err (b "invalid-fragment-type")
                end
            end
        end.
  Proof. reflexivity. Qed.

  Lemma get_type_ok tm name gql sels : ok_res (get_type tm name gql sels).
  Proof. unfold get_type. okr. Qed.
  Lemma add_type_ok tm name d : ok_res (add_type tm name d).
  Proof. unfold add_type. apply ok_bind; [apply get_type_ok | intros e _; destruct e; exact I]. Qed.
  Lemma add_fragment_type_ok tm name d : ok_res (add_fragment_type tm name d).
  Proof. unfold add_fragment_type. okr. Qed.
  Lemma dedup_fields_ok fs : forall a c, ok_res (dedup_fields fs a c).
  Proof.
    induction fs as [|f r IH]; intros a c; [exact I|]. cbn [dedup_fields].
    destruct (gf_json f).
    - destruct (mem_str _ a); [apply IH|]. apply ok_bind; [apply IH | intros; exact I].
    - destruct (mem_str _ c).
      + destruct (unwrap (gf_type f)); try exact I; apply IH.
      + apply ok_bind; [apply IH | intros; exact I].
  Qed.
  Lemma convert_enum_go_ok T al vs : forall seen, ok_res (convert_enum_go T al seen vs).
  Proof.
    induction vs as [|v r IH]; intro seen; [exact I|]. cbn [convert_enum_go].
    destruct (mem_str _ seen); [exact I|]. apply ok_bind; [apply IH | intros; exact I].
  Qed.

  Lemma ty_ok_base t : ty_okb t = true -> is_some (find_type sch (ty_base t)) = true.
  Proof. induction t as [n nn|e IH nn]; cbn; auto. Qed.

  Definition sels_ok (src : nat) (sels : list sel) : Prop :=
    forallb sel_okb sels = true /\ forallb (sel_posb srcs src) sels = true.
  Lemma sels_ok_nil src : sels_ok src [].
  Proof. split; reflexivity. Qed.

  Lemma flat_tail_ok {A} (fields : list gofield) (fr : flat_res) (k : res A) (mk : gofield -> res A) :
    ok_res k -> (forall fl, ok_res (mk fl)) ->
    forall s1 s2 s3, flat_site s1 = true -> flat_site s2 = true -> flat_site s3 = true ->
    ok_res (match fr with
            | FlatPanic => Panic s1
            | FlatIdx (Some i) => match nth_error fields i with Some fl => mk fl | None => Panic s2 end
            | FlatIdx None => Panic s3
            | FlatErr => k
            end).
  Proof.
    intros Hk Hmk s1 s2 s3 H1 H2 H3. destruct fr as [|[i|]|]; cbn; try assumption.
    destruct (nth_error fields i); [apply Hmk | exact H2].
  Qed.

  Theorem convert_ok : forall f,
    (forall src prefix t sels opts Q tm, ty_okb t = true -> sels_ok src sels ->
       ok_res (convert_type sch cfg frags srcs f src prefix t sels opts Q tm))
    /\ (forall src prefix def sels opts Q tm, In def sch -> sels_ok src sels ->
       ok_res (convert_definition sch cfg frags srcs f src prefix def sels opts Q tm))
    /\ (forall src prefix sels containing Q tm, sels_ok src sels ->
       ok_res (convert_selection_set sch cfg frags srcs f src prefix sels containing Q tm))
    /\ (forall fr tm, frag_okb fr = true -> frag_posb srcs fr = true ->
         ok_res (convert_named_fragment sch cfg frags srcs f fr tm)).
  Proof.
    induction f as [|f (IHt & IHd & IHs & IHn)].
    - repeat split; intros; exact I.
    - split; [|split; [|split]].
      + (* convertType *)
        intros src prefix t sels opts Q tm Ht Hs. rewrite convert_type_S.
        destruct (nonempty (d_bind opts) && negb (str_eqb (d_bind opts) (b "-"))); [exact I|].
        destruct t as [n nn|e nn].
        * cbn [ty_okb] in Ht. destruct (find_type sch n) as [def|] eqn:Ef; [|discriminate Ht].
          apply ok_bind; [apply IHd; [exact (find_type_in _ _ Ef) | exact Hs]|].
          intros [g tm'] _. okr.
        * apply ok_bind; [apply IHt; [exact Ht | exact Hs]|]. intros [[g o] tm'] _. exact I.
      + (* convertDefinition *)
        intros src prefix def sels opts Q tm Hin Hs. rewrite convert_definition_S.
        assert (Htail : ok_res (def_tail f src prefix def sels opts Q tm)).
        { unfold def_tail.
          apply ok_bind; [okr|]. intros [name prefix'] _.
          apply ok_bind; [apply get_type_ok|]. intros [t0|] _; [exact I|].
          cbv zeta. match goal with |- ok_res (match ?k with _ => _ end) => destruct k end.
          - (* scalar *) okr; apply add_type_ok.
          - (* object *)
            apply ok_bind; [apply IHs, Hs|]. intros [fields tm1] _.
            apply flat_tail_ok; try reflexivity; try (intros; exact I). apply add_type_ok.
          - (* interface *)
            apply ok_bind; [apply IHs, Hs|]. intros [shared tm1] _.
            apply flat_tail_ok; try reflexivity; try (intros; exact I).
            cbv zeta. apply ok_bind; [|intros [names tm2] _; apply add_type_ok].
            apply ok_mfold. intros [done tmx] idef Hi.
            apply ok_bind; [apply IHd; [exact (possible_in _ _ Hi) | exact Hs]|]. intros [g tmy] _. destruct g; exact I.
          - (* union *)
            apply ok_bind; [apply IHs, Hs|]. intros [shared tm1] _.
            apply flat_tail_ok; try reflexivity; try (intros; exact I).
            cbv zeta. apply ok_bind; [|intros [names tm2] _; apply add_type_ok].
            apply ok_mfold. intros [done tmx] idef Hi.
            apply ok_bind; [apply IHd; [exact (possible_in _ _ Hi) | exact Hs]|]. intros [g tmy] _. destruct g; exact I.
          - (* enum *)
            unfold convert_enum.
            pose proof (convert_enum_go_ok name (for_enum (cfg_casing cfg) (td_name def)) (td_values def) []) as He.
            destruct (convert_enum_go name (for_enum (cfg_casing cfg) (td_name def)) [] (td_values def)); try exact I; try apply add_type_ok; exact He.
          - (* input *)
            apply ok_bind; [apply add_type_ok|]. intros [t0 tm1] _.
            apply ok_bind; [|intros [fields tm2] _; exact I].
            apply ok_mfold. intros [done tmx] fd Hfd.
            apply ok_bind; [apply pp_ok; exact I|]. intros D _.
            apply ok_bind.
            + apply IHt; [|apply sels_ok_nil].
              pose proof (def_ok_of_in _ Hin) as Hd. unfold def_okb in Hd. rewrite forallb_forall in Hd. exact (Hd fd Hfd).
            + intros [[g o] tmy] _. okr. }
        destruct (assoc (td_name def) (cfg_bindings cfg)) as [bd|].
        * destruct (str_eqb (d_bind opts) (b "-")); cbv beta iota; [|okr].
          destruct (builtin_go (td_name def)) as [bg|]; [destruct (nonempty (d_typename opts)); cbv beta iota; [exact Htail | exact I] | exact Htail].
        * destruct (builtin_go (td_name def)) as [bg|]; [destruct (nonempty (d_typename opts)); cbv beta iota; [exact Htail | exact I] | exact Htail].
      + (* convertSelectionSet *)
        intros src prefix sels containing Q tm Hs. rewrite convert_selection_set_S.
        apply ok_bind; [|intros [fields tm'] _; apply ok_bind; [apply dedup_fields_ok | intros; exact I]].
        apply ok_mfold. intros [done tmx] s Hin.
        destruct Hs as [Hs Hps]. rewrite forallb_forall in Hs, Hps. pose proof (Hs s Hin) as Hk. pose proof (Hps s Hin) as Hq.
        destruct s as [alias name fty parent extra sub line|cond extra sub line|name extra line]; cbn [sel_okb] in Hk; cbn [sel_posb] in Hq.
        * apply Bool.andb_true_iff in Hk. destruct Hk as [Hty Hsub].
          apply Bool.andb_true_iff in Hq. destruct Hq as [Hl Hpsub].
          apply ok_bind; [apply pp_ok; [exact (ty_ok_base _ Hty) | exact (pos_of_in_range _ _ _ Hl)]|]. intros D _. cbv zeta.
          apply ok_bind; [apply IHt; [exact Hty | split; [exact Hsub | exact Hpsub]]|]. intros [[g o] tmy] _. exact I.
        * apply Bool.andb_true_iff in Hk. destruct Hk as [Hc Hsub].
          apply Bool.andb_true_iff in Hq. destruct Hq as [Hl Hpsub].
          apply ok_bind; [apply pp_ok; [exact I | exact (pos_of_in_range _ _ _ Hl)]|]. intros D _.
          assert (Hft : exists ft, match cond with [] => Some containing | _ :: _ => find_type sch cond end = Some ft).
          { destruct cond; [eexists; reflexivity|]. destruct (find_type sch (n :: cond)); [eexists; reflexivity | discriminate Hc]. }
          destruct Hft as [ft ->].
          destruct (negb (fragment_matches containing ft)); [exact I|].
          apply ok_bind; [apply IHs; split; [exact Hsub | exact Hpsub]|]. intros [fs tmy] _. exact I.
        * apply ok_bind; [apply pp_ok; [exact I | exact (pos_of_in_range _ _ _ Hq)]|]. intros D _.
          destruct (find_fragment frags name) as [fr|] eqn:Ef; [|discriminate Hk].
          pose proof (frag_ok_of_find _ _ Ef) as Hfo. pose proof Hfo as Hfo2. unfold frag_okb in Hfo2.
          apply Bool.andb_true_iff in Hfo2. destruct Hfo2 as [Hon _].
          destruct (find_type sch (fr_on fr)) as [ft|]; [|discriminate Hon].
          destruct (negb (fragment_matches containing ft)); [exact I|].
          apply ok_bind; [apply get_type_ok|]. intros e _.
          apply ok_bind; [destruct e; [exact I | apply IHn; [exact Hfo | exact (frag_pos_of_find _ _ Ef)]]|]. intros [g tmy] _. exact I.
      + (* convertNamedFragment *)
        intros fr tm Hfo Hfp. rewrite convert_named_fragment_S. pose proof Hfo as Hfo2. unfold frag_okb in Hfo2.
        apply Bool.andb_true_iff in Hfo2. destruct Hfo2 as [Hon Hsel0].
        unfold frag_posb in Hfp. apply Bool.andb_true_iff in Hfp. destruct Hfp as [Hl Hpsel].
        assert (Hsel : sels_ok (fr_src fr) (fr_sel fr)) by (split; [exact Hsel0 | exact Hpsel]).
        destruct (find_type sch (fr_on fr)) as [typ|]; [|discriminate Hon].
        apply ok_bind; [apply pp_ok; [exact I | exact (pos_of_in_range _ _ _ Hl)]|]. intros D _.
        apply ok_bind; [apply IHs, Hsel|]. intros [fields tm1] _.
        apply flat_tail_ok; try reflexivity; try (intros; exact I).
        destruct (td_kind typ); try exact I.
        * apply ok_bind; [apply add_fragment_type_ok | intros; exact I].
        * apply ok_bind; [apply add_fragment_type_ok|]. intros tm2 _.
          apply ok_bind; [|intros; exact I]. apply ok_mfold. intros tmx idef _.
          apply ok_bind; [apply IHs, Hsel|]. intros [ifields tmy] _. apply add_fragment_type_ok.
        * apply ok_bind; [apply add_fragment_type_ok|]. intros tm2 _.
          apply ok_bind; [|intros; exact I]. apply ok_mfold. intros tmx idef _.
          apply ok_bind; [apply IHs, Hsel|]. intros [ifields tmy] _. apply add_fragment_type_ok.
  Qed.

  Lemma convert_arguments_ok o Q tm :
    forallb (fun v => ty_okb (vd_type v)) (op_vars o) = true ->
    forallb (fun v => pos_okb srcs (op_src o) (vd_line v)) (op_vars o) = true ->
    ok_res (convert_arguments sch cfg frags srcs o Q tm).
  Proof.
    intros Hv Hpv. unfold convert_arguments. destruct (op_vars o) as [|v0 vs] eqn:Ev; [exact I|]. cbv zeta.
    apply ok_bind.
    - apply ok_mfold. intros [done tmx] v Hin. destruct (mem_str (vd_name v) go_keywords); [exact I|].
      apply ok_bind; [apply pp_ok; [exact I | apply pos_of_in_range; rewrite forallb_forall in Hpv; exact (Hpv v Hin)]|]. intros D _.
      apply ok_bind.
      + apply (proj1 (convert_ok FUEL)); [|apply sels_ok_nil]. rewrite forallb_forall in Hv. exact (Hv v Hin).
      + intros [[g opt] tmy] _. exact I.
    - intros [fields tm1] _. apply ok_bind; [apply add_type_ok|]. intros [t tm2] _. destruct t; exact I.
  Qed.

  Lemma convert_operation_ok o Q tm :
    is_some (root_type sch (op_kind o)) = true -> forallb sel_okb (op_sel o) = true ->
    forallb (sel_posb srcs (op_src o)) (op_sel o) = true ->
    ok_res (convert_operation sch cfg frags srcs o Q tm).
  Proof.
    intros Hr Hs Hps. unfold convert_operation. cbv zeta.
    destruct (root_type sch (op_kind o)) as [base|]; [|discriminate Hr].
    apply ok_bind; [apply (proj1 (proj2 (proj2 (convert_ok FUEL)))); split; [exact Hs | exact Hps]|]. intros [fields tm1] _.
    apply flat_tail_ok; try reflexivity; try (intros; exact I). apply add_type_ok.
  Qed.

  Lemma add_operation_ok acc o : op_okb o = true -> op_posb srcs o = true -> ok_res (add_operation sch cfg frags srcs acc o).
  Proof.
    intros Ho Hp. unfold op_posb in Hp. apply Bool.andb_true_iff in Hp. destruct Hp as [Hp Hpv].
    apply Bool.andb_true_iff in Hp. destruct Hp as [Hl Hps].
    unfold op_okb in Ho. apply Bool.andb_true_iff in Ho. destruct Ho as [Ho Hv].
    apply Bool.andb_true_iff in Ho. destruct Ho as [Hr Hs].
    unfold add_operation. destruct acc as [tm done]. destruct (op_name o); [exact I|].
    destruct (mem_str _ go_keywords); [exact I|].
    apply ok_bind; [apply pp_ok; [exact I | exact (pos_of_in_range _ _ _ Hl)]|]. intros D _.
    apply ok_bind; [apply convert_arguments_ok; [exact Hv | exact Hpv]|]. intros [inp tm1] _.
    apply ok_bind; [apply convert_operation_ok; assumption|]. intros [resp tm2] _. exact I.
  Qed.

  (* the whole type generation: with names resolved and positions in range, a Panic can only be
     one of the flatten index sites *)
  Theorem generate_types_ok ops :
    forallb op_okb ops = true -> forallb (op_posb srcs) ops = true -> ok_res (generate_types sch cfg frags srcs ops).
  Proof.
    intros Ho Hp. unfold generate_types. apply ok_mfold. intros acc o Hin. apply add_operation_ok.
    - rewrite forallb_forall in Ho. exact (Ho o Hin).
    - rewrite forallb_forall in Hp. exact (Hp o Hin).
  Qed.
End WF.

(* stated without the section: the first three boolean conditions are what gqlparser's validator
   guarantees for an accepted document (every named type, fragment and root type resolves); the
   last two say that every position (line of an operation, variable, fragment definition, field,
   inline fragment, spread) is inside the source it indexes *)
Theorem converter_panics_only_at_flatten_index_sites sch cfg frags srcs ops :
  schema_okb sch = true -> frags_okb sch frags = true -> forallb (op_okb sch frags) ops = true ->
  frags_posb srcs frags = true -> forallb (op_posb srcs) ops = true ->
  forall s, generate_types sch cfg frags srcs ops = Panic s -> flat_site s = true.
Proof.
  intros H1 H2 H3 H4 H5 s E. pose proof (generate_types_ok sch cfg frags srcs H1 H2 H4 ops H3 H5) as H. rewrite E in H. exact H.
Qed.

(* non-vacuity: the hypotheses hold of a concrete program (the one of ConvertProofs) *)
Example w_program_is_wf :
  schema_okb w_schema = true /\ frags_okb w_schema [w_frag] = true /\ forallb (op_okb w_schema [w_frag]) [w_op] = true
  /\ frags_posb w_srcs [w_frag] = true /\ forallb (op_posb w_srcs) [w_op] = true.
Proof. repeat split; vm_compute; reflexivity. Qed.

(* the position hypotheses are NEEDED: a program whose names all resolve, with a source that has
   fewer lines than the positions say (Proofs/ConvertProofs.v w_cr_op), reaches the line-index
   Panic of parsePrecedingComment, which is not a flatten site.  Only the position check fails;
   against the source split into its four lines the same program has all the hypotheses. *)
Theorem line_index_site_needs_positions :
  schema_okb w_schema = true /\ frags_okb w_schema [] = true /\ forallb (op_okb w_schema []) [w_cr_op] = true
  /\ forallb (op_posb w_cr_srcs) [w_cr_op] = false
  /\ forallb (op_posb w_lf_srcs) [w_cr_op] = true
  /\ exists m, generate_types w_schema w_cfg [] w_cr_srcs [w_cr_op] = Panic m /\ flat_site m = false.
Proof.
  repeat split; try (vm_compute; reflexivity).
  eexists. split; [exact line_index_out_of_range_panics | vm_compute; reflexivity].
Qed.
