(* C07, full form for the converter: on programs of the shape the validator and the preprocessing
   guarantee and whose positions are inside their sources (Gen/Wf.v, strong form) the model of
   convert.go never reaches ANY Panic site: neither an unchecked map / pointer dereference nor an
   out-of-range flatten index nor the line index of parsePrecedingComment. *)
From Verif Require Import Base.Str Gen.Consts Gen.Casing Gen.Enum Gen.Gql Gen.Doc Gen.Directive Gen.Convert Gen.Wf
  Proofs.DocProofs Proofs.ConvertProofs Proofs.DirectiveProofs Proofs.FlattenProofs.
From Coq Require Import ZArith Lia.

Definition np_res {A} (r : res A) : Prop := match r with Panic _ => False | _ => True end.

Lemma np_bind {A B} (r : res A) (k : A -> res B) :
  np_res r -> (forall a, r = Ok a -> np_res (k a)) -> np_res (bind r k).
Proof. destruct r; cbn; auto. Qed.

Lemma bind_ok' {A B} (r : res A) (f : A -> res B) y : bind r f = Ok y -> exists x, r = Ok x /\ f x = Ok y.
Proof. destruct r; cbn; try discriminate. intro H. eexists; split; [reflexivity | exact H]. Qed.

Lemma no_crash_np {A} (r : res A) : no_crash r -> np_res r.
Proof. destruct r; cbn; tauto. Qed.

Lemma np_mfold {A B} (step : B -> A -> res B) (l : list A) :
  (forall acc x, In x l -> np_res (step acc x)) -> forall acc, np_res (mfold step l acc).
Proof.
  induction l as [|x r IH]; intros H acc; [exact I|]. cbn [mfold].
  apply np_bind; [apply H; left; reflexivity | intros a _; apply IH; intros acc' y Hy; apply H; right; exact Hy].
Qed.

Section Full.
  Variable sch : schema.
  Variable cfg : config.
  Variable frags : list fragment.
  Variable srcs : list (list lkind).

  Hypothesis Hsch : schema_okb sch = true.
  Hypothesis Hfr : frags_okb2 sch frags srcs = true.

  Ltac npr :=
    repeat first
      [ exact I
      | match goal with |- np_res (bind _ _) => apply np_bind; [| intros ? ?] end
      | match goal with |- np_res (if ?c then _ else _) => destruct c end
      | match goal with |- np_res (match ?x with _ => _ end) => destruct x end
      | match goal with |- np_res (let '(_, _) := ?p in _) => destruct p end ].

  Lemma find_type_in n d : find_type sch n = Some d -> In d sch.
  Proof.
    clear Hsch Hfr. induction sch as [|t r IH]; cbn [find_type]; [discriminate|].
    destruct (str_eqb (td_name t) n); [intro H; injection H as <-; left; reflexivity | intro H; right; exact (IH H)].
  Qed.
  Lemma def_ok_of_in d : In d sch -> def_okb sch d = true.
  Proof. intro H. unfold schema_okb in Hsch. rewrite forallb_forall in Hsch. exact (Hsch d H). Qed.
  Lemma find_fragment_in n fr : find_fragment frags n = Some fr -> In fr frags.
  Proof.
    clear Hsch Hfr. induction frags as [|f r IH]; cbn; [discriminate|].
    destruct (str_eqb (fr_name f) n); [intro H; injection H as <-; left; reflexivity | intro H; right; exact (IH H)].
  Qed.
  Lemma frag_ok_of_find n fr : find_fragment frags n = Some fr -> frag_okb2 sch frags srcs fr = true.
  Proof. intro H. apply find_fragment_in in H. unfold frags_okb2 in Hfr. rewrite forallb_forall in Hfr. exact (Hfr fr H). Qed.
  Lemma possible_in d i : In i (possible_types sch d) -> In i sch.
  Proof. unfold possible_types. destruct (td_kind d); try (intros []); intro H; apply filter_In in H; exact (proj1 H). Qed.
  Lemma ty_ok_base t : ty_okb sch t = true -> is_some (find_type sch (ty_base t)) = true.
  Proof. induction t as [n nn|e IH nn]; cbn; auto. Qed.

  (* ---- the directive path ---- *)
  Lemma validate_np n D :
    (match n with NField tb sub => is_some (find_type sch tb) = true /\ exists src, sels_okb2 sch frags srcs src sub = true | _ => True end) ->
    np_res (validate sch frags n D).
  Proof.
    intro Hn. unfold validate.
    destruct (negb (forallb (validate_for_entry sch) (fd_for D))); [exact I|].
    destruct n as [| |nn|tb sub|]; cbv zeta.
    - npr.
    - npr.
    - npr.
    - destruct Hn as [Hty [src Hsub]].
      destruct (is_set (d_omitempty (fd_main D))); [exact I|].
      destruct (find_type sch tb) as [typ|]; [|discriminate Hty].
      destruct (is_set (d_struct (fd_main D)) && negb (validate_struct_option typ sub)); [exact I|].
      destruct (is_set (d_flatten (fd_main D))); [|npr].
      pose proof (flat_cases sch frags srcs Hfr typ src sub Hsub) as Hfc.
      destruct (validate_flatten_option sch frags typ sub); [exact I | npr | contradiction].
    - exact I.
  Qed.

  Lemma pp_np n key pos Q :
    (match n with NField tb sub => is_some (find_type sch tb) = true /\ exists src, sels_okb2 sch frags srcs src sub = true | _ => True end) ->
    pos_in_range srcs pos ->
    np_res (parse_preceding sch frags srcs n key pos Q).
  Proof.
    intros Hn Hp. unfold parse_preceding. apply np_bind.
    - destruct pos as [[s line]|]; [|exact I]. cbn in Hp.
      destruct (lines_above_pos_ok _ _ _ Hp) as [above ->]. cbn [bind]. apply no_crash_np, scan_total.
    - intros [D has] _. apply np_bind.
      + destruct has; [apply validate_np, Hn | exact I].
      + intros u _. destruct Q as [q|]; [|exact I]. destruct (typename_bind_conflict _); exact I.
  Qed.

  Lemma get_type_np tm name gql sels : np_res (get_type tm name gql sels).
  Proof. unfold get_type. npr. Qed.
  Lemma add_type_np tm name d : np_res (add_type tm name d).
  Proof. unfold add_type. apply np_bind; [apply get_type_np | intros e _; destruct e; exact I]. Qed.
  Lemma add_fragment_type_np tm name d : np_res (add_fragment_type tm name d).
  Proof. unfold add_fragment_type. npr. Qed.
  Lemma dedup_fields_np fs : forall a c, np_res (dedup_fields fs a c).
  Proof.
    induction fs as [|f r IH]; intros a c; [exact I|]. cbn [dedup_fields].
    destruct (gf_json f).
    - destruct (mem_str _ a); [apply IH|]. apply np_bind; [apply IH | intros; exact I].
    - destruct (mem_str _ c).
      + destruct (unwrap (gf_type f)); try exact I; apply IH.
      + apply np_bind; [apply IH | intros; exact I].
  Qed.
  Lemma convert_enum_go_np T al vs : forall seen, np_res (convert_enum_go T al seen vs).
  Proof.
    induction vs as [|v r IH]; intro seen; [exact I|]. cbn [convert_enum_go].
    destruct (mem_str _ seen); [exact I|]. apply np_bind; [apply IH | intros; exact I].
  Qed.

  Lemma convert_type_S f (src : nat) (prefix : list str) (t : tyref) (sels : list sel) (opts : dir) (Q : fulldir) (tm : typemap) : convert_type sch cfg frags srcs (S f) src prefix t sels opts Q tm =

        if nonempty (d_bind opts) && negb (str_eqb (d_bind opts) (b "-"))
        then Ok (GOpaque (d_bind opts) (ty_base t) [] [], opts, tm)
        else
          match t with
          | TList e _ =>
              do (r, tm') <- convert_type sch cfg frags srcs f src prefix e sels opts Q tm;
              let '(g, o) := r in Ok (GSlice g, o, tm')
          | TNamed n nn =>
              match find_type sch n with
              | None => Panic (b "convertType: schema.Types[name] is nil")
              | Some def =>
                  do (g, tm') <- convert_definition sch cfg frags srcs f src prefix def sels opts Q tm;
                  if struct_ref cfg def then
                    let g' := match d_pointer opts with Some false => g | _ => GPtr g end in
                    let o' := match d_omitempty opts with Some false => opts | _ => set_omitempty opts (Some true) end in
                    Ok (g', o', tm')
                  else if negb (pointer_is_false opts) && (get_b (d_pointer opts) || (negb nn && N.eqb (cfg_optional cfg) 1))
                  then Ok (GPtr g, opts, tm')
                  else if negb nn && N.eqb (cfg_optional cfg) 2
                  then Ok (GGeneric (cfg_generic_type cfg) g, opts, tm')
                  else Ok (g, opts, tm')
              end
          end.
  Proof. reflexivity. Qed.

  Definition def_tail f (src : nat) (prefix : list str) (def : typedef) (sels : list sel) (opts : dir) (Q : fulldir) (tm : typemap) : res (gotype * typemap) :=
                do np <- (if nonempty (d_typename opts) then
                            if mem_str (d_typename opts) go_keywords then Err (b "keyword")
                            else
                              let name := match prefix with
                                          | [h] => if str_eqb h (d_typename opts)
                                                   then make_long_type_name cfg prefix (td_name def) else d_typename opts
                                          | _ => d_typename opts
                                          end in
                              Ok (name, [d_typename opts])
                          else match td_kind def with
                               | KInput | KEnum => Ok (cased cfg (td_name def), prefix)
                               | _ => Ok (make_type_name cfg prefix (td_name def), prefix)
                               end);
                let '(name, prefix') := np in
                do existing <- get_type tm name (td_name def) sels;
                match existing with
                | Some t => Ok (t, tm)
                | None =>
                    let kind := if get_b (d_struct opts) && validate_struct_option def sels then KObject else td_kind def in
                    match kind with
                    | KObject =>
                        do (fields, tm1) <- convert_selection_set sch cfg frags srcs f src prefix' sels def Q tm;
                        match (if get_b (d_flatten opts) then validate_flatten_option sch frags def sels else FlatErr) with
                        | FlatPanic => Panic (b "validateFlattenOption: nil fragment definition")
                        | FlatIdx (Some i) =>
                            match nth_error fields i with
                            | Some fl => Ok (gf_type fl, tm1)
                            | None => Panic (b "flatten: fields[i] index out of range")
                            end
                        | FlatIdx None =>
                            Panic (b "flatten: fields[-1]")
                        | FlatErr => add_type tm1 name (DStruct (td_name def) fields sels false)
                        end
                    | KInput =>
                        do (t0, tm1) <- add_type tm name (DStruct (td_name def) [] [] true);
                        do (fields, tm2) <-
                          mfold (fun (acc : list gofield * typemap) (fd : fielddef) =>
                                   let '(done, tmx) := acc in
                                   
                                   do D <- pp sch frags srcs NOtherNode (Some (td_name def, fd_name fd)) None (Some Q);
                                   do (r, tmy) <- convert_type sch cfg frags srcs f src prefix' (fd_type fd) [] (fd_main D) Q tmx;
                                   let '(g, o) := r in
                                   if negb (cfg_struct_refs cfg) && ty_nonnull (fd_type fd) && is_direct_ptr g && negb (get_b (d_omitempty o))
                                   then Err (b "input-pointer")
                                   else if negb (cfg_struct_refs cfg) && get_b (d_omitempty o) && ty_nonnull (fd_type fd) && negb (fd_has_default fd)
                                   then Err (b "input-omitempty")
                                   else Ok (done ++ [{| gf_name := cased cfg (fd_name fd); gf_type := g; gf_json := fd_name fd;
                                                        gf_gql := fd_name fd; gf_omitempty := get_b (d_omitempty o) |}], tmy))
                                (td_fields def) ([], tm1);
                        Ok (GStruct name, tm_set tm2 name (DStruct (td_name def) fields [] true))
                    | KInterface | KUnion =>
                        do (shared, tm1) <- convert_selection_set sch cfg frags srcs f src prefix' sels def Q tm;
                        match (if get_b (d_flatten opts) then validate_flatten_option sch frags def sels else FlatErr) with
                        | FlatPanic => Panic (b "validateFlattenOption: nil fragment definition")
                        | FlatIdx (Some i) =>
                            match nth_error shared i with
                            | Some fl => Ok (gf_type fl, tm1)
                            | None => Panic (b "flatten: sharedFields[i] index out of range")
                            end
                        | FlatIdx None => Panic (b "flatten: sharedFields[-1]")
                        | FlatErr =>
                            let impls := possible_types sch def in
                            do (names, tm2) <-
                              mfold (fun (acc : list str * typemap) (idef : typedef) =>
                                       let '(done, tmx) := acc in
                                       do (g, tmy) <- convert_definition sch cfg frags srcs f src prefix' idef sels opts Q tmx;
                                       match g with
                                       | GStruct n => Ok (done ++ [n], tmy)
                                       | _ => Err (b "non-object-implementation")
                                       end)
                                    impls ([], tm1);
                            add_type tm2 name (DIface (td_name def) shared names sels)
                        end
                    | KEnum =>
                        match convert_enum name (for_enum (cfg_casing cfg) (td_name def)) (td_values def) with
                        | Ok vs => add_type tm name (DEnum (td_name def) vs)
                        | Err e => Err e
                        | Panic s => Panic s
                        | OutOfFuel => OutOfFuel
                        end
                    | KScalar =>
                        match builtin_go (td_name def) with
                        | Some g => add_type tm name (DAlias g (td_name def))
                        | None => Err (b "unknown-scalar")
                        end
                    end
                end.

  Lemma convert_definition_S f (src : nat) (prefix : list str) (def : typedef) (sels : list sel) (opts : dir) (Q : fulldir) (tm : typemap) : convert_definition sch cfg frags srcs (S f) src prefix def sels opts Q tm =

        match (match assoc (td_name def) (cfg_bindings cfg) with
               | Some bd => if str_eqb (d_bind opts) (b "-") then None else Some bd
               | None => None
               end) with
        | Some bd =>
            if nonempty (d_typename opts) then Err (b "binding-typename")
            else Ok (GOpaque (bd_type bd) (td_name def) (bd_marshaler bd) (bd_unmarshaler bd), tm)
        | None =>
            match (match builtin_go (td_name def) with
                   | Some g => if nonempty (d_typename opts) then None else Some g
                   | None => None
                   end) with
            | Some g => Ok (GOpaque g (td_name def) [] [], tm)
            | None =>
                
                def_tail f src prefix def sels opts Q tm
            end
        end.
  Proof. reflexivity. Qed.

  Lemma convert_selection_set_S f (src : nat) (prefix : list str) (sels : list sel) (containing : typedef) (Q : fulldir) (tm : typemap) : convert_selection_set sch cfg frags srcs (S f) src prefix sels containing Q tm =

        do (fields, tm') <-
          mfold (fun (acc : list gofield * typemap) (s : sel) =>
                   let '(done, tmx) := acc in
                   match s with
                   | SField alias name fty parent _ sub line =>
                       do D <- pp sch frags srcs (NField (ty_base fty) sub) (Some (parent, name)) (pos_of src line) (Some Q);
                       let o := fd_main D in
                       let goname := cased cfg (if nonempty (d_alias o) then d_alias o else alias) in
                       let prefix' := next_prefix cfg prefix parent alias in
                       do (r, tmy) <- convert_type sch cfg frags srcs f src prefix' fty sub o Q tmx;
                       let '(g, _) := r in
                       Ok (done ++ [{| gf_name := goname; gf_type := g; gf_json := alias; gf_gql := name; gf_omitempty := false |}], tmy)
                   | SSpread name _ line =>
                       do D <- pp sch frags srcs NOtherNode None (pos_of src line) (Some Q);
                       match find_fragment frags name with
                       | None => Panic (b "convertFragmentSpread: fragmentSpread.Definition is nil")
                       | Some fr =>
                           match find_type sch (fr_on fr) with
                           | None => Panic (b "convertFragmentSpread: fragment type definition is nil")
                           | Some ft =>
                               if negb (fragment_matches containing ft) then Ok (done, tmx)
                               else
                                 
                                 do e <- get_type tmx name (fr_on fr) (fr_sel fr);
                                 do (g, tmy) <- match e with
                                                | Some t => Ok (t, tmx)
                                                | None => convert_named_fragment sch cfg frags srcs f fr tmx
                                                end;
                                 let g' := match g, td_kind containing with
                                           | GIface n, KObject =>
                                               match assoc n tmy with
                                               | Some (DIface _ _ impls _) =>
                                                   match impl_for tmy impls (td_name containing) with
                                                   | Some i => GStruct i
                                                   | None => g
                                                   end
                                               | _ => g
                                               end
                                           | _, _ => g
                                           end in
                                 Ok (done ++ [{| gf_name := []; gf_type := g'; gf_json := []; gf_gql := []; gf_omitempty := false |}], tmy)
                           end
                       end
                   | SInline cond _ sub line =>
                       do D <- pp sch frags srcs NOtherNode None (pos_of src line) (Some Q);
                       
                       match (match cond with [] => Some containing | _ => find_type sch cond end) with
                       | None => Panic (b "convertInlineFragment: schema.Types[TypeCondition] is nil")
                       | Some ft =>
                           if negb (fragment_matches containing ft) then Ok (done, tmx)
                           else do (fs, tmy) <- convert_selection_set sch cfg frags srcs f src prefix sub containing Q tmx;
                                Ok (done ++ fs, tmy)
                       end
                   end)
                sels ([], tm);
        do uniq <- dedup_fields fields [] [];
        Ok (uniq, tm').
  Proof. reflexivity. Qed.

  Lemma convert_named_fragment_S f (fr : fragment) (tm : typemap) : convert_named_fragment sch cfg frags srcs (S f) fr tm =

        match find_type sch (fr_on fr) with
        | None => Panic (b "convertNamedFragment: schema.Types[TypeCondition] is nil")
        | Some typ =>
            do D <- pp sch frags srcs NFrag None (pos_of (fr_src fr) (fr_line fr)) None;
            do (fields, tm1) <- convert_selection_set sch cfg frags srcs f (fr_src fr) [fr_name fr] (fr_sel fr) typ D tm;
            match (if get_b (d_flatten (fd_main D)) then validate_flatten_option sch frags typ (fr_sel fr) else FlatErr) with
            | FlatPanic => Panic (b "validateFlattenOption: nil fragment definition")
            | FlatIdx (Some i) =>
                match nth_error fields i with
                | Some fl => Ok (gf_type fl, tm1)
                | None => Panic (b "flatten: fields[i] index out of range")
                end
            | FlatIdx None => Panic (b "flatten: fields[-1]")
            | FlatErr =>
                match td_kind typ with
                | KObject =>
                    do tm2 <- add_fragment_type tm1 (fr_name fr) (DStruct (td_name typ) fields (fr_sel fr) false);
                    Ok (GStruct (fr_name fr), tm2)
                | KInterface | KUnion =>
                    let impls := possible_types sch typ in
                    let inames := map (fun i => fr_name fr ++ upper_first (td_name i)) impls in
                    do tm2 <- add_fragment_type tm1 (fr_name fr) (DIface (td_name typ) fields inames (fr_sel fr));
                    do tm3 <-
                      mfold (fun (tmx : typemap) (idef : typedef) =>
                               do (ifields, tmy) <- convert_selection_set sch cfg frags srcs f (fr_src fr) [fr_name fr] (fr_sel fr) idef D tmx;
                               add_fragment_type tmy (fr_name fr ++ upper_first (td_name idef))
                                                 (DStruct (td_name idef) ifields (fr_sel fr) false))
                            impls tm2;
                    Ok (GIface (fr_name fr), tm3)
                | _ => Err (b "invalid-fragment-type")
                end
            end
        end.
  Proof. reflexivity. Qed.

  Definition css_step f (src : nat) (prefix : list str) (containing : typedef) (Q : fulldir) :=
    fun (acc : list gofield * typemap) (s : sel) =>
                   let '(done, tmx) := acc in
                   match s with
                   | SField alias name fty parent _ sub line =>
                       do D <- pp sch frags srcs (NField (ty_base fty) sub) (Some (parent, name)) (pos_of src line) (Some Q);
                       let o := fd_main D in
                       let goname := cased cfg (if nonempty (d_alias o) then d_alias o else alias) in
                       let prefix' := next_prefix cfg prefix parent alias in
                       do (r, tmy) <- convert_type sch cfg frags srcs f src prefix' fty sub o Q tmx;
                       let '(g, _) := r in
                       Ok (done ++ [{| gf_name := goname; gf_type := g; gf_json := alias; gf_gql := name; gf_omitempty := false |}], tmy)
                   | SSpread name _ line =>
                       do D <- pp sch frags srcs NOtherNode None (pos_of src line) (Some Q);
                       match find_fragment frags name with
                       | None => Panic (b "convertFragmentSpread: fragmentSpread.Definition is nil")
                       | Some fr =>
                           match find_type sch (fr_on fr) with
                           | None => Panic (b "convertFragmentSpread: fragment type definition is nil")
                           | Some ft =>
                               if negb (fragment_matches containing ft) then Ok (done, tmx)
                               else
                                 
                                 do e <- get_type tmx name (fr_on fr) (fr_sel fr);
                                 do (g, tmy) <- match e with
                                                | Some t => Ok (t, tmx)
                                                | None => convert_named_fragment sch cfg frags srcs f fr tmx
                                                end;
                                 let g' := match g, td_kind containing with
                                           | GIface n, KObject =>
                                               match assoc n tmy with
                                               | Some (DIface _ _ impls _) =>
                                                   match impl_for tmy impls (td_name containing) with
                                                   | Some i => GStruct i
                                                   | None => g
                                                   end
                                               | _ => g
                                               end
                                           | _, _ => g
                                           end in
                                 Ok (done ++ [{| gf_name := []; gf_type := g'; gf_json := []; gf_gql := []; gf_omitempty := false |}], tmy)
                           end
                       end
                   | SInline cond _ sub line =>
                       do D <- pp sch frags srcs NOtherNode None (pos_of src line) (Some Q);
                       
                       match (match cond with [] => Some containing | _ => find_type sch cond end) with
                       | None => Panic (b "convertInlineFragment: schema.Types[TypeCondition] is nil")
                       | Some ft =>
                           if negb (fragment_matches containing ft) then Ok (done, tmx)
                           else do (fs, tmy) <- convert_selection_set sch cfg frags srcs f src prefix sub containing Q tmx;
                                Ok (done ++ fs, tmy)
                       end
                   end.

  Lemma convert_selection_set_S2 f (src : nat) (prefix : list str) (sels : list sel) (containing : typedef) (Q : fulldir) (tm : typemap) :
    convert_selection_set sch cfg frags srcs (S f) src prefix sels containing Q tm =
    (do (fields, tm') <- mfold (css_step f src prefix containing Q) sels ([], tm);
     do uniq <- dedup_fields fields [] [];
     Ok (uniq, tm')).
  Proof. reflexivity. Qed.

  (* ---- what one step of the selection-set loop appends ---- *)
  Lemma step_field f src prefix containing Q done tmx a n fty p e sub l done' tmy :
    css_step f src prefix containing Q (done, tmx) (SField a n fty p e sub l) = Ok (done', tmy) ->
    exists fld, done' = done ++ [fld] /\ gf_json fld = a.
  Proof.
    unfold css_step. intro H. apply bind_ok' in H. destruct H as [D [_ H]]. cbv zeta in H.
    apply bind_ok' in H. destruct H as [[[g o] tmy'] [_ H]]. injection H as <- <-. eexists; split; reflexivity.
  Qed.

  Lemma step_spread f src prefix containing Q done tmx n e l fr ft done' tmy :
    find_fragment frags n = Some fr -> find_type sch (fr_on fr) = Some ft -> fragment_matches containing ft = true ->
    css_step f src prefix containing Q (done, tmx) (SSpread n e l) = Ok (done', tmy) ->
    exists emb, done' = done ++ [emb] /\ gf_json emb = [].
  Proof.
    intros Ef Eft Em H. unfold css_step in H. apply bind_ok' in H. destruct H as [D [_ H]].
    rewrite Ef, Eft, Em in H. cbn [negb] in H.
    apply bind_ok' in H. destruct H as [e0 [_ H]]. apply bind_ok' in H. destruct H as [[g tmy'] [_ H]].
    cbv zeta in H. injection H as <- <-. eexists; split; reflexivity.
  Qed.

  Lemma dedup_one y a c : gf_json y = [] -> mem_str (reference (gf_type y)) a = false -> dedup_fields [y] a c = Ok [y].
  Proof. intros Hy Hm. cbn [dedup_fields]. rewrite Hy, Hm. reflexivity. Qed.

  Lemma dedup_two x y : gf_json x <> [] -> gf_json y = [] ->
    dedup_fields [x; y] [] [] = Ok [x; y] /\ dedup_fields [y; x] [] [] = Ok [y; x] /\ dedup_fields [y] [] [] = Ok [y].
  Proof.
    intros Hx Hy. destruct (gf_json x) as [|ch s] eqn:Ex; [exfalso; apply Hx; reflexivity|].
    split; [|split].
    - change (dedup_fields [x; y] [] []) with
        (match gf_json x with
         | [] => let n := reference (gf_type x) in
                 if mem_str n [] then dedup_fields [y] [] [] else do rest <- dedup_fields [y] [n] []; Ok (x :: rest)
         | j => if mem_str j [] then match unwrap (gf_type x) with
                                     | GOpaque _ _ _ _ | GEnum _ | GAlias _ => dedup_fields [y] [] []
                                     | GStruct _ | GIface _ => Err (b "duplicate-field")
                                     | _ => Err (b "unexpected-field-type")
                                     end
                else do rest <- dedup_fields [y] [] [j]; Ok (x :: rest)
         end).
      rewrite Ex. cbn [mem_str]. rewrite (dedup_one y [] [ch :: s] Hy eq_refl). reflexivity.
    - change (dedup_fields [y; x] [] []) with
        (match gf_json y with
         | [] => let n := reference (gf_type y) in
                 if mem_str n [] then dedup_fields [x] [] [] else do rest <- dedup_fields [x] [n] []; Ok (y :: rest)
         | j => if mem_str j [] then match unwrap (gf_type y) with
                                     | GOpaque _ _ _ _ | GEnum _ | GAlias _ => dedup_fields [x] [] []
                                     | GStruct _ | GIface _ => Err (b "duplicate-field")
                                     | _ => Err (b "unexpected-field-type")
                                     end
                else do rest <- dedup_fields [x] [] [j]; Ok (y :: rest)
         end).
      rewrite Hy. cbv zeta. cbn [mem_str]. cbn [dedup_fields]. rewrite Ex. cbn [mem_str bind]. reflexivity.
    - apply dedup_one; [exact Hy | reflexivity].
  Qed.

  (* when validateFlattenOption returned an index, the converted fields have that index *)
  Lemma css_index f src prefix sels typ Q tm fields tm1 x :
    flat_shape sch frags typ sels x -> forallb (sel_okb2 sch frags srcs src) sels = true ->
    convert_selection_set sch cfg frags srcs f src prefix sels typ Q tm = Ok (fields, tm1) ->
    exists i fl, x = Some i /\ nth_error fields i = Some fl.
  Proof.
    intros Hshape Hok H. destruct f as [|f]; [discriminate|]. rewrite convert_selection_set_S2 in H.
    apply bind_ok' in H. destruct H as [[fields0 tm'] [Hm H]]. apply bind_ok' in H. destruct H as [uniq [Hd H]]. injection H as <- <-.
    destruct Hshape as [n e l fr ft -> Ef Eft Em | t n e l fr ft Ht -> Ef Eft Em | t n e l fr ft Ht -> Ef Eft Em].
    - cbn [mfold] in Hm. apply bind_ok' in Hm. destruct Hm as [[d1 t1] [Hs1 Hm]]. injection Hm as <- <-.
      destruct (step_spread _ _ _ _ _ _ _ _ _ _ _ _ _ _ Ef Eft Em Hs1) as [emb [-> Hj]]. cbn [app] in Hd.
      cbn [dedup_fields] in Hd. rewrite Hj in Hd. cbn [mem_str bind] in Hd. injection Hd as <-.
      exists 0%nat, emb. split; reflexivity.
    - destruct t as [a0 n0 fty p0 e0 sub0 l0| |]; try discriminate Ht.
      cbn [forallb sel_okb2] in Hok. apply Bool.andb_true_iff in Hok. destruct Hok as [Hok _].
      repeat (apply Bool.andb_true_iff in Hok; destruct Hok as [Hok ?]).
      cbn [mfold] in Hm. apply bind_ok' in Hm. destruct Hm as [[d1 t1] [Hs1 Hm]].
      apply bind_ok' in Hm. destruct Hm as [[d2 t2] [Hs2 Hm]]. injection Hm as <- <-.
      destruct (step_field _ _ _ _ _ _ _ _ _ _ _ _ _ _ _ _ Hs1) as [fld [-> Hjf]].
      destruct (step_spread _ _ _ _ _ _ _ _ _ _ _ _ _ _ Ef Eft Em Hs2) as [emb [-> Hje]]. cbn [app] in Hd.
      assert (Hne : gf_json fld <> []) by (rewrite Hjf; destruct a0; [discriminate Hok | discriminate]).
      rewrite (proj1 (dedup_two fld emb Hne Hje)) in Hd. injection Hd as <-.
      exists 1%nat, emb. split; reflexivity.
    - destruct t as [a0 n0 fty p0 e0 sub0 l0| |]; try discriminate Ht.
      cbn [forallb sel_okb2] in Hok. apply Bool.andb_true_iff in Hok. destruct Hok as [_ Hok].
      apply Bool.andb_true_iff in Hok. destruct Hok as [Hok _].
      repeat (apply Bool.andb_true_iff in Hok; destruct Hok as [Hok ?]).
      cbn [mfold] in Hm. apply bind_ok' in Hm. destruct Hm as [[d1 t1] [Hs1 Hm]].
      apply bind_ok' in Hm. destruct Hm as [[d2 t2] [Hs2 Hm]]. injection Hm as <- <-.
      destruct (step_spread _ _ _ _ _ _ _ _ _ _ _ _ _ _ Ef Eft Em Hs1) as [emb [-> Hje]].
      destruct (step_field _ _ _ _ _ _ _ _ _ _ _ _ _ _ _ _ Hs2) as [fld [-> Hjf]]. cbn [app] in Hd.
      assert (Hne : gf_json fld <> []) by (rewrite Hjf; destruct a0; [discriminate Hok | discriminate]).
      rewrite (proj1 (proj2 (dedup_two fld emb Hne Hje))) in Hd. injection Hd as <-.
      exists 0%nat, emb. split; reflexivity.
  Qed.

  (* the tail after a selection set was converted: flatten index or registration *)
  Lemma flat_tail_np {A} f src prefix sels typ Q tm fields tm1 (flag : bool) (k : res A) (mk : gofield -> res A) s1 s2 s3 :
    sels_okb2 sch frags srcs src sels = true ->
    convert_selection_set sch cfg frags srcs f src prefix sels typ Q tm = Ok (fields, tm1) ->
    np_res k -> (forall fl, np_res (mk fl)) ->
    np_res (match (if flag then validate_flatten_option sch frags typ sels else FlatErr) with
            | FlatPanic => Panic s1
            | FlatIdx (Some i) => match nth_error fields i with Some fl => mk fl | None => Panic s2 end
            | FlatIdx None => Panic s3
            | FlatErr => k
            end).
  Proof.
    intros Hok Hcss Hk Hmk. destruct flag; [|exact Hk].
    pose proof (flat_cases sch frags srcs Hfr typ src sels Hok) as Hfc.
    destruct (validate_flatten_option sch frags typ sels) as [|x|]; [exact Hk | | contradiction].
    pose proof Hok as Hok2. unfold sels_okb2 in Hok2. apply Bool.andb_true_iff in Hok2. destruct Hok2 as [_ Hall].
    destruct (css_index _ _ _ _ _ _ _ _ _ _ Hfc Hall Hcss) as [i [fl [-> Hn]]]. rewrite Hn. apply Hmk.
  Qed.

  Definition sels_ok (src : nat) (sels : list sel) : Prop := sels_okb2 sch frags srcs src sels = true.

  Theorem convert_np : forall f,
    (forall src prefix t sels opts Q tm, ty_okb sch t = true -> sels_ok src sels ->
       np_res (convert_type sch cfg frags srcs f src prefix t sels opts Q tm))
    /\ (forall src prefix def sels opts Q tm, In def sch -> sels_ok src sels ->
       np_res (convert_definition sch cfg frags srcs f src prefix def sels opts Q tm))
    /\ (forall src prefix sels containing Q tm, sels_ok src sels ->
       np_res (convert_selection_set sch cfg frags srcs f src prefix sels containing Q tm))
    /\ (forall fr tm, frag_okb2 sch frags srcs fr = true -> np_res (convert_named_fragment sch cfg frags srcs f fr tm)).
  Proof.
    induction f as [|f (IHt & IHd & IHs & IHn)].
    - repeat split; intros; exact I.
    - split; [|split; [|split]].
      + (* convertType *)
        intros src prefix t sels opts Q tm Ht Hs. rewrite convert_type_S.
        destruct (nonempty (d_bind opts) && negb (str_eqb (d_bind opts) (b "-"))); [exact I|].
        destruct t as [n nn|e nn].
        * cbn [ty_okb] in Ht. destruct (find_type sch n) as [def|] eqn:Ef; [|discriminate Ht].
          apply np_bind; [apply IHd; [exact (find_type_in _ _ Ef) | exact Hs]|].
          intros [g tm'] _. npr.
        * apply np_bind; [apply IHt; [exact Ht | exact Hs]|]. intros [[g o] tm'] _. exact I.
      + (* convertDefinition *)
        intros src prefix def sels opts Q tm Hin Hs. rewrite convert_definition_S.
        assert (Htail : np_res (def_tail f src prefix def sels opts Q tm)).
        { unfold def_tail.
          apply np_bind; [npr|]. intros [name prefix'] _.
          apply np_bind; [apply get_type_np|]. intros [t0|] _; [exact I|].
          cbv zeta. match goal with |- np_res (match ?k with _ => _ end) => destruct k end.
          - (* scalar *) npr; apply add_type_np.
          - (* object *)
            apply np_bind; [apply IHs, Hs|]. intros [fields tm1] Ecss.
            eapply flat_tail_np; [exact Hs | exact Ecss | apply add_type_np | intros; exact I].
          - (* interface *)
            apply np_bind; [apply IHs, Hs|]. intros [shared tm1] Ecss.
            eapply flat_tail_np; [exact Hs | exact Ecss | | intros; exact I].
            cbv zeta. apply np_bind; [|intros [names tm2] _; apply add_type_np].
            apply np_mfold. intros [done tmx] idef Hi.
            apply np_bind; [apply IHd; [exact (possible_in _ _ Hi) | exact Hs]|]. intros [g tmy] _. destruct g; exact I.
          - (* union *)
            apply np_bind; [apply IHs, Hs|]. intros [shared tm1] Ecss.
            eapply flat_tail_np; [exact Hs | exact Ecss | | intros; exact I].
            cbv zeta. apply np_bind; [|intros [names tm2] _; apply add_type_np].
            apply np_mfold. intros [done tmx] idef Hi.
            apply np_bind; [apply IHd; [exact (possible_in _ _ Hi) | exact Hs]|]. intros [g tmy] _. destruct g; exact I.
          - (* enum *)
            unfold convert_enum.
            pose proof (convert_enum_go_np name (for_enum (cfg_casing cfg) (td_name def)) (td_values def) []) as He.
            destruct (convert_enum_go name (for_enum (cfg_casing cfg) (td_name def)) [] (td_values def)); try exact I; try apply add_type_np; exact He.
          - (* input *)
            apply np_bind; [apply add_type_np|]. intros [t0 tm1] _.
            apply np_bind; [|intros [fields tm2] _; exact I].
            apply np_mfold. intros [done tmx] fd Hfd.
            apply np_bind; [apply pp_np; exact I|]. intros D _.
            apply np_bind.
            + apply IHt; [|reflexivity].
              pose proof (def_ok_of_in _ Hin) as Hd. unfold def_okb in Hd. rewrite forallb_forall in Hd. exact (Hd fd Hfd).
            + intros [[g o] tmy] _. npr. }
        destruct (assoc (td_name def) (cfg_bindings cfg)) as [bd|].
        * destruct (str_eqb (d_bind opts) (b "-")); cbv beta iota; [|npr].
          destruct (builtin_go (td_name def)) as [bg|]; [destruct (nonempty (d_typename opts)); cbv beta iota; [exact Htail | exact I] | exact Htail].
        * destruct (builtin_go (td_name def)) as [bg|]; [destruct (nonempty (d_typename opts)); cbv beta iota; [exact Htail | exact I] | exact Htail].
      + (* convertSelectionSet *)
        intros src prefix sels containing Q tm Hs. rewrite convert_selection_set_S.
        apply np_bind; [|intros [fields tm'] _; apply np_bind; [apply dedup_fields_np | intros; exact I]].
        apply np_mfold. intros [done tmx] s Hin.
        unfold sels_ok, sels_okb2 in Hs. apply Bool.andb_true_iff in Hs. destruct Hs as [_ Hs].
        rewrite forallb_forall in Hs. pose proof (Hs s Hin) as Hk.
        destruct s as [alias name fty parent extra sub line|cond extra sub line|name extra line]; cbn [sel_okb2] in Hk.
        * apply Bool.andb_true_iff in Hk. destruct Hk as [Hk Hsubs].
          apply Bool.andb_true_iff in Hk. destruct Hk as [Hk Hl].
          apply Bool.andb_true_iff in Hk. destruct Hk as [Hk Hshape].
          apply Bool.andb_true_iff in Hk. destruct Hk as [Hal Hty].
          assert (Hsub : sels_okb2 sch frags srcs src sub = true) by (unfold sels_okb2; rewrite Hshape, Hsubs; reflexivity).
          apply np_bind; [apply pp_np; [split; [exact (ty_ok_base _ Hty) | exists src; exact Hsub] | exact (pos_of_in_range _ _ _ Hl)]|]. intros D _. cbv zeta.
          apply np_bind; [apply IHt; [exact Hty | exact Hsub]|]. intros [[g o] tmy] _. exact I.
        * apply Bool.andb_true_iff in Hk. destruct Hk as [Hk Hsubs].
          apply Bool.andb_true_iff in Hk. destruct Hk as [Hk Hl].
          apply Bool.andb_true_iff in Hk. destruct Hk as [Hc Hshape].
          assert (Hsub : sels_okb2 sch frags srcs src sub = true) by (unfold sels_okb2; rewrite Hshape, Hsubs; reflexivity).
          apply np_bind; [apply pp_np; [exact I | exact (pos_of_in_range _ _ _ Hl)]|]. intros D _.
          assert (Hft : exists ft, match cond with [] => Some containing | _ :: _ => find_type sch cond end = Some ft).
          { destruct cond; [eexists; reflexivity|]. destruct (find_type sch (n :: cond)); [eexists; reflexivity | discriminate Hc]. }
          destruct Hft as [ft ->].
          destruct (negb (fragment_matches containing ft)); [exact I|].
          apply np_bind; [apply IHs, Hsub|]. intros [fs tmy] _. exact I.
        * apply Bool.andb_true_iff in Hk. destruct Hk as [Hk Hl].
          apply np_bind; [apply pp_np; [exact I | exact (pos_of_in_range _ _ _ Hl)]|]. intros D _.
          destruct (find_fragment frags name) as [fr|] eqn:Ef; [|discriminate Hk].
          pose proof (frag_ok_of_find _ _ Ef) as Hfo. pose proof Hfo as Hfo2. unfold frag_okb2 in Hfo2.
          apply Bool.andb_true_iff in Hfo2. destruct Hfo2 as [Hon _].
          apply Bool.andb_true_iff in Hon. destruct Hon as [Hon _].
          destruct (find_type sch (fr_on fr)) as [ft|]; [|discriminate Hon].
          destruct (negb (fragment_matches containing ft)); [exact I|].
          apply np_bind; [apply get_type_np|]. intros e _.
          apply np_bind; [destruct e; [exact I | apply IHn, Hfo]|]. intros [g tmy] _. exact I.
      + (* convertNamedFragment *)
        intros fr tm Hfo. rewrite convert_named_fragment_S. pose proof Hfo as Hfo2. unfold frag_okb2 in Hfo2.
        apply Bool.andb_true_iff in Hfo2. destruct Hfo2 as [Hon Hsel].
        apply Bool.andb_true_iff in Hon. destruct Hon as [Hon Hl].
        destruct (find_type sch (fr_on fr)) as [typ|]; [|discriminate Hon].
        apply np_bind; [apply pp_np; [exact I | exact (pos_of_in_range _ _ _ Hl)]|]. intros D _.
        apply np_bind; [apply IHs, Hsel|]. intros [fields tm1] Ecss.
        eapply flat_tail_np; [exact Hsel | exact Ecss | | intros; exact I].
        destruct (td_kind typ); try exact I.
        * apply np_bind; [apply add_fragment_type_np | intros; exact I].
        * apply np_bind; [apply add_fragment_type_np|]. intros tm2 _.
          apply np_bind; [|intros; exact I]. apply np_mfold. intros tmx idef _.
          apply np_bind; [apply IHs, Hsel|]. intros [ifields tmy] _. apply add_fragment_type_np.
        * apply np_bind; [apply add_fragment_type_np|]. intros tm2 _.
          apply np_bind; [|intros; exact I]. apply np_mfold. intros tmx idef _.
          apply np_bind; [apply IHs, Hsel|]. intros [ifields tmy] _. apply add_fragment_type_np.
  Qed.

  Lemma convert_arguments_np o Q tm :
    forallb (fun v => ty_okb sch (vd_type v) && pos_okb srcs (op_src o) (vd_line v)) (op_vars o) = true ->
    np_res (convert_arguments sch cfg frags srcs o Q tm).
  Proof.
    intro Hv. unfold convert_arguments. destruct (op_vars o) as [|v0 vs] eqn:Ev; [exact I|]. cbv zeta.
    apply np_bind.
    - apply np_mfold. intros [done tmx] v Hin. destruct (mem_str (vd_name v) go_keywords); [exact I|].
      rewrite forallb_forall in Hv. pose proof (Hv v Hin) as Hvv. apply Bool.andb_true_iff in Hvv. destruct Hvv as [Hty Hl].
      apply np_bind; [apply pp_np; [exact I | exact (pos_of_in_range _ _ _ Hl)]|]. intros D _.
      apply np_bind.
      + apply (proj1 (convert_np FUEL)); [exact Hty | reflexivity].
      + intros [[g opt] tmy] _. exact I.
    - intros [fields tm1] _. apply np_bind; [apply add_type_np|]. intros [t tm2] _. destruct t; exact I.
  Qed.

  Lemma convert_operation_np o Q tm :
    is_some (root_type sch (op_kind o)) = true -> sels_okb2 sch frags srcs (op_src o) (op_sel o) = true ->
    np_res (convert_operation sch cfg frags srcs o Q tm).
  Proof.
    intros Hr Hs. unfold convert_operation. cbv zeta.
    destruct (root_type sch (op_kind o)) as [base|]; [|discriminate Hr].
    apply np_bind; [apply (proj1 (proj2 (proj2 (convert_np FUEL)))), Hs|]. intros [fields tm1] Ecss.
    eapply flat_tail_np; [exact Hs | exact Ecss | apply add_type_np | intros; exact I].
  Qed.

  Lemma add_operation_np acc o : op_okb2 sch frags srcs o = true -> np_res (add_operation sch cfg frags srcs acc o).
  Proof.
    intro Ho. unfold op_okb2 in Ho. apply Bool.andb_true_iff in Ho. destruct Ho as [Ho Hv].
    apply Bool.andb_true_iff in Ho. destruct Ho as [Ho Hs].
    apply Bool.andb_true_iff in Ho. destruct Ho as [Hr Hl].
    unfold add_operation. destruct acc as [tm done]. destruct (op_name o); [exact I|].
    destruct (mem_str _ go_keywords); [exact I|].
    apply np_bind; [apply pp_np; [exact I | exact (pos_of_in_range _ _ _ Hl)]|]. intros D _.
    apply np_bind; [apply convert_arguments_np, Hv|]. intros [inp tm1] _.
    apply np_bind; [apply convert_operation_np; assumption|]. intros [resp tm2] _. exact I.
  Qed.

  Theorem generate_types_np ops : forallb (op_okb2 sch frags srcs) ops = true -> np_res (generate_types sch cfg frags srcs ops).
  Proof.
    intro Ho. unfold generate_types. apply np_mfold. intros acc o Hin. apply add_operation_np.
    rewrite forallb_forall in Ho. exact (Ho o Hin).
  Qed.
End Full.

(* For every schema, configuration, fragment table, source text and operation list of the shape
   the validator and the preprocessing guarantee, with every position inside its source, the
   converter never panics. *)
Theorem converter_never_panics sch cfg frags srcs ops :
  schema_okb sch = true -> frags_okb2 sch frags srcs = true -> forallb (op_okb2 sch frags srcs) ops = true ->
  forall s, generate_types sch cfg frags srcs ops <> Panic s.
Proof.
  intros H1 H2 H3 s E. pose proof (generate_types_np sch cfg frags srcs H1 H2 ops H3) as H. rewrite E in H. exact H.
Qed.

Example w_program_is_wf2 :
  schema_okb w_schema = true /\ frags_okb2 w_schema [w_frag] w_srcs = true
  /\ forallb (op_okb2 w_schema [w_frag] w_srcs) [w_op] = true.
Proof. repeat split; vm_compute; reflexivity. Qed.

(* ---- the strong form implies every hypothesis of the partial theorem (Proofs/ConvertNoPanic.v):
   names resolve and positions are in range.  Corr/Convcorr.v evaluates the strong form only. ---- *)
Lemma forallb_Forall_imp {A} (p q : A -> bool) (l : list A) :
  Forall (fun x => p x = true -> q x = true) l -> forallb p l = true -> forallb q l = true.
Proof.
  induction 1 as [|x r Hx Hr IH]; cbn [forallb]; [reflexivity|]. intro H.
  apply Bool.andb_true_iff in H. destruct H as [H1 H2]. rewrite (Hx H1), (IH H2). reflexivity.
Qed.

Lemma forallb_conj_imp {A} (p q r : A -> bool) (l : list A) :
  Forall (fun x => p x = true -> q x = true /\ r x = true) l ->
  forallb p l = true -> forallb q l = true /\ forallb r l = true.
Proof.
  induction 1 as [|x t Hx Ht IH]; cbn [forallb]; [split; reflexivity|]. intro H.
  apply Bool.andb_true_iff in H. destruct H as [H1 H2]. destruct (Hx H1) as [Hq Hr]. destruct (IH H2) as [Hq2 Hr2].
  rewrite Hq, Hr, Hq2, Hr2. split; reflexivity.
Qed.

Section StrongWeak.
  Variable sch : schema.
  Variable frags : list fragment.
  Variable srcs : list (list lkind).

  Lemma sel_okb2_weak src s :
    sel_okb2 sch frags srcs src s = true -> sel_okb sch frags s = true /\ sel_posb srcs src s = true.
  Proof.
    induction s as [a n t p e sub l IH|c e sub l IH|n e l] using sel_ind'; cbn [sel_okb2 sel_okb sel_posb]; intro H.
    - apply Bool.andb_true_iff in H. destruct H as [H Hsub].
      apply Bool.andb_true_iff in H. destruct H as [H Hl].
      apply Bool.andb_true_iff in H. destruct H as [H _].
      apply Bool.andb_true_iff in H. destruct H as [_ Hty].
      rewrite Hty, Hl. cbn [andb]. exact (forallb_conj_imp _ _ _ _ IH Hsub).
    - apply Bool.andb_true_iff in H. destruct H as [H Hsub].
      apply Bool.andb_true_iff in H. destruct H as [H Hl].
      apply Bool.andb_true_iff in H. destruct H as [Hc _].
      rewrite Hc, Hl. cbn [andb]. exact (forallb_conj_imp _ _ _ _ IH Hsub).
    - apply Bool.andb_true_iff in H. exact H.
  Qed.

  Lemma sels_okb2_weak src sels :
    sels_okb2 sch frags srcs src sels = true ->
    forallb (sel_okb sch frags) sels = true /\ forallb (sel_posb srcs src) sels = true.
  Proof.
    intro H. unfold sels_okb2 in H. apply Bool.andb_true_iff in H. destruct H as [_ H].
    assert (F : Forall (fun x => sel_okb2 sch frags srcs src x = true -> sel_okb sch frags x = true /\ sel_posb srcs src x = true) sels)
      by (apply Forall_forall; intros x _; apply sel_okb2_weak).
    exact (forallb_conj_imp _ _ _ _ F H).
  Qed.

  Lemma frag_okb2_weak fr :
    frag_okb2 sch frags srcs fr = true -> frag_okb sch frags fr = true /\ frag_posb srcs fr = true.
  Proof.
    intro H. unfold frag_okb2 in H. apply Bool.andb_true_iff in H. destruct H as [H Hs].
    apply Bool.andb_true_iff in H. destruct H as [Hon Hl].
    destruct (sels_okb2_weak _ _ Hs) as [Hw Hp]. unfold frag_okb, frag_posb. rewrite Hon, Hl, Hw, Hp. split; reflexivity.
  Qed.

  Lemma op_okb2_weak o :
    op_okb2 sch frags srcs o = true -> op_okb sch frags o = true /\ op_posb srcs o = true.
  Proof.
    intro H. unfold op_okb2 in H. apply Bool.andb_true_iff in H. destruct H as [H Hv].
    apply Bool.andb_true_iff in H. destruct H as [H Hs].
    apply Bool.andb_true_iff in H. destruct H as [Hr Hl].
    destruct (sels_okb2_weak _ _ Hs) as [Hw Hp]. unfold op_okb, op_posb. rewrite Hr, Hl, Hw, Hp. cbn [andb].
    split; (eapply forallb_Forall_imp; [|exact Hv]); apply Forall_forall; intros v _ Hvv;
      apply Bool.andb_true_iff in Hvv; destruct Hvv as [Hty Hlv]; assumption.
  Qed.

  Theorem strong_wf_implies_weak ops :
    frags_okb2 sch frags srcs = true -> forallb (op_okb2 sch frags srcs) ops = true ->
    frags_okb sch frags = true /\ forallb (op_okb sch frags) ops = true
    /\ frags_posb srcs frags = true /\ forallb (op_posb srcs) ops = true.
  Proof.
    intros Hf Ho. unfold frags_okb2 in Hf. unfold frags_okb, frags_posb.
    assert (Ff : Forall (fun x => frag_okb2 sch frags srcs x = true -> frag_okb sch frags x = true /\ frag_posb srcs x = true) frags)
      by (apply Forall_forall; intros x _; apply frag_okb2_weak).
    assert (Fo : Forall (fun x => op_okb2 sch frags srcs x = true -> op_okb sch frags x = true /\ op_posb srcs x = true) ops)
      by (apply Forall_forall; intros x _; apply op_okb2_weak).
    destruct (forallb_conj_imp _ _ _ _ Ff Hf) as [A1 A2]. destruct (forallb_conj_imp _ _ _ _ Fo Ho) as [B1 B2].
    repeat split; assumption.
  Qed.
End StrongWeak.
