From Verif Require Import Base.Str Gen.Consts Gen.Casing Gen.Gql Gen.Doc Gen.Directive Gen.Convert Proofs.DocProofs.

(* ================= selectionsMatch compares exactly the tree of names ================= *)
Inductive shape :=
| ShF (alias name : str) (sub : list shape)
| ShI (cond : str) (sub : list shape)
| ShS (name : str).

Fixpoint shape_of (s : sel) : shape :=
  match s with
  | SField a n _ _ _ sub _ => ShF a n (map shape_of sub)
  | SInline c _ sub _ => ShI c (map shape_of sub)
  | SSpread n _ _ => ShS n
  end.

Lemma sel_match_unfold x y :
  sel_match x y =
  match x, y with
  | SField a n _ _ _ sub _, SField a' n' _ _ _ sub' _ => str_eqb n n' && str_eqb a a' && sels_match sub sub'
  | SInline c _ sub _, SInline c' _ sub' _ => str_eqb c c' && sels_match sub sub'
  | SSpread n _ _, SSpread n' _ _ => str_eqb n n'
  | _, _ => false
  end.
Proof.
  destruct x as [a n t p e sub l|c e sub l|n e l], y as [a' n' t' p' e' sub' l'|c' e' sub' l'|n' e' l']; reflexivity.
Qed.

Lemma sel_match_iff x : forall y, sel_match x y = true <-> shape_of x = shape_of y.
Proof.
  induction x as [a n t p e sub l IH|c e sub l IH|n e l] using sel_ind'; intros y; rewrite sel_match_unfold.
  - destruct y as [a' n' t' p' e' sub' l'|c' e' sub' l'|n' e' l']; cbn [shape_of]; try (split; [discriminate | discriminate]).
    rewrite !Bool.andb_true_iff, !str_eqb_eq.
    assert (sels_match sub sub' = true <-> map shape_of sub = map shape_of sub') as Hs.
    { revert sub'. induction IH as [|s r Ps Pr IHr]; intros [|s' r']; cbn; try (split; [discriminate | discriminate]); [tauto|].
      rewrite Bool.andb_true_iff, Ps, IHr. split; [intros [-> ->]; reflexivity | intro H; injection H; auto]. }
    rewrite Hs. split; [intros [[-> ->] ->]; reflexivity | intro H; injection H; auto].
  - destruct y as [a' n' t' p' e' sub' l'|c' e' sub' l'|n' e' l']; cbn [shape_of]; try (split; [discriminate | discriminate]).
    rewrite Bool.andb_true_iff, str_eqb_eq.
    assert (sels_match sub sub' = true <-> map shape_of sub = map shape_of sub') as Hs.
    { revert sub'. induction IH as [|s r Ps Pr IHr]; intros [|s' r']; cbn; try (split; [discriminate | discriminate]); [tauto|].
      rewrite Bool.andb_true_iff, Ps, IHr. split; [intros [-> ->]; reflexivity | intro H; injection H; auto]. }
    rewrite Hs. split; [intros [-> ->]; reflexivity | intro H; injection H; auto].
  - destruct y as [a' n' t' p' e' sub' l'|c' e' sub' l'|n' e' l']; cbn [shape_of]; try (split; [discriminate | discriminate]).
    rewrite str_eqb_eq. split; [intros ->; reflexivity | intro H; injection H; auto].
Qed.

(* two selection sets "match" iff they have the same tree of (field name, alias, type condition,
   spread name): different selected fields are always detected; arguments and directives are not compared *)
Theorem sels_match_structural a : forall c, sels_match a c = true <-> map shape_of a = map shape_of c.
Proof.
  induction a as [|x r IH]; intros [|y r']; cbn; try (split; [discriminate | discriminate]); [tauto|].
  rewrite Bool.andb_true_iff, sel_match_iff, IH. split; [intros [-> ->]; reflexivity | intro H; injection H; auto].
Qed.

(* ================= getType / addType never rebind a name ================= *)
Lemma get_type_ok tm name gql sels t :
  get_type tm name gql sels = Ok (Some t) ->
  exists d, assoc name tm = Some d /\ decl_gql d = gql /\ sels_match sels (decl_sel d) = true /\ t = decl_type name d.
Proof.
  unfold get_type. destruct (assoc name tm) as [d|]; [|discriminate].
  destruct (str_eqb (decl_gql d) gql) eqn:E; cbn; [|discriminate].
  destruct (sels_match sels (decl_sel d)) eqn:M; [|discriminate].
  intro H. injection H as <-. apply str_eqb_eq in E. exists d. auto.
Qed.

Lemma get_type_none tm name gql sels : get_type tm name gql sels = Ok None -> assoc name tm = None.
Proof.
  unfold get_type. destruct (assoc name tm) as [d|]; [|reflexivity].
  destruct (negb (str_eqb (decl_gql d) gql)); [discriminate|]. destruct (sels_match _ _); discriminate.
Qed.

(* addType: every existing binding is kept as it is; the name ends up bound to a declaration
   of the same GraphQL type whose selection set has the same tree of names; a declaration for
   a different GraphQL type or different selected fields under a taken name is a conflict *)
Theorem add_type_sound tm name d t tm' :
  add_type tm name d = Ok (t, tm') ->
  (forall n x, assoc n tm = Some x -> assoc n tm' = Some x)
  /\ exists d', assoc name tm' = Some d' /\ decl_gql d' = decl_gql d
                /\ map shape_of (decl_sel d) = map shape_of (decl_sel d') /\ t = decl_type name d'.
Proof.
  unfold add_type. destruct (get_type tm name (decl_gql d) (decl_sel d)) as [[t0|]| | |] eqn:G; cbn [bind]; try discriminate.
  - intro H. injection H as <- <-. split; [auto|].
    apply get_type_ok in G as (d' & A & Gq & M & ->). exists d'. repeat split; auto.
    apply sels_match_structural. exact M.
  - intro H. injection H as <- <-. apply get_type_none in G. split.
    + intros n x A. cbn. destruct (str_eqb n name) eqn:E; [|exact A].
      apply str_eqb_eq in E. subst. congruence.
    + exists d. cbn. rewrite str_eqb_refl. repeat split.
Qed.

Theorem add_type_conflict tm name d d0 :
  assoc name tm = Some d0 ->
  (decl_gql d0 <> decl_gql d \/ map shape_of (decl_sel d) <> map shape_of (decl_sel d0)) ->
  add_type tm name d = Err ECONFLICT.
Proof.
  intros A H. unfold add_type, get_type. rewrite A.
  destruct (str_eqb (decl_gql d0) (decl_gql d)) eqn:E; cbn; [|reflexivity].
  destruct (sels_match (decl_sel d) (decl_sel d0)) eqn:M; [|reflexivity].
  exfalso. apply str_eqb_eq in E. apply sels_match_structural in M. destruct H; contradiction.
Qed.

(* ================= a typename option equal to a fragment's name (defect D4, repaired) ================= *)
(* query Q {
     # @genqlient(typename: "F")
     a: u { id }
     b: u { ...F }
   }
   fragment F on U { name }                                                         *)
Definition w_schema : schema :=
  [ {| td_name := b "Query"; td_kind := KObject;
       td_fields := [{| fd_name := b "u"; fd_type := TNamed (b "U") true; fd_has_default := false |}];
       td_ifaces := []; td_members := []; td_values := [] |};
    {| td_name := b "U"; td_kind := KObject;
       td_fields := [{| fd_name := b "id"; fd_type := TNamed (b "ID") true; fd_has_default := false |};
                     {| fd_name := b "name"; fd_type := TNamed (b "String") true; fd_has_default := false |}];
       td_ifaces := []; td_members := []; td_values := [] |};
    {| td_name := b "ID"; td_kind := KScalar; td_fields := []; td_ifaces := []; td_members := []; td_values := [] |};
    {| td_name := b "String"; td_kind := KScalar; td_fields := []; td_ifaces := []; td_members := []; td_values := [] |} ].
Definition w_cfg : config :=
  {| cfg_casing := {| cc_default := None; cc_all_enums := None; cc_enums := [] |}; cfg_optional := 0;
     cfg_generic_type := []; cfg_struct_refs := false; cfg_bindings := [] |}.
Definition w_frag : fragment :=
  {| fr_name := b "F"; fr_on := b "U"; fr_extra := 0;
     fr_sel := [SField (b "name") (b "name") (TNamed (b "String") true) (b "U") 0 [] 11]; fr_line := 10; fr_src := 0 |}.
Definition w_op : operation :=
  {| op_kind := 0; op_name := b "Q"; op_extra := 0;
     op_sel := [SField (b "a") (b "u") (TNamed (b "U") true) (b "Query") 0
                  [SField (b "id") (b "id") (TNamed (b "ID") true) (b "U") 0 [] 4] 3;
                SField (b "b") (b "u") (TNamed (b "U") true) (b "Query") 0 [SSpread (b "F") 0 7] 6];
     op_line := 1; op_src := 0; op_vars := [] |}.
Definition w_srcs : list (list lkind) :=
  [[LOther; LDir [(b "typename", VStr (b "F"))]; LOther; LOther; LOther; LOther; LOther; LOther; LOther; LOther; LOther; LOther]].

Definition w_result := generate_types w_schema w_cfg [w_frag] w_srcs [w_op].

(* before the repair the spread of F silently embedded the struct generated for the field `a`
   (with the field Id) and the fragment's own field `name` was lost; now it is a conflict *)
Theorem typename_equal_to_fragment_name_is_a_conflict : w_result = Err ECONFLICT.
Proof. vm_compute. reflexivity. Qed.

(* addFragmentType never replaces an existing declaration *)
Theorem add_fragment_type_sound tm name d tm' :
  add_fragment_type tm name d = Ok tm' ->
  assoc name tm = None /\ (forall n x, assoc n tm = Some x -> assoc n tm' = Some x) /\ assoc name tm' = Some d.
Proof.
  unfold add_fragment_type. destruct (assoc name tm) as [x|] eqn:A; [discriminate|].
  intro H. injection H as <-. repeat split.
  - intros n x Hn. cbn. destruct (str_eqb n name) eqn:E; [|exact Hn]. apply str_eqb_eq in E. subst. congruence.
  - cbn. rewrite str_eqb_refl. reflexivity.
Qed.

(* ================= totality of the directive machinery ================= *)
Definition no_crash {A} (r : res A) : Prop := match r with Ok _ | Err _ => True | Panic _ | OutOfFuel => False end.

Lemma set_bool_total c v : no_crash (set_bool c v).
Proof. destruct c; [exact I|]. destruct v; exact I. Qed.
Lemma set_string_total c v : no_crash (set_string c v).
Proof. destruct c; [|exact I]. destruct v; exact I. Qed.

Lemma bind_total {A B} (r : res A) (f : A -> res B) :
  no_crash r -> (forall a, no_crash (f a)) -> no_crash (bind r f).
Proof. destruct r; cbn; auto. Qed.

Lemma find_for_total args : forall cur, no_crash (find_for args cur).
Proof.
  induction args as [|[n v] r IH]; intro cur; cbn [find_for]; [exact I|].
  destruct (str_eqb n s_for); [|apply IH].
  destruct cur; [|exact I]. apply bind_total; [apply set_string_total | intro; apply IH].
Qed.

Lemma add_args_total args : forall d, no_crash (add_args args d).
Proof.
  induction args as [|[n v] r IH]; intro d; cbn [add_args]; [exact I|].
  repeat match goal with
         | |- no_crash (if ?c then _ else _) => destruct c
         | |- no_crash (bind _ _) => apply bind_total; [first [apply set_bool_total | apply set_string_total] | intro; apply IH]
         end; try apply IH; exact I.
Qed.

(* add, the comment scan and the merge never crash or loop, whatever the lines contain *)
Theorem add_total D args : no_crash (add D args).
Proof.
  unfold add. apply bind_total; [apply find_for_total|]. intros f. destruct f as [|c r].
  - apply bind_total; [apply add_args_total | intro; exact I].
  - destruct (split_dot (c :: r)) as [|tn [|fn [|x y]]]; try exact I.
    apply bind_total; [apply add_args_total | intro; exact I].
Qed.

Theorem scan_total ls : forall D h, no_crash (scan ls D h).
Proof.
  induction ls as [|l r IH]; intros D h; cbn [scan]; [exact I|].
  destruct l; try exact I; [|apply IH].
  apply bind_total; [apply add_total | intro; apply IH].
Qed.

(* an inline fragment without a type condition (formerly a nil-pointer crash) is converted *)
Definition w_bare_op : operation :=
  {| op_kind := 0; op_name := b "Q"; op_extra := 0;
     op_sel := [SField (b "u") (b "u") (TNamed (b "U") true) (b "Query") 0
                  [SInline [] 0 [SField (b "id") (b "id") (TNamed (b "ID") true) (b "U") 0 [] 4] 3] 2];
     op_line := 1; op_src := 0; op_vars := [] |}.
Theorem bare_inline_fragment_converts :
  exists r, generate_types w_schema w_cfg [] [[LOther; LOther; LOther; LOther; LOther]] [w_bare_op] = Ok r.
Proof. eexists. vm_compute. reflexivity. Qed.

(* ================= the line index of parsePrecedingComment ================= *)
(* query Q {
     a: u { id }
     b: u { id }
   }
   The parser counts four lines (it ends a line at CR, LF or CRLF).  parsePrecedingComment split
   the source at LF only: a file whose line ends are bare CRs is ONE line to it, and the lines
   above the field `b` (line 3) are sourceLines[1], sourceLines[0]: index 1 is out of range. *)
Definition w_cr_op : operation :=
  {| op_kind := 0; op_name := b "Q"; op_extra := 0;
     op_sel := [SField (b "a") (b "u") (TNamed (b "U") true) (b "Query") 0
                  [SField (b "id") (b "id") (TNamed (b "ID") true) (b "U") 0 [] 2] 2;
                SField (b "b") (b "u") (TNamed (b "U") true) (b "Query") 0
                  [SField (b "id") (b "id") (TNamed (b "ID") true) (b "U") 0 [] 3] 3];
     op_line := 1; op_src := 0; op_vars := [] |}.
Definition w_cr_srcs : list (list lkind) := [[LOther]].
Definition w_lf_srcs : list (list lkind) := [[LOther; LOther; LOther; LOther]].

Theorem line_index_out_of_range_panics :
  generate_types w_schema w_cfg [] w_cr_srcs [w_cr_op] = Panic (b "index out of range: sourceLines").
Proof. vm_compute. reflexivity. Qed.

(* the same operation against the source split into its four lines is converted *)
Theorem line_index_in_range_converts :
  exists r, generate_types w_schema w_cfg [] w_lf_srcs [w_cr_op] = Ok r.
Proof. eexists. vm_compute. reflexivity. Qed.
