(* C02, the missing half: decoding SUCCEEDS on every JSON value of the right shape.

   [conforms tm t j]  (inductive, the specification): the JSON value j has the shape the generated
                      Go type t expects.  It asks for what the decoder REQUIRES and nothing more.
   [conformsb tm n t j] (boolean, fuel n): the executable checker, evaluated by the correspondence
                      check on every response the harness generates.

   Main results (no hypothesis on the type map is needed for the first three: a derivation of
   [conforms] is finite, so it carries its own termination argument):
     [decode_is_ok_conformsb]  is_ok (decode tm true n t j cur) = conformsb tm n t j     (same fuel, any cur)
     [conforms_decodes]        conforms tm t j -> decoding succeeds from some fuel on, for every start value
     [decodes_conforms]        decode tm true m t j cur = Ok v -> conforms tm t j
     [conforms_iff_decodes]    conformance is EXACTLY success
     [conforms_or_error]       under [same_json_acyclic tm]: from some fuel on the decoder returns
                               Ok if j conforms and Err if it does not (never Panic, never OutOfFuel)
     [conformsb_sound], [conformsb_complete], [conformsb_decides]

   Corners, each with a witness below:
     - duplicate keys: [obj_loop]/[first_pass] decode EVERY occurrence of a key, so every
       occurrence must conform although only the last one is kept ([dup_early_ill_shaped_errs]);
     - for a special (abstract / custom-unmarshaled) field every occurrence must have the
       nested-list shape of the field's slice depth (the raw capture), but only the LAST
       occurrence's leaves are decoded ([dup_special_only_last_leaves], [dup_special_shape_errs]);
     - a struct that embeds itself conforms to nothing but null: no finite derivation, and the
       decoder diverges ([loop_no_conforms]). *)
From Verif Require Import Base.Str Gen.Consts Gen.Gql Gen.Directive Gen.Convert Rt.JsonDecode Rt.Acyclic
  Proofs.JsonProofs Proofs.RoundTrip Proofs.FuelProofs Proofs.TermProofs Proofs.DecodeTerm Proofs.StructRoundTrip.
From Coq Require Import ZArith Lia PeanoNat.
Local Open Scope nat_scope.

(* ------------------------------------------------------------------------------------------ *)
(* the specification                                                                          *)
(* ------------------------------------------------------------------------------------------ *)

(* what [decode_scalar] does not reject for a kind: null always (it leaves the value alone, or
   empties a map), a scalar of the kind, an object for a map-kinded binding *)
Definition scalar_accepts (k : skind) (j : jval) : bool :=
  match j with
  | JNull => true
  | JObj _ => match k with KAny => true | _ => false end
  | _ => fits k j
  end.

(* the raw messages the first pass of a generated UnmarshalJSON holds at its end: every key that
   resolves to a special named field is captured at that field's slice depth (which fails unless
   the value is null / a list at each of these levels); a later capture for the same Go field
   replaces an earlier one *)
Fixpoint captures (all : list (str * (bool * gofield))) (kvs : list (str * jval)) (caps : list (str * raw))
  : option (list (str * raw)) :=
  match kvs with
  | [] => Some caps
  | (k, v) :: r =>
      match target all k with
      | Some (true, fl) =>
          match capture (sdepth (gf_type fl)) v with
          | Ok c => captures all r (put_kv caps (gf_name fl) c)
          | _ => None
          end
      | _ => captures all r caps
      end
  end.

Definition cap_of (caps : list (str * raw)) (name : str) : raw :=
  match assoc name caps with Some c => c | None => RAbsent end.

Inductive conforms (tm : typemap) : gotype -> jval -> Prop :=
(* scalar-like types: opaque bindings (not `[]..`/`*..`), builtin aliases, enums *)
| CF_scalar t j :
    scalar_type tm t = true -> scalar_accepts (scalar_kind tm t) j = true -> conforms tm t j
(* a binding that names a slice / pointer type behaves like the wrapper *)
| CF_opaque_slice r g m u rest j :
    ref_shape r = Some (true, rest) -> conforms tm (GSlice (GOpaque rest g m u)) j -> conforms tm (GOpaque r g m u) j
| CF_opaque_ptr r g m u rest j :
    ref_shape r = Some (false, rest) -> conforms tm (GPtr (GOpaque rest g m u)) j -> conforms tm (GOpaque r g m u) j
| CF_ptr_null e : conforms tm (GPtr e) JNull
| CF_ptr e j : conforms tm e j -> conforms tm (GPtr e) j
| CF_slice_null e : conforms tm (GSlice e) JNull
| CF_slice e l : (forall x, In x l -> conforms tm e x) -> conforms tm (GSlice e) (JArr l)
(* structs: null leaves the struct alone *)
| CF_struct_null n g fields s i :
    assoc n tm = Some (DStruct g fields s i) -> conforms tm (GStruct n) JNull
(* a struct decoded by encoding/json alone: EVERY key that resolves to a field (exact tag match,
   then ASCII case folding) carries a value of that field's type; other keys are unconstrained *)
| CF_struct_plain n g fields s i kvs :
    assoc n tm = Some (DStruct g fields s i) -> struct_needs_unmarshal fields = false ->
    (forall k v fl, In (k, v) kvs -> target (map (fun fl => (gf_json fl, fl)) fields) k = Some fl -> conforms tm (gf_type fl) v) ->
    conforms tm (GStruct n) (JObj kvs)
(* a struct with a generated UnmarshalJSON *)
| CF_struct_unm n g fields s i kvs caps :
    assoc n tm = Some (DStruct g fields s i) -> struct_needs_unmarshal fields = true ->
    (* ordinary fields, as above *)
    (forall k v fl, In (k, v) kvs -> target (all_of fields) k = Some (false, fl) -> conforms tm (gf_type fl) v) ->
    (* every occurrence of a special field's key is null / nested lists down to its slice depth *)
    captures (all_of fields) kvs [] = Some caps ->
    (* the SAME object conforms to every embedded struct type *)
    (forall fl, In fl fields -> gf_name fl = [] -> conforms tm (unwrap (gf_type fl)) (JObj kvs)) ->
    (* the leaves of what was captured last for a special named field conform to its leaf type *)
    (forall fl, In fl fields -> special fl = true -> gf_name fl <> [] ->
       raw_conforms tm (sdepth (gf_type fl)) (unwrap (gf_type fl)) (cap_of caps (gf_name fl))) ->
    conforms tm (GStruct n) (JObj kvs)
(* abstract values *)
| CF_iface_null i : conforms tm (GIface i) JNull
| CF_iface i g sh impls sel kvs tn impl :
    assoc i tm = Some (DIface g sh impls sel) ->
    scan_typename kvs [] = Ok tn -> tn <> [] ->      (* the last `__typename` key, a non-empty string *)
    find_impl tm impls tn = Some impl ->             (* the implementation whose GraphQL name it is *)
    conforms tm (GStruct impl) (JObj kvs) ->         (* the same object *)
    conforms tm (GIface i) (JObj kvs)

(* a raw capture at slice depth n whose leaves are of type leaf *)
with raw_conforms (tm : typemap) : nat -> gotype -> raw -> Prop :=
| RC_nolist k leaf c : (forall l, c <> RList l) -> raw_conforms tm (S k) leaf c      (* null / absent: `make([]T, 0)` *)
| RC_list k leaf l : (forall x, In x l -> raw_conforms tm k leaf x) -> raw_conforms tm (S k) leaf (RList l)
| RC_skip leaf c : (forall j, c = RLeaf j -> j = JNull) -> raw_conforms tm O leaf c  (* null / absent leaf: skipped *)
| RC_leaf_opaque r g m u j :                                                         (* the custom unmarshaler *)
    scalar_accepts (kind_of_ref r) j = true -> raw_conforms tm O (GOpaque r g m u) (RLeaf j)
| RC_leaf leaf j :
    (forall r g m u, leaf <> GOpaque r g m u) -> conforms tm leaf j -> raw_conforms tm O leaf (RLeaf j).

Scheme conforms_mut := Minimality for conforms Sort Prop
  with raw_conforms_mut := Minimality for raw_conforms Sort Prop.
Combined Scheme conforms_raw_ind from conforms_mut, raw_conforms_mut.

(* ------------------------------------------------------------------------------------------ *)
(* the executable checker: the decoder with the values erased, same fuel discipline           *)
(* ------------------------------------------------------------------------------------------ *)
Section Check.
  Variable tm : typemap.

  Section CLoops.
    Variable chk : gotype -> jval -> bool.
    Variable chkfill : nat -> gotype -> raw -> bool.

    Definition obj_ok (fields : list (str * gofield)) (kvs : list (str * jval)) : bool :=
      forallb (fun kv => match target fields (fst kv) with
                         | Some fl => chk (gf_type fl) (snd kv)
                         | None => true
                         end) kvs.

    Definition first_ok (all : list (str * (bool * gofield))) (kvs : list (str * jval)) : bool :=
      forallb (fun kv => match target all (fst kv) with
                         | Some (false, fl) => chk (gf_type fl) (snd kv)
                         | _ => true
                         end) kvs.

    Definition second_ok (j : jval) (caps : list (str * raw)) (fls : list gofield) : bool :=
      forallb (fun fl => if special fl
                         then match gf_name fl with
                              | [] => chk (unwrap (gf_type fl)) j
                              | name => chkfill (sdepth (gf_type fl)) (unwrap (gf_type fl)) (cap_of caps name)
                              end
                         else true) fls.
  End CLoops.

  Fixpoint conformsb (fuel : nat) (t : gotype) (j : jval) {struct fuel} : bool :=
    match fuel with
    | O => false
    | S f =>
        match t with
        | GOpaque r g m u =>
            match ref_shape r with
            | Some (true, rest) => conformsb f (GSlice (GOpaque rest g m u)) j
            | Some (false, rest) => conformsb f (GPtr (GOpaque rest g m u)) j
            | None => scalar_accepts (scalar_kind tm t) j
            end
        | GAlias _ | GEnum _ => scalar_accepts (scalar_kind tm t) j
        | GGeneric _ _ => false
        | GPtr e => match j with JNull => true | _ => conformsb f e j end
        | GSlice e =>
            match j with
            | JNull => true
            | JArr l => forallb (fun x => conformsb f e x) l
            | _ => false
            end
        | GIface n => iface_ok f n j
        | GStruct n =>
            match assoc n tm with
            | Some (DStruct _ fields _ _) =>
                if struct_needs_unmarshal fields then unm_ok f fields j
                else plain_ok f (map (fun fl => (gf_json fl, fl)) fields) j
            | _ => false
            end
        end
    end

  with plain_ok (fuel : nat) (fields : list (str * gofield)) (j : jval) {struct fuel} : bool :=
    match fuel with
    | O => false
    | S f =>
        match j with
        | JNull => true
        | JObj kvs => obj_ok (fun t x => conformsb f t x) fields kvs
        | _ => false
        end
    end

  with unm_ok (fuel : nat) (fields : list gofield) (j : jval) {struct fuel} : bool :=
    match fuel with
    | O => false
    | S f =>
        match j with
        | JNull => true
        | JObj kvs =>
            match captures (all_of fields) kvs [] with
            | Some caps =>
                first_ok (fun t x => conformsb f t x) (all_of fields) kvs
                && second_ok (fun t x => conformsb f t x) (fun k l c => fill_ok f k l c) j caps fields
            | None => false
            end
        | _ => false
        end
    end

  with fill_ok (fuel : nat) (n : nat) (leaf : gotype) (c : raw) {struct fuel} : bool :=
    match fuel with
    | O => false
    | S f =>
        match n with
        | S k => match c with RList l => forallb (fun x => fill_ok f k leaf x) l | _ => true end
        | O =>
            match c with
            | RLeaf JNull | RAbsent | RNilList | RList _ => true
            | RLeaf j =>
                match leaf with
                | GIface i => iface_ok f i j
                | GOpaque r _ _ _ => scalar_accepts (kind_of_ref r) j
                | other => conformsb f other j
                end
            end
        end
    end

  with iface_ok (fuel : nat) (i : str) (j : jval) {struct fuel} : bool :=
    match fuel with
    | O => false
    | S f =>
        match j with
        | JNull => true
        | JObj kvs =>
            match scan_typename kvs [] with
            | Ok tn =>
                match assoc i tm with
                | Some (DIface _ _ impls _) =>
                    match tn with
                    | [] => false
                    | _ => match find_impl tm impls tn with
                           | Some impl => conformsb f (GStruct impl) j
                           | None => false
                           end
                    end
                | _ => false
                end
            | _ => false
            end
        | _ => false
        end
    end.
End Check.

(* unfolding lemmas (the mutual fixpoint is never unfolded by [cbn] in the proofs) *)
Lemma conformsb_S tm f t j : conformsb tm (S f) t j =
  match t with
  | GOpaque r g m u =>
      match ref_shape r with
      | Some (true, rest) => conformsb tm f (GSlice (GOpaque rest g m u)) j
      | Some (false, rest) => conformsb tm f (GPtr (GOpaque rest g m u)) j
      | None => scalar_accepts (scalar_kind tm t) j
      end
  | GAlias _ | GEnum _ => scalar_accepts (scalar_kind tm t) j
  | GGeneric _ _ => false
  | GPtr e => match j with JNull => true | _ => conformsb tm f e j end
  | GSlice e =>
      match j with
      | JNull => true
      | JArr l => forallb (fun x => conformsb tm f e x) l
      | _ => false
      end
  | GIface n => iface_ok tm f n j
  | GStruct n =>
      match assoc n tm with
      | Some (DStruct _ fields _ _) =>
          if struct_needs_unmarshal fields then unm_ok tm f fields j
          else plain_ok tm f (map (fun fl => (gf_json fl, fl)) fields) j
      | _ => false
      end
  end.
Proof. reflexivity. Qed.

Lemma plain_ok_S tm f fields j : plain_ok tm (S f) fields j =
  match j with
  | JNull => true
  | JObj kvs => obj_ok (fun t x => conformsb tm f t x) fields kvs
  | _ => false
  end.
Proof. reflexivity. Qed.

Lemma unm_ok_S tm f fields j : unm_ok tm (S f) fields j =
  match j with
  | JNull => true
  | JObj kvs =>
      match captures (all_of fields) kvs [] with
      | Some caps =>
          first_ok (fun t x => conformsb tm f t x) (all_of fields) kvs
          && second_ok (fun t x => conformsb tm f t x) (fun k l c => fill_ok tm f k l c) j caps fields
      | None => false
      end
  | _ => false
  end.
Proof. reflexivity. Qed.

Lemma fill_ok_S tm f n leaf c : fill_ok tm (S f) n leaf c =
  match n with
  | S k => match c with RList l => forallb (fun x => fill_ok tm f k leaf x) l | _ => true end
  | O =>
      match c with
      | RLeaf JNull | RAbsent | RNilList | RList _ => true
      | RLeaf j =>
          match leaf with
          | GIface i => iface_ok tm f i j
          | GOpaque r _ _ _ => scalar_accepts (kind_of_ref r) j
          | other => conformsb tm f other j
          end
      end
  end.
Proof. reflexivity. Qed.

Lemma iface_ok_S tm f i j : iface_ok tm (S f) i j =
  match j with
  | JNull => true
  | JObj kvs =>
      match scan_typename kvs [] with
      | Ok tn =>
          match assoc i tm with
          | Some (DIface _ _ impls _) =>
              match tn with
              | [] => false
              | _ => match find_impl tm impls tn with
                     | Some impl => conformsb tm f (GStruct impl) j
                     | None => false
                     end
              end
          | _ => false
          end
      | _ => false
      end
  | _ => false
  end.
Proof. reflexivity. Qed.

(* ------------------------------------------------------------------------------------------ *)
(* success of the decoder = the checker, at the same fuel, for every start value              *)
(* ------------------------------------------------------------------------------------------ *)
Definition is_ok {A} (r : res A) : bool := match r with Ok _ => true | _ => false end.

Lemma is_ok_true {A} (r : res A) : is_ok r = true <-> exists v, r = Ok v.
Proof.
  destruct r as [a|e|s|]; cbn [is_ok]; split; intro H.
  - exists a. reflexivity.
  - reflexivity.
  - discriminate H.
  - destruct H as [x Hx]. discriminate Hx.
  - discriminate H.
  - destruct H as [x Hx]. discriminate Hx.
  - discriminate H.
  - destruct H as [x Hx]. discriminate Hx.
Qed.

Lemma is_ok_bind {A B} (r : res A) (k : A -> res B) :
  is_ok (bind r k) = match r with Ok a => is_ok (k a) | _ => false end.
Proof. destruct r; reflexivity. Qed.

Lemma is_ok_at_field {A} k (r : res A) : is_ok (at_field k r) = is_ok r.
Proof. destruct r; reflexivity. Qed.

Lemma scalar_accepts_spec k j cur : is_ok (decode_scalar k j cur) = scalar_accepts k j.
Proof.
  destruct j as [|v|id integral|s|l|l]; destruct k; cbn [decode_scalar scalar_accepts fits is_ok]; try reflexivity;
    try (destruct integral; reflexivity).
  destruct cur as [| j0 | | | | | | |]; try reflexivity. destruct j0; reflexivity.
Qed.

Lemma is_ok_map_res {A B} (f : A -> res B) (c : A -> bool) l :
  (forall x, In x l -> is_ok (f x) = c x) -> is_ok (map_res f l) = forallb c l.
Proof.
  induction l as [|x r IH]; intro H; [reflexivity|]. cbn [map_res forallb].
  rewrite is_ok_bind. rewrite <- (H x (or_introl eq_refl)).
  destruct (f x) as [a| | |]; cbn [is_ok andb]; try reflexivity.
  rewrite is_ok_bind. rewrite <- IH by (intros y Hy; apply H; right; exact Hy).
  destruct (map_res f r); reflexivity.
Qed.

Lemma capture_total n : forall j, (exists c, capture n j = Ok c) \/ (exists e, capture n j = Err e).
Proof.
  intro j. pose proof (capture_defined n j) as Hd. pose proof (np_capture n j) as Hp.
  destruct (capture n j) as [c|e|s|]; [left; exists c; reflexivity | right; exists e; reflexivity | destruct Hp | exfalso; apply Hd; reflexivity].
Qed.

Section OkLoops.
  Variable dec : gotype -> jval -> gval -> res gval.
  Variable filler : nat -> bool -> gotype -> raw -> gval -> res gval.
  Variable chk : gotype -> jval -> bool.
  Variable chkfill : nat -> gotype -> raw -> bool.
  Hypothesis Hdec : forall t j cur, is_ok (dec t j cur) = chk t j.
  Hypothesis Hfill : forall n p l c cur, is_ok (filler n p l c cur) = chkfill n l c.

  Lemma is_ok_obj_loop fields kvs : forall acc, is_ok (obj_loop dec fields kvs acc) = obj_ok chk fields kvs.
  Proof.
    induction kvs as [|[k v] r IH]; intro acc; [reflexivity|].
    cbn [obj_loop]. unfold obj_ok in *. cbn [forallb fst snd]. unfold target.
    destruct (find_key fields k) as [i|]; [|exact (IH acc)].
    destruct (nth_error fields i) as [[s fl]|]; [|exact (IH acc)].
    rewrite is_ok_bind.
    pose proof (Hdec (gf_type fl) v (get_field acc (field_key fl) (zero_of (gf_type fl)))) as Hd.
    rewrite <- (is_ok_at_field (field_key fl)) in Hd. rewrite <- Hd.
    destruct (at_field _ _) as [x| | |]; cbn [is_ok andb]; try reflexivity. apply IH.
  Qed.

  Lemma first_pass_captures all kvs : forall acc caps acc' caps',
    first_pass dec all kvs acc caps = Ok (acc', caps') -> captures all kvs caps = Some caps'.
  Proof.
    induction kvs as [|[k v] r IH]; intros acc caps acc' caps' H; cbn [first_pass captures] in *.
    - injection H as _ <-. reflexivity.
    - unfold target. destruct (find_key all k) as [i|]; [|exact (IH _ _ _ _ H)].
      destruct (nth_error all i) as [[s [[|] fl]]|]; [| |exact (IH _ _ _ _ H)].
      + apply bind_ok in H. destruct H as [c [Hc H]]. rewrite Hc. exact (IH _ _ _ _ H).
      + apply bind_ok in H. destruct H as [x [_ H]]. exact (IH _ _ _ _ H).
  Qed.

  Lemma is_ok_first_pass all kvs : forall acc caps,
    is_ok (first_pass dec all kvs acc caps)
    = match captures all kvs caps with Some _ => first_ok chk all kvs | None => false end.
  Proof.
    induction kvs as [|[k v] r IH]; intros acc caps; [reflexivity|].
    cbn [first_pass captures]. unfold first_ok in *. cbn [forallb fst snd]. unfold target.
    destruct (find_key all k) as [i|]; [|exact (IH acc caps)].
    destruct (nth_error all i) as [[s [[|] fl]]|]; [| |exact (IH acc caps)].
    - rewrite is_ok_bind. destruct (capture_total (sdepth (gf_type fl)) v) as [[c Hc]|[e He]].
      + rewrite Hc. cbn [andb]. apply IH.
      + rewrite He. reflexivity.
    - rewrite is_ok_bind.
      pose proof (Hdec (gf_type fl) v (get_field acc (field_key fl) (zero_of (gf_type fl)))) as Hd.
      rewrite <- (is_ok_at_field (field_key fl)) in Hd. rewrite <- Hd.
      destruct (at_field _ _) as [x| | |]; cbn [is_ok andb]; try (destruct (captures all r caps); reflexivity).
      apply IH.
  Qed.

  Lemma is_ok_second_pass j caps fls : forall acc,
    is_ok (second_pass dec filler j caps fls acc) = second_ok chk chkfill j caps fls.
  Proof.
    induction fls as [|fl r IH]; intro acc; [reflexivity|].
    cbn [second_pass]. unfold second_ok in *. cbn [forallb].
    destruct (special fl); cbn [negb]; [|exact (IH acc)].
    destruct (gf_name fl) as [|ch nm].
    - rewrite is_ok_bind. rewrite <- (Hdec (unwrap (gf_type fl)) j (get_field acc (field_key fl) (zero_of (unwrap (gf_type fl))))).
      destruct (dec _ _ _) as [x| | |]; cbn [is_ok andb]; try reflexivity. apply IH.
    - rewrite is_ok_bind. unfold cap_of.
      pose proof (Hfill (sdepth (gf_type fl)) (ispointer (gf_type fl)) (unwrap (gf_type fl))
                    (match assoc (ch :: nm) caps with Some c => c | None => RAbsent end)
                    (get_field acc (ch :: nm) (zero_of (gf_type fl)))) as Hf.
      rewrite <- (is_ok_at_field (ch :: nm)) in Hf. rewrite <- Hf.
      destruct (at_field _ _) as [x| | |]; cbn [is_ok andb]; try reflexivity. apply IH.
  Qed.
End OkLoops.

Section Main.
  Variable tm : typemap.

  Theorem decode_is_ok_all : forall n,
    (forall t j cur, is_ok (decode tm true n t j cur) = conformsb tm n t j)
    /\ (forall nm fields j cur, is_ok (plain_struct tm true n nm fields j cur) = plain_ok tm n fields j)
    /\ (forall nm fields j cur, is_ok (unmarshal_struct tm true n nm fields j cur) = unm_ok tm n fields j)
    /\ (forall k p leaf c cur, is_ok (fill tm true n k p leaf c cur) = fill_ok tm n k leaf c)
    /\ (forall i j cur, is_ok (unmarshal_iface tm true n i j cur) = iface_ok tm n i j).
  Proof.
    induction n as [|f (IHd & IHp & IHu & IHf & IHi)].
    - repeat split; intros; reflexivity.
    - split; [|split; [|split; [|split]]].
      + (* decode *)
        intros t j cur. rewrite decode_S, conformsb_S.
        destruct t as [r g m u|n|n|n|n|e|e|r e].
        * destruct (ref_shape r) as [[[] rest]|]; [apply IHd | apply IHd | apply scalar_accepts_spec].
        * apply scalar_accepts_spec.
        * apply scalar_accepts_spec.
        * destruct (assoc n tm) as [[g fields sel inp| | |]|]; try reflexivity.
          destruct (struct_needs_unmarshal fields); [apply IHu | apply IHp].
        * apply IHi.
        * destruct j; try reflexivity.
          rewrite is_ok_bind. rewrite <- (is_ok_map_res (fun x => decode tm true f e x (zero_of e)) (fun x => conformsb tm f e x) l)
            by (intros x _; apply IHd).
          destruct (map_res _ l); reflexivity.
        * destruct j; try reflexivity;
            (rewrite is_ok_bind; rewrite <- (IHd e _ (match cur with VPtr x => x | _ => zero_of e end));
             destruct (decode tm true f e _ _); reflexivity).
        * reflexivity.
      + (* plain_struct *)
        intros nm fields j cur. rewrite plain_struct_S, plain_ok_S. cbv zeta. destruct j; try reflexivity.
        rewrite is_ok_bind.
        rewrite <- (is_ok_obj_loop (fun t j c => decode tm true f t j c) (fun t x => conformsb tm f t x) IHd fields l
                      (match cur with VStruct _ fs => fs | _ => [] end)).
        destruct (obj_loop _ _ _ _); reflexivity.
      + (* unmarshal_struct *)
        intros nm fields j cur. rewrite unmarshal_struct_S, unm_ok_S. cbn [negb]. cbv zeta. destruct j; try reflexivity.
        change (map (fun q1 : str * gofield => (fst q1, (true, snd q1)))
                  (flat_map (fun f1 => if special f1 && nonempty (gf_name f1) then [(gf_json f1, f1)] else []) fields)
                ++ map (fun q2 : str * gofield => (fst q2, (false, snd q2)))
                  (flat_map (fun f2 => if special f2 then [] else [(gf_json f2, f2)]) fields)) with (all_of fields).
        rewrite is_ok_bind.
        pose proof (is_ok_first_pass (fun t j c => decode tm true f t j c) (fun t x => conformsb tm f t x) IHd (all_of fields) l
                      (match cur with VStruct _ fs => fs | _ => [] end) []) as Hfp.
        destruct (first_pass _ (all_of fields) l _ []) as [[acc1 caps]| | |] eqn:Efp.
        * rewrite (first_pass_captures _ _ _ _ _ _ _ Efp) in Hfp |- *. cbn [is_ok] in Hfp. rewrite <- Hfp. cbn [andb].
          rewrite is_ok_bind.
          rewrite <- (is_ok_second_pass (fun t j c => decode tm true f t j c) (fun n p l r c => fill tm true f n p l r c)
                        (fun t x => conformsb tm f t x) (fun k l c => fill_ok tm f k l c) IHd IHf (JObj l) caps fields acc1).
          destruct (second_pass _ _ _ _ _ _); reflexivity.
        * cbn [is_ok] in Hfp. destruct (captures (all_of fields) l []); [rewrite <- Hfp|]; reflexivity.
        * cbn [is_ok] in Hfp. destruct (captures (all_of fields) l []); [rewrite <- Hfp|]; reflexivity.
        * cbn [is_ok] in Hfp. destruct (captures (all_of fields) l []); [rewrite <- Hfp|]; reflexivity.
      + (* fill *)
        intros k p leaf c cur. rewrite fill_S, fill_ok_S. cbv zeta. destruct k as [|k].
        * destruct c as [|j| |l]; try reflexivity.
          destruct j; try reflexivity;
            (rewrite is_ok_bind;
             destruct leaf as [r g m u|n|n|n|n|e|e|r e];
             match goal with
             | |- context [decode_scalar ?kk ?jj ?cc] => rewrite <- (scalar_accepts_spec kk jj cc); destruct (decode_scalar kk jj cc); reflexivity
             | |- context [unmarshal_iface tm true f ?ii ?jj ?cc] => rewrite <- (IHi ii jj cc); destruct (unmarshal_iface tm true f ii jj cc); reflexivity
             | |- context [decode tm true f ?tt ?jj ?cc] => rewrite <- (IHd tt jj cc); destruct (decode tm true f tt jj cc); reflexivity
             end).
        * destruct c as [|j| |l]; try reflexivity.
          rewrite is_ok_bind.
          rewrite <- (is_ok_map_res (fun x => fill tm true f k p leaf x (elem_zero k p leaf)) (fun x => fill_ok tm f k leaf x) l)
            by (intros x _; apply IHf).
          destruct (map_res _ l); reflexivity.
      + (* unmarshal_iface *)
        intros i j cur. rewrite unmarshal_iface_S, iface_ok_S. destruct j; try reflexivity.
        rewrite is_ok_bind. destruct (scan_typename l []) as [tn| | |]; try reflexivity.
        destruct (assoc i tm) as [[| g sh impls sel | |]|]; try reflexivity.
        destruct tn as [|ch tn]; [reflexivity|].
        destruct (find_impl tm impls (ch :: tn)) as [impl|]; [|reflexivity].
        rewrite is_ok_bind. rewrite <- (IHd (GStruct impl) (JObj l) (VStruct impl [])).
        destruct (decode tm true f (GStruct impl) (JObj l) (VStruct impl [])); reflexivity.
  Qed.

  Corollary decode_is_ok_conformsb n t j cur : is_ok (decode tm true n t j cur) = conformsb tm n t j.
  Proof. apply (proj1 (decode_is_ok_all n)). Qed.
End Main.

(* ------------------------------------------------------------------------------------------ *)
(* the checker is sound ...                                                                   *)
(* ------------------------------------------------------------------------------------------ *)
Lemma forallb_in {A} (p : A -> bool) l : forallb p l = true -> forall x, In x l -> p x = true.
Proof. intro H. apply forallb_forall. exact H. Qed.

Section Sound.
  Variable tm : typemap.

  Theorem conformsb_sound_all : forall n,
    (forall t j, conformsb tm n t j = true -> conforms tm t j)
    /\ (forall fields kvs, plain_ok tm n fields (JObj kvs) = true ->
          forall k v fl, In (k, v) kvs -> target fields k = Some fl -> conforms tm (gf_type fl) v)
    /\ (forall fields kvs, unm_ok tm n fields (JObj kvs) = true ->
          exists caps, captures (all_of fields) kvs [] = Some caps
            /\ (forall k v fl, In (k, v) kvs -> target (all_of fields) k = Some (false, fl) -> conforms tm (gf_type fl) v)
            /\ (forall fl, In fl fields -> gf_name fl = [] -> conforms tm (unwrap (gf_type fl)) (JObj kvs))
            /\ (forall fl, In fl fields -> special fl = true -> gf_name fl <> [] ->
                  raw_conforms tm (sdepth (gf_type fl)) (unwrap (gf_type fl)) (cap_of caps (gf_name fl))))
    /\ (forall k leaf c, fill_ok tm n k leaf c = true -> raw_conforms tm k leaf c)
    /\ (forall i j, iface_ok tm n i j = true -> conforms tm (GIface i) j).
  Proof.
    induction n as [|f (IHd & IHp & IHu & IHf & IHi)].
    - repeat split; intros; discriminate.
    - split; [|split; [|split; [|split]]].
      + (* conformsb *)
        intros t j H. rewrite conformsb_S in H.
        destruct t as [r g m u|n|n|n|n|e|e|r e].
        * destruct (ref_shape r) as [[[] rest]|] eqn:Er.
          -- eapply CF_opaque_slice; [exact Er | apply IHd, H].
          -- eapply CF_opaque_ptr; [exact Er | apply IHd, H].
          -- apply CF_scalar; [cbn [scalar_type]; rewrite Er; reflexivity | exact H].
        * apply CF_scalar; [reflexivity | exact H].
        * apply CF_scalar; [reflexivity | exact H].
        * destruct (assoc n tm) as [[g fields sel inp| | |]|] eqn:En; try discriminate H.
          destruct (struct_needs_unmarshal fields) eqn:Enu.
          -- destruct j as [| | | | |kvs];
               try (destruct f; [discriminate H | rewrite unm_ok_S in H; discriminate H]).
             ++ eapply CF_struct_null. exact En.
             ++ destruct (IHu fields kvs H) as [caps [Hc [Ho [He Hs]]]].
                eapply CF_struct_unm; eassumption.
          -- destruct j as [| | | | |kvs];
               try (destruct f; [discriminate H | rewrite plain_ok_S in H; discriminate H]).
             ++ eapply CF_struct_null. exact En.
             ++ eapply CF_struct_plain; [exact En | exact Enu |]. exact (IHp _ kvs H).
        * apply IHi, H.
        * destruct j; try discriminate H.
          -- apply CF_slice_null.
          -- apply CF_slice. intros x Hx. apply IHd. exact (forallb_in _ _ H x Hx).
        * destruct j; try (apply CF_ptr, IHd, H). apply CF_ptr_null.
        * discriminate H.
      + (* plain_ok *)
        intros fields kvs H k v fl Hin Ht. rewrite plain_ok_S in H. unfold obj_ok in H.
        pose proof (forallb_in _ _ H (k, v) Hin) as Hk. cbn [fst snd] in Hk. rewrite Ht in Hk. apply IHd, Hk.
      + (* unm_ok *)
        intros fields kvs H. rewrite unm_ok_S in H.
        destruct (captures (all_of fields) kvs []) as [caps|]; [|discriminate H].
        apply andb_true_iff in H. destruct H as [H1 H2]. exists caps. split; [reflexivity|]. split; [|split].
        * intros k v fl Hin Ht. unfold first_ok in H1.
          pose proof (forallb_in _ _ H1 (k, v) Hin) as Hk. cbn [fst snd] in Hk. rewrite Ht in Hk. apply IHd, Hk.
        * intros fl Hin Hn. unfold second_ok in H2. pose proof (forallb_in _ _ H2 fl Hin) as Hk. cbv beta in Hk.
          rewrite (special_embedded fl Hn), Hn in Hk. apply IHd, Hk.
        * intros fl Hin Hs Hn. unfold second_ok in H2. pose proof (forallb_in _ _ H2 fl Hin) as Hk. cbv beta in Hk.
          rewrite Hs in Hk. destruct (gf_name fl) as [|ch nm]; [exfalso; apply Hn; reflexivity|]. apply IHf, Hk.
      + (* fill_ok *)
        intros k leaf c H. rewrite fill_ok_S in H. destruct k as [|k].
        * destruct c as [|j| |l]; try (apply RC_skip; intros j0 E; discriminate E).
          destruct j as [|v|id integral|s|l|l]; try (apply RC_skip; intros j0 E; injection E as <-; reflexivity);
            (destruct leaf as [r g m u|n|n|n|n|e|e|r e];
             [ apply RC_leaf_opaque; exact H
             | apply RC_leaf; [intros; discriminate | apply IHd, H]
             | apply RC_leaf; [intros; discriminate | apply IHd, H]
             | apply RC_leaf; [intros; discriminate | apply IHd, H]
             | apply RC_leaf; [intros; discriminate | apply IHi, H]
             | apply RC_leaf; [intros; discriminate | apply IHd, H]
             | apply RC_leaf; [intros; discriminate | apply IHd, H]
             | apply RC_leaf; [intros; discriminate | apply IHd, H] ]).
        * destruct c as [|j| |l]; try (apply RC_nolist; intros l0 E; discriminate E).
          apply RC_list. intros x Hx. apply IHf. exact (forallb_in _ _ H x Hx).
      + (* iface_ok *)
        intros i j H. rewrite iface_ok_S in H. destruct j as [| | | | |kvs]; try discriminate H; [apply CF_iface_null|].
        destruct (scan_typename kvs []) as [tn| | |] eqn:Es; try discriminate H.
        destruct (assoc i tm) as [[| g sh impls sel | |]|] eqn:Ei; try discriminate H.
        destruct tn as [|ch tn]; [discriminate H|].
        destruct (find_impl tm impls (ch :: tn)) as [impl|] eqn:Ef; [|discriminate H].
        eapply CF_iface; [exact Ei | exact Es | discriminate | exact Ef | apply IHd, H].
  Qed.

  Corollary conformsb_sound n t j : conformsb tm n t j = true -> conforms tm t j.
  Proof. apply (proj1 (conformsb_sound_all n)). Qed.
End Sound.

(* ------------------------------------------------------------------------------------------ *)
(* ... and complete: a conforming value passes the check from some fuel on                    *)
(* ------------------------------------------------------------------------------------------ *)
Section Complete.
  Variable tm : typemap.

  Definition ev_ok (t : gotype) (j : jval) : Prop := exists n, forall m, n <= m -> conformsb tm m t j = true.
  Definition ev_fill (k : nat) (leaf : gotype) (c : raw) : Prop := exists n, forall m, n <= m -> fill_ok tm m k leaf c = true.

  Theorem conformsb_complete_all :
    (forall t j, conforms tm t j -> ev_ok t j) /\ (forall k leaf c, raw_conforms tm k leaf c -> ev_fill k leaf c).
  Proof.
    apply conforms_raw_ind; unfold ev_ok, ev_fill.
    - (* scalar *)
      intros t j Hs Ha. exists 1. intros m Hm. destruct m as [|f]; [lia|]. rewrite conformsb_S.
      destruct t as [r g m0 u|n|n|n|n|e|e|r e]; try discriminate Hs; try exact Ha.
      cbn [scalar_type] in Hs. destruct (ref_shape r) as [[[] rest]|]; try discriminate Hs. exact Ha.
    - (* opaque slice *)
      intros r g m0 u rest j Er _ [n Hn]. exists (S n). intros m Hm. destruct m as [|f]; [lia|].
      rewrite conformsb_S, Er. apply Hn. lia.
    - intros r g m0 u rest j Er _ [n Hn]. exists (S n). intros m Hm. destruct m as [|f]; [lia|].
      rewrite conformsb_S, Er. apply Hn. lia.
    - (* pointer *)
      intro e. exists 1. intros m Hm. destruct m as [|f]; [lia|]. reflexivity.
    - intros e j _ [n Hn]. exists (S n). intros m Hm. destruct m as [|f]; [lia|]. rewrite conformsb_S.
      destruct j; try reflexivity; apply Hn; lia.
    - (* slice *)
      intro e. exists 1. intros m Hm. destruct m as [|f]; [lia|]. reflexivity.
    - intros e l _ IH.
      destruct (uniform_bound (fun x m => conformsb tm m e x = true) l IH) as [n0 Hn0].
      exists (S n0). intros m Hm. destruct m as [|f]; [lia|]. rewrite conformsb_S.
      apply forallb_forall. intros x Hx. apply Hn0; [lia | exact Hx].
    - (* struct, null *)
      intros n g fields s i En. exists 2. intros m Hm. destruct m as [|[|f]]; try lia. rewrite conformsb_S, En.
      destruct (struct_needs_unmarshal fields); reflexivity.
    - (* plain struct *)
      intros n g fields s i kvs En Enu _ IH.
      destruct (uniform_bound (fun (kv : str * jval) m => forall fl,
                  target (map (fun fl0 => (gf_json fl0, fl0)) fields) (fst kv) = Some fl -> conformsb tm m (gf_type fl) (snd kv) = true) kvs) as [n0 Hn0].
      { intros [k v] Hin. cbn [fst snd]. destruct (target (map (fun fl0 => (gf_json fl0, fl0)) fields) k) as [fl|] eqn:Et.
        - destruct (IH k v fl Hin Et) as [n1 Hn1]. exists n1. intros m Hm fl' E. injection E as <-. apply Hn1, Hm.
        - exists 0. intros m _ fl' E. discriminate E. }
      exists (S (S n0)). intros m Hm. destruct m as [|[|f]]; try lia. rewrite conformsb_S, En, Enu, plain_ok_S.
      unfold obj_ok. apply forallb_forall. intros [k v] Hin. cbn [fst snd].
      destruct (target (map (fun fl0 => (gf_json fl0, fl0)) fields) k) as [fl|] eqn:Et; [|reflexivity].
      apply (Hn0 f ltac:(lia) (k, v) Hin fl). exact Et.
    - (* struct with UnmarshalJSON *)
      intros n g fields s i kvs caps En Enu _ IHo Hc _ IHe _ IHs.
      destruct (uniform_bound (fun (kv : str * jval) m => forall fl,
                  target (all_of fields) (fst kv) = Some (false, fl) -> conformsb tm m (gf_type fl) (snd kv) = true) kvs) as [b1 Hb1].
      { intros [k v] Hin. cbn [fst snd]. destruct (target (all_of fields) k) as [[[|] fl]|] eqn:Et.
        - exists 0. intros m _ fl' E. discriminate E.
        - destruct (IHo k v fl Hin Et) as [n1 Hn1]. exists n1. intros m Hm fl' E. injection E as <-. apply Hn1, Hm.
        - exists 0. intros m _ fl' E. discriminate E. }
      destruct (uniform_bound (fun fl m =>
                  (gf_name fl = [] -> conformsb tm m (unwrap (gf_type fl)) (JObj kvs) = true)
                  /\ (special fl = true -> gf_name fl <> [] ->
                        fill_ok tm m (sdepth (gf_type fl)) (unwrap (gf_type fl)) (cap_of caps (gf_name fl)) = true)) fields) as [b2 Hb2].
      { intros fl Hin.
        assert (Ha : exists na, forall m, na <= m -> gf_name fl = [] -> conformsb tm m (unwrap (gf_type fl)) (JObj kvs) = true).
        { destruct (gf_name fl) as [|ch nm] eqn:Enm.
          - destruct (IHe fl Hin Enm) as [na Hna]. exists na. intros m Hm _. apply Hna, Hm.
          - exists 0. intros m _ E. discriminate E. }
        assert (Hb : exists nb, forall m, nb <= m -> special fl = true -> gf_name fl <> [] ->
                       fill_ok tm m (sdepth (gf_type fl)) (unwrap (gf_type fl)) (cap_of caps (gf_name fl)) = true).
        { destruct (special fl) eqn:Es.
          - destruct (gf_name fl) as [|ch nm] eqn:Enm.
            + exists 0. intros m _ _ E. exfalso. apply E. reflexivity.
            + destruct (IHs fl Hin Es) as [nb Hnb]; [rewrite Enm; discriminate|]. exists nb. intros m Hm _ _. rewrite <- Enm. apply Hnb, Hm.
          - exists 0. intros m _ E. discriminate E. }
        destruct Ha as [na Hna]. destruct Hb as [nb Hnb]. exists (Nat.max na nb). intros m Hm. split.
        - apply Hna. lia.
        - apply Hnb. lia. }
      exists (S (S (Nat.max b1 b2))). intros m Hm. destruct m as [|[|f]]; try lia.
      rewrite conformsb_S, En, Enu, unm_ok_S, Hc. apply andb_true_iff. split.
      + unfold first_ok. apply forallb_forall. intros [k v] Hin. cbn [fst snd].
        destruct (target (all_of fields) k) as [[[|] fl]|] eqn:Et; try reflexivity.
        apply (Hb1 f ltac:(lia) (k, v) Hin fl). exact Et.
      + unfold second_ok. apply forallb_forall. intros fl Hin.
        destruct (special fl) eqn:Es; [|reflexivity].
        destruct (gf_name fl) as [|ch nm] eqn:Enm.
        * apply (proj1 (Hb2 f ltac:(lia) fl Hin)). exact Enm.
        * rewrite <- Enm. apply (proj2 (Hb2 f ltac:(lia) fl Hin)); [exact Es | rewrite Enm; discriminate].
    - (* interface, null *)
      intro i. exists 2. intros m Hm. destruct m as [|[|f]]; try lia. reflexivity.
    - (* interface *)
      intros i g sh impls sel kvs tn impl Ei Es Hne Ef _ [n Hn]. exists (S (S n)). intros m Hm. destruct m as [|[|f]]; try lia.
      rewrite conformsb_S, iface_ok_S, Es, Ei. destruct tn as [|ch tn]; [exfalso; apply Hne; reflexivity|].
      rewrite Ef. apply Hn. lia.
    - (* raw: not a list *)
      intros k leaf c Hc. exists 1. intros m Hm. destruct m as [|f]; [lia|]. rewrite fill_ok_S.
      destruct c as [|j| |l]; try reflexivity. exfalso. exact (Hc l eq_refl).
    - intros k leaf l _ IH.
      destruct (uniform_bound (fun x m => fill_ok tm m k leaf x = true) l IH) as [n0 Hn0].
      exists (S n0). intros m Hm. destruct m as [|f]; [lia|]. rewrite fill_ok_S.
      apply forallb_forall. intros x Hx. apply Hn0; [lia | exact Hx].
    - (* raw leaf skipped *)
      intros leaf c Hc. exists 1. intros m Hm. destruct m as [|f]; [lia|]. rewrite fill_ok_S.
      destruct c as [|j| |l]; try reflexivity. rewrite (Hc j eq_refl). reflexivity.
    - intros r g m0 u j Ha. exists 1. intros m Hm. destruct m as [|f]; [lia|]. rewrite fill_ok_S.
      destruct j; try reflexivity; exact Ha.
    - intros leaf j Hno _ [n Hn]. exists (S n). intros m Hm. destruct m as [|f]; [lia|]. rewrite fill_ok_S.
      assert (Hl : match leaf with
                   | GIface i => iface_ok tm f i j
                   | GOpaque r _ _ _ => scalar_accepts (kind_of_ref r) j
                   | other => conformsb tm f other j
                   end = true).
      { destruct leaf as [r g m0 u|n0|n0|n0|n0|e|e|r e]; try (apply Hn; lia).
        - exfalso. exact (Hno r g m0 u eq_refl).
        - rewrite <- (conformsb_S tm f (GIface n0) j). apply Hn. lia. }
      destruct j; try reflexivity; exact Hl.
  Qed.

  Corollary conformsb_complete t j : conforms tm t j -> exists n, forall m, n <= m -> conformsb tm m t j = true.
  Proof. apply (proj1 conformsb_complete_all). Qed.
End Complete.

(* ------------------------------------------------------------------------------------------ *)
(* the theorems                                                                               *)
(* ------------------------------------------------------------------------------------------ *)

(* a conforming value is decoded successfully from some fuel on, whatever the value decoded INTO
   (success never depends on [cur]: only the result does).  No hypothesis on the type map: the
   derivation of [conforms] is the termination argument. *)
Theorem conforms_decodes_any : forall tm t j, conforms tm t j ->
  exists n, forall m cur, n <= m -> exists v, decode tm true m t j cur = Ok v.
Proof.
  intros tm t j H. destruct (conformsb_complete tm t j H) as [n Hn]. exists n. intros m cur Hm.
  apply is_ok_true. rewrite decode_is_ok_conformsb. apply Hn, Hm.
Qed.

(* ... and the result is the same for all these fuels *)
Theorem conforms_decodes_cur : forall tm t j cur, conforms tm t j ->
  exists n v, forall m, n <= m -> decode tm true m t j cur = Ok v.
Proof.
  intros tm t j cur H. destruct (conforms_decodes_any tm t j H) as [n Hn].
  destruct (Hn n cur (Nat.le_refl n)) as [v Hv]. exists n, v. intros m Hm. exact (decode_lift _ _ _ _ _ _ _ _ Hv Hm).
Qed.

(* the statement asked for (its hypotheses on the type map are not needed) *)
Theorem conforms_decodes : forall tm, same_json_acyclic tm ->
  forall t j, conforms tm t j ->
  exists n v, forall m, n <= m -> decode tm true m t j (zero_of t) = Ok v.
Proof. intros tm _ t j H. apply conforms_decodes_cur, H. Qed.

(* the converse, for every fuel and every start value *)
Theorem decodes_conforms : forall tm m t j cur v, decode tm true m t j cur = Ok v -> conforms tm t j.
Proof.
  intros tm m t j cur v H. apply (conformsb_sound tm m). rewrite <- (decode_is_ok_conformsb tm m t j cur), H. reflexivity.
Qed.

(* conformance is EXACTLY success *)
Theorem conforms_iff_decodes : forall tm t j,
  conforms tm t j <-> exists m v, decode tm true m t j (zero_of t) = Ok v.
Proof.
  intros tm t j. split.
  - intro H. destruct (conforms_decodes_cur tm t j (zero_of t) H) as [n [v Hv]]. exists n, v. apply Hv, Nat.le_refl.
  - intros [m [v H]]. exact (decodes_conforms _ _ _ _ _ _ H).
Qed.

(* success does not depend on the value decoded into *)
Corollary success_independent_of_cur : forall tm m t j cur cur' v,
  decode tm true m t j cur = Ok v -> exists v', decode tm true m t j cur' = Ok v'.
Proof.
  intros tm m t j cur cur' v H. apply is_ok_true. rewrite decode_is_ok_conformsb, <- (decode_is_ok_conformsb tm m t j cur), H. reflexivity.
Qed.

(* a value that does not conform is never decoded; where the decoder terminates it is rejected
   with an error *)
Theorem nonconforming_never_decodes : forall tm t j, ~ conforms tm t j ->
  forall m cur v, decode tm true m t j cur <> Ok v.
Proof. intros tm t j Hn m cur v H. apply Hn. exact (decodes_conforms _ _ _ _ _ _ H). Qed.

Lemma res_cases {A} (r : res A) : defined r -> np r -> (exists v, r = Ok v) \/ (exists e, r = Err e).
Proof.
  intros Hd Hp. destruct r as [a|e|s|]; [left; exists a; reflexivity | right; exists e; reflexivity | destruct Hp | exfalso; apply Hd; reflexivity].
Qed.

(* with termination (C19): from some fuel on the decoder ANSWERS, and the answer is Ok exactly
   on the conforming values, Err on all others *)
Theorem conforms_or_error : forall tm, same_json_acyclic tm -> forall t j cur,
  exists n, (conforms tm t j /\ exists v, forall m, n <= m -> decode tm true m t j cur = Ok v)
         \/ (~ conforms tm t j /\ exists e, forall m, n <= m -> decode tm true m t j cur = Err e).
Proof.
  intros tm Hac t j cur. destruct (decode_total tm Hac true t j cur) as [n [r [Hr Hn]]].
  exists n. pose proof (proj1 (decode_no_panic tm n) t j cur) as Hp. rewrite (Hn n (Nat.le_refl n)) in Hp.
  destruct (res_cases r Hr Hp) as [[v ->]|[e ->]].
  - left. split; [exact (decodes_conforms _ _ _ _ _ _ (Hn n (Nat.le_refl n))) | exists v; exact Hn].
  - right. split; [|exists e; exact Hn]. intro Hc.
    destruct (conforms_decodes_any tm t j Hc) as [n' Hn'].
    destruct (Hn' (Nat.max n n') cur ltac:(lia)) as [v Hv]. rewrite (Hn (Nat.max n n') ltac:(lia)) in Hv. discriminate Hv.
Qed.

Corollary not_err_iff_conforms : forall tm, same_json_acyclic tm -> forall t j cur,
  conforms tm t j <-> exists n, forall m, n <= m -> forall e, decode tm true m t j cur <> Err e.
Proof.
  intros tm Hac t j cur. split.
  - intro Hc. destruct (conforms_decodes_cur tm t j cur Hc) as [n [v Hv]]. exists n. intros m Hm e. rewrite (Hv m Hm). discriminate.
  - intros [n Hn]. destruct (conforms_or_error tm Hac t j cur) as [n' [[Hc _]|[_ [e He]]]]; [exact Hc|].
    exfalso. apply (Hn (Nat.max n n') ltac:(lia) e). apply He. lia.
Qed.

(* ---- the checker decides conformance at every fuel at which the decoder answers ---- *)
Theorem conformsb_decides : forall tm n t j cur,
  defined (decode tm true n t j cur) -> (conformsb tm n t j = true <-> conforms tm t j).
Proof.
  intros tm n t j cur Hd. split; [apply conformsb_sound|]. intro Hc.
  destruct (conformsb_complete tm t j Hc) as [n' Hn'].
  rewrite <- (decode_is_ok_conformsb tm n t j cur).
  replace (decode tm true n t j cur) with (decode tm true (n' + n) t j cur) by (apply decode_fuel_irrelevant, Hd).
  rewrite decode_is_ok_conformsb. apply Hn'. lia.
Qed.

Corollary conformsb_false_not_conforms : forall tm n t j cur,
  defined (decode tm true n t j cur) -> conformsb tm n t j = false -> ~ conforms tm t j.
Proof. intros tm n t j cur Hd Hf Hc. apply (conformsb_decides tm n t j cur Hd) in Hc. congruence. Qed.

(* and such a fuel exists for every acyclic type map: the checker is a decision procedure *)
Theorem conformsb_eventually_decides : forall tm, same_json_acyclic tm -> forall t j,
  exists n, forall m, n <= m -> (conformsb tm m t j = true <-> conforms tm t j).
Proof.
  intros tm Hac t j. destruct (decode_terminates tm Hac true t j (zero_of t)) as [n Hn].
  exists n. intros m Hm. exact (conformsb_decides tm m t j (zero_of t) (Hn m Hm)).
Qed.

(* the checker is monotone in the fuel *)
Corollary conformsb_mono : forall tm n m t j, n <= m -> conformsb tm n t j = true -> conformsb tm m t j = true.
Proof.
  intros tm n m t j Hle H. rewrite <- (decode_is_ok_conformsb tm n t j (zero_of t)) in H. apply is_ok_true in H. destruct H as [v Hv].
  rewrite <- (decode_is_ok_conformsb tm m t j (zero_of t)), (decode_lift _ _ _ _ _ _ _ _ Hv Hle). reflexivity.
Qed.

(* ------------------------------------------------------------------------------------------ *)
(* reading the specification: the clauses on raw captures and on `__typename`, in terms of    *)
(* the JSON value itself                                                                      *)
(* ------------------------------------------------------------------------------------------ *)

(* a leaf of a special field: null (skipped), or a value the custom unmarshaler / the decoder of
   the leaf type accepts *)
Definition leaf_conforms (tm : typemap) (leaf : gotype) (j : jval) : Prop :=
  j = JNull \/ match leaf with
               | GOpaque r _ _ _ => scalar_accepts (kind_of_ref r) j = true
               | other => conforms tm other j
               end.

(* null, or nested lists down to depth n whose leaves conform *)
Fixpoint leaves_conform (tm : typemap) (n : nat) (leaf : gotype) (v : jval) : Prop :=
  match n with
  | O => leaf_conforms tm leaf v
  | S k => match v with
           | JNull => True
           | JArr l => forall x, In x l -> leaves_conform tm k leaf x
           | _ => False
           end
  end.

Lemma raw_conforms_leaf tm leaf v : raw_conforms tm O leaf (RLeaf v) <-> leaf_conforms tm leaf v.
Proof.
  unfold leaf_conforms. split.
  - intro H. inversion H as [| |leaf0 c Hc|r g m u j Ha|leaf0 j Hno Hc]; subst.
    + left. apply Hc. reflexivity.
    + right. exact Ha.
    + right. destruct leaf as [r g m u|n|n|n|n|e|e|r e]; try exact Hc. exfalso. exact (Hno r g m u eq_refl).
  - intros [->|H].
    + apply RC_skip. intros j E. injection E as <-. reflexivity.
    + destruct leaf as [r g m u|n|n|n|n|e|e|r e]; try (apply RC_leaf; [intros; discriminate | exact H]).
      apply RC_leaf_opaque. exact H.
Qed.

Lemma raw_conforms_capture tm leaf : forall n v c,
  capture n v = Ok c -> (raw_conforms tm n leaf c <-> leaves_conform tm n leaf v).
Proof.
  induction n as [|k IH]; intros v c Hc; cbn [capture] in Hc.
  - injection Hc as <-. cbn [leaves_conform]. apply raw_conforms_leaf.
  - cbn [leaves_conform]. destruct v as [| | | |l|]; try discriminate Hc.
    + injection Hc as <-. split; [intros; exact I | intros _; apply RC_nolist; intros l E; discriminate E].
    + apply bind_ok in Hc. destruct Hc as [rs [Hrs Hc]]. injection Hc as <-.
      apply map_res_ok_inv in Hrs.
      assert (Hl : (forall r, In r rs -> raw_conforms tm k leaf r) <-> (forall x, In x l -> leaves_conform tm k leaf x)).
      { induction Hrs as [|x r l' rs' Hx _ IHl].
        - split; intros _ y [].
        - split; intros H y [<-|Hy].
          + apply (IH x r Hx). apply H. left; reflexivity.
          + apply (proj1 IHl); [intros r' Hr'; apply H; right; exact Hr' | exact Hy].
          + apply (IH x r Hx). apply H. left; reflexivity.
          + apply (proj2 IHl); [intros x' Hx'; apply H; right; exact Hx' | exact Hy]. }
      split.
      * intro H. apply Hl. inversion H as [k0 leaf0 c0 Hno|k0 leaf0 l0 Hall| | |]; subst; [exfalso; exact (Hno rs eq_refl) | exact Hall].
      * intro H. apply RC_list. apply Hl, H.
Qed.

Lemma raw_conforms_absent tm n leaf : raw_conforms tm n leaf RAbsent.
Proof. destruct n; [apply RC_skip; intros j E; discriminate E | apply RC_nolist; intros l E; discriminate E]. Qed.

(* which capture the first pass holds for a Go field at its end: that of the LAST key resolving
   to a special field of that name; nothing if there is none *)
Lemma captures_app all a c : forall caps,
  captures all (a ++ c) caps = match captures all a caps with Some caps' => captures all c caps' | None => None end.
Proof.
  induction a as [|[k v] r IH]; intro caps; [reflexivity|]. cbn [app captures].
  destruct (target all k) as [[[|] fl]|]; try apply IH.
  destruct (capture _ v); try reflexivity. apply IH.
Qed.

Lemma captures_preserves all name kvs : forall caps0 caps,
  (forall k v fl, In (k, v) kvs -> target all k = Some (true, fl) -> gf_name fl <> name) ->
  captures all kvs caps0 = Some caps -> assoc name caps = assoc name caps0.
Proof.
  induction kvs as [|[k v] r IH]; intros caps0 caps H Hc; cbn [captures] in Hc; [injection Hc as <-; reflexivity|].
  assert (Hr : forall k' v' fl, In (k', v') r -> target all k' = Some (true, fl) -> gf_name fl <> name)
    by (intros k' v' fl Hin; apply (H k' v' fl); right; exact Hin).
  pose proof (H k v) as Hk.
  destruct (target all k) as [[[|] fl]|]; try exact (IH _ _ Hr Hc).
  destruct (capture _ v) as [c| | |]; try discriminate Hc.
  rewrite (IH _ _ Hr Hc). apply assoc_put_other. intro E. exact (Hk fl (or_introl eq_refl) eq_refl (eq_sym E)).
Qed.

Theorem captures_last all pre k v post caps fl :
  captures all (pre ++ (k, v) :: post) [] = Some caps ->
  target all k = Some (true, fl) ->
  (forall k' v' fl', In (k', v') post -> target all k' = Some (true, fl') -> gf_name fl' <> gf_name fl) ->
  capture (sdepth (gf_type fl)) v = Ok (cap_of caps (gf_name fl)).
Proof.
  intros Hc Ht Hpost. rewrite captures_app in Hc. destruct (captures all pre []) as [caps1|]; [|discriminate Hc].
  cbn [captures] in Hc. rewrite Ht in Hc. destruct (capture (sdepth (gf_type fl)) v) as [c| | |]; try discriminate Hc.
  unfold cap_of. rewrite (captures_preserves _ _ _ _ _ Hpost Hc), assoc_put_same. reflexivity.
Qed.

Theorem captures_none all kvs caps name :
  captures all kvs [] = Some caps ->
  (forall k v fl, In (k, v) kvs -> target all k = Some (true, fl) -> gf_name fl <> name) ->
  cap_of caps name = RAbsent.
Proof. intros Hc H. unfold cap_of. rewrite (captures_preserves _ _ _ _ _ H Hc). reflexivity. Qed.

(* so the clause of [CF_struct_unm] on a special named field reads, on the JSON: the value under
   the last key resolving to the field is null / nested lists whose leaves conform *)
Corollary special_field_clause tm all pre k v post caps fl :
  captures all (pre ++ (k, v) :: post) [] = Some caps ->
  target all k = Some (true, fl) ->
  (forall k' v' fl', In (k', v') post -> target all k' = Some (true, fl') -> gf_name fl' <> gf_name fl) ->
  (raw_conforms tm (sdepth (gf_type fl)) (unwrap (gf_type fl)) (cap_of caps (gf_name fl))
   <-> leaves_conform tm (sdepth (gf_type fl)) (unwrap (gf_type fl)) v).
Proof. intros Hc Ht Hpost. apply raw_conforms_capture. exact (captures_last _ _ _ _ _ _ _ Hc Ht Hpost). Qed.

(* when the implementations of an interface have pairwise distinct GraphQL names (the second
   clause of [iface_decls]), [find_impl] in [CF_iface] names THE implementation for the
   `__typename` *)
Lemma find_impl_unique tm impls tn impl :
  (forall i1 i2 d1 d2, In i1 impls -> In i2 impls -> assoc i1 tm = Some d1 -> assoc i2 tm = Some d2 ->
     decl_gql d1 = decl_gql d2 -> i1 = i2) ->
  (find_impl tm impls tn = Some impl <-> In impl impls /\ exists d, assoc impl tm = Some d /\ decl_gql d = tn).
Proof.
  intro Hinj. split; [apply find_impl_sound|]. intros [Hin [d [Hd Hg]]].
  apply find_impl_first; [|exact Hin | exists d; split; assumption].
  intros i1 d1 Hi1 Hd1 Hg1. apply (Hinj i1 impl d1 d Hi1 Hin Hd1 Hd). congruence.
Qed.

(* ------------------------------------------------------------------------------------------ *)
(* a self-certifying check for the correspondence harness: an answer is always right          *)
(* ------------------------------------------------------------------------------------------ *)
Definition conforms_check (tm : typemap) (n : nat) (t : gotype) (j : jval) : option bool :=
  match decode tm true n t j (zero_of t) with
  | OutOfFuel => None
  | _ => Some (conformsb tm n t j)
  end.

Theorem conforms_check_correct tm n t j bb :
  conforms_check tm n t j = Some bb -> (bb = true <-> conforms tm t j).
Proof.
  unfold conforms_check. intro H.
  assert (Hd : defined (decode tm true n t j (zero_of t))) by (intro E; rewrite E in H; discriminate H).
  assert (Hb : bb = conformsb tm n t j) by (destruct (decode tm true n t j (zero_of t)); try congruence; exfalso; apply Hd; reflexivity).
  rewrite Hb. exact (conformsb_decides tm n t j _ Hd).
Qed.

Theorem conforms_check_answers tm : same_json_acyclic tm -> forall t j,
  exists n, forall m, n <= m -> conforms_check tm m t j <> None.
Proof.
  intros Hac t j. destruct (decode_terminates tm Hac true t j (zero_of t)) as [n Hn]. exists n. intros m Hm.
  unfold conforms_check. pose proof (Hn m Hm) as Hd. destruct (decode tm true m t j (zero_of t)); try discriminate.
  exfalso. apply Hd. reflexivity.
Qed.

(* ------------------------------------------------------------------------------------------ *)
(* non-vacuity                                                                                *)
(* ------------------------------------------------------------------------------------------ *)

(* the witness of Properties/C02.v (a list of abstract values) *)
Example w_two_conformsb : conformsb w_tm 10 (GStruct (b "QResponse")) w_resp_two = true.
Proof. vm_compute. reflexivity. Qed.

Example w_two_conforms : conforms w_tm (GStruct (b "QResponse")) w_resp_two.
Proof. apply (conformsb_sound w_tm 10). vm_compute. reflexivity. Qed.

Example w_null_conforms : conforms w_tm (GStruct (b "QResponse")) w_resp_null.
Proof. apply (conformsb_sound w_tm 10). vm_compute. reflexivity. Qed.

(* a recursive type map: pointers and lists back to the struct, an interface, an embedded fragment *)
Example r_resp_conformsb : conformsb r_tm 20 (GStruct (b "T")) r_resp = true.
Proof. vm_compute. reflexivity. Qed.

Example r_resp_conforms : conforms r_tm (GStruct (b "T")) r_resp.
Proof. apply (conformsb_sound r_tm 20). vm_compute. reflexivity. Qed.

Example r_resp_decodes_by_theorem :
  exists n v, forall m, n <= m -> decode r_tm true m (GStruct (b "T")) r_resp (zero_of (GStruct (b "T"))) = Ok v.
Proof. exact (conforms_decodes r_tm r_tm_acyclic _ _ r_resp_conforms). Qed.

Example check_examples :
  conforms_check w_tm 10 (GStruct (b "QResponse")) w_resp_two = Some true
  /\ conforms_check w_tm 10 (GStruct (b "QResponse")) w_resp_bad = Some false
  /\ conforms_check r_tm 20 (GStruct (b "T")) r_resp = Some true
  /\ conforms_check r_tm 3 (GStruct (b "T")) r_resp = None.
Proof. vm_compute. repeat split; reflexivity. Qed.

(* an unknown `__typename` does not conform, and is rejected *)
Example w_bad_not_conforms : ~ conforms w_tm (GStruct (b "QResponse")) w_resp_bad.
Proof.
  apply (conformsb_false_not_conforms w_tm 10 _ _ (VStruct (b "QResponse") [])).
  - intro H. vm_compute in H. discriminate H.
  - vm_compute. reflexivity.
Qed.

Example w_bad_rejected : exists e, decode w_tm true 10 (GStruct (b "QResponse")) w_resp_bad (VStruct (b "QResponse") []) = Err e.
Proof. exact w_bad_err. Qed.

(* ---- corners ---- *)

(* duplicate keys: the decoder decodes EVERY occurrence, so an ill-shaped earlier duplicate is an
   error although the later, well-shaped one would overwrite it *)
Definition dup_early : jval :=
  JObj [(b "__typename", JStr (b "A")); (b "id", JBool true); (b "id", JStr (b "7"))].

Example dup_early_ill_shaped_errs :
  ~ conforms w_tm (GStruct (b "QItemsA")) dup_early
  /\ exists e, decode w_tm true 10 (GStruct (b "QItemsA")) dup_early (VStruct (b "QItemsA") []) = Err e.
Proof.
  split.
  - apply (conformsb_false_not_conforms w_tm 10 _ _ (VStruct (b "QItemsA") [])).
    + intro H. vm_compute in H. discriminate H.
    + vm_compute. reflexivity.
  - eexists. vm_compute. reflexivity.
Qed.

(* special fields: only the LAST occurrence's leaves are decoded (the earlier list holds an
   unknown `__typename`; the object conforms and decodes) ... *)
Definition dup_special : jval :=
  JObj [(b "items", JArr [JObj [(b "__typename", JStr (b "Zebra"))]]); (b "items", JArr [])].

Example dup_special_only_last_leaves :
  conforms w_tm (GStruct (b "QResponse")) dup_special
  /\ decode w_tm true 10 (GStruct (b "QResponse")) dup_special (VStruct (b "QResponse") [])
     = Ok (VStruct (b "QResponse") [(b "Items", VSlice [])]).
Proof. split; [apply (conformsb_sound w_tm 10)|]; vm_compute; reflexivity. Qed.

(* ... but every occurrence must be null / a list down to the field's slice depth *)
Definition dup_special_shape : jval := JObj [(b "items", JStr (b "x")); (b "items", JArr [])].

Example dup_special_shape_errs :
  ~ conforms w_tm (GStruct (b "QResponse")) dup_special_shape
  /\ exists e, decode w_tm true 10 (GStruct (b "QResponse")) dup_special_shape (VStruct (b "QResponse") []) = Err e.
Proof.
  split.
  - apply (conformsb_false_not_conforms w_tm 10 _ _ (VStruct (b "QResponse") [])).
    + intro H. vm_compute in H. discriminate H.
    + vm_compute. reflexivity.
  - eexists. vm_compute. reflexivity.
Qed.

(* a struct that embeds itself: only null conforms (no finite derivation for an object), in
   agreement with the decoder, which never answers *)
Example loop_null_conforms : conforms loop_tm (GStruct (b "A")) JNull.
Proof. eapply CF_struct_null. reflexivity. Qed.

Example loop_no_conforms : ~ conforms loop_tm (GStruct (b "A")) (JObj []).
Proof.
  intro H. destruct (conforms_decodes_any _ _ _ H) as [n Hn].
  destruct (Hn n VZero (Nat.le_refl n)) as [v Hv]. rewrite loop_tm_diverges in Hv. discriminate Hv.
Qed.

Print Assumptions conforms_decodes.
Print Assumptions conforms_decodes_any.
Print Assumptions decodes_conforms.
Print Assumptions conforms_iff_decodes.
Print Assumptions conforms_or_error.
Print Assumptions conformsb_decides.
Print Assumptions conformsb_eventually_decides.
Print Assumptions conforms_check_correct.
Print Assumptions special_field_clause.
Print Assumptions dup_special_only_last_leaves.
