(* C19, "never loops": decoding ANY JSON value into ANY generated type, recursive ones included,
   is defined (anything but OutOfFuel) for every large enough fuel, provided the graph of
   "same-JSON edges" between the declarations of the type map is acyclic.

   A recursive call of the decoder either descends into a strict sub-value of the JSON (a
   field's value, a list element, the leaves of a raw capture) or keeps the JSON value and
     - peels a pointer / slice / `[]`- or `*`-prefix of an opaque reference off the SAME type
       expression (bounded by the syntactic size of the expression), or
     - goes from a struct to one of its EMBEDDED fields' types (second pass of UnmarshalJSON:
       "the same bytes again"), or
     - goes from an interface to one of its implementation structs (__typename dispatch).
   Only the last two relate NAMED declarations; [same_json_acyclic] asks for a rank that strictly
   decreases along them.  Go rejects a struct that embeds itself by value and an implementation
   is a struct, never an interface, so every type map emitted for compiling Go code satisfies it.
   The measure is lexicographic: (nesting depth of the JSON, rank, size of the type expression,
   position in the loop); the fuel bound obtained depends on the JSON value only through its
   nesting depth. *)
From Verif Require Import Base.Str Gen.Consts Gen.Gql Gen.Directive Gen.Convert Rt.JsonDecode Rt.Acyclic
  Proofs.JsonProofs Proofs.FuelProofs Proofs.TermProofs.
From Coq Require Import ZArith Lia Wf_nat PeanoNat.
Local Open Scope nat_scope.

(* ------------------------------------------------------------------------------------------ *)
(* the hypothesis                                                                             *)
(* ------------------------------------------------------------------------------------------ *)

Definition same_json_edge (tm : typemap) (n m : str) : Prop :=
  exists d, assoc n tm = Some d /\ In m (same_json_targets d).

Definition same_json_acyclic (tm : typemap) : Prop :=
  exists rank : str -> nat, forall n m, same_json_edge tm n m -> rank m < rank n.

(* ---- an executable check ---- *)
Lemma assoc_In {A} (k : str) (l : list (str * A)) v : assoc k l = Some v -> In (k, v) l.
Proof.
  induction l as [|[k' x] r IH]; cbn [assoc]; [discriminate|].
  destruct (str_eqb k k') eqn:E.
  - intro H. injection H as ->. apply str_eqb_eq in E. subst k'. left; reflexivity.
  - intro H. right. exact (IH H).
Qed.

Theorem rank_okb_sound tm ranks : rank_okb tm ranks = true -> same_json_acyclic tm.
Proof.
  intro H. exists (rank_of ranks). intros n m [d [Hd Hm]].
  unfold rank_okb in H. rewrite forallb_forall in H.
  specialize (H (n, d) (assoc_In _ _ _ Hd)). cbn [fst] in H. rewrite Hd in H.
  rewrite forallb_forall in H. specialize (H m Hm). apply Nat.ltb_lt in H. exact H.
Qed.

Theorem same_json_acyclicb_sound tm : same_json_acyclicb tm = true -> same_json_acyclic tm.
Proof. apply rank_okb_sound. Qed.

(* ------------------------------------------------------------------------------------------ *)
(* nesting depth of JSON values and of raw captures                                           *)
(* ------------------------------------------------------------------------------------------ *)
Fixpoint jdepth (j : jval) : nat :=
  match j with
  | JArr l => S ((fix go (l : list jval) : nat :=
                    match l with [] => 0 | x :: r => Nat.max (jdepth x) (go r) end) l)
  | JObj l => S ((fix go (l : list (str * jval)) : nat :=
                    match l with [] => 0 | (_, x) :: r => Nat.max (jdepth x) (go r) end) l)
  | _ => 0
  end.

Fixpoint rdepth (c : raw) : nat :=
  match c with
  | RLeaf j => jdepth j
  | RList l => (fix go (l : list raw) : nat :=
                  match l with [] => 0 | x :: r => Nat.max (rdepth x) (go r) end) l
  | _ => 0
  end.

Lemma jdepth_arr_in l : forall x, In x l -> jdepth x < jdepth (JArr l).
Proof.
  induction l as [|a l IH]; intros x Hin; [destruct Hin|].
  destruct Hin as [->|Hin].
  - simpl. lia.
  - specialize (IH x Hin). simpl in IH |- *. lia.
Qed.

Lemma jdepth_obj_in l : forall k v, In (k, v) l -> jdepth v < jdepth (JObj l).
Proof.
  induction l as [|[k0 v0] l IH]; intros k v Hin; [destruct Hin|].
  destruct Hin as [E|Hin].
  - injection E as -> ->. simpl. lia.
  - specialize (IH k v Hin). simpl in IH |- *. lia.
Qed.

Lemma jdepth_obj_pos l : 0 < jdepth (JObj l).
Proof. simpl. lia. Qed.

Lemma rdepth_in l : forall x, In x l -> rdepth x <= rdepth (RList l).
Proof.
  induction l as [|a l IH]; intros x Hin; [destruct Hin|].
  destruct Hin as [->|Hin].
  - simpl. lia.
  - specialize (IH x Hin). simpl in IH |- *. lia.
Qed.

Lemma rdepth_list_le l d : (forall x, In x l -> rdepth x <= d) -> rdepth (RList l) <= d.
Proof.
  induction l as [|a l IH]; intro H; [simpl; lia|].
  assert (Ha : rdepth a <= d) by (apply H; left; reflexivity).
  assert (Hl : rdepth (RList l) <= d) by (apply IH; intros x Hx; apply H; right; exact Hx).
  simpl in Hl |- *. lia.
Qed.

(* ------------------------------------------------------------------------------------------ *)
(* generic facts about [defined]                                                              *)
(* ------------------------------------------------------------------------------------------ *)
Lemma defined_bind {A B} (r : res A) (k : A -> res B) :
  defined r -> (forall a, r = Ok a -> defined (k a)) -> defined (bind r k).
Proof.
  unfold defined. intros Hr Hk. destruct r as [a| | |]; cbn [bind]; try discriminate.
  - apply Hk. reflexivity.
  - exfalso. apply Hr. reflexivity.
Qed.

Lemma defined_at_field {A} k (r : res A) : defined r -> defined (at_field k r).
Proof. unfold defined. destruct r; cbn [at_field]; try discriminate. intro H. exact H. Qed.

Lemma map_res_defined_in {A B} (f : A -> res B) l : (forall x, In x l -> defined (f x)) -> defined (map_res f l).
Proof.
  induction l as [|x r IH]; intro H; [discriminate|]. cbn [map_res].
  apply defined_bind; [apply H; left; reflexivity|]. intros a _.
  apply defined_bind; [apply IH; intros y Hy; apply H; right; exact Hy|]. intros; discriminate.
Qed.

Lemma map_res_in {A B} (f : A -> res B) l : forall rs,
  map_res f l = Ok rs -> forall r, In r rs -> exists x, In x l /\ f x = Ok r.
Proof.
  induction l as [|x l IH]; intros rs H r Hr; cbn [map_res] in H.
  - injection H as <-. destruct Hr.
  - apply bind_ok in H. destruct H as [a [Ha H]]. apply bind_ok in H. destruct H as [rest [Hrest H]].
    injection H as <-. destruct Hr as [<-|Hr].
    + exists x. split; [left; reflexivity | exact Ha].
    + destruct (IH rest Hrest r Hr) as [y [Hy Hf]]. exists y. split; [right; exact Hy | exact Hf].
Qed.

Lemma capture_defined n : forall j, defined (capture n j).
Proof.
  induction n as [|k IH]; intro j; cbn [capture]; [discriminate|].
  destruct j; try discriminate.
  apply defined_bind; [apply map_res_defined, IH | intros; discriminate].
Qed.

Lemma capture_depth n : forall j c, capture n j = Ok c -> rdepth c <= jdepth j.
Proof.
  induction n as [|k IH]; intros j c H; cbn [capture] in H.
  - injection H as <-. cbn [rdepth]. lia.
  - destruct j; try discriminate.
    + injection H as <-. cbn [rdepth]. lia.
    + apply bind_ok in H. destruct H as [rs [Hrs H]]. injection H as <-.
      apply rdepth_list_le. intros r Hr.
      destruct (map_res_in _ _ _ Hrs r Hr) as [x [Hx Hc]].
      pose proof (IH x r Hc). pose proof (jdepth_arr_in l x Hx). lia.
Qed.

Lemma scan_typename_defined kvs : forall acc, defined (scan_typename kvs acc).
Proof.
  induction kvs as [|[k v] r IH]; intro acc; [discriminate|]. cbn [scan_typename].
  destruct (fold_eqb k typename_name); [|apply IH]. destruct v; try discriminate; apply IH.
Qed.

(* finitely many eventually-true facts are eventually all true *)
Lemma uniform_bound {A} (Q : A -> nat -> Prop) (l : list A) :
  (forall x, In x l -> exists n, forall m, n <= m -> Q x m) ->
  exists n, forall m, n <= m -> forall x, In x l -> Q x m.
Proof.
  induction l as [|a l IH]; intro H.
  - exists 0. intros m _ x Hx. destruct Hx.
  - destruct (H a (or_introl eq_refl)) as [n1 H1].
    destruct IH as [n2 H2]; [intros x Hx; apply H; right; exact Hx|].
    exists (Nat.max n1 n2). intros m Hm x [<-|Hx]; [apply H1; lia | apply H2; [lia | exact Hx]].
Qed.

(* ------------------------------------------------------------------------------------------ *)
(* the loops: the body is only required to be defined on the elements actually traversed      *)
(* ------------------------------------------------------------------------------------------ *)
Definition caps_lt (N : nat) (caps : list (str * raw)) : Prop :=
  forall name c, assoc name caps = Some c -> rdepth c < N.

Section LoopsDefined.
  Variable dec : gotype -> jval -> gval -> res gval.
  Variable filler : nat -> bool -> gotype -> raw -> gval -> res gval.

  Lemma obj_loop_defined fields kvs :
    (forall s fl k v cur, In (s, fl) fields -> In (k, v) kvs -> defined (dec (gf_type fl) v cur)) ->
    forall acc, defined (obj_loop dec fields kvs acc).
  Proof.
    induction kvs as [|[k v] r IH]; intros H acc; [discriminate|]. cbn [obj_loop].
    assert (Hr : forall acc', defined (obj_loop dec fields r acc')).
    { apply IH. intros s fl k' v' cur Hf Hin. apply (H s fl k' v' cur Hf). right; exact Hin. }
    destruct (find_key fields k) as [i|]; [|apply Hr].
    destruct (nth_error fields i) as [[s fl]|] eqn:En; [|apply Hr].
    apply defined_bind; [|intros; apply Hr].
    apply defined_at_field. apply (H s fl k v); [eapply nth_error_In; exact En | left; reflexivity].
  Qed.

  Lemma first_pass_defined all kvs :
    (forall s bb fl k v cur, In (s, (bb, fl)) all -> In (k, v) kvs -> defined (dec (gf_type fl) v cur)) ->
    forall acc caps, defined (first_pass dec all kvs acc caps).
  Proof.
    induction kvs as [|[k v] r IH]; intros H acc caps; [discriminate|]. cbn [first_pass].
    assert (Hr : forall acc' caps', defined (first_pass dec all r acc' caps')).
    { apply IH. intros s bb fl k' v' cur Hf Hin. apply (H s bb fl k' v' cur Hf). right; exact Hin. }
    destruct (find_key all k) as [i|]; [|apply Hr].
    destruct (nth_error all i) as [[s [[|] fl]]|] eqn:En; [| |apply Hr].
    - apply defined_bind; [apply capture_defined | intros; apply Hr].
    - apply defined_bind; [|intros; apply Hr].
      apply defined_at_field. apply (H s false fl k v); [eapply nth_error_In; exact En | left; reflexivity].
  Qed.

  (* what the first pass captures lies strictly inside the object *)
  Lemma first_pass_caps N all kvs :
    (forall k v, In (k, v) kvs -> jdepth v < N) ->
    forall acc caps acc' caps', caps_lt N caps ->
      first_pass dec all kvs acc caps = Ok (acc', caps') -> caps_lt N caps'.
  Proof.
    induction kvs as [|[k v] r IH]; intros H acc caps acc' caps' Hc Hfp; cbn [first_pass] in Hfp.
    - injection Hfp as _ <-. exact Hc.
    - assert (Hr : forall k' v', In (k', v') r -> jdepth v' < N) by (intros k' v' Hin; apply (H k' v'); right; exact Hin).
      destruct (find_key all k) as [i|]; [|exact (IH Hr _ _ _ _ Hc Hfp)].
      destruct (nth_error all i) as [[s [[|] fl]]|]; [| |exact (IH Hr _ _ _ _ Hc Hfp)].
      + apply bind_ok in Hfp. destruct Hfp as [c [Hcap Hfp]].
        refine (IH Hr _ _ _ _ _ Hfp). intros name c' Ha.
        destruct (str_eq_dec name (gf_name fl)) as [->|Hne].
        * rewrite assoc_put_same in Ha. injection Ha as <-.
          pose proof (capture_depth _ _ _ Hcap). pose proof (H k v (or_introl eq_refl)). lia.
        * rewrite (assoc_put_other _ _ _ _ Hne) in Ha. exact (Hc name c' Ha).
      + apply bind_ok in Hfp. destruct Hfp as [x [_ Hfp]]. exact (IH Hr _ _ _ _ Hc Hfp).
  Qed.

  Lemma second_pass_defined N j caps fls :
    0 < N ->
    (forall fl cur, In fl fls -> gf_name fl = [] -> defined (dec (unwrap (gf_type fl)) j cur)) ->
    (forall fl c cur, In fl fls -> rdepth c < N ->
        defined (filler (sdepth (gf_type fl)) (ispointer (gf_type fl)) (unwrap (gf_type fl)) c cur)) ->
    caps_lt N caps ->
    forall acc, defined (second_pass dec filler j caps fls acc).
  Proof.
    intros HN. induction fls as [|fl r IH]; intros Hd Hf Hc acc; [discriminate|]. cbn [second_pass].
    assert (Hr : forall acc', defined (second_pass dec filler j caps r acc')).
    { apply IH; [| |exact Hc].
      - intros fl' cur Hin. apply Hd. right; exact Hin.
      - intros fl' c cur Hin. apply Hf. right; exact Hin. }
    destruct (negb (special fl)); [apply Hr|].
    destruct (gf_name fl) as [|ch nm] eqn:En.
    - apply defined_bind; [|intros; apply Hr]. apply Hd; [left; reflexivity | exact En].
    - apply defined_bind; [|intros; apply Hr]. apply defined_at_field. apply Hf; [left; reflexivity|].
      destruct (assoc (ch :: nm) caps) as [c|] eqn:Ea; [exact (Hc _ _ Ea) | cbn [rdepth]; exact HN].
  Qed.
End LoopsDefined.

(* ------------------------------------------------------------------------------------------ *)
(* sizes of type expressions                                                                  *)
(* ------------------------------------------------------------------------------------------ *)
Fixpoint tsize (t : gotype) : nat :=
  match t with
  | GOpaque r _ _ _ => 2 * length r
  | GSlice e => S (tsize e)
  | GPtr e => S (tsize e)
  | GGeneric _ e => S (tsize e)
  | _ => 0
  end.

Lemma ref_shape_len r sl rest :
  ref_shape r = Some (sl, rest) -> length r = (if sl then 2 else 1) + length rest.
Proof.
  unfold ref_shape. destruct r as [|c1 r1]; [discriminate|].
  destruct (N.eqb c1 42).
  - intro H. injection H as <- <-. reflexivity.
  - destruct (N.eqb c1 91); [|discriminate]. destruct r1 as [|c2 r2]; [discriminate|].
    destruct (N.eqb c2 93); [|discriminate]. intro H. injection H as <- <-. reflexivity.
Qed.

Lemma unwrap_idem t : unwrap (unwrap t) = unwrap t.
Proof. induction t; cbn [unwrap]; auto. Qed.

(* ------------------------------------------------------------------------------------------ *)
(* the induction                                                                              *)
(* ------------------------------------------------------------------------------------------ *)
Section Term.
  Variable tm : typemap.
  Variable w : bool.
  Variable rk : str -> nat.
  Hypothesis Hrk : forall n m, same_json_edge tm n m -> rk m < rk n.

  (* eventually defined, uniformly over the JSON values (raw captures) satisfying P *)
  Definition Dp (P : jval -> Prop) (t : gotype) : Prop :=
    exists n, forall m j cur, P j -> n <= m -> defined (decode tm w m t j cur).
  Definition Ip (P : jval -> Prop) (i : str) : Prop :=
    exists n, forall m j cur, P j -> n <= m -> defined (unmarshal_iface tm w m i j cur).
  Definition Fp (P : raw -> Prop) (k : nat) (p : bool) (leaf : gotype) : Prop :=
    exists n, forall m c cur, P c -> n <= m -> defined (fill tm w m k p leaf c cur).
  Definition Pp (P : jval -> Prop) (n : str) (fields : list (str * gofield)) : Prop :=
    exists b, forall m j cur, P j -> b <= m -> defined (plain_struct tm w m n fields j cur).
  Definition Up (P : jval -> Prop) (n : str) (fields : list gofield) : Prop :=
    exists b, forall m j cur, P j -> b <= m -> defined (unmarshal_struct tm w m n fields j cur).

  Definition trank (t : gotype) : nat :=
    match unwrap t with GStruct n => S (rk n) | GIface n => S (rk n) | _ => 0 end.

  Lemma trank_unwrap t :
    trank (unwrap t) = match unwrap t with GStruct n => S (rk n) | GIface n => S (rk n) | _ => 0 end.
  Proof. unfold trank. rewrite unwrap_idem. reflexivity. Qed.

  (* an interface helper hands the same object to one of the implementations *)
  Lemma iface_from_impls (P : jval -> Prop) i :
    (forall g sh impls sel impl, assoc i tm = Some (DIface g sh impls sel) -> In impl impls -> Dp P (GStruct impl)) ->
    Ip P i.
  Proof.
    intro H. destruct (assoc i tm) as [[g fs sel inp| g sh impls sel | g vs | bi g]|] eqn:Ei.
    2:{ destruct (uniform_bound (fun impl m => forall j cur, P j -> defined (decode tm w m (GStruct impl) j cur)) impls) as [n0 Hn0].
        { intros impl Hin. destruct (H g sh impls sel impl eq_refl Hin) as [n Hn]. exists n. intros m Hm j cur Hj. apply Hn; assumption. }
        exists (S n0). intros m j cur Hj Hm. destruct m as [|f]; [lia|]. rewrite unmarshal_iface_S.
        destruct j; try discriminate.
        apply defined_bind; [apply scan_typename_defined|]. intros tn _. rewrite Ei.
        destruct tn as [|c tn]; [discriminate|].
        destruct (find_impl tm impls (c :: tn)) as [impl|] eqn:Ef; [|discriminate].
        destruct (find_impl_sound _ _ _ _ Ef) as [Hin _].
        apply defined_bind; [|intros; discriminate]. apply (Hn0 f); [lia | exact Hin | exact Hj]. }
    all: exists 1; intros m j cur _ Hm; destruct m as [|f]; [lia|]; rewrite unmarshal_iface_S;
      destruct j; try discriminate;
      (apply defined_bind; [apply scan_typename_defined|]); intros tn _; rewrite Ei; discriminate.
  Qed.

  (* the per-depth loops over a raw capture: structural in the slice depth *)
  Lemma fill_from_leaves N :
    (forall t, Dp (fun j => jdepth j < N) t) -> (forall i, Ip (fun j => jdepth j < N) i) ->
    forall leaf p k, Fp (fun c => rdepth c < N) k p leaf.
  Proof.
    intros HD HI leaf p. induction k as [|k IH].
    - destruct (HD leaf) as [n1 H1].
      assert (H2 : exists n2, forall m j cur, jdepth j < N -> n2 <= m ->
                     match leaf with GIface i => defined (unmarshal_iface tm w m i j cur) | _ => True end).
      { destruct leaf; try (exists 0; intros; exact I). destruct (HI n) as [n2 Hn2]. exists n2. exact Hn2. }
      destruct H2 as [n2 H2].
      exists (S (Nat.max n1 n2)). intros m c cur Hc Hm. destruct m as [|f]; [lia|]. rewrite fill_S. cbv zeta.
      destruct c as [|j| |l]; try discriminate. cbn [rdepth] in Hc.
      destruct j; try discriminate;
        (apply defined_bind; [|intros; discriminate]);
        destruct leaf; try apply decode_scalar_defined;
        try (apply H1; [exact Hc | lia]);
        (apply (H2 f); [exact Hc | lia]).
    - destruct IH as [n Hn]. exists (S n). intros m c cur Hc Hm. destruct m as [|f]; [lia|]. rewrite fill_S.
      destruct c as [|j| |l]; try discriminate.
      apply defined_bind; [|intros; discriminate]. apply map_res_defined_in. intros x Hx.
      apply Hn; [|lia]. pose proof (rdepth_in l x Hx). lia.
  Qed.

  Lemma plain_struct_from_fields N :
    (forall t, Dp (fun j => jdepth j < N) t) -> forall n fields, Pp (fun j => jdepth j < S N) n fields.
  Proof.
    intros HD n fields.
    destruct (uniform_bound (fun (p : str * gofield) m => forall j cur, jdepth j < N -> defined (decode tm w m (gf_type (snd p)) j cur)) fields) as [b0 Hb0].
    { intros p _. destruct (HD (gf_type (snd p))) as [n0 Hn0]. exists n0. intros m Hm j cur Hj. apply Hn0; assumption. }
    exists (S b0). intros m j cur Hj Hm. destruct m as [|f]; [lia|]. rewrite plain_struct_S. cbv zeta.
    destruct j; try discriminate.
    apply defined_bind; [|intros; discriminate]. apply obj_loop_defined.
    intros s fl k v cur' Hf Hin. apply (Hb0 f ltac:(lia) (s, fl) Hf).
    pose proof (jdepth_obj_in l k v Hin). lia.
  Qed.

  Lemma unmarshal_struct_from_fields N :
    (forall t, Dp (fun j => jdepth j < N) t) ->
    (forall leaf p k, Fp (fun c => rdepth c < N) k p leaf) ->
    forall n fields,
      (forall fl, In fl fields -> gf_name fl = [] -> Dp (fun j => jdepth j < S N) (unwrap (gf_type fl))) ->
      Up (fun j => jdepth j < S N) n fields.
  Proof.
    intros HD HF n fields Hemb.
    pose (all := map (fun p : str * gofield => (fst p, (true, snd p)))
                   (flat_map (fun fl => if special fl && nonempty (gf_name fl) then [(gf_json fl, fl)] else []) fields)
                 ++ map (fun p : str * gofield => (fst p, (false, snd p)))
                   (flat_map (fun fl => if special fl then [] else [(gf_json fl, fl)]) fields)).
    destruct (uniform_bound (fun (p : str * (bool * gofield)) m => forall j cur, jdepth j < N -> defined (decode tm w m (gf_type (snd (snd p))) j cur)) all) as [b1 Hb1].
    { intros p _. destruct (HD (gf_type (snd (snd p)))) as [n0 Hn0]. exists n0. intros m Hm j cur Hj. apply Hn0; assumption. }
    destruct (uniform_bound (fun fl m =>
        (gf_name fl = [] -> forall j cur, jdepth j < S N -> defined (decode tm w m (unwrap (gf_type fl)) j cur))
        /\ (forall c cur, rdepth c < N -> defined (fill tm w m (sdepth (gf_type fl)) (ispointer (gf_type fl)) (unwrap (gf_type fl)) c cur))) fields) as [b2 Hb2].
    { intros fl Hfl.
      destruct (HF (unwrap (gf_type fl)) (ispointer (gf_type fl)) (sdepth (gf_type fl))) as [nb Hnb].
      assert (Ha : exists na, forall m, na <= m -> gf_name fl = [] -> forall j cur, jdepth j < S N -> defined (decode tm w m (unwrap (gf_type fl)) j cur)).
      { destruct (gf_name fl) as [|ch nm] eqn:En.
        - destruct (Hemb fl Hfl En) as [na Hna]. exists na. intros m Hm _ j cur Hj. apply Hna; assumption.
        - exists 0. intros m _ Habs. discriminate Habs. }
      destruct Ha as [na Hna]. exists (Nat.max na nb). intros m Hm. split.
      - apply Hna. lia.
      - intros c cur Hc. apply Hnb; [exact Hc | lia]. }
    exists (S (Nat.max b1 b2)). intros m j cur Hj Hm. destruct m as [|f]; [lia|]. rewrite unmarshal_struct_S. cbv zeta.
    destruct j; try discriminate; (destruct (negb w); [discriminate|]); try discriminate.
    apply defined_bind.
    - apply first_pass_defined. intros s bb fl k v cur' Hin Hkv.
      apply (Hb1 f ltac:(lia) (s, (bb, fl)) Hin). pose proof (jdepth_obj_in l k v Hkv). lia.
    - intros [acc1 caps] Hfp. apply defined_bind; [|intros; discriminate].
      apply (second_pass_defined _ _ N).
      + pose proof (jdepth_obj_pos l). lia.
      + intros fl cur' Hin En. apply (proj1 (Hb2 f ltac:(lia) fl Hin) En). exact Hj.
      + intros fl c cur' Hin Hc. apply (proj2 (Hb2 f ltac:(lia) fl Hin)). exact Hc.
      + refine (first_pass_caps _ N _ _ _ _ _ _ _ _ Hfp).
        * intros k v Hkv. pose proof (jdepth_obj_in l k v Hkv). lia.
        * intros name c Ha. discriminate Ha.
  Qed.

  (* one more level of JSON nesting *)
  Lemma depth_step N :
    (forall t, Dp (fun j => jdepth j < N) t) -> forall t, Dp (fun j => jdepth j < S N) t.
  Proof.
    intro HN.
    assert (HI : forall i, Ip (fun j => jdepth j < N) i) by (intro i; apply iface_from_impls; intros; apply HN).
    pose proof (fill_from_leaves N HN HI) as HF.
    intro t. remember (trank t) as r eqn:Er. revert t Er.
    induction r as [r IHr] using lt_wf_ind. intro t.
    remember (tsize t) as s eqn:Es. revert t Es.
    induction s as [s IHs] using lt_wf_ind. intros t Es Er.
    destruct t as [r0 g m0 u|n|n|n|n|e|e|r0 e].
    - (* opaque reference: a `[]` or `*` prefix is peeled off *)
      destruct (ref_shape r0) as [[[|] rest]|] eqn:Ers.
      + pose proof (ref_shape_len _ _ _ Ers) as Hl. simpl in Hl.
        destruct (IHs (tsize (GSlice (GOpaque rest g m0 u))) ltac:(subst s; cbn [tsize]; lia) _ eq_refl Er) as [n Hn].
        exists (S n). intros m j cur Hj Hm. destruct m as [|f]; [lia|]. rewrite decode_S, Ers.
        apply Hn; [exact Hj | lia].
      + pose proof (ref_shape_len _ _ _ Ers) as Hl. simpl in Hl.
        destruct (IHs (tsize (GPtr (GOpaque rest g m0 u))) ltac:(subst s; cbn [tsize]; lia) _ eq_refl Er) as [n Hn].
        exists (S n). intros m j cur Hj Hm. destruct m as [|f]; [lia|]. rewrite decode_S, Ers.
        apply Hn; [exact Hj | lia].
      + exists 1. intros m j cur _ Hm. destruct m as [|f]; [lia|]. rewrite decode_S, Ers. apply decode_scalar_defined.
    - exists 1. intros m j cur _ Hm. destruct m as [|f]; [lia|]. rewrite decode_S. apply decode_scalar_defined.
    - exists 1. intros m j cur _ Hm. destruct m as [|f]; [lia|]. rewrite decode_S. apply decode_scalar_defined.
    - (* struct *)
      destruct (assoc n tm) as [[g fields sel inp| g sh impls sel | g vs | bi g]|] eqn:En.
      1:{ destruct (struct_needs_unmarshal fields) eqn:Enu.
          - destruct (unmarshal_struct_from_fields N HN HF n fields) as [b0 Hb0].
            { intros fl Hfl Hemb. apply (IHr (trank (unwrap (gf_type fl)))); [|reflexivity].
              subst r. rewrite trank_unwrap. unfold trank. cbn [unwrap].
              destruct (unwrap (gf_type fl)) eqn:Eu; try lia.
              - apply -> Nat.succ_lt_mono. apply Hrk. exists (DStruct g fields sel inp). split; [exact En|].
                cbn [same_json_targets]. apply in_flat_map. exists fl. split; [exact Hfl|]. rewrite Hemb, Eu. left; reflexivity.
              - apply -> Nat.succ_lt_mono. apply Hrk. exists (DStruct g fields sel inp). split; [exact En|].
                cbn [same_json_targets]. apply in_flat_map. exists fl. split; [exact Hfl|]. rewrite Hemb, Eu. left; reflexivity. }
            exists (S b0). intros m j cur Hj Hm. destruct m as [|f]; [lia|]. rewrite decode_S, En, Enu.
            apply Hb0; [exact Hj | lia].
          - destruct (plain_struct_from_fields N HN n (map (fun fl => (gf_json fl, fl)) fields)) as [b0 Hb0].
            exists (S b0). intros m j cur Hj Hm. destruct m as [|f]; [lia|]. rewrite decode_S, En, Enu.
            apply Hb0; [exact Hj | lia]. }
      all: exists 1; intros m j cur _ Hm; destruct m as [|f]; [lia|]; rewrite decode_S, En; discriminate.
    - (* interface *)
      destruct (iface_from_impls (fun j => jdepth j < S N) n) as [n0 Hn0].
      { intros g sh impls sel impl Ei Hin. apply (IHr (trank (GStruct impl))); [|reflexivity].
        subst r. unfold trank. cbn [unwrap]. apply -> Nat.succ_lt_mono. apply Hrk.
        exists (DIface g sh impls sel). split; [exact Ei | exact Hin]. }
      exists (S n0). intros m j cur Hj Hm. destruct m as [|f]; [lia|]. rewrite decode_S.
      apply Hn0; [exact Hj | lia].
    - (* slice: the elements are strictly inside *)
      destruct (HN e) as [n Hn]. exists (S n). intros m j cur Hj Hm. destruct m as [|f]; [lia|]. rewrite decode_S.
      destruct j; try discriminate.
      apply defined_bind; [|intros; discriminate]. apply map_res_defined_in. intros x Hx.
      apply Hn; [|lia]. pose proof (jdepth_arr_in l x Hx). lia.
    - (* pointer: same value, smaller type expression *)
      destruct (IHs (tsize e) ltac:(subst s; cbn [tsize]; lia) e eq_refl Er) as [n Hn].
      exists (S n). intros m j cur Hj Hm. destruct m as [|f]; [lia|]. rewrite decode_S.
      destruct j; try discriminate; (apply defined_bind; [apply Hn; [exact Hj | lia] | intros; discriminate]).
    - exists 1. intros m j cur _ Hm. destruct m as [|f]; [lia|]. rewrite decode_S. discriminate.
  Qed.

  Lemma all_depths : forall N t, Dp (fun j => jdepth j < N) t.
  Proof.
    induction N as [|N IH].
    - intro t. exists 0. intros m j cur Hj. lia.
    - apply depth_step, IH.
  Qed.
End Term.

(* ------------------------------------------------------------------------------------------ *)
(* the theorems                                                                               *)
(* ------------------------------------------------------------------------------------------ *)

(* the fuel needed depends on the JSON value only through its nesting depth *)
Theorem decode_terminates_depth : forall tm, same_json_acyclic tm -> forall w t d,
  exists n, forall m j cur, jdepth j <= d -> (n <= m)%nat -> defined (decode tm w m t j cur).
Proof.
  intros tm [rk Hrk] w t d. destruct (all_depths tm w rk Hrk (S d) t) as [n Hn].
  exists n. intros m j cur Hj Hm. apply Hn; [lia | exact Hm].
Qed.

Theorem decode_terminates : forall tm, same_json_acyclic tm -> forall w t j cur,
  exists n, forall m, (n <= m)%nat -> defined (decode tm w m t j cur).
Proof.
  intros tm Hac w t j cur. destruct (decode_terminates_depth tm Hac w t (jdepth j)) as [n Hn].
  exists n. intros m Hm. apply Hn; [lia | exact Hm].
Qed.

Theorem unmarshal_iface_terminates : forall tm, same_json_acyclic tm -> forall w i j cur,
  exists n, forall m, (n <= m)%nat -> defined (unmarshal_iface tm w m i j cur).
Proof.
  intros tm [rk Hrk] w i j cur.
  destruct (iface_from_impls tm w (fun j' => jdepth j' < S (jdepth j)) i) as [n Hn].
  { intros g sh impls sel impl _ _. apply (all_depths tm w rk Hrk). }
  exists n. intros m Hm. apply Hn; [lia | exact Hm].
Qed.

Theorem fill_terminates : forall tm, same_json_acyclic tm -> forall w k p leaf c cur,
  exists n, forall m, (n <= m)%nat -> defined (fill tm w m k p leaf c cur).
Proof.
  intros tm [rk Hrk] w k p leaf c cur.
  destruct (fill_from_leaves tm w (S (rdepth c))) with (leaf := leaf) (p := p) (k := k) as [n Hn].
  - apply (all_depths tm w rk Hrk).
  - intro i. apply iface_from_impls. intros. apply (all_depths tm w rk Hrk).
  - exists n. intros m Hm. apply Hn; [lia | exact Hm].
Qed.

Theorem plain_struct_terminates : forall tm, same_json_acyclic tm -> forall w n fields j cur,
  exists b, forall m, (b <= m)%nat -> defined (plain_struct tm w m n fields j cur).
Proof.
  intros tm [rk Hrk] w n fields j cur.
  destruct (plain_struct_from_fields tm w (jdepth j) (all_depths tm w rk Hrk (jdepth j)) n fields) as [b0 Hb].
  exists b0. intros m Hm. apply Hb; [lia | exact Hm].
Qed.

(* for ANY field list: the embedded fields' types are decoded by [decode], which terminates *)
Theorem unmarshal_struct_terminates : forall tm, same_json_acyclic tm -> forall w n fields j cur,
  exists b, forall m, (b <= m)%nat -> defined (unmarshal_struct tm w m n fields j cur).
Proof.
  intros tm [rk Hrk] w n fields j cur.
  destruct (unmarshal_struct_from_fields tm w (jdepth j)) with (n := n) (fields := fields) as [b0 Hb].
  - apply (all_depths tm w rk Hrk).
  - apply fill_from_leaves; [apply (all_depths tm w rk Hrk)|].
    intro i. apply iface_from_impls. intros. apply (all_depths tm w rk Hrk).
  - intros fl _ _. apply (all_depths tm w rk Hrk).
  - exists b0. intros m Hm. apply Hb; [lia | exact Hm].
Qed.

(* with fuel monotonicity: one result, from some fuel on *)
Corollary decode_total : forall tm, same_json_acyclic tm -> forall w t j cur,
  exists n r, r <> OutOfFuel /\ forall m, (n <= m)%nat -> decode tm w m t j cur = r.
Proof.
  intros tm Hac w t j cur. destruct (decode_terminates tm Hac w t j cur) as [n Hn].
  exists n, (decode tm w n t j cur). split; [exact (Hn n (Nat.le_refl n))|].
  intros m Hm. replace m with ((m - n) + n) by lia.
  apply decode_fuel_irrelevant. exact (Hn n (Nat.le_refl n)).
Qed.

(* ------------------------------------------------------------------------------------------ *)
(* non-vacuity: a recursive type map passes the check                                         *)
(* ------------------------------------------------------------------------------------------ *)
Definition r_str : gotype := GOpaque (b "string") (b "String") [] [].
Definition r_fId : gofield := {| gf_name := b "Id"; gf_type := r_str; gf_json := b "id"; gf_gql := b "id"; gf_omitempty := false |}.
Definition r_fNext : gofield := {| gf_name := b "Next"; gf_type := GPtr (GStruct (b "T")); gf_json := b "next"; gf_gql := b "next"; gf_omitempty := false |}.
Definition r_fKids : gofield := {| gf_name := b "Kids"; gf_type := GSlice (GStruct (b "T")); gf_json := b "kids"; gf_gql := b "kids"; gf_omitempty := false |}.
Definition r_fPet : gofield := {| gf_name := b "Pet"; gf_type := GIface (b "TPetAnimal"); gf_json := b "pet"; gf_gql := b "pet"; gf_omitempty := false |}.
Definition r_fTn : gofield := {| gf_name := b "Typename"; gf_type := r_str; gf_json := b "__typename"; gf_gql := b "__typename"; gf_omitempty := false |}.
Definition r_fFrag : gofield := {| gf_name := []; gf_type := GStruct (b "DogFrag"); gf_json := []; gf_gql := []; gf_omitempty := false |}.
Definition r_fName : gofield := {| gf_name := b "Name"; gf_type := r_str; gf_json := b "name"; gf_gql := b "name"; gf_omitempty := false |}.
Definition r_fOwner : gofield := {| gf_name := b "Owner"; gf_type := GPtr (GStruct (b "T")); gf_json := b "owner"; gf_gql := b "owner"; gf_omitempty := false |}.

Definition r_tm : typemap :=
  [ (b "T", DStruct (b "T") [r_fId; r_fNext; r_fKids; r_fPet] [] false);
    (b "TPetAnimal", DIface (b "Animal") [] [b "TPetDog"; b "TPetCat"] []);
    (b "TPetDog", DStruct (b "Dog") [r_fTn; r_fFrag] [] false);
    (b "TPetCat", DStruct (b "Cat") [r_fTn] [] false);
    (b "DogFrag", DStruct (b "Dog") [r_fName; r_fOwner] [] false) ].

Example r_tm_acyclicb : same_json_acyclicb r_tm = true.
Proof. vm_compute. reflexivity. Qed.

Example r_tm_acyclic : same_json_acyclic r_tm.
Proof. apply same_json_acyclicb_sound. vm_compute. reflexivity. Qed.

Definition r_resp : jval :=
  JObj [(b "id", JStr (b "1"));
        (b "next", JObj [(b "id", JStr (b "2")); (b "next", JNull); (b "kids", JArr []);
                         (b "pet", JObj [(b "__typename", JStr (b "Dog")); (b "name", JStr (b "Rex"));
                                         (b "owner", JObj [(b "id", JStr (b "3"))])])]);
        (b "kids", JArr [JObj [(b "id", JStr (b "4")); (b "kids", JArr [JObj [(b "id", JStr (b "5"))]])]])].

Example r_resp_decodes : exists v, decode r_tm true 20 (GStruct (b "T")) r_resp (VStruct (b "T") []) = Ok v.
Proof. eexists. vm_compute. reflexivity. Qed.

Example r_tm_total : forall w t j cur,
  exists n r, r <> OutOfFuel /\ forall m, (n <= m)%nat -> decode r_tm w m t j cur = r.
Proof. exact (decode_total r_tm r_tm_acyclic). Qed.

(* ------------------------------------------------------------------------------------------ *)
(* the hypothesis is needed: a struct embedding itself is decoded forever                     *)
(* ------------------------------------------------------------------------------------------ *)
Definition loop_fA : gofield := {| gf_name := []; gf_type := GStruct (b "A"); gf_json := []; gf_gql := []; gf_omitempty := false |}.
Definition loop_tm : typemap := [ (b "A", DStruct (b "A") [loop_fA] [] false) ].

Example loop_tm_checkb : same_json_acyclicb loop_tm = false.
Proof. vm_compute. reflexivity. Qed.

Example loop_tm_cyclic : ~ same_json_acyclic loop_tm.
Proof.
  intros [rk Hrk]. assert (H : rk (b "A") < rk (b "A")); [|lia].
  apply Hrk. exists (DStruct (b "A") [loop_fA] [] false). split; [reflexivity | left; reflexivity].
Qed.

Example loop_tm_5 : decode loop_tm true 5 (GStruct (b "A")) (JObj []) (VStruct (b "A") []) = OutOfFuel.
Proof. vm_compute. reflexivity. Qed.
Example loop_tm_50 : decode loop_tm true 50 (GStruct (b "A")) (JObj []) (VStruct (b "A") []) = OutOfFuel.
Proof. vm_compute. reflexivity. Qed.
Example loop_tm_500 : decode loop_tm true 500 (GStruct (b "A")) (JObj []) (VStruct (b "A") []) = OutOfFuel.
Proof. vm_compute. reflexivity. Qed.

Theorem loop_tm_diverges : forall n cur, decode loop_tm true n (GStruct (b "A")) (JObj []) cur = OutOfFuel.
Proof.
  induction n as [n IH] using lt_wf_ind. intro cur.
  destruct n as [|[|f]]; [reflexivity | reflexivity |].
  assert (Ea : assoc (b "A") loop_tm = Some (DStruct (b "A") [loop_fA] [] false)) by reflexivity.
  rewrite decode_S, Ea. cbv beta match.
  change (struct_needs_unmarshal [loop_fA]) with true. cbv beta match.
  rewrite unmarshal_struct_S. cbn -[decode fill b].
  rewrite (IH f) by lia. reflexivity.
Qed.

(* so no fuel is ever enough, although the struct is found and the JSON is the empty object *)
Corollary loop_tm_never_defined : forall cur,
  ~ exists n, forall m, (n <= m)%nat -> defined (decode loop_tm true m (GStruct (b "A")) (JObj []) cur).
Proof. intros cur [n Hn]. apply (Hn n (Nat.le_refl n)). apply loop_tm_diverges. Qed.

Print Assumptions decode_total.
Print Assumptions same_json_acyclicb_sound.
Print Assumptions loop_tm_diverges.
Print Assumptions decode_terminates.
