From Verif Require Import Base.Str Gen.Consts Gen.Casing Gen.Gql Gen.Directive Gen.Convert Gen.Wf.
From Coq Require Import Arith PeanoNat.

(* ================= precedence: node > for > operation ================= *)
Definition first_set (l : list (option bool)) : option bool :=
  (fix go (l : list (option bool)) := match l with [] => None | Some v :: _ => Some v | None :: r => go r end) l.
Definition first_nonempty (l : list str) : str :=
  (fix go (l : list str) := match l with [] => [] | ((_ :: _) as v) :: _ => v | [] :: r => go r end) l.

Definition for_entry (key : option (str * str)) (Q : fulldir) : dir :=
  match key with
  | Some (tn, fn) => match lookup_for (fd_for Q) tn fn with Some x => x | None => dir0 end
  | None => dir0
  end.

Lemma fill_b_first t ds : fill_b t ds = first_set (t :: ds).
Proof. destruct t; reflexivity. Qed.
Lemma fill_s_first t ds : fill_s t ds = first_nonempty (t :: ds).
Proof. destruct t; reflexivity. Qed.

(* the merged options of a node: for each option the first that is set, in the documented order *)
Theorem merge_precedence key d Q :
  let f := for_entry key Q in let q := fd_main Q in
  let m := merge key d Q in
  d_omitempty m = first_set [d_omitempty d; d_omitempty f; d_omitempty q]
  /\ d_pointer m = first_set [d_pointer d; d_pointer f; d_pointer q]
  /\ d_bind m = first_nonempty [d_bind d; d_bind f; d_bind q]
  /\ d_alias m = first_nonempty [d_alias d; d_alias f; d_alias q]
  (* typename is not inherited from the operation (there it names the response type) *)
  /\ d_typename m = first_nonempty [d_typename d; d_typename f]
  (* struct and flatten cannot be set through `for` *)
  /\ d_struct m = first_set [d_struct d; d_struct q]
  /\ d_flatten m = first_set [d_flatten d; d_flatten q].
Proof.
  cbn zeta. unfold merge, for_entry. cbn [d_omitempty d_pointer d_bind d_alias d_typename d_struct d_flatten].
  rewrite !fill_b_first, !fill_s_first. repeat split; reflexivity.
Qed.

(* a node that is neither a field nor an input-object field never sees a `for` entry *)
Lemma merge_no_key Q : for_entry None Q = dir0.
Proof. reflexivity. Qed.

(* an option set on the node itself always wins *)
Corollary node_option_wins key d Q v :
  d_pointer d = Some v -> d_pointer (merge key d Q) = Some v.
Proof. intro H. destruct (merge_precedence key d Q) as (_ & P & _). rewrite P, H. reflexivity. Qed.

(* ================= the scan: options never leak past a non-comment line ================= *)
(* whatever stands above the first non-comment line above the node is never read *)
Theorem scan_stops block above D h :
  Forall (fun l => match l with LOther => False | _ => True end) block ->
  scan (block ++ LOther :: above) D h = scan block D h.
Proof.
  revert D h. induction block as [|l r IH]; intros D h F; cbn; [reflexivity|].
  inversion F as [|? ? Hl Fr]; subst. destruct l as [args| | |]; try reflexivity.
  - destruct (add D args); cbn; [apply IH; exact Fr | reflexivity | reflexivity | reflexivity].
  - apply IH. exact Fr.
Qed.

(* plain comments between / around directive lines change nothing *)
Theorem scan_skips_comments a c D h :
  scan (a ++ LComment :: c) D h = match scan a D h with
                                   | Ok (D', h') => if existsb (fun l => match l with LOther => true | _ => false end) a
                                                    then Ok (D', h') else scan c D' h'
                                   | e => e
                                   end.
Proof.
  revert D h. induction a as [|l r IH]; intros D h; cbn; [reflexivity|].
  destruct l as [args| | |]; cbn.
  - destruct (add D args); cbn; [apply IH | reflexivity | reflexivity | reflexivity].
  - reflexivity.
  - apply IH.
  - reflexivity.
Qed.

(* ================= add: conflicts and unknown arguments ================= *)
(* two directive lines (or one line twice) giving the same option to one node: never accepted *)
Lemma add_args_pointer_conflict args : forall d v x,
  d_pointer d = Some v -> In (b "pointer", x) args -> forall d', add_args args d <> Ok d'.
Proof.
  induction args as [|[n y] r IH]; intros d v x Hp Hin d'; [destruct Hin|].
  assert (forall k, k <> b "pointer" -> str_eqb n k = true -> In (b "pointer", x) r) as Hr.
  { intros k Hk E. destruct Hin as [Hin|Hin]; [|exact Hin]. injection Hin as -> _.
    apply str_eqb_eq in E. congruence. }
  cbn [add_args].
  destruct (str_eqb n (b "omitempty")) eqn:E1.
  { destruct (set_bool (d_omitempty d) y); cbn [bind]; try discriminate.
    eapply IH; [|eapply Hr; [|exact E1]; discriminate]. cbn. exact Hp. }
  destruct (str_eqb n (b "pointer")) eqn:E2.
  { rewrite Hp. cbn. discriminate. }
  destruct (str_eqb n (b "struct")) eqn:E3.
  { destruct (set_bool (d_struct d) y); cbn [bind]; try discriminate.
    eapply IH; [|eapply Hr; [|exact E3]; discriminate]. cbn. exact Hp. }
  destruct (str_eqb n (b "flatten")) eqn:E4.
  { destruct (set_bool (d_flatten d) y); cbn [bind]; try discriminate.
    eapply IH; [|eapply Hr; [|exact E4]; discriminate]. cbn. exact Hp. }
  destruct (str_eqb n (b "bind")) eqn:E5.
  { destruct (set_string (d_bind d) y); cbn [bind]; try discriminate.
    eapply IH; [|eapply Hr; [|exact E5]; discriminate]. cbn. exact Hp. }
  destruct (str_eqb n (b "typename")) eqn:E6.
  { destruct (set_string (d_typename d) y); cbn [bind]; try discriminate.
    eapply IH; [|eapply Hr; [|exact E6]; discriminate]. cbn. exact Hp. }
  destruct (str_eqb n (b "alias")) eqn:E7.
  { destruct (set_string (d_alias d) y); cbn [bind]; try discriminate.
    eapply IH; [|eapply Hr; [|exact E7]; discriminate]. cbn. exact Hp. }
  destruct (str_eqb n s_for) eqn:E8.
  { eapply IH; [exact Hp | eapply Hr; [|exact E8]; discriminate]. }
  discriminate.
Qed.

Theorem add_conflict D args v x :
  d_pointer (fd_main D) = Some v -> find_for args [] = Ok [] -> In (b "pointer", x) args ->
  forall D', add D args <> Ok D'.
Proof.
  intros Hp Hf Hin D'. unfold add. rewrite Hf. cbn [bind].
  destruct (add_args args (fd_main D)) as [m| | |] eqn:A; cbn [bind]; try discriminate.
  exfalso. eapply add_args_pointer_conflict; eassumption.
Qed.

Theorem add_unknown_argument D n v :
  ~ In n [b "omitempty"; b "pointer"; b "struct"; b "flatten"; b "bind"; b "typename"; b "alias"; b "for"] ->
  add D [(n, v)] = Err EDIR.
Proof.
  intro H. unfold add. cbn [find_for].
  assert (forall k, In k [b "omitempty"; b "pointer"; b "struct"; b "flatten"; b "bind"; b "typename"; b "alias"; b "for"] -> str_eqb n k = false) as Hn.
  { intros k Hk. apply str_eqb_neq. intro E. subst. contradiction. }
  rewrite (Hn s_for) by (cbn; tauto). cbn [bind add_args].
  rewrite !Hn by (cbn; tauto). reflexivity.
Qed.

(* ================= validate: options where the documentation says they do not apply ================= *)
Theorem validate_field_omitempty sch frags tb sub D v :
  d_omitempty (fd_main D) = Some v -> forallb (validate_for_entry sch) (fd_for D) = true ->
  validate sch frags (NField tb sub) D = Err EDIR.
Proof. intros H F. unfold validate. rewrite F, H. reflexivity. Qed.

Theorem validate_variable_nonnull_omitempty sch frags D v :
  d_omitempty (fd_main D) = Some v -> exists e, validate sch frags (NVar true) D = Err e.
Proof. intro H. unfold validate. destruct (forallb _ _); cbn; [rewrite H; cbn; eauto | eauto]. Qed.

Theorem validate_operation_bind sch frags D c r :
  d_bind (fd_main D) = c :: r -> exists e, validate sch frags NOp D = Err e.
Proof. intro H. unfold validate. destruct (forallb _ _); cbn; [rewrite H; cbn; eauto | eauto]. Qed.

Theorem validate_for_struct_flatten sch frags n D tn fn d v :
  In (tn, fn, d) (fd_for D) -> (d_struct d = Some v \/ d_flatten d = Some v) ->
  exists e, validate sch frags n D = Err e.
Proof.
  intros Hin Hs. unfold validate.
  assert (forallb (validate_for_entry sch) (fd_for D) = false) as ->.
  { apply Bool.not_true_iff_false. intro F. rewrite forallb_forall in F. specialize (F _ Hin).
    unfold validate_for_entry in F. destruct (find_type sch tn); [|discriminate].
    destruct Hs as [Hs|Hs]; rewrite Hs in F; cbn in F; rewrite ?Bool.orb_true_r in F; cbn in F;
      rewrite Bool.andb_false_r in F; try discriminate; cbn in F; discriminate. }
  cbn. eauto.
Qed.

Theorem validate_inline_or_spread sch frags D :
  forallb (validate_for_entry sch) (fd_for D) = true -> validate sch frags NOtherNode D = Err EDIR.
Proof. intro F. unfold validate. rewrite F. reflexivity. Qed.

(* the per-node check runs BEFORE the merge: an operation-level omitempty reaches a non-null
   variable without any error (the documentation says omitempty only applies to nullable arguments) *)
Theorem operation_omitempty_reaches_nonnull_variable :
  exists sch frags srcs Q D,
    parse_preceding sch frags srcs (NVar true) None None (Some Q) = Ok D
    /\ d_omitempty (fd_main D) = Some true.
Proof.
  exists [], [], [], {| fd_main := set_omitempty dir0 (Some true); fd_for := [] |}.
  eexists. split; [vm_compute; reflexivity | reflexivity].
Qed.

(* ================= the line index of parsePrecedingComment ================= *)
(* `sourceLines[i-1]` for i from pos.Line-1 down: in range iff line-1 <= number of lines *)
Lemma lines_above_out_of_range : forall src line,
  (List.length src < N.to_nat line - 1)%nat -> exists m, lines_above src line = Panic m.
Proof.
  intros src line H. unfold lines_above. apply Nat.ltb_lt in H. rewrite H. eexists. reflexivity.
Qed.

Lemma lines_above_in_range : forall src line,
  (N.to_nat line - 1 <= List.length src)%nat -> exists l, lines_above src line = Ok l.
Proof.
  intros src line H. unfold lines_above.
  destruct (Nat.ltb (List.length src) (N.to_nat line - 1)) eqn:E.
  - apply Nat.ltb_lt in E. exfalso. exact (Nat.lt_irrefl _ (Nat.lt_le_trans _ _ _ E H)).
  - eexists. reflexivity.
Qed.

(* the two cases are exhaustive: the scan's input is defined exactly for positions inside the source *)
Theorem lines_above_panics_iff src line :
  (exists m, lines_above src line = Panic m) <-> (List.length src < N.to_nat line - 1)%nat.
Proof.
  split; [|apply lines_above_out_of_range].
  intros [m H]. destruct (Nat.lt_ge_cases (List.length src) (N.to_nat line - 1)) as [L|G]; [exact L|].
  destruct (lines_above_in_range src line G) as [l E]. rewrite E in H. discriminate H.
Qed.

(* the boolean check of Gen/Wf.v is exactly "in range" *)
Lemma lines_above_pos_ok srcs s line :
  pos_okb srcs s line = true -> exists l, lines_above (nth s srcs []) line = Ok l.
Proof. intro H. apply lines_above_in_range. apply Nat.leb_le. exact H. Qed.

Lemma lines_above_pos_bad srcs s line :
  pos_okb srcs s line = false -> exists m, lines_above (nth s srcs []) line = Panic m.
Proof. intro H. apply lines_above_out_of_range. apply Nat.leb_gt. exact H. Qed.

(* the position handed to parsePrecedingComment (None: synthesised node) is inside its source *)
Definition pos_in_range (srcs : list (list lkind)) (pos : option (nat * N)) : Prop :=
  match pos with Some (s, line) => pos_okb srcs s line = true | None => True end.

Lemma pos_of_in_range srcs src line : pos_okb srcs src line = true -> pos_in_range srcs (pos_of src line).
Proof. intro H. unfold pos_of. destruct (N.eqb line 0); [exact I | exact H]. Qed.

(* ================= the Go type of a field or parameter ================= *)
Section Shape.
  Variable sch : schema.
  Variable cfg : config.
  Variable frags : list fragment.
  Variable srcs : list (list lkind).

  (* the documented function from (GraphQL type, options in force, configuration) to the
     wrappers around the named type's Go type [inner] *)
  Fixpoint doc_wrap (t : tyref) (o : dir) (struct_kind : bool) (inner : gotype) : gotype :=
    match t with
    | TList e _ => GSlice (doc_wrap e o struct_kind inner)                (* list -> slice, at every depth *)
    | TNamed _ nn =>
        if cfg_struct_refs cfg && struct_kind then                         (* use_struct_references *)
          match d_pointer o with Some false => inner | _ => GPtr inner end
        (* a pointer applies: `pointer: true`, or `optional: pointer` on a nullable type unless `pointer: false` *)
        else if negb (pointer_is_false o) && (get_b (d_pointer o) || (negb nn && N.eqb (cfg_optional cfg) 1)) then GPtr inner
        (* `optional: generic` on a nullable type, unless a pointer applies *)
        else if negb nn && N.eqb (cfg_optional cfg) 2 then GGeneric (cfg_generic_type cfg) inner
        else inner
    end.

  Definition local_bind (o : dir) : bool := nonempty (d_bind o) && negb (str_eqb (d_bind o) (b "-")).
  Definition struct_kind_of (n : str) : bool :=
    match find_type sch n with
    | Some def => match td_kind def with KObject | KInput => true | _ => false end
    | None => false
    end.

  Lemma convert_type_unfold f src prefix t sels o Q tm :
    convert_type sch cfg frags srcs (S f) src prefix t sels o Q tm =
    if nonempty (d_bind o) && negb (str_eqb (d_bind o) (b "-"))
    then Ok (GOpaque (d_bind o) (ty_base t) [] [], o, tm)
    else
      match t with
      | TList e _ =>
          do (r, tm') <- convert_type sch cfg frags srcs f src prefix e sels o Q tm;
          let '(g, o0) := r in Ok (GSlice g, o0, tm')
      | TNamed n nn =>
          match find_type sch n with
          | None => Panic (b "convertType: schema.Types[name] is nil")
          | Some def =>
              do (g, tm') <- convert_definition sch cfg frags srcs f src prefix def sels o Q tm;
              if struct_ref cfg def then
                let g' := match d_pointer o with Some false => g | _ => GPtr g end in
                let o' := match d_omitempty o with Some false => o | _ => set_omitempty o (Some true) end in
                Ok (g', o', tm')
              else if negb (pointer_is_false o) && (get_b (d_pointer o) || (negb nn && N.eqb (cfg_optional cfg) 1))
              then Ok (GPtr g, o, tm')
              else if negb nn && N.eqb (cfg_optional cfg) 2
              then Ok (GGeneric (cfg_generic_type cfg) g, o, tm')
              else Ok (g, o, tm')
          end
      end.
  Proof. reflexivity. Qed.

  Theorem convert_type_shape fuel : forall src prefix t sels o Q tm g o' tm',
    convert_type sch cfg frags srcs fuel src prefix t sels o Q tm = Ok (g, o', tm') ->
    if local_bind o then g = GOpaque (d_bind o) (ty_base t) [] []         (* bind: the whole field type *)
    else exists f' def inner tm0,
        find_type sch (ty_base t) = Some def
        /\ convert_definition sch cfg frags srcs f' src prefix def sels o Q tm0 = Ok (inner, tm')
        /\ g = doc_wrap t o (struct_kind_of (ty_base t)) inner.
  Proof.
    induction fuel as [|f IH]; intros src prefix t sels o Q tm g o' tm' H; [discriminate|].
    rewrite convert_type_unfold in H. unfold local_bind.
    destruct (nonempty (d_bind o) && negb (str_eqb (d_bind o) (b "-"))) eqn:LB.
    - inversion H; subst. reflexivity.
    - destruct t as [n nn|e nn].
      + cbn [ty_base doc_wrap]. unfold struct_kind_of.
        destruct (find_type sch n) as [def|] eqn:FT; [|discriminate].
        destruct (convert_definition sch cfg frags srcs f src prefix def sels o Q tm) as [[inner tm1]| | |] eqn:CD; try discriminate.
        cbn [bind] in H. exists f, def, inner, tm. split; [reflexivity|].
        unfold struct_ref in H.
        destruct (cfg_struct_refs cfg && match td_kind def with KObject | KInput => true | _ => false end) eqn:SR.
        * inversion H; subst. split; [exact CD|].
          destruct (d_pointer o) as [[|]|]; reflexivity.
        * destruct (negb (pointer_is_false o) && (get_b (d_pointer o) || negb nn && (cfg_optional cfg =? 1)%N)) eqn:P1.
          -- inversion H; subst. split; [exact CD | reflexivity].
          -- destruct (negb nn && (cfg_optional cfg =? 2)%N) eqn:P2; inversion H; subst; (split; [exact CD | reflexivity]).
      + destruct (convert_type sch cfg frags srcs f src prefix e sels o Q tm) as [[[g1 o1] tm1]| | |] eqn:CT; try discriminate.
        cbn [bind] in H. inversion H; subst.
        apply IH in CT. unfold local_bind in CT. rewrite LB in CT.
        destruct CT as (f' & def & inner & tm0 & FT & CD & ->).
        exists f', def, inner, tm0. cbn [ty_base doc_wrap]. auto.
  Qed.
End Shape.
