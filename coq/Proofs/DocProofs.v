From Verif Require Import Base.Str Gen.Gql Gen.Doc.
From Coq Require Import Lia.

(* ---------- induction over selections ---------- *)
Section SelInd.
  Variable P : sel -> Prop.
  Hypothesis HF : forall a n t p e sub l, Forall P sub -> P (SField a n t p e sub l).
  Hypothesis HI : forall c e sub l, Forall P sub -> P (SInline c e sub l).
  Hypothesis HS : forall n e l, P (SSpread n e l).
  Fixpoint sel_ind' (s : sel) : P s :=
    match s with
    | SField a n t p e sub l =>
        HF a n t p e sub l ((fix go (l0 : list sel) : Forall P l0 :=
          match l0 with [] => Forall_nil P | x :: r => Forall_cons x (sel_ind' x) (go r) end) sub)
    | SInline c e sub l =>
        HI c e sub l ((fix go (l0 : list sel) : Forall P l0 :=
          match l0 with [] => Forall_nil P | x :: r => Forall_cons x (sel_ind' x) (go r) end) sub)
    | SSpread n e l => HS n e l
    end.
End SelInd.

(* ================= preprocess ================= *)
Section PreProofs.
  Variable sch : schema.
  Hypothesis string_not_abstract : is_abstract sch (b "String") = false.

  Lemma is_typename_pre s : is_typename_field (pre_sel sch s) = is_typename_field s.
  Proof. destruct s; reflexivity. Qed.

  Lemma has_typename_pre l : has_typename (map (pre_sel sch) l) = has_typename l.
  Proof.
    unfold has_typename. induction l as [|x r IH]; cbn; [reflexivity|].
    rewrite is_typename_pre, IH. reflexivity.
  Qed.

  Lemma is_synth_pre s : is_synth (pre_sel sch s) = is_synth s.
  Proof. destruct s; reflexivity. Qed.

  Lemma user_not_synth s : user_sel s = true -> is_synth s = false.
  Proof.
    destruct s as [a n t p e sub l|c e sub l|n e l]; cbn; try reflexivity.
    intro H. apply andb_prop in H as [H _]. destruct (N.eqb l 0); [discriminate|].
    apply andb_false_r.
  Qed.

  Lemma synth_is_synth p : is_synth (synth_typename p) = true.
  Proof. reflexivity. Qed.

  (* removing the synthesised fields from the preprocessed document gives back the user's
     document exactly: names, aliases, arguments, directives, type conditions, order *)
  Lemma strip_pre_sel s : user_sel s = true -> strip_sel (pre_sel sch s) = s.
  Proof.
    induction s as [a n t p e sub l IH|c e sub l IH|n e l] using sel_ind'; intro U; cbn in U |- *.
    - apply andb_prop in U as [_ U]. f_equal.
      assert (flat_map (fun x => if is_synth x then [] else [strip_sel x]) (map (pre_sel sch) sub) = sub) as E.
      { induction sub as [|x r IHr]; cbn; [reflexivity|].
        cbn in U. apply andb_prop in U as [Ux Ur]. inversion IH as [|? ? Px Pr]; subst.
        rewrite is_synth_pre, (user_not_synth x Ux). cbn. rewrite (Px Ux), (IHr Pr Ur). reflexivity. }
      destruct (is_abstract sch (ty_base t) && negb (has_typename (map (pre_sel sch) sub))); cbn; exact E.
    - f_equal. induction sub as [|x r IHr]; cbn; [reflexivity|].
      cbn in U. apply andb_prop in U as [Ux Ur]. inversion IH as [|? ? Px Pr]; subst.
      rewrite is_synth_pre, (user_not_synth x Ux). cbn. rewrite (Px Ux), (IHr Pr Ur). reflexivity.
    - reflexivity.
  Qed.

  Theorem strip_pre_sels l : forallb user_sel l = true -> strip_sels (pre_sels sch l) = l.
  Proof.
    unfold strip_sels, pre_sels. induction l as [|x r IH]; cbn; intro U; [reflexivity|].
    apply andb_prop in U as [Ux Ur].
    rewrite is_synth_pre, (user_not_synth x Ux). cbn. rewrite (strip_pre_sel x Ux), (IH Ur). reflexivity.
  Qed.

  (* every selection set of an interface/union-typed field carries a direct __typename afterwards *)
  Notation typenames_ok := (typenames_ok sch).

  Lemma synth_ok p : typenames_ok (synth_typename p) = true.
  Proof.
    unfold synth_typename. cbn [typenames_ok ty_base forallb has_typename existsb].
    rewrite string_not_abstract. reflexivity.
  Qed.

  Lemma has_typename_synth p l : has_typename (synth_typename p :: l) = true.
  Proof. reflexivity. Qed.

  Theorem pre_typenames_ok s : typenames_ok (pre_sel sch s) = true.
  Proof.
    induction s as [a n t p e sub l IH|c e sub l IH|n e l] using sel_ind'.
    - cbn [pre_sel]. set (sub' := map (pre_sel sch) sub).
      assert (forallb typenames_ok sub' = true) as F.
      { rewrite forallb_forall. intros x Hx. apply in_map_iff in Hx as (y & <- & Hy).
        rewrite Forall_forall in IH. apply IH. exact Hy. }
      destruct (is_abstract sch (ty_base t)) eqn:A; destruct (has_typename sub') eqn:H;
        cbn [andb negb typenames_ok]; rewrite ?A; cbn [negb orb].
      + rewrite H. exact F.
      + rewrite has_typename_synth. cbn [forallb andb]. rewrite synth_ok. exact F.
      + exact F.
      + exact F.
    - cbn [pre_sel typenames_ok]. rewrite forallb_forall. intros x Hx. apply in_map_iff in Hx as (y & <- & Hy).
      rewrite Forall_forall in IH. apply IH. exact Hy.
    - reflexivity.
  Qed.

  (* the insertion is at the front, only on abstract-typed fields without a direct __typename *)
  Inductive ext : sel -> sel -> Prop :=
  | ext_field a n t p e sub sub' l :
      Forall2 ext sub sub' -> ext (SField a n t p e sub l) (SField a n t p e sub' l)
  | ext_field_add a n t p e sub sub' l :
      Forall2 ext sub sub' -> is_abstract sch (ty_base t) = true -> has_typename sub = false ->
      ext (SField a n t p e sub l) (SField a n t p e (synth_typename (ty_base t) :: sub') l)
  | ext_inline c e sub sub' l : Forall2 ext sub sub' -> ext (SInline c e sub l) (SInline c e sub' l)
  | ext_spread n e l : ext (SSpread n e l) (SSpread n e l).

  Theorem pre_ext s : ext s (pre_sel sch s).
  Proof.
    induction s as [a n t p e sub l IH|c e sub l IH|n e l] using sel_ind'; cbn.
    - assert (Forall2 ext sub (map (pre_sel sch) sub)) as F.
      { induction IH as [|x r Px Pr IHr]; cbn; constructor; assumption. }
      rewrite has_typename_pre.
      destruct (is_abstract sch (ty_base t)) eqn:A; cbn; [|constructor; exact F].
      destruct (has_typename sub) eqn:H; cbn; [constructor; exact F|].
      apply ext_field_add; assumption.
    - constructor. induction IH as [|x r Px Pr IHr]; cbn; constructor; assumption.
    - constructor.
  Qed.

  (* preprocessing again changes nothing: the text of an operation does not depend on how many
     operations sharing its fragments were processed before it *)
  Theorem pre_idempotent s : pre_sel sch (pre_sel sch s) = pre_sel sch s.
  Proof.
    induction s as [a n t p e sub l IH|c e sub l IH|n e l] using sel_ind'; cbn.
    - assert (map (pre_sel sch) (map (pre_sel sch) sub) = map (pre_sel sch) sub) as M.
      { induction IH as [|x r Px Pr IHr]; cbn; [reflexivity|]. rewrite Px, IHr. reflexivity. }
      destruct (is_abstract sch (ty_base t)) eqn:A; cbn [andb].
      + destruct (has_typename (map (pre_sel sch) sub)) eqn:H; cbn [negb].
        * rewrite M, H. reflexivity.
        * cbn [map pre_sel ty_base synth_typename]. rewrite string_not_abstract. cbn [andb map].
          rewrite M. cbn. reflexivity.
      + rewrite M. reflexivity.
    - f_equal. induction IH as [|x r Px Pr IHr]; cbn; [reflexivity|]. rewrite Px, IHr. reflexivity.
    - reflexivity.
  Qed.
End PreProofs.

(* ================= usedFragments ================= *)
Section Closure.
  Variable fs : list fragment.
  Variable roots : list str.

  Inductive reach : str -> Prop :=
  | reach_root n : In n roots -> reach n
  | reach_step m n : reach m -> In n (frag_spreads fs m) -> reach n.

  Lemma visit_spec names : forall seen queue,
    exists added, visit seen queue names = (seen ++ added, queue ++ added)
      /\ (forall x, In x added -> In x names /\ ~ In x seen)
      /\ (forall x, In x names -> In x (seen ++ added))
      /\ (NoDup seen -> NoDup (seen ++ added)).
  Proof.
    induction names as [|n r IH]; intros seen queue; cbn.
    - exists []. rewrite !app_nil_r. split; [reflexivity|]. split; [intros y []|]. split; [intros y []|]. auto.
    - destruct (mem_str n seen) eqn:M.
      + destruct (IH seen queue) as (added & E & H1 & H2 & H3). exists added. rewrite E.
        split; [reflexivity|]. split; [|split; [|exact H3]].
        * intros x Hx. destruct (H1 x Hx) as [A B]. split; [right; exact A | exact B].
        * intros x [<-|Hx]; [apply in_or_app; left; apply mem_str_In; exact M | apply H2; exact Hx].
      + destruct (IH (seen ++ [n]) (queue ++ [n])) as (added & E & H1 & H2 & H3).
        exists (n :: added). rewrite E, <- !app_assoc. cbn [app].
        split; [reflexivity|]. split; [|split].
        * intros x [<-|Hx]; [split; [left; reflexivity | apply mem_str_not_In; exact M]|].
          destruct (H1 x Hx) as [A B]. split; [right; exact A|]. intro C. apply B. apply in_or_app. left. exact C.
        * intros x [<-|Hx]; [apply in_or_app; right; left; reflexivity|].
          specialize (H2 x Hx). rewrite <- app_assoc in H2. exact H2.
        * intro ND. rewrite <- app_assoc in H3. apply H3.
          rewrite <- (rev_involutive (seen ++ [n])). apply NoDup_rev. rewrite rev_app_distr. cbn.
          constructor; [rewrite <- in_rev; apply mem_str_not_In; exact M | apply NoDup_rev; exact ND].
  Qed.

  Definition U := universe fs roots.

  Record Inv (seen queue : list str) : Prop := {
    inv_nodup : NoDup seen;
    inv_queue : incl queue seen;
    inv_reach : forall x, In x seen -> reach x;
    inv_roots : incl roots seen;
    inv_closed : forall x, In x seen -> ~ In x queue -> incl (frag_spreads fs x) seen;
    inv_univ : incl seen U;
  }.

  Lemma frag_spreads_in_U m x : In x (frag_spreads fs m) -> In x U.
  Proof.
    unfold frag_spreads, U, universe. intro H. apply in_or_app. right.
    destruct (find_frag fs m) as [f|] eqn:F; [|destruct H].
    apply in_flat_map. exists f. split; [|exact H].
    clear H. induction fs as [|g r IH]; cbn in F; [discriminate|].
    destruct (str_eqb (fr_name g) m); [injection F as <-; left; reflexivity | right; apply IH; exact F].
  Qed.

  Lemma bfs_total fuel : forall seen queue,
    Inv seen queue -> (List.length queue + (List.length U - List.length seen) <= fuel)%nat ->
    exists r, bfs fs fuel seen queue = Some r /\ Inv r [] /\ incl seen r.
  Proof.
    induction fuel as [|fuel IH]; intros seen queue I Hf.
    - destruct queue as [|n q]; [|cbn in Hf; lia]. exists seen. cbn. split; [reflexivity|]. split; [exact I | apply incl_refl].
    - destruct queue as [|n q].
      + exists seen. cbn. split; [reflexivity|]. split; [exact I | apply incl_refl].
      + cbn [bfs]. destruct (visit_spec (frag_spreads fs n) seen q) as (added & E & H1 & H2 & H3). rewrite E.
        assert (Inv (seen ++ added) (q ++ added)) as I'.
        { constructor.
          - apply H3. apply I.
          - intros x Hx. apply in_app_or in Hx as [Hx|Hx]; apply in_or_app; [left; apply (inv_queue _ _ I); right; exact Hx | right; exact Hx].
          - intros x Hx. apply in_app_or in Hx as [Hx|Hx]; [apply (inv_reach _ _ I); exact Hx|].
            apply reach_step with (m := n); [apply (inv_reach _ _ I), (inv_queue _ _ I); left; reflexivity | apply H1; exact Hx].
          - intros x Hx. apply in_or_app. left. apply (inv_roots _ _ I). exact Hx.
          - intros x Hx Hnq y Hy.
            apply in_app_or in Hx as [Hx|Hx].
            + destruct (str_eq_dec x n) as [->|Ne]; [apply H2; exact Hy|].
              apply in_or_app. left. apply (inv_closed _ _ I x Hx); [|exact Hy].
              intros [C|C]; [congruence|]. apply Hnq. apply in_or_app. left. exact C.
            + exfalso. apply Hnq. apply in_or_app. right. exact Hx.
          - intros x Hx. apply in_app_or in Hx as [Hx|Hx]; [apply (inv_univ _ _ I); exact Hx|].
            apply (frag_spreads_in_U n). apply H1. exact Hx. }
        assert (List.length (seen ++ added) <= List.length U)%nat as LU.
        { apply NoDup_incl_length; [apply I' | apply I']. }
        destruct (IH (seen ++ added) (q ++ added) I') as (r & Hr & Ir & Sr).
        { rewrite !app_length in *. cbn in Hf. lia. }
        exists r. split; [exact Hr|]. split; [exact Ir|].
        intros x Hx. apply Sr. apply in_or_app. left. exact Hx.
  Qed.

  Lemma closed_contains_reach r : Inv r [] -> forall n, reach n -> In n r.
  Proof.
    intros I n R. induction R as [n Hn|m n R IH Hs].
    - apply (inv_roots _ _ I). exact Hn.
    - apply (inv_closed _ _ I m IH); [intros [] | exact Hs].
  Qed.
End Closure.

(* usedFragments terminates (no acyclicity of fragments assumed), lists no fragment twice and
   lists exactly the fragments reachable from the operation through spreads *)
Theorem used_fragments_closure fs sels :
  exists r, used_fragments fs sels = Some r
    /\ NoDup r
    /\ forall n, In n r <-> reach fs (spreads_of sels) n.
Proof.
  unfold used_fragments. set (roots := spreads_of sels).
  destruct (visit_spec roots [] []) as (added & E & H1 & H2 & H3). rewrite E. cbn [app].
  assert (Inv fs roots added added) as I.
  { constructor.
    - apply (H3 (NoDup_nil _)).
    - apply incl_refl.
    - intros x Hx. apply reach_root. apply H1. exact Hx.
    - intros x Hx. apply H2. exact Hx.
    - intros x Hx Hn. contradiction.
    - intros x Hx. unfold U, universe. apply in_or_app. left. apply H1. exact Hx. }
  assert (List.length added <= List.length (U fs roots))%nat as LU
    by (apply NoDup_incl_length; apply I).
  destruct (bfs_total fs roots (S (List.length (universe fs roots))) added added I) as (r & Hr & Ir & Sr).
  { unfold U in *. lia. }
  exists r. split; [exact Hr|]. split; [apply Ir|].
  intro n. split; [apply (inv_reach _ _ _ _ Ir) | apply closed_contains_reach; exact Ir].
Qed.
