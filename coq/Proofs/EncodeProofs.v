From Verif Require Import Base.Str Gen.Consts Gen.Gql Gen.Directive Gen.Convert Rt.JsonDecode Rt.JsonEncode Proofs.JsonProofs.
From Coq Require Import ZArith.

Lemma existsb_str_false k seen : existsb (str_eqb k) seen = false -> ~ In k seen.
Proof.
  induction seen as [|s r IH]; cbn [existsb In]; intros H Hin; [exact Hin|].
  apply Bool.orb_false_iff in H. destruct Hin as [E|Hin].
  - subst. rewrite str_eqb_refl in H. destruct H; discriminate.
  - exact (IH (proj2 H) Hin).
Qed.

(* ---- FlattenedFields chooses exactly one Go field per JSON name ---- *)
Lemma flatten_bfs_nodup tm fuel : forall queue seen out,
  flatten_bfs tm fuel queue seen = Ok out ->
  NoDup (map (fun p => gf_json (fst p)) out) /\ (forall p, In p out -> ~ In (gf_json (fst p)) seen).
Proof.
  induction fuel as [|f IH]; intros queue seen out H; [discriminate|]. cbn [flatten_bfs] in H.
  destruct queue as [|[fl path] rest]; [injection H as <-; split; [constructor | intros p []]|].
  destruct (gf_name fl) as [|c nm].
  - destruct (unwrap (gf_type fl)); try discriminate.
    destruct (assoc n tm) as [[g fields s i| | |]|]; try discriminate. exact (IH _ _ _ H).
  - destruct (existsb (str_eqb (gf_json fl)) seen) eqn:E; [exact (IH _ _ _ H)|].
    apply bind_ok in H. destruct H as [more [Hm Ho]]. injection Ho as <-.
    destruct (IH _ _ _ Hm) as [Hnd Hns]. split.
    + cbn [map fst]. constructor; [|exact Hnd].
      intro Hin. apply in_map_iff in Hin. destruct Hin as [p [Ep Hp]].
      apply (Hns p Hp). rewrite Ep. left. reflexivity.
    + intros p [<-|Hp]; cbn [fst].
      * apply existsb_str_false, E.
      * intro Hin. apply (Hns p Hp). right. exact Hin.
Qed.

Theorem flattened_fields_one_per_json_name tm fields out :
  flattened_fields tm fields = Ok out -> NoDup (map (fun p => gf_json (fst p)) out).
Proof. unfold flattened_fields. intro H. exact (proj1 (flatten_bfs_nodup tm FLATTEN_FUEL _ _ _ H)). Qed.

(* ---- the keys a struct marshals are a duplicate-free selection of those names ---- *)
Lemma enc_fields_keys enc enci v : forall fls out,
  enc_fields enc enci v fls = Ok out ->
  (forall k, In k (map fst out) -> In k (map (fun p => gf_json (fst p)) fls))
  /\ (NoDup (map (fun p => gf_json (fst p)) fls) -> NoDup (map fst out)).
Proof.
  induction fls as [|[fl path] r IH]; intros out H; cbn [enc_fields] in H.
  - injection H as <-. split; [intros k [] | intros _; constructor].
  - assert (Hskip : forall out, enc_fields enc enci v r = Ok out ->
        (forall k, In k (map fst out) -> In k (map (fun p => gf_json (fst p)) ((fl, path) :: r)))
        /\ (NoDup (map (fun p => gf_json (fst p)) ((fl, path) :: r)) -> NoDup (map fst out))).
    { intros o Ho. destruct (IH _ Ho) as [Hk Hn]. split.
      - intros k Hin. right. exact (Hk k Hin).
      - intro Hnd. inversion Hnd. apply Hn. assumption. }
    assert (Hkeep : forall j rest, enc_fields enc enci v r = Ok rest ->
        (forall k, In k (map fst ((gf_json fl, j) :: rest)) -> In k (map (fun p => gf_json (fst p)) ((fl, path) :: r)))
        /\ (NoDup (map (fun p => gf_json (fst p)) ((fl, path) :: r)) -> NoDup (map fst ((gf_json fl, j) :: rest)))).
    { intros j rest Hr. destruct (IH _ Hr) as [Hk Hn]. split.
      - intros k [<-|Hin]; [left; reflexivity | right; exact (Hk k Hin)].
      - intro Hnd. inversion Hnd as [|a l Hnotin Hnd']. subst. cbn [map fst]. constructor; [|apply Hn; exact Hnd'].
        intro Hin. apply Hnotin. exact (Hk _ Hin). }
    destruct (special fl).
    + destruct (gf_omitempty fl && special_empty _ _ _); [exact (Hskip _ H)|].
      apply bind_ok in H. destruct H as [j [_ H]]. apply bind_ok in H. destruct H as [rest [Hr H]].
      injection H as <-. exact (Hkeep _ _ Hr).
    + destruct (gf_omitempty fl && is_empty _ _); [exact (Hskip _ H)|].
      apply bind_ok in H. destruct H as [j [_ H]]. apply bind_ok in H. destruct H as [rest [Hr H]].
      injection H as <-. exact (Hkeep _ _ Hr).
Qed.

Theorem encode_struct_keys_once tm fuel n v kvs :
  encode_struct tm fuel n v = Ok kvs -> NoDup (map fst kvs).
Proof.
  destruct fuel as [|f]; [discriminate|]. cbn [encode_struct].
  destruct (assoc n tm) as [[g fields s i| | |]|]; try discriminate. intro H.
  apply bind_ok in H. destruct H as [flat [Hf H]].
  apply (proj2 (enc_fields_keys _ _ _ _ _ H)). exact (flattened_fields_one_per_json_name _ _ _ Hf).
Qed.

Lemma nodup_filter_map {A} (p : str * A -> bool) (l : list (str * A)) :
  NoDup (map fst l) -> NoDup (map fst (filter p l)).
Proof.
  induction l as [|[k x] r IH]; cbn [map filter fst]; intro H; [constructor|].
  inversion H as [|a l' Hnotin Hnd]. subst. destruct (p (k, x)); cbn [map fst]; [|exact (IH Hnd)].
  constructor; [|exact (IH Hnd)]. intro Hin. apply Hnotin.
  apply in_map_iff in Hin. destruct Hin as [q [Eq Hq]]. apply filter_In in Hq. apply in_map_iff. exists q. split; [exact Eq | exact (proj1 Hq)].
Qed.

(* an abstract value marshals to an object that carries `__typename` exactly once, first, with
   the GraphQL name of its concrete type, and every other key at most once *)
Theorem encode_iface_typename tm fuel i impl x j :
  encode_iface tm fuel i (VIface impl x) = Ok j ->
  exists d kvs, assoc impl tm = Some d
    /\ j = JObj ((typename_name, JStr (decl_gql d)) :: kvs)
    /\ ~ In typename_name (map fst kvs)
    /\ NoDup (map fst ((typename_name, JStr (decl_gql d)) :: kvs)).
Proof.
  destruct fuel as [|f]; [discriminate|]. cbn [encode_iface].
  destruct (assoc i tm) as [[| g sh impls sel | |]|]; try discriminate.
  destruct (assoc impl tm) as [d|]; [|discriminate].
  destruct (existsb (str_eqb impl) impls); [|discriminate]. intro H.
  apply bind_ok in H. destruct H as [kvs [Hk H]]. injection H as <-.
  exists d, (filter (fun kv => negb (str_eqb (fst kv) typename_name)) kvs).
  assert (Hnot : ~ In typename_name (map fst (filter (fun kv => negb (str_eqb (fst kv) typename_name)) kvs))).
  { intro Hin. apply in_map_iff in Hin. destruct Hin as [[k y] [Ek Hq]]. cbn [fst] in Ek. subst k.
    apply filter_In in Hq. destruct Hq as [_ Hq]. cbn [fst] in Hq. rewrite str_eqb_refl in Hq. discriminate. }
  repeat split; try reflexivity; try exact Hnot.
  cbn [map fst]. constructor; [exact Hnot|]. apply nodup_filter_map. exact (encode_struct_keys_once _ _ _ _ _ Hk).
Qed.

(* a nil interface marshals as null *)
Theorem encode_iface_nil tm f i : encode_iface tm (S f) i VNilIface = Ok JNull.
Proof. reflexivity. Qed.

(* ---- the documented loss, and the undocumented one ---- *)
Definition redecode (tm : typemap) (t : gotype) (n : str) (j : jval) : res (jval * gval * gval) :=
  do v <- decode tm true 20 t j (VStruct n []);
  do j' <- encode tm 20 t v;
  do v' <- decode tm true 20 t j' (VStruct n []);
  Ok (j', v, v').

(* a response with values round-trips exactly *)
Example w_two_roundtrip :
  exists j' v, redecode w_tm (GStruct (b "QResponse")) (b "QResponse") w_resp_two = Ok (j', v, v)
    /\ j' = JObj [(b "items", JArr [JObj [(b "__typename", JStr (b "B"))];
                                     JObj [(b "__typename", JStr (b "A")); (b "id", JStr (b "7"))]])].
Proof. eexists. eexists. split; vm_compute; reflexivity. Qed.

(* REFUTED: `items: null` (a list of abstract values) re-marshals as `items: []` and the value
   decoded from that differs from the first one: neither half of the statement holds there *)
Theorem null_list_roundtrip_refuted :
  exists tm t n j j' v v',
    redecode tm t n j = Ok (j', v, v')
    /\ j = JObj [(b "items", JNull)] /\ j' = JObj [(b "items", JArr [])].
Proof.
  exists w_tm, (GStruct (b "QResponse")), (b "QResponse"), w_resp_null.
  eexists. eexists. eexists. split; [vm_compute; reflexivity|]. split; reflexivity.
Qed.

(* ---- input structs (C04): keys, omitempty, nil ---- *)
Lemma flatten_bfs_subset tm fuel : forall queue seen out,
  (forall p, In p queue -> gf_name (fst p) <> []) ->
  flatten_bfs tm fuel queue seen = Ok out -> forall p, In p out -> In p queue.
Proof.
  induction fuel as [|f IH]; intros queue seen out Hq H; [discriminate|]. cbn [flatten_bfs] in H.
  destruct queue as [|[fl path] rest]; [injection H as <-; intros p []|].
  assert (Hrest : forall p, In p rest -> gf_name (fst p) <> []) by (intros p Hp; apply Hq; right; exact Hp).
  pose proof (Hq (fl, path) (or_introl eq_refl)) as Hne. cbn [fst] in Hne.
  destruct (gf_name fl) as [|c nm]; [exfalso; apply Hne; reflexivity|].
  destruct (existsb (str_eqb (gf_json fl)) seen).
  - intros p Hp. right. exact (IH _ _ _ Hrest H p Hp).
  - apply bind_ok in H. destruct H as [more [Hm Ho]]. injection Ho as <-.
    intros p [<-|Hp]; [left; reflexivity | right; exact (IH _ _ _ Hrest Hm p Hp)].
Qed.

Lemma flattened_fields_subset tm fields out :
  (forall fl, In fl fields -> gf_name fl <> []) ->
  flattened_fields tm fields = Ok out -> forall p, In p out -> In (fst p) fields.
Proof.
  unfold flattened_fields. intros Hne Hf p Hp.
  assert (Hq : forall p, In p (map (fun fl => (fl, @nil str)) fields) -> gf_name (fst p) <> []).
  { intros q Hin. apply in_map_iff in Hin. destruct Hin as [fl0 [<- Hin]]. cbn [fst]. exact (Hne fl0 Hin). }
  pose proof (flatten_bfs_subset tm FLATTEN_FUEL _ _ _ Hq Hf p Hp) as Hin.
  apply in_map_iff in Hin. destruct Hin as [fl0 [<- Hin]]. exact Hin.
Qed.

(* the variables object has a key only for declared variables (the fields of the hidden input
   struct), each at most once *)
Theorem input_struct_keys tm f n v kvs g fields s i :
  assoc n tm = Some (DStruct g fields s i) ->
  (forall fl, In fl fields -> gf_name fl <> []) ->
  encode_struct tm (S f) n v = Ok kvs ->
  NoDup (map fst kvs) /\ forall k, In k (map fst kvs) -> In k (map gf_json fields).
Proof.
  intros Ha Hne H. split; [exact (encode_struct_keys_once _ _ _ _ _ H)|].
  cbn [encode_struct] in H. rewrite Ha in H. apply bind_ok in H. destruct H as [flat [Hf H]].
  intros k Hk. apply (proj1 (enc_fields_keys _ _ _ _ _ H)) in Hk.
  apply in_map_iff in Hk. destruct Hk as [[fl path] [Ek Hp]]. cbn [fst] in Ek. subst k.
  apply in_map. exact (flattened_fields_subset _ _ _ Hne Hf _ Hp).
Qed.

(* omitempty, exactly: an ordinary field's key is present iff NOT (marked omitempty and empty in
   the encoding/json sense) *)
Theorem ordinary_field_omitted_iff_empty enc enci v : forall fls out,
  enc_fields enc enci v fls = Ok out ->
  NoDup (map (fun p => gf_json (fst p)) fls) ->
  forall fl path, In (fl, path) fls -> special fl = false ->
  (In (gf_json fl) (map fst out)
   <-> gf_omitempty fl && is_empty (gf_type fl) (struct_field (select_path v path) (gf_name fl)) = false).
Proof.
  induction fls as [|[fl0 path0] r IH]; intros out H Hnd fl path Hin Hsp; [destruct Hin|].
  cbn [enc_fields] in H. inversion Hnd as [|a l Hnotin Hnd']. subst.
  assert (Hkeys : forall o, enc_fields enc enci v r = Ok o -> ~ In (gf_json fl0) (map fst o)).
  { intros o Ho Hk. apply Hnotin. exact (proj1 (enc_fields_keys _ _ _ _ _ Ho) _ Hk). }
  destruct Hin as [E|Hin].
  - injection E as -> ->. rewrite Hsp in H.
    destruct (gf_omitempty fl && is_empty _ _) eqn:Eo.
    + split; [intro Hk; exfalso; exact (Hkeys _ H Hk) | discriminate].
    + apply bind_ok in H. destruct H as [j [_ H]]. apply bind_ok in H. destruct H as [rest [_ H]].
      injection H as <-. split; [reflexivity | intros _; left; reflexivity].
  - assert (Hne : gf_json fl0 <> gf_json fl).
    { intro E. apply Hnotin. rewrite E. apply in_map_iff. exists (fl, path). split; [reflexivity | exact Hin]. }
    assert (Hskip : forall o, enc_fields enc enci v r = Ok o ->
       (In (gf_json fl) (map fst o) <-> gf_omitempty fl && is_empty (gf_type fl) (struct_field (select_path v path) (gf_name fl)) = false))
      by (intros o Ho; exact (IH _ Ho Hnd' fl path Hin Hsp)).
    assert (Hkeep : forall j rest, enc_fields enc enci v r = Ok rest ->
       (In (gf_json fl) (map fst ((gf_json fl0, j) :: rest)) <-> gf_omitempty fl && is_empty (gf_type fl) (struct_field (select_path v path) (gf_name fl)) = false)).
    { intros j rest Hr. rewrite <- (Hskip _ Hr). cbn [map fst In]. split; [intros [E|Hk]; [contradiction | exact Hk] | intro Hk; right; exact Hk]. }
    destruct (special fl0).
    + destruct (gf_omitempty fl0 && special_empty _ _ _); [exact (Hskip _ H)|].
      apply bind_ok in H. destruct H as [j [_ H]]. apply bind_ok in H. destruct H as [rest [Hr H]].
      injection H as <-. exact (Hkeep _ _ Hr).
    + destruct (gf_omitempty fl0 && is_empty _ _); [exact (Hskip _ H)|].
      apply bind_ok in H. destruct H as [j [_ H]]. apply bind_ok in H. destruct H as [rest [Hr H]].
      injection H as <-. exact (Hkeep _ _ Hr).
Qed.

(* "empty in the encoding/json sense": false, 0, "", nil pointer, nil interface, empty slice / map;
   never a struct *)
Theorem is_empty_spec :
  (forall t, is_empty t VNilPtr = true) /\ (forall t, is_empty t VNilSlice = true) /\ (forall t, is_empty t VNilIface = true)
  /\ (forall t, is_empty t (VSlice []) = true) /\ (forall t x l, is_empty t (VSlice (x :: l)) = false)
  /\ (forall t x, is_empty t (VPtr x) = false)
  /\ (forall t, is_empty t (VScalar (JStr [])) = true) /\ (forall t c s, is_empty t (VScalar (JStr (c :: s))) = false)
  /\ (forall t i, is_empty t (VScalar (JNum 0 i)) = true) /\ (forall t, is_empty t (VScalar (JBool false)) = true)
  /\ (forall t, is_empty t (VScalar (JBool true)) = false)
  /\ (forall n fs, is_empty (GStruct n) (VStruct n fs) = false) /\ (forall n, is_empty (GStruct n) VZero = false).
Proof. repeat split; reflexivity. Qed.

(* nil pointers and nil slices are sent as null *)
Theorem nil_is_null tm f e : encode tm (S f) (GPtr e) VNilPtr = Ok JNull /\ encode tm (S f) (GSlice e) VNilSlice = Ok JNull.
Proof. split; reflexivity. Qed.

(* the documented exception: a NON-pointer value with a custom marshaler is never omitted, a nil
   pointer to one is (it is empty in the encoding/json sense) *)
Theorem custom_marshaled_omission v :
  special_empty O false v = false /\ special_empty O true VNilPtr = true /\ (forall x, special_empty O true (VPtr x) = false).
Proof. repeat split; reflexivity. Qed.

(* every element at every list depth goes through the leaf encoder (the marshaler) *)
Theorem enc_levels_maps_leaf n leaf : forall v j,
  enc_levels n leaf v = Ok j ->
  match n, v with
  | O, _ => leaf v = Ok j
  | S k, VSlice l => exists js, map_res (enc_levels k leaf) l = Ok js /\ j = JArr js
  | S _, _ => j = JArr []
  end.
Proof.
  destruct n as [|k]; intros v j H; [exact H|]. cbn [enc_levels] in H.
  destruct v; try (injection H as <-; reflexivity).
  apply bind_ok in H. destruct H as [js [Hm H]]. injection H as <-. exists js. split; [exact Hm | reflexivity].
Qed.
