(* "Marshaling never loops": encoding ANY value of ANY generated type, recursive ones included,
   is defined (anything but OutOfFuel) for every large enough fuel, and all those fuels give the
   same result, provided two EXECUTABLE conditions on the type map hold:

     [flatten_okb]   FlattenedFields (a breadth-first walk with its own fixed fuel) finishes on the
                     field list of every struct declaration; it does not when a struct embeds itself;
     [enc_acyclicb]  no struct contains itself BY VALUE: the graph "struct n has, among its flattened
                     fields, a field whose type is DIRECTLY the struct m (not behind a pointer, a
                     slice or an interface)" has no cycle.

   Why the second one: a recursive call of the encoder either descends into a strict sub-value
   (the pointee, an element, the value inside an interface, the value of a listed field), or
   reads a field that the value does NOT list, which [struct_field] / [select_path] give as
   [VZero].  Encoding VZero at a pointer / slice / interface / scalar type stops at once; at a
   struct type it encodes VZero at every field again.  So only the by-value struct edges can be
   followed forever, and only by the zero value.  Go rejects such a declaration ("invalid
   recursive type"), and a struct that embeds itself, so every type map emitted for compiling Go
   code passes both checks.  The decoder's acyclicity check (Rt/Acyclic.v: embedded fields and
   interface -> implementation) is a DIFFERENT graph: [bv_tm] below passes it and is encoded forever.

   The measure: (size of the value; for the zero value the rank of the struct).  The prefix
   `[]` / `*` of an opaque reference needs no measure of its own: the peeled type is a slice or a
   pointer type, and those hand on strict sub-values only. *)
From Verif Require Import Base.Str Gen.Consts Gen.Gql Gen.Directive Gen.Convert Rt.JsonDecode Rt.Acyclic Rt.JsonEncode Rt.EncAcyclic
  Proofs.JsonProofs Proofs.FuelProofs Proofs.TermProofs Proofs.DecodeTerm Proofs.StructRoundTrip.
From Coq Require Import ZArith Lia Wf_nat PeanoNat.
Local Open Scope nat_scope.

(* ------------------------------------------------------------------------------------------ *)
(* 1. fuel monotonicity (no hypothesis)                                                       *)
(* ------------------------------------------------------------------------------------------ *)
Lemma enc_levels_ext (leaf leaf' : gval -> res jval) :
  (forall x, defined (leaf x) -> leaf' x = leaf x) ->
  forall k v, defined (enc_levels k leaf v) -> enc_levels k leaf' v = enc_levels k leaf v.
Proof.
  intro He. induction k as [|k IH]; intros v Hd; cbn [enc_levels] in *.
  - apply He, Hd.
  - destruct v as [| j | | x | | l | | impl x | m fs]; try reflexivity.
    apply bind_ext; [exact Hd | | intros; reflexivity].
    apply map_res_ext; [intros x Hx; apply IH, Hx | exact (bind_defined _ _ Hd)].
Qed.

Section FieldsExt.
  Variables enc enc' : gotype -> gval -> res jval.
  Variables enci enci' : str -> gval -> res jval.
  Hypothesis Henc : forall t v, defined (enc t v) -> enc' t v = enc t v.
  Hypothesis Henci : forall i v, defined (enci i v) -> enci' i v = enci i v.

  Lemma enc_special_leaf_ext ptr leaf v :
    defined (enc_special_leaf enc enci ptr leaf v) ->
    enc_special_leaf enc' enci' ptr leaf v = enc_special_leaf enc enci ptr leaf v.
  Proof.
    unfold enc_special_leaf. cbv zeta.
    destruct ptr.
    - destruct v as [| j | | x | | l | | impl x | m fs]; try reflexivity.
      destruct leaf; intro Hd; first [apply Henci, Hd | apply Henc, Hd].
    - destruct leaf; intro Hd; first [apply Henci, Hd | apply Henc, Hd].
  Qed.

  Lemma enc_fields_ext v : forall fls,
    defined (enc_fields enc enci v fls) -> enc_fields enc' enci' v fls = enc_fields enc enci v fls.
  Proof.
    induction fls as [|[fl path] r IH]; intro Hd; [reflexivity|]. cbn [enc_fields] in *. cbv zeta in *.
    destruct (special fl).
    - destruct (gf_omitempty fl && special_empty _ _ _); [apply IH, Hd|].
      apply bind_ext; [exact Hd | | ].
      + apply enc_levels_ext; [intros x Hx; apply enc_special_leaf_ext, Hx | exact (bind_defined _ _ Hd)].
      + intros j _ Hk. apply bind_ext; [exact Hk | apply IH; exact (bind_defined _ _ Hk) | intros; reflexivity].
    - destruct (gf_omitempty fl && is_empty _ _); [apply IH, Hd|].
      apply bind_ext; [exact Hd | apply Henc; exact (bind_defined _ _ Hd) |].
      intros j _ Hk. apply bind_ext; [exact Hk | apply IH; exact (bind_defined _ _ Hk) | intros; reflexivity].
  Qed.
End FieldsExt.

Theorem encode_fuel_monotone_all tm : forall f,
  (forall t v, defined (encode tm f t v) -> encode tm (S f) t v = encode tm f t v)
  /\ (forall n v, defined (encode_struct tm f n v) -> encode_struct tm (S f) n v = encode_struct tm f n v)
  /\ (forall i v, defined (encode_iface tm f i v) -> encode_iface tm (S f) i v = encode_iface tm f i v).
Proof.
  induction f as [|f (IHe & IHs & IHi)].
  - repeat split; intros; exfalso; apply H; reflexivity.
  - split; [|split].
    + intros t v Hd. rewrite (encode_S tm (S f) t v), (encode_S tm f t v). rewrite encode_S in Hd.
      destruct t as [r g m u|n|n|n|n|e|e|r e]; try reflexivity.
      * destruct (ref_shape r) as [[[] rest]|]; [apply IHe, Hd | apply IHe, Hd | reflexivity].
      * apply bind_ext; [exact Hd | apply IHs; exact (bind_defined _ _ Hd) | intros; reflexivity].
      * apply IHi, Hd.
      * destruct v as [| j | | x | | l | | impl x | m fs]; try reflexivity.
        apply bind_ext; [exact Hd | | intros; reflexivity].
        apply map_res_ext; [intros x Hx; apply IHe, Hx | exact (bind_defined _ _ Hd)].
      * destruct v as [| j | | x | | l | | impl x | m fs]; try reflexivity. apply IHe, Hd.
    + intros n v Hd. rewrite (encode_struct_S tm (S f) n v), (encode_struct_S tm f n v). rewrite encode_struct_S in Hd.
      destruct (assoc n tm) as [[g fields sel inp| | |]|]; try reflexivity.
      apply bind_ext; [exact Hd | reflexivity |].
      intros flat _ Hk. apply enc_fields_ext; [exact IHe | exact IHi | exact Hk].
    + intros i v Hd. rewrite (encode_iface_S tm (S f) i v), (encode_iface_S tm f i v). rewrite encode_iface_S in Hd.
      destruct v as [| j | | x | | l | | impl x | m fs]; try reflexivity.
      destruct (assoc i tm) as [[| g sh impls sel | |]|]; try reflexivity.
      destruct (assoc impl tm) as [d|]; try reflexivity.
      destruct (existsb (str_eqb impl) impls); [|reflexivity].
      apply bind_ext; [exact Hd | apply IHs; exact (bind_defined _ _ Hd) | intros; reflexivity].
Qed.

Theorem encode_fuel_monotone tm f t v :
  encode tm f t v <> OutOfFuel -> encode tm (S f) t v = encode tm f t v.
Proof. exact (proj1 (encode_fuel_monotone_all tm f) t v). Qed.

Theorem encode_struct_fuel_monotone tm f n v :
  encode_struct tm f n v <> OutOfFuel -> encode_struct tm (S f) n v = encode_struct tm f n v.
Proof. exact (proj1 (proj2 (encode_fuel_monotone_all tm f)) n v). Qed.

Theorem encode_iface_fuel_monotone tm f i v :
  encode_iface tm f i v <> OutOfFuel -> encode_iface tm (S f) i v = encode_iface tm f i v.
Proof. exact (proj2 (proj2 (encode_fuel_monotone_all tm f)) i v). Qed.

(* any two fuels that both produce a result produce the same one *)
Corollary encode_fuel_irrelevant tm : forall f d t v,
  encode tm f t v <> OutOfFuel -> encode tm (d + f) t v = encode tm f t v.
Proof.
  intros f d. induction d as [|d IH]; intros t v Hd; [reflexivity|].
  cbn [plus]. rewrite <- (IH t v Hd).
  apply encode_fuel_monotone. rewrite (IH t v Hd). exact Hd.
Qed.

Corollary encode_struct_fuel_irrelevant tm : forall f d n v,
  encode_struct tm f n v <> OutOfFuel -> encode_struct tm (d + f) n v = encode_struct tm f n v.
Proof.
  intros f d. induction d as [|d IH]; intros n v Hd; [reflexivity|].
  cbn [plus]. rewrite <- (IH n v Hd).
  apply encode_struct_fuel_monotone. rewrite (IH n v Hd). exact Hd.
Qed.

Corollary encode_iface_fuel_irrelevant tm : forall f d i v,
  encode_iface tm f i v <> OutOfFuel -> encode_iface tm (d + f) i v = encode_iface tm f i v.
Proof.
  intros f d. induction d as [|d IH]; intros i v Hd; [reflexivity|].
  cbn [plus]. rewrite <- (IH i v Hd).
  apply encode_iface_fuel_monotone. rewrite (IH i v Hd). exact Hd.
Qed.

(* ------------------------------------------------------------------------------------------ *)
(* 2. the hypotheses and their executable checks                                              *)
(* ------------------------------------------------------------------------------------------ *)

(* definitions: Rt/EncAcyclic.v (so that Corr/Rtcorr.v can evaluate the checks) *)

(* ---- 3. soundness of the checks ---- *)
Theorem enc_rank_okb_sound tm ranks : enc_rank_okb tm ranks = true -> enc_acyclic tm.
Proof.
  intro H. exists (rank_of ranks). intros n m [d [Hd Hm]].
  unfold enc_rank_okb in H. rewrite forallb_forall in H.
  specialize (H (n, d) (assoc_In _ _ _ Hd)). cbn [fst] in H. rewrite Hd in H.
  rewrite forallb_forall in H. specialize (H m Hm). apply Nat.ltb_lt in H. exact H.
Qed.

Theorem enc_acyclicb_sound tm : enc_acyclicb tm = true -> enc_acyclic tm.
Proof. apply enc_rank_okb_sound. Qed.

Theorem flatten_okb_sound tm : flatten_okb tm = true -> flatten_defined tm.
Proof.
  intros H n g fields s i Ha E.
  unfold flatten_okb in H. rewrite forallb_forall in H.
  specialize (H (n, DStruct g fields s i) (assoc_In _ _ _ Ha)). cbn [fst] in H. rewrite Ha in H.
  rewrite E in H. discriminate H.
Qed.

Theorem encode_termb_sound tm : encode_termb tm = true -> encode_term_ok tm.
Proof.
  unfold encode_termb. intro H. apply andb_prop in H. destruct H as [H1 H2].
  split; [exact (enc_acyclicb_sound tm H1) | exact (flatten_okb_sound tm H2)].
Qed.

(* ------------------------------------------------------------------------------------------ *)
(* sizes: what the encoder reads out of a struct value is a strict sub-value or VZero         *)
(* ------------------------------------------------------------------------------------------ *)
Lemma vsize_pos v : 1 <= vsize v.
Proof. destruct v; cbn [vsize]; lia. Qed.

Lemma struct_field_small w k : struct_field w k = VZero \/ vsize (struct_field w k) < vsize w.
Proof.
  destruct w as [| j | | x | | l | | impl x | m fs]; cbn [struct_field]; try (left; reflexivity).
  destruct (assoc k fs) as [x|] eqn:Ea; [right | left; reflexivity].
  exact (vsize_struct_in m fs k x (assoc_In _ _ _ Ea)).
Qed.

Lemma select_path_small : forall path v, select_path v path = VZero \/ vsize (select_path v path) <= vsize v.
Proof.
  induction path as [|k path IH]; intro v; cbn [select_path]; [right; lia|].
  destruct v as [| j | | x | | l | | impl x | m fs]; try (left; reflexivity).
  destruct (assoc k fs) as [x|] eqn:Ea; [|left; reflexivity].
  destruct (IH x) as [E|Hle]; [left; exact E | right].
  pose proof (vsize_struct_in m fs k x (assoc_In _ _ _ Ea)). lia.
Qed.

Lemma field_value_small v path k :
  struct_field (select_path v path) k = VZero \/ vsize (struct_field (select_path v path) k) < vsize v.
Proof.
  destruct (select_path_small path v) as [E|Hle].
  - rewrite E. left. reflexivity.
  - destruct (struct_field_small (select_path v path) k) as [E|Hlt]; [left; exact E | right; lia].
Qed.

(* ------------------------------------------------------------------------------------------ *)
(* the induction                                                                              *)
(* ------------------------------------------------------------------------------------------ *)
Section EncTerm.
  Variable tm : typemap.
  Variable rk : str -> nat.
  Hypothesis Hrk : forall n m, enc_edge tm n m -> rk m < rk n.
  Hypothesis Hflat : flatten_defined tm.

  Definition Ev (t : gotype) (v : gval) : Prop := exists n, forall m, n <= m -> defined (encode tm m t v).
  (* every strict sub-value is eventually encoded, at every type *)
  Definition Sub (v : gval) : Prop := forall x, vsize x < vsize v -> forall t, Ev t x.

  Definition trank (t : gotype) : nat := match t with GStruct n => S (rk n) | _ => 0 end.

  Lemma slice_ev e v : Sub v -> Ev (GSlice e) v.
  Proof.
    intro Hsub. destruct v as [| j | | x | | l | | impl x | m fs];
      try (exists 1; intros f Hf; destruct f as [|f]; [lia|]; rewrite encode_S; discriminate).
    destruct (uniform_bound (fun x f => defined (encode tm f e x)) l) as [n Hn].
    { intros x Hx. apply Hsub. exact (vsize_slice_in l x Hx). }
    exists (S n). intros f Hf. destruct f as [|f]; [lia|]. rewrite encode_S.
    apply defined_bind; [|intros; discriminate]. apply map_res_defined_in. intros x Hx. apply Hn; [lia | exact Hx].
  Qed.

  Lemma ptr_ev e v : Sub v -> Ev (GPtr e) v.
  Proof.
    intro Hsub. destruct v as [| j | | x | | l | | impl x | m fs];
      try (exists 1; intros f Hf; destruct f as [|f]; [lia|]; rewrite encode_S; discriminate).
    destruct (Hsub x ltac:(cbn [vsize]; lia) e) as [n Hn].
    exists (S n). intros f Hf. destruct f as [|f]; [lia|]. rewrite encode_S. apply Hn. lia.
  Qed.

  Lemma iface_ev i v : Sub v -> Ev (GIface i) v.
  Proof.
    intro Hsub. destruct v as [| j | | x | | l | | impl x | m fs];
      try (exists 2; intros f Hf; destruct f as [|[|f]]; try lia; rewrite encode_S, encode_iface_S; discriminate).
    destruct (Hsub x ltac:(cbn [vsize]; lia) (GStruct impl)) as [n Hn].
    exists (S (S n)). intros f Hf. destruct f as [|[|f]]; try lia. rewrite encode_S, encode_iface_S.
    destruct (assoc i tm) as [[| g sh impls sel | |]|]; try discriminate.
    destruct (assoc impl tm) as [d|]; try discriminate.
    destruct (existsb (str_eqb impl) impls); [|discriminate].
    apply defined_bind; [|intros; discriminate].
    pose proof (Hn (S f) ltac:(lia)) as H. rewrite encode_S in H. exact (bind_defined _ _ H).
  Qed.

  Lemma opaque_ev r g m u v : Sub v -> Ev (GOpaque r g m u) v.
  Proof.
    intro Hsub. destruct (ref_shape r) as [[[|] rest]|] eqn:Ers.
    - destruct (slice_ev (GOpaque rest g m u) v Hsub) as [n Hn].
      exists (S n). intros f Hf. destruct f as [|f]; [lia|]. rewrite encode_S, Ers. apply Hn. lia.
    - destruct (ptr_ev (GOpaque rest g m u) v Hsub) as [n Hn].
      exists (S n). intros f Hf. destruct f as [|f]; [lia|]. rewrite encode_S, Ers. apply Hn. lia.
    - exists 1. intros f Hf. destruct f as [|f]; [lia|]. rewrite encode_S, Ers. destruct v; discriminate.
  Qed.

  (* every type but a struct type *)
  Lemma nonstruct_ev t v : Sub v -> trank t = 0 -> Ev t v.
  Proof.
    intros Hsub Ht. destruct t as [r g m u|n|n|n|n|e|e|r e].
    - apply opaque_ev, Hsub.
    - exists 1. intros f Hf. destruct f as [|f]; [lia|]. rewrite encode_S. destruct v; discriminate.
    - exists 1. intros f Hf. destruct f as [|f]; [lia|]. rewrite encode_S. destruct v; discriminate.
    - cbn [trank] in Ht. discriminate Ht.
    - apply iface_ev, Hsub.
    - apply slice_ev, Hsub.
    - apply ptr_ev, Hsub.
    - exists 1. intros f Hf. destruct f as [|f]; [lia|]. rewrite encode_S. discriminate.
  Qed.

  (* ---- the fields of a struct ---- *)
  Lemma call_ev leaf y : Ev leaf y ->
    exists n, forall m, n <= m -> defined (enc_special_leaf (encode tm m) (encode_iface tm m) false leaf y).
  Proof.
    intros [n Hn]. exists n. intros m Hm. unfold enc_special_leaf.
    destruct leaf as [r g m0 u|s|s|s|s|e|e|r e]; cbv beta iota zeta; try (apply Hn; exact Hm).
    pose proof (Hn (S m) ltac:(lia)) as H. rewrite encode_S in H. exact H.
  Qed.

  Lemma levels_ev ptr leaf : forall k x,
    (forall y, vsize y < vsize x -> Ev leaf y) -> (k = 0 -> ptr = false -> Ev leaf x) ->
    exists n, forall m, n <= m ->
      defined (enc_levels k (enc_special_leaf (encode tm m) (encode_iface tm m) ptr leaf) x).
  Proof.
    induction k as [|k IH]; intros x Hsub H0.
    - cbn [enc_levels]. destruct ptr.
      + destruct x as [| j | | y | | l | | impl y | m0 fs];
          try (exists 0; intros m _; unfold enc_special_leaf; cbv beta iota zeta; discriminate).
        destruct (call_ev leaf y (Hsub y ltac:(cbn [vsize]; lia))) as [n Hn].
        exists n. intros m Hm. exact (Hn m Hm).
      + apply call_ev. apply H0; reflexivity.
    - destruct x as [| j | | y | | l | | impl y | m0 fs];
        try (exists 0; intros m _; cbn [enc_levels]; discriminate).
      destruct (uniform_bound (fun y m => defined (enc_levels k (enc_special_leaf (encode tm m) (encode_iface tm m) ptr leaf) y)) l) as [n Hn].
      { intros y Hy. pose proof (vsize_slice_in l y Hy) as Hlt. apply IH.
        - intros z Hz. apply Hsub. lia.
        - intros _ _. apply Hsub. exact Hlt. }
      exists n. intros m Hm. cbn [enc_levels].
      apply defined_bind; [|intros; discriminate]. apply map_res_defined_in. intros y Hy. exact (Hn m Hm y Hy).
  Qed.

  Lemma enc_fields_ev v : forall fls,
    (forall fl path, In (fl, path) fls ->
        if special fl
        then exists n, forall m, n <= m ->
               defined (enc_levels (sdepth (gf_type fl))
                          (enc_special_leaf (encode tm m) (encode_iface tm m) (ispointer (gf_type fl)) (unwrap (gf_type fl)))
                          (struct_field (select_path v path) (gf_name fl)))
        else Ev (gf_type fl) (struct_field (select_path v path) (gf_name fl))) ->
    exists n, forall m, n <= m -> defined (enc_fields (encode tm m) (encode_iface tm m) v fls).
  Proof.
    induction fls as [|[fl path] r IH]; intro H.
    - exists 0. intros m _. cbn [enc_fields]. discriminate.
    - destruct IH as [n1 H1]; [intros fl' path' Hin; apply H; right; exact Hin|].
      specialize (H fl path (or_introl eq_refl)).
      destruct (special fl) eqn:Esp.
      + destruct H as [n2 H2]. exists (Nat.max n1 n2). intros m Hm. cbn [enc_fields]. cbv zeta. rewrite Esp.
        destruct (gf_omitempty fl && special_empty _ _ _); [apply H1; lia|].
        apply defined_bind; [apply H2; lia|]. intros j _.
        apply defined_bind; [apply H1; lia | intros; discriminate].
      + destruct H as [n2 H2]. exists (Nat.max n1 n2). intros m Hm. cbn [enc_fields]. cbv zeta. rewrite Esp.
        destruct (gf_omitempty fl && is_empty _ _); [apply H1; lia|].
        apply defined_bind; [apply H2; lia|]. intros j _.
        apply defined_bind; [apply H1; lia | intros; discriminate].
  Qed.

  (* a struct: listed fields are strict sub-values, the others are zero values of lower rank *)
  Lemma struct_ev n v :
    Sub v -> (forall t, trank t < S (rk n) -> Ev t VZero) -> Ev (GStruct n) v.
  Proof.
    intros Hsub Hz.
    destruct (assoc n tm) as [[g fields sel inp| g sh impls sel | g vs | bi g]|] eqn:En.
    1:{ destruct (flattened_fields tm fields) as [flat|c|c|] eqn:Ef.
        4:{ exfalso. exact (Hflat n g fields sel inp En Ef). }
        2,3: exists 2; intros f Hf; destruct f as [|[|f]]; try lia;
             rewrite encode_S, encode_struct_S, En, Ef; discriminate.
        destruct (enc_fields_ev v flat) as [n0 Hn0].
        { intros fl path Hin.
          pose proof (field_value_small v path (gf_name fl)) as Hx.
          remember (struct_field (select_path v path) (gf_name fl)) as x eqn:Ex.
          assert (Hle : vsize x <= vsize v).
          { destruct Hx as [E|Hlt]; [rewrite E; apply vsize_pos | lia]. }
          destruct (special fl) eqn:Esp.
          - apply levels_ev.
            + intros y Hy. apply Hsub. lia.
            + intros Hk Hp. destruct Hx as [E|Hlt]; [|apply Hsub; exact Hlt]. rewrite E.
              apply Hz. destruct (unwrap (gf_type fl)) as [r0 g0 m0 u0|s|s|s|s|e|e|r0 e] eqn:Eu; cbn [trank]; try lia.
              apply -> Nat.succ_lt_mono. apply Hrk. exists (DStruct g fields sel inp). split; [exact En|].
              cbn [enc_targets]. rewrite Ef. apply in_flat_map. exists (fl, path). split; [exact Hin|].
              cbn [fst]. unfold field_targets. rewrite Esp, Hk, Hp, Eu. left; reflexivity.
          - destruct Hx as [E|Hlt]; [|apply Hsub; exact Hlt]. rewrite E.
            apply Hz. destruct (gf_type fl) as [r0 g0 m0 u0|s|s|s|s|e|e|r0 e] eqn:Et; cbn [trank]; try lia.
            apply -> Nat.succ_lt_mono. apply Hrk. exists (DStruct g fields sel inp). split; [exact En|].
            cbn [enc_targets]. rewrite Ef. apply in_flat_map. exists (fl, path). split; [exact Hin|].
            cbn [fst]. unfold field_targets. rewrite Esp, Et. left; reflexivity. }
        exists (S (S n0)). intros f Hf. destruct f as [|[|f]]; try lia.
        rewrite encode_S. apply defined_bind; [|intros; discriminate].
        rewrite encode_struct_S, En, Ef. cbn [bind]. apply Hn0. lia. }
    all: exists 2; intros f Hf; destruct f as [|[|f]]; try lia; rewrite encode_S, encode_struct_S, En; discriminate.
  Qed.

  Lemma sub_zero : Sub VZero.
  Proof. intros x Hx. pose proof (vsize_pos x). cbn [vsize] in Hx. lia. Qed.

  (* the zero value: by the rank of the struct *)
  Lemma zero_ev : forall r t, trank t < r -> Ev t VZero.
  Proof.
    induction r as [|r IH]; intros t Ht; [lia|].
    destruct t as [r0 g m u|n|n|n|n|e|e|r0 e]; try (apply nonstruct_ev; [exact sub_zero | reflexivity]).
    apply struct_ev; [exact sub_zero|]. intros t' Ht'. apply IH. cbn [trank] in Ht. lia.
  Qed.

  (* every value: by its size *)
  Lemma all_ev : forall N v, vsize v < N -> forall t, Ev t v.
  Proof.
    induction N as [|N IH]; intros v Hv t; [lia|].
    assert (Hsub : Sub v) by (intros x Hx; apply IH; lia).
    destruct t as [r0 g m u|n|n|n|n|e|e|r0 e]; try (apply nonstruct_ev; [exact Hsub | reflexivity]).
    apply struct_ev; [exact Hsub|]. intros t' Ht'. exact (zero_ev _ t' Ht').
  Qed.
End EncTerm.

(* ------------------------------------------------------------------------------------------ *)
(* the theorems                                                                               *)
(* ------------------------------------------------------------------------------------------ *)
Theorem encode_terminates : forall tm, encode_term_ok tm -> forall t v,
  exists n, forall m, (n <= m)%nat -> encode tm m t v <> OutOfFuel.
Proof.
  intros tm [[rk Hrk] Hflat] t v.
  exact (all_ev tm rk Hrk Hflat (S (vsize v)) v (Nat.lt_succ_diag_r _) t).
Qed.

Theorem encode_struct_terminates : forall tm, encode_term_ok tm -> forall s v,
  exists n, forall m, (n <= m)%nat -> encode_struct tm m s v <> OutOfFuel.
Proof.
  intros tm Hok s v. destruct (encode_terminates tm Hok (GStruct s) v) as [n Hn].
  exists n. intros m Hm. pose proof (Hn (S m) ltac:(lia)) as H. rewrite encode_S in H.
  exact (bind_defined _ _ H).
Qed.

Theorem encode_iface_terminates : forall tm, encode_term_ok tm -> forall i v,
  exists n, forall m, (n <= m)%nat -> encode_iface tm m i v <> OutOfFuel.
Proof.
  intros tm Hok i v. destruct (encode_terminates tm Hok (GIface i) v) as [n Hn].
  exists n. intros m Hm. pose proof (Hn (S m) ltac:(lia)) as H. rewrite encode_S in H. exact H.
Qed.

(* with fuel monotonicity: one result, from some fuel on *)
Corollary encode_total : forall tm, encode_term_ok tm -> forall t v,
  exists n r, r <> OutOfFuel /\ forall m, (n <= m)%nat -> encode tm m t v = r.
Proof.
  intros tm Hok t v. destruct (encode_terminates tm Hok t v) as [n Hn].
  exists n, (encode tm n t v). split; [exact (Hn n (Nat.le_refl n))|].
  intros m Hm. replace m with ((m - n) + n) by lia.
  apply encode_fuel_irrelevant. exact (Hn n (Nat.le_refl n)).
Qed.

Corollary encode_struct_total : forall tm, encode_term_ok tm -> forall s v,
  exists n r, r <> OutOfFuel /\ forall m, (n <= m)%nat -> encode_struct tm m s v = r.
Proof.
  intros tm Hok s v. destruct (encode_struct_terminates tm Hok s v) as [n Hn].
  exists n, (encode_struct tm n s v). split; [exact (Hn n (Nat.le_refl n))|].
  intros m Hm. replace m with ((m - n) + n) by lia.
  apply encode_struct_fuel_irrelevant. exact (Hn n (Nat.le_refl n)).
Qed.

Corollary encode_iface_total : forall tm, encode_term_ok tm -> forall i v,
  exists n r, r <> OutOfFuel /\ forall m, (n <= m)%nat -> encode_iface tm m i v = r.
Proof.
  intros tm Hok i v. destruct (encode_iface_terminates tm Hok i v) as [n Hn].
  exists n, (encode_iface tm n i v). split; [exact (Hn n (Nat.le_refl n))|].
  intros m Hm. replace m with ((m - n) + n) by lia.
  apply encode_iface_fuel_irrelevant. exact (Hn n (Nat.le_refl n)).
Qed.

(* from the executable check *)
Corollary encode_total_checked : forall tm, encode_termb tm = true -> forall t v,
  exists n r, r <> OutOfFuel /\ forall m, (n <= m)%nat -> encode tm m t v = r.
Proof. intros tm H. exact (encode_total tm (encode_termb_sound tm H)). Qed.

(* ------------------------------------------------------------------------------------------ *)
(* 4. non-vacuity: the recursive type map of Proofs/DecodeTerm.v                              *)
(*    T { Id string; Next *T; Kids []T; Pet TPetAnimal }, TPetAnimal = TPetDog | TPetCat,      *)
(*    TPetDog { Typename; DogFrag (embedded) }, DogFrag { Name; Owner *T }                     *)
(* ------------------------------------------------------------------------------------------ *)
Example r_tm_encode_termb : encode_termb r_tm = true.
Proof. vm_compute. reflexivity. Qed.

Example r_tm_encode_term_ok : encode_term_ok r_tm.
Proof. apply encode_termb_sound. vm_compute. reflexivity. Qed.

Definition r_dog : gval :=
  VIface (b "TPetDog")
    (VStruct (b "TPetDog")
       [(b "Typename", VScalar (JStr (b "Dog")));
        (b "DogFrag", VStruct (b "DogFrag")
           [(b "Name", VScalar (JStr (b "Rex")));
            (b "Owner", VPtr (VStruct (b "T") [(b "Id", VScalar (JStr (b "3")))]))])]).

Definition r_val : gval :=
  VStruct (b "T")
    [(b "Id", VScalar (JStr (b "1")));
     (b "Next", VPtr (VStruct (b "T") [(b "Id", VScalar (JStr (b "2"))); (b "Next", VNilPtr); (b "Pet", r_dog)]));
     (b "Kids", VSlice [VStruct (b "T") [(b "Id", VScalar (JStr (b "4")));
                                          (b "Kids", VSlice [VStruct (b "T") [(b "Id", VScalar (JStr (b "5")))]])]])].

Example r_val_encodes : exists j, encode r_tm 20 (GStruct (b "T")) r_val = Ok j.
Proof. eexists. vm_compute. reflexivity. Qed.

(* the missing fields are read as zero values: the unlisted `Pet` is null, the unlisted `Kids` too *)
Example r_val_zero_encodes :
  encode r_tm 20 (GStruct (b "T")) VZero
  = Ok (JObj [(b "id", JStr []); (b "next", JNull); (b "kids", JNull); (b "pet", JNull)]).
Proof. vm_compute. reflexivity. Qed.

Example r_tm_encode_total : forall t v,
  exists n r, r <> OutOfFuel /\ forall m, (n <= m)%nat -> encode r_tm m t v = r.
Proof. exact (encode_total r_tm r_tm_encode_term_ok). Qed.

(* ------------------------------------------------------------------------------------------ *)
(* 5. both hypotheses are needed                                                              *)
(* ------------------------------------------------------------------------------------------ *)

(* (a) a struct embedding itself ([loop_tm] of Proofs/DecodeTerm.v): FlattenedFields runs out of
   its fixed fuel, so marshaling ANY value is OutOfFuel at every fuel *)
Example loop_tm_flatten_okb : flatten_okb loop_tm = false.
Proof. vm_compute. reflexivity. Qed.

Lemma loop_tm_flatten : flattened_fields loop_tm [loop_fA] = OutOfFuel.
Proof. vm_compute. reflexivity. Qed.

Example loop_tm_not_flatten_defined : ~ flatten_defined loop_tm.
Proof.
  intro H. apply (H (b "A") (b "A") [loop_fA] [] false); [reflexivity | exact loop_tm_flatten].
Qed.

Theorem self_embedding_struct_encode_diverges : forall n v, encode loop_tm n (GStruct (b "A")) v = OutOfFuel.
Proof.
  intros n v. destruct n as [|[|f]]; [reflexivity | reflexivity |].
  assert (Ea : assoc (b "A") loop_tm = Some (DStruct (b "A") [loop_fA] [] false)) by reflexivity.
  rewrite encode_S, encode_struct_S, Ea. cbv beta match.
  rewrite loop_tm_flatten. reflexivity.
Qed.

Corollary self_embedding_never_defined : forall v,
  ~ exists n, forall m, (n <= m)%nat -> encode loop_tm m (GStruct (b "A")) v <> OutOfFuel.
Proof. intros v [n Hn]. apply (Hn n (Nat.le_refl n)). apply self_embedding_struct_encode_diverges. Qed.

(* (b) a struct containing itself by value through a NAMED field, A { X A }: FlattenedFields is
   fine and so is the decoder's acyclicity check, but the zero value is marshaled forever *)
Definition bv_fX : gofield := {| gf_name := b "X"; gf_type := GStruct (b "A"); gf_json := b "x"; gf_gql := b "x"; gf_omitempty := false |}.
Definition bv_tm : typemap := [ (b "A", DStruct (b "A") [bv_fX] [] false) ].

Example bv_tm_flatten_okb : flatten_okb bv_tm = true.
Proof. vm_compute. reflexivity. Qed.
Example bv_tm_same_json_acyclicb : same_json_acyclicb bv_tm = true.
Proof. vm_compute. reflexivity. Qed.
Example bv_tm_enc_acyclicb : enc_acyclicb bv_tm = false.
Proof. vm_compute. reflexivity. Qed.

Lemma bv_tm_flatten : flattened_fields bv_tm [bv_fX] = Ok [(bv_fX, [])].
Proof. vm_compute. reflexivity. Qed.

Example bv_tm_cyclic : ~ enc_acyclic bv_tm.
Proof.
  intros [rk Hrk]. assert (H : rk (b "A") < rk (b "A")); [|lia].
  apply Hrk. exists (DStruct (b "A") [bv_fX] [] false). split; [reflexivity|].
  cbn [enc_targets]. rewrite bv_tm_flatten. left. reflexivity.
Qed.

Lemma bv_fields (enc : gotype -> gval -> res jval) (enci : str -> gval -> res jval) :
  enc_fields enc enci VZero [(bv_fX, [])] = (do j <- enc (GStruct (b "A")) VZero; Ok [(b "x", j)]).
Proof. reflexivity. Qed.

Theorem by_value_cycle_encode_diverges : forall n, encode bv_tm n (GStruct (b "A")) VZero = OutOfFuel.
Proof.
  induction n as [n IH] using lt_wf_ind.
  destruct n as [|[|f]]; [reflexivity | reflexivity |].
  assert (Ea : assoc (b "A") bv_tm = Some (DStruct (b "A") [bv_fX] [] false)) by reflexivity.
  rewrite encode_S, encode_struct_S, Ea. cbv beta match.
  rewrite bv_tm_flatten. cbn [bind]. rewrite bv_fields.
  rewrite (IH f) by lia. reflexivity.
Qed.

Corollary by_value_cycle_never_defined :
  ~ exists n, forall m, (n <= m)%nat -> encode bv_tm m (GStruct (b "A")) VZero <> OutOfFuel.
Proof. intros [n Hn]. apply (Hn n (Nat.le_refl n)). apply by_value_cycle_encode_diverges. Qed.

Print Assumptions encode_fuel_monotone.
Print Assumptions encode_struct_fuel_monotone.
Print Assumptions encode_iface_fuel_monotone.
Print Assumptions encode_fuel_irrelevant.
Print Assumptions encode_termb_sound.
Print Assumptions encode_terminates.
Print Assumptions encode_struct_terminates.
Print Assumptions encode_iface_terminates.
Print Assumptions encode_total.
Print Assumptions encode_struct_total.
Print Assumptions encode_iface_total.
Print Assumptions encode_total_checked.
Print Assumptions r_tm_encode_term_ok.
Print Assumptions r_val_encodes.
Print Assumptions self_embedding_struct_encode_diverges.
Print Assumptions by_value_cycle_encode_diverges.
