From Verif Require Import Base.Str Gen.Casing Gen.Enum.

Lemma convert_enum_go_ok T algo seen vs cs :
  convert_enum_go T algo seen vs = Ok cs ->
  map snd cs = vs /\
  map fst cs = map (enum_value_name T algo) vs /\
  NoDup (map fst cs) /\
  (forall g, In g (map fst cs) -> ~ In g seen).
Proof.
  revert seen cs; induction vs as [|v r IH]; intros seen cs H; simpl in H.
  - injection H as <-. simpl. repeat split; try constructor. intros g [].
  - destruct (mem_str (enum_value_name T algo v) seen) eqn:Hm; [discriminate|].
    destruct (convert_enum_go T algo (enum_value_name T algo v :: seen) r) as [rest| | |] eqn:Hr;
      simpl in H; try discriminate.
    injection H as <-. apply IH in Hr as (H1 & H2 & H3 & H4). simpl.
    repeat split.
    + f_equal. exact H1.
    + f_equal. exact H2.
    + constructor; [|exact H3]. intro Hin. apply H4 in Hin. apply Hin. left. reflexivity.
    + intros g [<-|Hin].
      * apply mem_str_not_In. exact Hm.
      * intro Hs. apply (H4 g Hin). right. exact Hs.
Qed.

Lemma convert_enum_go_outcome T algo seen vs :
  (exists cs, convert_enum_go T algo seen vs = Ok cs) \/
  convert_enum_go T algo seen vs = Err (b "EnumConflict").
Proof.
  revert seen; induction vs as [|v r IH]; intros seen; simpl.
  - left. eexists. reflexivity.
  - destruct (mem_str _ seen); [right; reflexivity|].
    destruct (IH (enum_value_name T algo v :: seen)) as [[cs ->]| ->]; simpl.
    + left. eexists. reflexivity.
    + right. reflexivity.
Qed.

(* the loop fails iff some name is already seen or occurs twice *)
Lemma convert_enum_go_err_iff T algo seen vs :
  convert_enum_go T algo seen vs = Err (b "EnumConflict") <->
  ~ (NoDup (map (enum_value_name T algo) vs) /\
     forall g, In g (map (enum_value_name T algo) vs) -> ~ In g seen).
Proof.
  revert seen; induction vs as [|v r IH]; intros seen; simpl.
  - split; [discriminate|]. intro H. exfalso. apply H. split; [constructor|]. intros g [].
  - destruct (mem_str (enum_value_name T algo v) seen) eqn:Hm.
    + split; [|reflexivity]. intros _ [_ H]. apply mem_str_In in Hm.
      apply (H _ (or_introl eq_refl)). exact Hm.
    + apply mem_str_not_In in Hm.
      destruct (convert_enum_go T algo (enum_value_name T algo v :: seen) r) as [rest| | |] eqn:Hr; simpl.
      * split; [discriminate|]. intro H. exfalso. apply H.
        apply convert_enum_go_ok in Hr as (H1 & H2 & H3 & H4). rewrite H2 in H3, H4.
        split.
        -- constructor; [|exact H3]. intro Hin. apply (H4 _ Hin). left. reflexivity.
        -- intros g [<-|Hin]; [exact Hm|]. intro Hs. apply (H4 _ Hin). right. exact Hs.
      * destruct (convert_enum_go_outcome T algo (enum_value_name T algo v :: seen) r) as [[cs E]|E];
          rewrite E in Hr; [discriminate|]. injection Hr as <-.
        split; [|reflexivity]. intros _ [Hnd Hs]. apply IH in E. apply E. inversion Hnd; subst.
        split; [assumption|]. intros g Hin [<-|Hs']; [contradiction|].
        apply (Hs g (or_intror Hin)). exact Hs'.
      * destruct (convert_enum_go_outcome T algo (enum_value_name T algo v :: seen) r) as [[cs E]|E];
          rewrite E in Hr; discriminate.
      * destruct (convert_enum_go_outcome T algo (enum_value_name T algo v :: seen) r) as [[cs E]|E];
          rewrite E in Hr; discriminate.
Qed.

Theorem convert_enum_ok T algo vs cs :
  convert_enum T algo vs = Ok cs ->
  map snd cs = vs /\ map fst cs = map (enum_value_name T algo) vs /\ NoDup (map fst cs).
Proof.
  intro H. apply convert_enum_go_ok in H as (H1 & H2 & H3 & _). auto.
Qed.

Theorem convert_enum_err_iff T algo vs :
  convert_enum T algo vs = Err (b "EnumConflict") <-> ~ NoDup (map (enum_value_name T algo) vs).
Proof.
  unfold convert_enum. rewrite convert_enum_go_err_iff. split; intros H Hn; apply H.
  - split; [exact Hn|]. intros g _ [].
  - apply Hn.
Qed.

Theorem convert_enum_total T algo vs :
  (exists cs, convert_enum T algo vs = Ok cs) \/ convert_enum T algo vs = Err (b "EnumConflict").
Proof. apply convert_enum_go_outcome. Qed.

Lemma raw_name_injective T v w :
  enum_value_name T CRaw v = enum_value_name T CRaw w -> v = w.
Proof.
  unfold enum_value_name. intro H. apply app_inv_head in H. simpl in H. congruence.
Qed.

Lemma NoDup_map_inj {A B} (f : A -> B) l :
  (forall x y, f x = f y -> x = y) -> NoDup l -> NoDup (map f l).
Proof.
  intros Hinj. induction 1 as [|x l Hx Hnd IH]; simpl; constructor; auto.
  intro Hin. apply in_map_iff in Hin as [y [Hy Hin]]. apply Hinj in Hy. subst. contradiction.
Qed.

Theorem convert_enum_raw_ok T vs :
  NoDup vs -> exists cs, convert_enum T CRaw vs = Ok cs.
Proof.
  intro Hnd. destruct (convert_enum_total T CRaw vs) as [H|H]; [exact H|].
  apply convert_enum_err_iff in H. exfalso. apply H.
  apply NoDup_map_inj; [apply raw_name_injective | exact Hnd].
Qed.

(* boolean NoDup used by the specification checker *)
Fixpoint nodup_b (l : list str) : bool :=
  match l with [] => true | x :: r => negb (mem_str x r) && nodup_b r end.

Lemma nodup_b_spec l : nodup_b l = true <-> NoDup l.
Proof.
  induction l as [|x r IH]; simpl.
  - split; [constructor | reflexivity].
  - rewrite andb_true_iff, negb_true_iff, mem_str_not_In, IH. split.
    + intros [H1 H2]. constructor; assumption.
    + intro H. inversion H. auto.
Qed.

Lemma list_eqb_str_refl l : list_eqb str_eqb l l = true.
Proof. apply (list_eqb_eq str_eqb str_eqb_eq). reflexivity. Qed.

(* the emitted declaration satisfies the specification checker *)
Theorem gen_enum_bijection cfg tn gql vs d :
  gen_enum cfg tn gql vs = Ok d -> enum_bijection_b vs d = true.
Proof.
  unfold gen_enum. set (T := enum_go_name cfg tn gql).
  destruct (convert_enum T (for_enum cfg gql) vs) as [cs| | |] eqn:H; simpl; try discriminate.
  intro E. injection E as <-. apply convert_enum_ok in H as (H1 & H2 & H3).
  unfold enum_bijection_b, emit_enum. cbn [ed_consts ed_type ed_all].
  rewrite !map_map. cbn [fst snd].
  repeat (apply andb_true_iff; split).
  - replace (map (fun x => snd x) cs) with (map snd cs) by reflexivity. rewrite H1. apply list_eqb_str_refl.
  - apply forallb_forall. intros x Hx. apply in_map_iff in Hx as [c [<- _]]. apply str_eqb_refl.
  - apply list_eqb_str_refl.
  - change (nodup_b (map (fun x => fst x) cs) = true). apply nodup_b_spec. exact H3.
Qed.
