From Verif Require Import Base.Str Gen.Errors.
From Coq Require Import ZArith Lia ZifyN ZifyNat ZifyBool.
Ltac Zify.zify_post_hook ::= Z.div_mod_to_equations.

(* ---------- decimal printing and parsing round-trip ---------- *)
Lemma bits_bound n : (n < 2 ^ N.of_nat (bits n))%N.
Proof.
  destruct n as [|p]; cbn; [reflexivity|].
  induction p as [p IH|p IH|]; cbn [Pos.size_nat].
  - rewrite Nnat.Nat2N.inj_succ, N.pow_succ_r'. change (N.pos p~1) with (2 * N.pos p + 1)%N. lia.
  - rewrite Nnat.Nat2N.inj_succ, N.pow_succ_r'. change (N.pos p~0) with (2 * N.pos p)%N. lia.
  - cbn. lia.
Qed.

Lemma atoi_aux_snoc s : forall acc d, is_digit d = true ->
  atoi_aux acc (s ++ [d]) = option_map (fun a => (a * 10 + (d - 48))%N) (atoi_aux acc s).
Proof.
  induction s as [|c s IH]; intros acc d Hd; cbn.
  - rewrite Hd. reflexivity.
  - destruct (is_digit c); [apply IH; exact Hd | reflexivity].
Qed.

Lemma is_digit_digit n : (n < 10)%N -> is_digit (digit n) = true.
Proof. unfold is_digit, digit. intro H. lia. Qed.

Lemma dec_aux_unfold f n :
  dec_aux (S f) n = if (n <? 10)%N then [digit n] else dec_aux f (n / 10) ++ [digit (n mod 10)].
Proof. reflexivity. Qed.

Lemma dec_aux_roundtrip f : forall n, (n < 2 ^ N.of_nat f)%N -> atoi_aux 0 (dec_aux (S f) n) = Some n.
Proof.
  induction f as [|f IH]; intros n Hn.
  - cbn in Hn. assert (n = 0%N) as -> by lia. reflexivity.
  - rewrite dec_aux_unfold. destruct (N.ltb_spec n 10) as [L|L].
    + cbn [atoi_aux]. rewrite is_digit_digit by exact L. unfold digit. f_equal. lia.
    + rewrite Nnat.Nat2N.inj_succ, N.pow_succ_r' in Hn.
      rewrite atoi_aux_snoc by (apply is_digit_digit; apply N.mod_lt; lia).
      rewrite IH.
      * cbn [option_map]. unfold digit. f_equal. pose proof (N.div_mod n 10). lia.
      * set (p := (2 ^ N.of_nat f)%N) in *. lia.
Qed.

Lemma dec_nonempty n : dec n <> [].
Proof.
  unfold dec. cbn [dec_aux]. destruct (n <? 10)%N; [discriminate|].
  destruct (dec_aux (bits n) (n / 10)); discriminate.
Qed.

Lemma dec_aux_digits f : forall n c, In c (dec_aux f n) -> is_digit c = true.
Proof.
  induction f as [|f IH]; intros n c H; cbn in H; [destruct H|].
  destruct (N.ltb_spec n 10) as [L|L].
  - destruct H as [<-|[]]. apply is_digit_digit. exact L.
  - apply in_app_or in H as [H|[<-|[]]]; [eapply IH; exact H|]. apply is_digit_digit. apply N.mod_lt. lia.
Qed.

Theorem atoi_dec n : atoi (dec n) = Some (Z.of_N n).
Proof.
  pose proof (dec_aux_roundtrip (bits n) n (bits_bound n)) as R. fold (dec n) in R.
  pose proof (dec_nonempty n) as NE.
  assert (forall c, In c (dec n) -> is_digit c = true) as D by (apply dec_aux_digits).
  unfold atoi. destruct (dec n) as [|c r] eqn:E; [congruence|].
  assert (is_digit c = true) as Dc by (apply D; left; reflexivity).
  assert (c <> 43%N /\ c <> 45%N) as [N1 N2] by (unfold is_digit in Dc; lia).
  destruct c as [|p]; [unfold is_digit in Dc; cbn in Dc; discriminate|].
  do 6 (destruct p as [p|p|]; try (rewrite R; reflexivity); try (exfalso; lia)).
Qed.

(* ---------- splitting at colons ---------- *)
Definition no_colon (s : str) : Prop := ~ In colon s.

Lemma split_colon_aux_no_colon s : forall cur, no_colon s -> split_colon_aux cur s = [rev cur ++ s].
Proof.
  induction s as [|c s IH]; intros cur H; cbn.
  - rewrite app_nil_r. reflexivity.
  - destruct (N.eqb_spec c colon) as [E|E]; [exfalso; apply H; left; auto|].
    rewrite IH; [|intro X; apply H; right; exact X]. cbn. rewrite <- app_assoc. reflexivity.
Qed.

Lemma split_colon_aux_app a : forall cur t, no_colon a ->
  split_colon_aux cur (a ++ colon :: t) = (rev cur ++ a) :: split_colon_aux [] t.
Proof.
  induction a as [|c a IH]; intros cur t H; cbn.
  - rewrite app_nil_r. reflexivity.
  - destruct (N.eqb_spec c colon) as [E|E]; [exfalso; apply H; left; auto|].
    rewrite IH; [|intro X; apply H; right; exact X]. cbn. rewrite <- app_assoc. reflexivity.
Qed.

Lemma dec_no_colon n : no_colon (dec n).
Proof.
  intro H. apply dec_aux_digits in H. unfold is_digit, colon in H. lia.
Qed.

Lemma split_filename_plain f : no_colon f -> split_filename f = (f, 0%Z).
Proof.
  intro H. unfold split_filename, split_colon. rewrite split_colon_aux_no_colon by exact H. reflexivity.
Qed.

Lemma split_filename_pseudo f L : no_colon f ->
  split_filename (pseudo_filename f L) = (f, (Z.of_N L - 1)%Z).
Proof.
  intro H. unfold split_filename, split_colon, pseudo_filename. cbn [app].
  rewrite split_colon_aux_app by exact H.
  rewrite split_colon_aux_no_colon by apply dec_no_colon. cbn [rev app]. rewrite atoi_dec. reflexivity.
Qed.

(* ---------- the printed location ---------- *)
(* a node on line l >= 1 of a .graphql file f is reported as f:l *)
Theorem pos_string_graphql f l : no_colon f -> (0 < l)%N ->
  error_pos_string f (Z.of_N l) = f ++ [colon] ++ dec l.
Proof.
  intros H Hl. unfold error_pos_string. rewrite split_filename_plain by exact H.
  destruct l as [|p]; [lia|]. reflexivity.
Qed.

(* a node on line l >= 1 of a literal whose opening quote is on Go line L >= 1 of f.go is
   reported as f.go:(L + l - 1) *)
Theorem pos_string_go f L l : no_colon f -> (0 < L)%N -> (0 < l)%N ->
  error_pos_string (pseudo_filename f L) (Z.of_N l) = f ++ [colon] ++ dec (L + l - 1).
Proof.
  intros H HL Hl. unfold error_pos_string. rewrite split_filename_pseudo by exact H.
  assert ((Z.of_N L - 1 + Z.of_N l)%Z = Z.of_N (L + l - 1)) as -> by lia.
  destruct (L + l - 1)%N as [|p] eqn:E; [lia|]. reflexivity.
Qed.

(* a path that itself contains a colon loses the literal's offset: full statement refuted *)
Theorem pos_string_go_colon_path_refuted :
  exists f L l, (0 < L)%N /\ (0 < l)%N /\
    error_pos_string (pseudo_filename f L) (Z.of_N l) <> f ++ [colon] ++ dec (L + l - 1).
Proof. exists (b "a:b/q.go"), 12%N, 3%N. repeat split; try reflexivity. vm_compute. discriminate. Qed.

(* ---------- errorf ---------- *)
Lemma lift_explicit p w : lift (Some p) w = Some p.
Proof. reflexivity. Qed.

Lemma lift_wrapped_genqlient p : lift None (WGenqlient p) = p.
Proof. reflexivity. Qed.

Lemma lift_wrapped_graphql f l : f <> [] ->
  lift None (WGraphQL f (Some l)) = Some {| ep_file := f; ep_line := l |}.
Proof. destruct f; [congruence | reflexivity]. Qed.

Lemma lift_none_iff w : lift None w = None <->
  match w with
  | WNone | WOther => True
  | WGenqlient p => p = None
  | WGraphQL f _ => f = []
  end.
Proof.
  destruct w as [|p|f l|]; cbn; try tauto.
  destruct f; split; intro H; congruence.
Qed.
