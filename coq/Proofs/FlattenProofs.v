(* What validateFlattenOption accepts, for selection sets of the shape the validator and the
   preprocessing guarantee (Gen/Wf.v set_shape_okb): exactly one fragment spread that matches the
   type, possibly next to the one synthesised __typename -- and then the index it returns. *)
From Verif Require Import Base.Str Gen.Consts Gen.Gql Gen.Doc Gen.Directive Gen.Convert Gen.Wf.
From Coq Require Import ZArith Lia.

Definition is_spread (s : sel) : bool := match s with SSpread _ _ _ => true | _ => false end.

Section Flat.
  Variable sch : schema.
  Variable frags : list fragment.

  Lemma flatten_go_counts typ : forall sels k idx x,
    flatten_go sch frags typ sels k idx = FlatIdx x ->
    forallb (fun s => flat_synth s || is_spread s) sels = true
    /\ (List.length (filter is_spread sels) + (match idx with Some _ => 1 | None => 0 end) <= 1)%nat.
  Proof.
    induction sels as [|s r IH]; intros k idx x H; cbn [flatten_go] in H.
    - split; [reflexivity | destruct idx; cbn; lia].
    - destruct s as [a n t p e sub l|c e sub l|n e l].
      + cbn [forallb filter is_spread flat_synth]. destruct (str_eqb n typename_name && N.eqb l 0) eqn:E; [|discriminate].
        destruct (IH _ _ _ H) as [Ha Hc]. split; [cbn [orb]; exact Ha | exact Hc].
      + discriminate.
      + destruct idx; [discriminate|].
        destruct (find_fragment frags n) as [fr|]; [|discriminate].
        destruct (find_type sch (fr_on fr)) as [ft|]; [|discriminate].
        destruct (fragment_matches typ ft); [|discriminate].
        destruct (IH _ _ _ H) as [Ha Hc]. cbn [forallb filter is_spread flat_synth orb andb length]. split; [exact Ha | lia].
  Qed.

  Lemma synth_spread_length sels :
    forallb (fun s => flat_synth s || is_spread s) sels = true ->
    List.length sels = (List.length (filter flat_synth sels) + List.length (filter is_spread sels))%nat.
  Proof.
    induction sels as [|s r IH]; intro H; [reflexivity|]. cbn [forallb] in H. apply Bool.andb_true_iff in H. destruct H as [Hs Hr].
    cbn [filter length]. specialize (IH Hr).
    destruct s as [a n t p e sub l|c e sub l|n e l]; cbn [flat_synth is_spread] in *.
    - rewrite Bool.orb_false_r in Hs. rewrite Hs. cbn [length]. lia.
    - discriminate.
    - cbn [length]. lia.
  Qed.

  (* the outcome of validateFlattenOption on a well-shaped selection set *)
  Inductive flat_shape (typ : typedef) (sels : list sel) : option nat -> Prop :=
  | shape_alone n e l fr ft :
      sels = [SSpread n e l] -> find_fragment frags n = Some fr -> find_type sch (fr_on fr) = Some ft ->
      fragment_matches typ ft = true -> flat_shape typ sels (Some 0%nat)
  | shape_after t n e l fr ft :
      flat_synth t = true -> sels = [t; SSpread n e l] -> find_fragment frags n = Some fr -> find_type sch (fr_on fr) = Some ft ->
      fragment_matches typ ft = true -> flat_shape typ sels (Some 1%nat)
  | shape_before t n e l fr ft :
      flat_synth t = true -> sels = [SSpread n e l; t] -> find_fragment frags n = Some fr -> find_type sch (fr_on fr) = Some ft ->
      fragment_matches typ ft = true -> flat_shape typ sels (Some 0%nat).

  Variable srcs : list (list lkind).
  Hypothesis Hfr : frags_okb2 sch frags srcs = true.

  Lemma frag_on_resolves n fr : find_fragment frags n = Some fr -> exists ft, find_type sch (fr_on fr) = Some ft.
  Proof.
    intro H. assert (Hin : In fr frags).
    { clear Hfr. induction frags as [|f r IH]; cbn in H; [discriminate|].
      destruct (str_eqb (fr_name f) n); [injection H as <-; left; reflexivity | right; exact (IH H)]. }
    unfold frags_okb2 in Hfr. rewrite forallb_forall in Hfr. specialize (Hfr fr Hin). unfold frag_okb2 in Hfr.
    apply Bool.andb_true_iff in Hfr. destruct Hfr as [Hon _].
    apply Bool.andb_true_iff in Hon. destruct Hon as [Hon _].
    destruct (find_type sch (fr_on fr)) as [ft|]; [eexists; reflexivity | discriminate Hon].
  Qed.

  Theorem flat_cases typ src sels :
    sels_okb2 sch frags srcs src sels = true ->
    match validate_flatten_option sch frags typ sels with
    | FlatErr => True
    | FlatPanic => False
    | FlatIdx x => flat_shape typ sels x
    end.
  Proof.
    intro Hok. unfold sels_okb2 in Hok. apply Bool.andb_true_iff in Hok. destruct Hok as [Hshape Hsel].
    unfold set_shape_okb in Hshape. apply Bool.andb_true_iff in Hshape. destruct Hshape as [Hle1 Hnon].
    apply Nat.leb_le in Hle1.
    destruct (validate_flatten_option sch frags typ sels) as [|x|] eqn:E; [exact I| |].
    - (* an index *)
      unfold validate_flatten_option in E. destruct sels as [|s0 r0] eqn:Es; [discriminate|]. rewrite <- Es in *.
      destruct (flatten_go_counts _ _ _ _ _ E) as [Hall Hsp]. pose proof (synth_spread_length _ Hall) as Hlen.
      assert (Hl2 : (List.length sels <= 2)%nat) by lia.
      subst sels. destruct r0 as [|s1 [|s2 r2]]; [| |cbn [length] in Hl2; lia].
      + (* one node *)
        destruct s0 as [a n t p e sub l|c e sub l|n e l]; cbn [flatten_go] in E.
        * destruct (str_eqb n typename_name && N.eqb l 0) eqn:Et; [|discriminate].
          cbn [existsb flat_synth] in Hnon. rewrite Et in Hnon. discriminate Hnon.
        * discriminate.
        * destruct (find_fragment frags n) as [fr|] eqn:Ef; [|discriminate].
          destruct (find_type sch (fr_on fr)) as [ft|] eqn:Eft; [|discriminate].
          destruct (fragment_matches typ ft) eqn:Em; [|discriminate]. cbn [flatten_go] in E. injection E as <-.
          eapply shape_alone; [reflexivity | exact Ef | exact Eft | exact Em].
      + (* two nodes *)
        destruct s0 as [a n t p e sub l|c e sub l|n e l]; cbn [flatten_go] in E.
        * destruct (str_eqb n typename_name && N.eqb l 0) eqn:Et; [|discriminate].
          destruct s1 as [a1 n1 t1 p1 e1 sub1 l1|c1 e1 sub1 l1|n1 e1 l1]; cbn [flatten_go] in E.
          -- destruct (str_eqb n1 typename_name && N.eqb l1 0) eqn:Et1; [|discriminate].
             cbn [filter flat_synth length] in Hle1. rewrite Et, Et1 in Hle1. cbn [length] in Hle1. lia.
          -- discriminate.
          -- destruct (find_fragment frags n1) as [fr|] eqn:Ef; [|discriminate].
             destruct (find_type sch (fr_on fr)) as [ft|] eqn:Eft; [|discriminate].
             destruct (fragment_matches typ ft) eqn:Em; [|discriminate]. cbn [flatten_go] in E. injection E as <-.
             eapply shape_after with (t := SField a n t p e sub l); [cbn [flat_synth]; exact Et | reflexivity | exact Ef | exact Eft | exact Em].
        * discriminate.
        * destruct (find_fragment frags n) as [fr|] eqn:Ef; [|discriminate].
          destruct (find_type sch (fr_on fr)) as [ft|] eqn:Eft; [|discriminate].
          destruct (fragment_matches typ ft) eqn:Em; [|discriminate].
          destruct s1 as [a1 n1 t1 p1 e1 sub1 l1|c1 e1 sub1 l1|n1 e1 l1]; cbn [flatten_go] in E.
          -- destruct (str_eqb n1 typename_name && N.eqb l1 0) eqn:Et1; [|discriminate]. injection E as <-.
             eapply shape_before with (t := SField a1 n1 t1 p1 e1 sub1 l1); [cbn [flat_synth]; exact Et1 | reflexivity | exact Ef | exact Eft | exact Em].
          -- discriminate.
          -- discriminate.
    - (* FlatPanic: a spread whose fragment or fragment type does not resolve *)
      unfold validate_flatten_option in E. destruct sels as [|s0 r0] eqn:Es; [discriminate|]. rewrite <- Es in *. clear Es Hnon Hle1.
      assert (G : forall sels k idx, forallb (sel_okb2 sch frags srcs src) sels = true -> flatten_go sch frags typ sels k idx <> FlatPanic).
      { clear E Hsel sels s0 r0. induction sels as [|s r IH]; intros k idx Hs; cbn [flatten_go]; [discriminate|].
        cbn [forallb] in Hs. apply Bool.andb_true_iff in Hs. destruct Hs as [Hs Hr].
        destruct s as [a n t p e sub l|c e sub l|n e l].
        - destruct (str_eqb n typename_name && N.eqb l 0); [apply IH, Hr | discriminate].
        - discriminate.
        - destruct idx; [discriminate|]. cbn [sel_okb2] in Hs.
          destruct (find_fragment frags n) as [fr|] eqn:Ef; [|discriminate Hs].
          destruct (frag_on_resolves _ _ Ef) as [ft ->].
          destruct (fragment_matches typ ft); [apply IH, Hr | discriminate]. }
      exact (G _ _ _ Hsel E).
  Qed.
End Flat.
