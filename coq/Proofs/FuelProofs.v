(* The decoders are fuel-indexed; these lemmas show that fuel only bounds the depth: once a
   result is produced (anything but OutOfFuel) every larger fuel produces the SAME result. *)
From Verif Require Import Base.Str Gen.Consts Gen.Gql Gen.Directive Gen.Convert Rt.JsonDecode Proofs.JsonProofs.
From Coq Require Import ZArith Lia.

Definition defined {A} (r : res A) : Prop := r <> OutOfFuel.

(* [g] extends [f]: wherever f is defined, g gives the same result *)
Definition ext1 {A B} (f g : A -> res B) : Prop := forall x, defined (f x) -> g x = f x.

Lemma bind_defined {A B} (r : res A) (k : A -> res B) : defined (bind r k) -> defined r.
Proof. unfold defined. destruct r; cbn; congruence. Qed.

Lemma bind_ext {A B} (r r' : res A) (k k' : A -> res B) :
  defined (bind r k) -> r' = r -> (forall a, r = Ok a -> defined (k a) -> k' a = k a) -> bind r' k' = bind r k.
Proof.
  intros Hd -> Hk. destruct r as [a| | |]; cbn in *; try reflexivity. apply Hk; [reflexivity | exact Hd].
Qed.

Lemma at_field_defined {A} k (r : res A) : defined (at_field k r) -> defined r.
Proof. unfold defined. destruct r; cbn; congruence. Qed.

Lemma map_res_ext {A B} (f g : A -> res B) : ext1 f g -> forall l, defined (map_res f l) -> map_res g l = map_res f l.
Proof.
  intros He l. induction l as [|x r IH]; intro Hd; [reflexivity|]. cbn [map_res] in *.
  apply bind_ext; [exact Hd | apply He; exact (bind_defined _ _ Hd) |].
  intros a Ea Hk. apply bind_ext; [exact Hk | apply IH; exact (bind_defined _ _ Hk) | intros; reflexivity].
Qed.

Section Loops.
  Variables dec dec' : gotype -> jval -> gval -> res gval.
  Variables fl fl' : nat -> bool -> gotype -> raw -> gval -> res gval.
  Hypothesis Hdec : forall t j cur, defined (dec t j cur) -> dec' t j cur = dec t j cur.
  Hypothesis Hfl : forall n p l c cur, defined (fl n p l c cur) -> fl' n p l c cur = fl n p l c cur.

  Lemma at_field_ext {A} k (r r' : res A) : r' = r -> at_field k r' = at_field k r.
  Proof. intros ->. reflexivity. Qed.

  Lemma obj_loop_ext fields kvs : forall acc, defined (obj_loop dec fields kvs acc) -> obj_loop dec' fields kvs acc = obj_loop dec fields kvs acc.
  Proof.
    induction kvs as [|[k v] r IH]; intros acc Hd; [reflexivity|]. cbn [obj_loop] in *.
    destruct (find_key fields k) as [i|]; [|apply IH, Hd].
    destruct (nth_error fields i) as [[s f]|]; [|apply IH, Hd].
    apply bind_ext; [exact Hd | | intros a _ Hk; apply IH, Hk].
    apply at_field_ext, Hdec. exact (at_field_defined _ _ (bind_defined _ _ Hd)).
  Qed.

  Lemma first_pass_ext all kvs : forall acc caps, defined (first_pass dec all kvs acc caps) -> first_pass dec' all kvs acc caps = first_pass dec all kvs acc caps.
  Proof.
    induction kvs as [|[k v] r IH]; intros acc caps Hd; [reflexivity|]. cbn [first_pass] in *.
    destruct (find_key all k) as [i|]; [|apply IH, Hd].
    destruct (nth_error all i) as [[s [[|] f]]|]; [| |apply IH, Hd].
    - apply bind_ext; [exact Hd | reflexivity | intros a _ Hk; apply IH, Hk].
    - apply bind_ext; [exact Hd | | intros a _ Hk; apply IH, Hk].
      apply at_field_ext, Hdec. exact (at_field_defined _ _ (bind_defined _ _ Hd)).
  Qed.

  Lemma second_pass_ext j caps fls : forall acc, defined (second_pass dec fl j caps fls acc) -> second_pass dec' fl' j caps fls acc = second_pass dec fl j caps fls acc.
  Proof.
    induction fls as [|f r IH]; intros acc Hd; [reflexivity|]. cbn [second_pass] in *.
    destruct (negb (special f)); [apply IH, Hd|].
    destruct (gf_name f) as [|c nm].
    - apply bind_ext; [exact Hd | apply Hdec; exact (bind_defined _ _ Hd) | intros a _ Hk; apply IH, Hk].
    - apply bind_ext; [exact Hd | | intros a _ Hk; apply IH, Hk].
      apply at_field_ext, Hfl. exact (at_field_defined _ _ (bind_defined _ _ Hd)).
  Qed.
End Loops.

Section Mono.
  Variable tm : typemap.
  Variable w : bool.

  Lemma decode_S f (t : gotype) (j : jval) (cur : gval) : decode tm w (S f) t j cur =

        match t with
        | GOpaque r g m u =>
            
            match ref_shape r with
            | Some (true, rest) => decode tm w f (GSlice (GOpaque rest g m u)) j cur
            | Some (false, rest) => decode tm w f (GPtr (GOpaque rest g m u)) j cur
            | None => decode_scalar (scalar_kind tm t) j cur
            end
        | GAlias _ | GEnum _ => decode_scalar (scalar_kind tm t) j cur
        | GGeneric _ e => Err (b "generic-not-modelled")
        | GPtr e =>
            match j with
            | JNull => Ok VNilPtr
            | _ => do v <- decode tm w f e j (match cur with VPtr x => x | _ => zero_of e end); Ok (VPtr v)
            end
        | GSlice e =>
            match j with
            | JNull => Ok VNilSlice
            | JArr l =>
                do vs <- map_res (fun x => decode tm w f e x (zero_of e)) l;
                Ok (VSlice vs)
            | _ => Err (b "decode:slice-not-a-list")
            end
        | GIface n =>
            
            unmarshal_iface tm w f n j cur
        | GStruct n =>
            match assoc n tm with
            | Some (DStruct _ fields _ _) =>
                if struct_needs_unmarshal fields then unmarshal_struct tm w f n fields j cur
                else plain_struct tm w f n (map (fun fl => (gf_json fl, fl)) fields) j cur
            | _ => Err (b "no-such-struct")
            end
        end.
  Proof. reflexivity. Qed.

  Lemma plain_struct_S f (n : str) (fields : list (str * gofield)) (j : jval) (cur : gval) : plain_struct tm w (S f) n fields j cur =

        match j with
        | JNull => Ok cur
        | JObj kvs =>
            let cur_fields := match cur with VStruct _ fs => fs | _ => [] end in
            do fs <- obj_loop (fun t j c => decode tm w f t j c) fields kvs cur_fields;
            Ok (VStruct n fs)
        | _ => Err (b "decode:struct-not-an-object")
        end.
  Proof. reflexivity. Qed.

  Lemma unmarshal_struct_S f (n : str) (fields : list gofield) (j : jval) (cur : gval) : unmarshal_struct tm w (S f) n fields j cur =

        match j with
        | JNull => Ok cur
        | _ =>
            if negb w then Panic (b "firstPass promotes UnmarshalJSON: infinite recursion")
            else
              
              let ordinary := flat_map (fun fl => if special fl then [] else [(gf_json fl, fl)]) fields in
              let raws := flat_map (fun fl => if special fl && nonempty (gf_name fl) then [(gf_json fl, fl)] else []) fields in
              match j with
              | JObj kvs =>
                  let cur_fields := match cur with VStruct _ fs => fs | _ => [] end in
                  
                  let all := map (fun p => (fst p, (true, snd p))) raws ++ map (fun p => (fst p, (false, snd p))) ordinary in
                  do st <- first_pass (fun t j c => decode tm w f t j c) all kvs cur_fields [];
                  let '(acc1, caps) := st in
                  do fs <- second_pass (fun t j c => decode tm w f t j c) (fun n p l r c => fill tm w f n p l r c) j caps fields acc1;
                  Ok (VStruct n fs)
              | _ => Err EDEC
              end
        end.
  Proof. reflexivity. Qed.

  Lemma fill_S f (n : nat) (ptr : bool) (leaf : gotype) (c : raw) (cur : gval) : fill tm w (S f) n ptr leaf c cur =

        match n with
        | S k =>
            
            match c with
            | RList l =>
                do vs <- map_res (fun x => fill tm w f k ptr leaf x (elem_zero k ptr leaf)) l;
                Ok (VSlice vs)
            | _ => Ok (VSlice [])
            end
        | O =>
            match c with
            | RLeaf JNull | RAbsent | RNilList | RList _ => Ok cur    
            | RLeaf j =>
                let target := match cur with VPtr x => x | _ => zero_of leaf end in
                do v <- match leaf with
                        | GIface i => unmarshal_iface tm w f i j (if ptr then VNilIface else target)
                        | GOpaque r _ _ _ => decode_scalar (kind_of_ref r) j (if ptr then VZero else target)   
                        | other => decode tm w f other j (if ptr then zero_of other else target)
                        end;
                Ok (if ptr then VPtr v else v)
            end
        end.
  Proof. reflexivity. Qed.

  Lemma unmarshal_iface_S f (i : str) (j : jval) (cur : gval) : unmarshal_iface tm w (S f) i j cur =

        match j with
        | JNull => Ok cur
        | JObj kvs =>
            do tn <- scan_typename kvs [];
            match assoc i tm with
            | Some (DIface _ _ impls _) =>
                match tn with
                | [] => Err (b "missing-typename")
                | _ =>
                    match find_impl tm impls tn with
                    | Some impl => do v <- decode tm w f (GStruct impl) j (VStruct impl []); Ok (VIface impl v)
                    | None => Err (b "unexpected-typename")
                    end
                end
            | _ => Err (b "no-such-interface")
            end
        | _ => Err EDEC
        end.
  Proof. reflexivity. Qed.

  Theorem decode_fuel_monotone : forall f,
    (forall t j cur, defined (decode tm w f t j cur) -> decode tm w (S f) t j cur = decode tm w f t j cur)
    /\ (forall n fields j cur, defined (plain_struct tm w f n fields j cur) -> plain_struct tm w (S f) n fields j cur = plain_struct tm w f n fields j cur)
    /\ (forall n fields j cur, defined (unmarshal_struct tm w f n fields j cur) -> unmarshal_struct tm w (S f) n fields j cur = unmarshal_struct tm w f n fields j cur)
    /\ (forall n ptr leaf c cur, defined (fill tm w f n ptr leaf c cur) -> fill tm w (S f) n ptr leaf c cur = fill tm w f n ptr leaf c cur)
    /\ (forall i j cur, defined (unmarshal_iface tm w f i j cur) -> unmarshal_iface tm w (S f) i j cur = unmarshal_iface tm w f i j cur).
  Proof.
    induction f as [|f (IHd & IHp & IHu & IHf & IHi)].
    - repeat split; intros; exfalso; apply H; reflexivity.
    - split; [|split; [|split; [|split]]].
      + intros t j cur Hd. rewrite (decode_S (S f)), (decode_S f). rewrite decode_S in Hd. cbv zeta in Hd |- *.
        destruct t as [r g m u|n|n|n|n|e|e|r e]; try reflexivity.
        * destruct (ref_shape r) as [[[] rest]|]; [apply IHd, Hd | apply IHd, Hd | reflexivity].
        * destruct (assoc n tm) as [[g fields sel inp| | |]|]; try reflexivity.
          destruct (struct_needs_unmarshal fields); [apply IHu, Hd | apply IHp, Hd].
        * apply IHi, Hd.
        * destruct j; try reflexivity.
          apply bind_ext; [exact Hd | | intros; reflexivity].
          apply map_res_ext; [intros x Hx; apply IHd, Hx | exact (bind_defined _ _ Hd)].
        * destruct j; try reflexivity;
            (apply bind_ext; [exact Hd | apply IHd; exact (bind_defined _ _ Hd) | intros; reflexivity]).
      + intros n fields j cur Hd. rewrite (plain_struct_S (S f)), (plain_struct_S f). rewrite plain_struct_S in Hd. cbv zeta in Hd |- *. destruct j; try reflexivity.
        apply bind_ext; [exact Hd | | intros; reflexivity].
        apply obj_loop_ext; [intros t0 j0 c0 H0; exact (IHd t0 j0 c0 H0) | exact (bind_defined _ _ Hd)].
      + intros n fields j cur Hd. rewrite (unmarshal_struct_S (S f)), (unmarshal_struct_S f). rewrite unmarshal_struct_S in Hd. cbv zeta in Hd |- *. destruct j; try reflexivity.
        destruct (negb w); [reflexivity|].
        apply bind_ext; [exact Hd | | ].
        * apply first_pass_ext; [intros t0 j0 c0 H0; exact (IHd t0 j0 c0 H0) | exact (bind_defined _ _ Hd)].
        * intros [acc1 caps] _ Hk. apply bind_ext; [exact Hk | | intros; reflexivity].
          apply second_pass_ext; [intros t0 j0 c0 H0; exact (IHd t0 j0 c0 H0) | intros n0 p0 l0 r0 c0 H0; exact (IHf n0 p0 l0 r0 c0 H0) | exact (bind_defined _ _ Hk)].
      + intros n ptr leaf c cur Hd. rewrite (fill_S (S f)), (fill_S f). rewrite fill_S in Hd. cbv zeta in Hd |- *. destruct n as [|k].
        * destruct c as [|j| |l]; try reflexivity. destruct j; try reflexivity;
            (apply bind_ext; [exact Hd | | intros; reflexivity]);
            pose proof (bind_defined _ _ Hd) as Hd';
            destruct leaf; try reflexivity; try (apply IHd, Hd'); try (apply IHi, Hd').
        * destruct c as [|j| |l]; try reflexivity.
          apply bind_ext; [exact Hd | | intros; reflexivity].
          apply map_res_ext; [intros x Hx; apply IHf, Hx | exact (bind_defined _ _ Hd)].
      + intros i j cur Hd. rewrite (unmarshal_iface_S (S f)), (unmarshal_iface_S f). rewrite unmarshal_iface_S in Hd. cbv zeta in Hd |- *. destruct j; try reflexivity.
        apply bind_ext; [exact Hd | reflexivity |].
        intros tn _ Hk. destruct (assoc i tm) as [[| g sh impls sel | |]|]; try reflexivity.
        destruct tn; [reflexivity|].
        destruct (find_impl tm impls (n :: tn)); [|reflexivity].
        apply bind_ext; [exact Hk | apply IHd; exact (bind_defined _ _ Hk) | intros; reflexivity].
  Qed.

  (* any two fuels that both produce a result produce the same one *)
  Corollary decode_fuel_irrelevant : forall f d t j cur,
    defined (decode tm w f t j cur) -> decode tm w (d + f) t j cur = decode tm w f t j cur.
  Proof.
    intros f d. induction d as [|d IH]; intros t j cur Hd; [reflexivity|].
    cbn [plus]. rewrite <- (IH t j cur Hd).
    apply (proj1 (decode_fuel_monotone (d + f))). rewrite (IH t j cur Hd). exact Hd.
  Qed.
End Mono.
