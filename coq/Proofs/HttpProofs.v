From Verif Require Import Base.Str Rt.Http.
From Coq Require Import Lia.

(* ---------- finite sweeps over bytes, lifted with forallb_forall ---------- *)
Definition all_bytes : list N := map N.of_nat (seq 0 256).

Lemma in_all_bytes c : c < 256 -> In c all_bytes.
Proof.
  intro H. unfold all_bytes. rewrite <- (N2Nat.id c). apply in_map. apply in_seq. lia.
Qed.

Lemma byte_sweep (P : N -> bool) :
  forallb P all_bytes = true -> forall c, c < 256 -> P c = true.
Proof.
  intros H c Hc. rewrite forallb_forall in H. apply H. apply in_all_bytes. exact Hc.
Qed.

Definition chk_unreserved (c : N) : bool :=
  implb (unreserved c) (negb (N.eqb c 37) && negb (N.eqb c 43) && negb (N.eqb c 38)
                        && negb (N.eqb c 61) && negb (N.eqb c 59)).
Lemma unreserved_facts c : c < 256 -> chk_unreserved c = true.
Proof. apply byte_sweep. vm_compute. reflexivity. Qed.

Definition chk_hex (c : N) : bool :=
  match unhex (hex_digit (c / 16)), unhex (hex_digit (c mod 16)) with
  | Some a, Some d => N.eqb (16 * a + d) c
  | _, _ => false
  end.
Lemma hex_facts c : c < 256 -> chk_hex c = true.
Proof. apply byte_sweep. vm_compute. reflexivity. Qed.

Definition safe (c : N) : bool := negb (N.eqb c amp) && negb (N.eqb c eqc) && negb (N.eqb c semi).
Definition chk_safe (c : N) : bool := forallb safe (escape_byte c).
Lemma safe_facts c : c < 256 -> chk_safe c = true.
Proof. apply byte_sweep. vm_compute. reflexivity. Qed.

Definition is_byte (c : N) : Prop := c < 256.
Definition bytes (s : str) : Prop := Forall is_byte s.

(* ---------- QueryUnescape . QueryEscape = id ---------- *)
Lemma unescape_escape_byte c r :
  c < 256 ->
  query_unescape (escape_byte c ++ r) = option_map (cons c) (query_unescape r).
Proof.
  intro Hc. unfold escape_byte.
  destruct (unreserved c) eqn:Hu.
  - pose proof (unreserved_facts c Hc) as F. unfold chk_unreserved in F. rewrite Hu in F. simpl in F.
    repeat (apply andb_true_iff in F as [F ?]).
    apply negb_true_iff in F. simpl.
    rewrite F.
    match goal with H : negb (N.eqb c 43) = true |- _ => apply negb_true_iff in H; rewrite H end.
    reflexivity.
  - destruct (N.eqb c 32) eqn:H32.
    + apply N.eqb_eq in H32. subst. reflexivity.
    + pose proof (hex_facts c Hc) as F. unfold chk_hex in F.
      cbn [app query_unescape]. change (N.eqb 37 37) with true. cbv iota.
      destruct (unhex (hex_digit (c / 16))) as [a|]; [|discriminate].
      destruct (unhex (hex_digit (c mod 16))) as [d|]; [|discriminate].
      apply N.eqb_eq in F. rewrite F. reflexivity.
Qed.

Theorem unescape_escape s : bytes s -> query_unescape (query_escape s) = Some s.
Proof.
  induction 1 as [|c s Hc Hs IH]; [reflexivity|].
  unfold query_escape. cbn [flat_map]. rewrite unescape_escape_byte by exact Hc.
  fold (query_escape s). rewrite IH. reflexivity.
Qed.

Lemma escape_safe s : bytes s -> forallb safe (query_escape s) = true.
Proof.
  induction 1 as [|c s Hc Hs IH]; [reflexivity|].
  unfold query_escape. cbn [flat_map]. rewrite forallb_app. apply andb_true_iff. split.
  - apply (safe_facts c Hc).
  - exact IH.
Qed.

Lemma safe_not c x : safe c = true -> (x = amp \/ x = eqc \/ x = semi) -> N.eqb c x = false.
Proof.
  unfold safe. intros H Hx. repeat (apply andb_true_iff in H as [H ?]).
  repeat match goal with H : negb _ = true |- _ => apply negb_true_iff in H end.
  destruct Hx as [->|[->| ->]]; assumption.
Qed.

Lemma contains_safe x s : forallb safe s = true -> (x = amp \/ x = eqc \/ x = semi) -> contains x s = false.
Proof.
  intros H Hx. unfold contains. induction s as [|c s IH]; [reflexivity|].
  simpl in *. apply andb_true_iff in H as [H1 H2].
  rewrite (N.eqb_sym x c), (safe_not c x H1 Hx). simpl. apply IH. exact H2.
Qed.

(* ---------- cut / split on separators absent from escaped text ---------- *)
Lemma cut_app_sep sep a r :
  contains sep a = false -> cut sep (a ++ sep :: r) = (a, Some r).
Proof.
  induction a as [|c a IH]; simpl; intro H.
  - rewrite N.eqb_refl. reflexivity.
  - apply orb_false_iff in H as [H1 H2]. rewrite N.eqb_sym in H1. rewrite H1.
    rewrite (IH H2). reflexivity.
Qed.

Lemma split_on_app sep a r :
  contains sep a = false -> split_on sep (a ++ sep :: r) = a :: split_on sep r.
Proof.
  induction a as [|c a IH]; simpl; intro H.
  - rewrite N.eqb_refl. reflexivity.
  - apply orb_false_iff in H as [H1 H2]. rewrite N.eqb_sym in H1. rewrite H1.
    rewrite (IH H2). reflexivity.
Qed.

Lemma split_on_none sep a : contains sep a = false -> split_on sep a = [a].
Proof.
  induction a as [|c a IH]; simpl; intro H; [reflexivity|].
  apply orb_false_iff in H as [H1 H2]. rewrite N.eqb_sym in H1. rewrite H1.
  rewrite (IH H2). reflexivity.
Qed.

Lemma split_join sep parts :
  parts <> [] -> Forall (fun p => contains sep p = false) parts ->
  split_on sep (join [sep] parts) = parts.
Proof.
  induction parts as [|p ps IH]; [congruence|]. intros _ HF. inversion HF as [|? ? Hp Hps]; subst.
  destruct ps as [|q ps'].
  - simpl. apply split_on_none. exact Hp.
  - change (join [sep] (p :: q :: ps')) with (p ++ sep :: join [sep] (q :: ps')).
    rewrite split_on_app by exact Hp. f_equal. apply IH; [discriminate | exact Hps].
Qed.

Definition pair_bytes (p : str * str) : Prop := bytes (fst p) /\ bytes (snd p).

Lemma contains_app x a c : contains x (a ++ c) = contains x a || contains x c.
Proof. unfold contains. apply existsb_app. Qed.

Lemma encode_pair_no (x : N) p :
  pair_bytes p -> (x = amp \/ x = semi) -> contains x (encode_pair p) = false.
Proof.
  intros [Hk Hv] Hx. unfold encode_pair. rewrite !contains_app.
  rewrite (contains_safe x _ (escape_safe _ Hk)) by tauto.
  rewrite (contains_safe x _ (escape_safe _ Hv)) by tauto.
  simpl. destruct Hx as [->| ->]; reflexivity.
Qed.

Lemma parse_segment_encode p : pair_bytes p -> parse_segment (encode_pair p) = Some p.
Proof.
  intros Hp. unfold parse_segment. rewrite (encode_pair_no semi p Hp) by tauto.
  destruct Hp as [Hk Hv]. destruct p as [k v]. simpl in *.
  unfold encode_pair. simpl fst. simpl snd.
  destruct (query_escape k ++ [eqc] ++ query_escape v) eqn:E.
  - destruct (query_escape k); discriminate.
  - rewrite <- E. change (query_escape k ++ [eqc] ++ query_escape v) with (query_escape k ++ eqc :: query_escape v).
    rewrite cut_app_sep by (apply contains_safe; [apply escape_safe; exact Hk | tauto]).
    rewrite (unescape_escape k Hk), (unescape_escape v Hv). reflexivity.
Qed.

Lemma join_ne sep x r : x <> [] -> join sep (x :: r) <> [].
Proof.
  intros Hx. destruct r as [|y r]; simpl; [exact Hx|].
  destruct x as [|c x]; [congruence|]. simpl. discriminate.
Qed.

Lemma encode_pair_ne p : encode_pair p <> [].
Proof. unfold encode_pair. destruct (query_escape (fst p)); simpl; discriminate. Qed.

Theorem parse_encode_pairs l : Forall pair_bytes l -> parse_query (encode_pairs l) = l.
Proof.
  intro HF. unfold parse_query, encode_pairs.
  destruct l as [|p l]; [reflexivity|].
  assert (Hne : join [amp] (map encode_pair (p :: l)) <> []).
  { cbn [map]. apply join_ne. apply encode_pair_ne. }
  destruct (join [amp] (map encode_pair (p :: l))) eqn:E; [congruence|]. rewrite <- E. clear E Hne.
  rewrite split_join.
  - rewrite map_map. induction HF as [|q l' Hq Hl IH]; [reflexivity|].
    simpl. rewrite (parse_segment_encode q Hq). f_equal. exact IH.
  - discriminate.
  - apply Forall_map. eapply Forall_impl; [|exact HF]. intros q Hq. apply encode_pair_no; tauto.
Qed.

(* ---------- the stable sort keeps every key's value list ---------- *)
Lemma str_leb_refl x : str_leb x x = true.
Proof. induction x as [|c x IH]; simpl; [reflexivity|]. rewrite N.ltb_irrefl. exact IH. Qed.

Lemma vget_insert k p l :
  vget k (insert_pair p l) = if str_eqb (fst p) k then snd p :: vget k l else vget k l.
Proof.
  unfold vget. induction l as [|q r IH]; simpl.
  - destruct (str_eqb (fst p) k); reflexivity.
  - destruct (str_ltb (fst q) (fst p)) eqn:Hlt; simpl.
    + destruct (str_eqb (fst q) k) eqn:Hq; simpl.
      * (* q has key k and q < p strictly, so p does not have key k *)
        apply str_eqb_eq in Hq. destruct (str_eqb (fst p) k) eqn:Hp.
        -- apply str_eqb_eq in Hp. exfalso. unfold str_ltb in Hlt. rewrite Hq, Hp, str_leb_refl in Hlt. discriminate.
        -- rewrite IH. reflexivity.
      * rewrite IH. reflexivity.
    + destruct (str_eqb (fst p) k); reflexivity.
Qed.

Lemma vget_sort k l : vget k (sort_pairs l) = vget k l.
Proof.
  induction l as [|p l IH]; [reflexivity|].
  simpl. rewrite vget_insert, IH. unfold vget. simpl.
  destruct (str_eqb (fst p) k); reflexivity.
Qed.

Lemma sort_pairs_bytes l : Forall pair_bytes l -> Forall pair_bytes (sort_pairs l).
Proof.
  induction 1 as [|p l Hp Hl IH]; [constructor|]. simpl.
  revert IH. generalize (sort_pairs l). intros s Hs.
  induction s as [|q s IHs]; simpl.
  - constructor; [exact Hp | constructor].
  - inversion Hs; subst. destruct (str_ltb (fst q) (fst p)).
    + constructor; [assumption | apply IHs; assumption].
    + constructor; [exact Hp | exact Hs].
Qed.

Lemma vget_vset_same k v l : vget k (vset k v l) = [v].
Proof.
  unfold vget, vset. rewrite filter_app, map_app. simpl. rewrite str_eqb_refl. simpl.
  replace (filter (fun p => str_eqb (fst p) k) (filter (fun p => negb (str_eqb (fst p) k)) l)) with (@nil (str*str)); [reflexivity|].
  induction l as [|q l IH]; [reflexivity|]. simpl.
  destruct (str_eqb (fst q) k) eqn:E; simpl; [exact IH | rewrite E; exact IH].
Qed.

Lemma vget_vset_other k k' v l : k <> k' -> vget k' (vset k v l) = vget k' l.
Proof.
  intro Hne. unfold vget, vset. rewrite filter_app, map_app. simpl.
  destruct (str_eqb k k') eqn:E; [apply str_eqb_eq in E; contradiction|]. simpl. rewrite app_nil_r.
  f_equal. induction l as [|q l IH]; [reflexivity|]. simpl.
  destruct (str_eqb (fst q) k) eqn:E1; simpl.
  - apply str_eqb_eq in E1. rewrite E1, E. exact IH.
  - destruct (str_eqb (fst q) k'); [f_equal|]; exact IH.
Qed.

Lemma vset_bytes k v l : bytes k -> bytes v -> Forall pair_bytes l -> Forall pair_bytes (vset k v l).
Proof.
  intros Hk Hv Hl. unfold vset. apply Forall_app. split.
  - apply Forall_forall. intros x Hx. apply filter_In in Hx as [Hx _]. rewrite Forall_forall in Hl. auto.
  - constructor; [split; assumption | constructor].
Qed.

(* values_encode then parse gives back, for every key, the values in insertion order *)
Theorem vget_parse_encode k l :
  Forall pair_bytes l -> vget k (parse_query (values_encode l)) = vget k l.
Proof.
  intro H. unfold values_encode. rewrite parse_encode_pairs by (apply sort_pairs_bytes; exact H).
  apply vget_sort.
Qed.

(* ---------- query_unescape yields bytes, so parsed endpoint parameters are bytes ---------- *)
Lemma unhex_lt c a : unhex c = Some a -> a < 16.
Proof.
  unfold unhex, is_digit. intro H.
  destruct ((48 <=? c) && (c <=? 57)) eqn:E1.
  - injection H as <-. apply andb_true_iff in E1 as [A B]. apply N.leb_le in A, B. lia.
  - destruct ((65 <=? c) && (c <=? 70)) eqn:E2.
    + injection H as <-. apply andb_true_iff in E2 as [A B]. apply N.leb_le in A, B. lia.
    + destruct ((97 <=? c) && (c <=? 102)) eqn:E3; [|discriminate].
      injection H as <-. apply andb_true_iff in E3 as [A B]. apply N.leb_le in A, B. lia.
Qed.

Lemma mul16_lt a d : a < 16 -> d < 16 -> is_byte (16 * a + d).
Proof. unfold is_byte. lia. Qed.

Lemma unescape_bytes_fuel (n : nat) : forall s t, (List.length s <= n)%nat -> bytes s -> query_unescape s = Some t -> bytes t.
Proof.
  induction n as [|n IH]; intros s t Hn Hs H.
  - destruct s; [injection H as <-; constructor | simpl in Hn; lia].
  - destruct s as [|c r]; [injection H as <-; constructor|].
    inversion Hs as [|? ? Hc Hr]; subst. cbn [query_unescape] in H. simpl in Hn.
    destruct (N.eqb c 37).
    + destruct r as [|h [|l r']]; try discriminate.
      destruct (unhex h) as [a|] eqn:Ea; [|discriminate].
      destruct (unhex l) as [d|] eqn:Ed; [|discriminate].
      destruct (query_unescape r') as [t'|] eqn:Er; [|discriminate]. injection H as <-.
      inversion Hr as [|? ? ? Hr1]; subst. inversion Hr1; subst.
      constructor.
      * apply unhex_lt in Ea, Ed. apply (mul16_lt a d Ea Ed).
      * apply (IH r' t'); [simpl in Hn; lia | assumption | exact Er].
    + destruct (query_unescape r) as [t'|] eqn:Er; [|discriminate]. injection H as <-.
      constructor.
      * destruct (N.eqb c 43); [unfold is_byte; lia | exact Hc].
      * apply (IH r t'); [lia | assumption | exact Er].
Qed.

Lemma unescape_bytes s t : bytes s -> query_unescape s = Some t -> bytes t.
Proof. apply (unescape_bytes_fuel (List.length s)). lia. Qed.

Lemma cut_bytes sep s a r : bytes s -> cut sep s = (a, r) ->
  bytes a /\ match r with Some r' => bytes r' | None => True end.
Proof.
  revert a r; induction s as [|c s IH]; intros a r Hs H; simpl in H.
  - injection H as <- <-. split; [constructor | exact I].
  - inversion Hs; subst. destruct (N.eqb c sep).
    + injection H as <- <-. split; [constructor | assumption].
    + destruct (cut sep s) as [a' r'] eqn:E. injection H as <- <-.
      destruct (IH a' r' ltac:(assumption) eq_refl) as [Ha Hr]. split; [constructor; assumption | exact Hr].
Qed.

Lemma split_on_bytes sep s : bytes s -> Forall bytes (split_on sep s).
Proof.
  induction 1 as [|c s Hc Hs IH]; simpl.
  - constructor; constructor.
  - destruct (N.eqb c sep).
    + constructor; [constructor | exact IH].
    + destruct (split_on sep s) as [|x xs].
      * constructor; [constructor; [exact Hc | constructor] | constructor].
      * inversion IH; subst. constructor; [constructor; assumption | assumption].
Qed.

Lemma parse_segment_bytes seg p : bytes seg -> parse_segment seg = Some p -> pair_bytes p.
Proof.
  intros Hs H. unfold parse_segment in H. destruct (contains semi seg); [discriminate|].
  destruct seg as [|c seg']; [discriminate|].
  destruct (cut eqc (c :: seg')) as [k v] eqn:E.
  apply cut_bytes in E as [Hk Hv]; [|exact Hs].
  destruct (query_unescape k) as [k'|] eqn:Ek; [|discriminate].
  destruct (query_unescape match v with Some v' => v' | None => [] end) as [v'|] eqn:Ev; [|discriminate].
  injection H as <-. split; simpl.
  - eapply unescape_bytes; eassumption.
  - eapply unescape_bytes; [|exact Ev]. destruct v; [exact Hv | constructor].
Qed.

Lemma parse_query_bytes s : bytes s -> Forall pair_bytes (parse_query s).
Proof.
  intro Hs. unfold parse_query. destruct s as [|c s']; [constructor|].
  pose proof (split_on_bytes amp _ Hs) as HF. revert HF. generalize (split_on amp (c :: s')).
  intros l HF. induction HF as [|seg l Hseg Hl IH]; simpl; [constructor|].
  destruct (parse_segment seg) as [p|] eqn:E; [|exact IH].
  constructor; [eapply parse_segment_bytes; eassumption | exact IH].
Qed.


(* ---------- createGetRequest ---------- *)
Ltac sne := let E := fresh "E" in intro E; vm_compute in E; discriminate E.

Definition request_bytes (r : request) : Prop :=
  bytes (rq_query r) /\ bytes (rq_opname r) /\ forall v, rq_variables r = Some v -> bytes v.

Lemma keys_bytes : bytes k_query /\ bytes k_opname /\ bytes k_variables.
Proof. repeat split; vm_compute; repeat constructor. Qed.

Lemma set_if_nonempty_bytes k v st :
  bytes k -> bytes v -> Forall pair_bytes (fst st) -> Forall pair_bytes (fst (set_if_nonempty k v st)).
Proof.
  intros Hk Hv H. unfold set_if_nonempty. destruct v; [exact H|]. simpl. apply vset_bytes; assumption.
Qed.

Lemma apply_sets_bytes r params :
  request_bytes r -> Forall pair_bytes params -> Forall pair_bytes (fst (apply_sets r params)).
Proof.
  intros (Hq & Ho & Hv) Hp. destruct keys_bytes as (Kq & Ko & Kv). unfold apply_sets.
  assert (H2 : Forall pair_bytes (fst (set_if_nonempty k_opname (rq_opname r)
                 (set_if_nonempty k_query (rq_query r) (params, false))))).
  { apply set_if_nonempty_bytes; try assumption. apply set_if_nonempty_bytes; assumption. }
  destruct (rq_variables r) as [v|] eqn:E; [|exact H2].
  simpl. apply vset_bytes; auto.
Qed.

Lemma vget_set_if_nonempty k k' v st :
  vget k' (fst (set_if_nonempty k v st)) =
  if str_eqb k' k && negb (str_eqb v []) then [v] else vget k' (fst st).
Proof.
  unfold set_if_nonempty. destruct v as [|c v].
  - rewrite andb_false_r. reflexivity.
  - simpl negb. rewrite andb_true_r. simpl fst.
    destruct (str_eqb k' k) eqn:E.
    + apply str_eqb_eq in E. subst. apply vget_vset_same.
    + apply str_eqb_neq in E. apply vget_vset_other. congruence.
Qed.

Lemma vget_apply_sets r params k :
  vget k (fst (apply_sets r params)) = expected_param r params k.
Proof.
  unfold apply_sets, expected_param.
  destruct (rq_variables r) as [v|].
  - simpl fst. destruct (str_eqb k k_variables) eqn:E.
    + apply str_eqb_eq in E. subst. apply vget_vset_same.
    + apply str_eqb_neq in E. rewrite vget_vset_other by congruence.
      rewrite !vget_set_if_nonempty. reflexivity.
  - rewrite !vget_set_if_nonempty. reflexivity.
Qed.

Lemma apply_sets_not_updated r params :
  snd (apply_sets r params) = false ->
  rq_query r = [] /\ rq_opname r = [] /\ rq_variables r = None.
Proof.
  unfold apply_sets, set_if_nonempty. destruct (rq_variables r); [discriminate|].
  destruct (rq_query r); destruct (rq_opname r); simpl; try discriminate. auto.
Qed.

Lemma split_endpoint_bytes ep : bytes ep -> bytes (ep_rawquery (split_endpoint ep)).
Proof.
  intro H. unfold split_endpoint.
  destruct (cut hash ep) as [pre frag] eqn:E1. apply cut_bytes in E1 as [Hpre _]; [|exact H].
  destruct (cut qmark pre) as [base q] eqn:E2. apply cut_bytes in E2 as [_ Hq]; [|exact Hpre].
  simpl. destruct q; [exact Hq | constructor].
Qed.

(* the decoded parameters of the URL built by the GET client are exactly the specified ones:
   the three request fields when present, every other endpoint parameter unchanged;
   base (scheme, host, path) and fragment are untouched *)
Theorem create_get_params ep r e' :
  bytes ep -> request_bytes r ->
  create_get_parts ep r = Ok e' ->
  let e := split_endpoint ep in
  ep_base e' = ep_base e /\ ep_fragment e' = ep_fragment e /\
  forall k, vget k (parse_query (ep_rawquery e')) = expected_param r (parse_query (ep_rawquery e)) k.
Proof.
  intros Hep Hr H e. unfold create_get_parts in H. fold e in H.
  destruct (negb (str_eqb (rq_query r) []) && starts_with_kw kw_mutation (rq_query r)); [discriminate|].
  destruct (negb (str_eqb (rq_query r) []) && starts_with_kw kw_subscription (rq_query r)); [discriminate|].
  injection H as <-.
  pose proof (parse_query_bytes _ (split_endpoint_bytes ep Hep)) as Hp. fold e in Hp.
  destruct (snd (apply_sets r (parse_query (ep_rawquery e)))) eqn:Hu.
  - simpl. repeat split. intro k.
    rewrite vget_parse_encode by (apply apply_sets_bytes; assumption).
    apply vget_apply_sets.
  - repeat split. intro k. apply apply_sets_not_updated in Hu as (Hq & Ho & Hv).
    unfold expected_param. rewrite Hv, Hq, Ho. rewrite !andb_false_r. reflexivity.
Qed.

(* ---------- the operation-kind gate ---------- *)
Definition plain_start (c : N) : bool := negb (is_space c) && (c <? 128).

Lemma trim_plain c r : plain_start c = true -> trim_left_space (c :: r) = c :: r.
Proof.
  unfold plain_start. intro H. apply andb_true_iff in H as [H1 H2].
  apply negb_true_iff in H1. apply N.ltb_lt in H2. cbn [trim_left_space]. rewrite H1.
  destruct r as [|d r2]; [reflexivity|].
  assert (space2 c d = false) as ->.
  { unfold space2. destruct (N.eqb_spec c 194); [lia | reflexivity]. }
  destruct r2 as [|e r3]; [reflexivity|].
  assert (space3 c d e = false) as ->.
  { unfold space3. destruct (N.eqb_spec c 225); [lia|]. destruct (N.eqb_spec c 226); [lia|].
    destruct (N.eqb_spec c 227); [lia|]. reflexivity. }
  reflexivity.
Qed.

Lemma trim_emitted kw name rest :
  (exists c r, kw = c :: r /\ plain_start c = true) ->
  trim_left_space (emitted_doc kw name rest) = kw ++ [32] ++ name ++ rest.
Proof.
  intros (c & r & -> & Hc). unfold emitted_doc.
  change ([10] ++ (c :: r) ++ [32] ++ name ++ rest) with (10 :: c :: (r ++ [32] ++ name ++ rest)).
  cbn [trim_left_space]. change (is_space 10) with true. cbv iota.
  apply (trim_plain c _ Hc).
Qed.

Lemma is_prefix_app p s : is_prefix p (p ++ s) = true.
Proof. apply is_prefix_spec. exists s. reflexivity. Qed.

Theorem get_refuses_emitted_mutation ep name rest r :
  rq_query r = emitted_doc kw_mutation name rest -> create_get ep r = Err (b "NoMutations").
Proof.
  intro Hq. unfold create_get, create_get_parts. rewrite Hq.
  assert (starts_with_kw kw_mutation (emitted_doc kw_mutation name rest) = true) as ->.
  { unfold starts_with_kw. rewrite trim_emitted by (eexists _, _; split; [vm_compute; reflexivity | reflexivity]).
    apply is_prefix_app. }
  reflexivity.
Qed.

Theorem get_refuses_emitted_subscription ep name rest r :
  rq_query r = emitted_doc kw_subscription name rest -> create_get ep r = Err (b "NoSubscriptions").
Proof.
  intro Hq. unfold create_get, create_get_parts. rewrite Hq.
  assert (starts_with_kw kw_mutation (emitted_doc kw_subscription name rest) = false) as ->.
  { unfold starts_with_kw. rewrite trim_emitted by (eexists _, _; split; [vm_compute; reflexivity | reflexivity]).
    reflexivity. }
  assert (starts_with_kw kw_subscription (emitted_doc kw_subscription name rest) = true) as ->.
  { unfold starts_with_kw. rewrite trim_emitted by (eexists _, _; split; [vm_compute; reflexivity | reflexivity]).
    apply is_prefix_app. }
  reflexivity.
Qed.

Theorem post_refuses_emitted_subscription name rest r :
  rq_query r = emitted_doc kw_subscription name rest -> create_post r = Err (b "NoSubscriptions").
Proof.
  intro Hq. unfold create_post. rewrite Hq.
  assert (starts_with_kw kw_subscription (emitted_doc kw_subscription name rest) = true) as ->.
  { unfold starts_with_kw. rewrite trim_emitted by (eexists _, _; split; [vm_compute; reflexivity | reflexivity]).
    apply is_prefix_app. }
  reflexivity.
Qed.

(* queries are never refused, by either client; mutations are not refused by POST *)
Theorem emitted_query_accepted ep name rest r :
  rq_query r = emitted_doc kw_query name rest ->
  (exists u, create_get ep r = Ok u) /\ (exists body, create_post r = Ok body).
Proof.
  intro Hq. unfold create_get, create_get_parts, create_post. rewrite Hq.
  assert (forall kw, kw = kw_mutation \/ kw = kw_subscription ->
            starts_with_kw kw (emitted_doc kw_query name rest) = false) as Hn.
  { intros kw [-> | ->]; unfold starts_with_kw;
      rewrite trim_emitted by (eexists _, _; split; [vm_compute; reflexivity | reflexivity]); reflexivity. }
  rewrite !Hn by tauto. rewrite !andb_false_r. simpl. split; eexists; reflexivity.
Qed.

Theorem post_accepts_emitted_mutation name rest r :
  rq_query r = emitted_doc kw_mutation name rest -> exists body, create_post r = Ok body.
Proof.
  intro Hq. unfold create_post. rewrite Hq.
  assert (starts_with_kw kw_subscription (emitted_doc kw_mutation name rest) = false) as ->.
  { unfold starts_with_kw. rewrite trim_emitted by (eexists _, _; split; [vm_compute; reflexivity | reflexivity]). reflexivity. }
  rewrite andb_false_r. eexists. reflexivity.
Qed.

(* POST body carries the request's fields verbatim; variables omitted iff nil *)
Theorem create_post_fields r body :
  create_post r = Ok body ->
  body = [BQuery (rq_query r)]
         ++ (match rq_variables r with Some v => [BVariables v] | None => [] end)
         ++ [BOpName (rq_opname r)].
Proof.
  unfold create_post. destruct (_ && _); [discriminate|]. intro H. injection H as <-. reflexivity.
Qed.

(* the full statement of the gate over ARBITRARY hand-written documents is false:
   a leading comment hides the keyword from the textual test *)
Theorem gate_arbitrary_refuted :
  exists r ep u, starts_with_kw kw_mutation (rq_query r) = false /\
                 rq_query r = [35; 120; 10] ++ kw_mutation ++ b " M { f }" /\
                 create_get ep r = Ok u.
Proof.
  exists {| rq_query := [35; 120; 10] ++ kw_mutation ++ b " M { f }"; rq_opname := []; rq_variables := None |}.
  exists (b "http://h/p"). eexists. split; [vm_compute; reflexivity|]. split; [reflexivity|].
  vm_compute. reflexivity.
Qed.
