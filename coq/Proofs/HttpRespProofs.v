From Verif Require Import Base.Str Rt.HttpResp.
From Coq Require Import Lia Arith PeanoNat.

(* the model's outcome always satisfies the documented classification *)
Theorem run_response_classified c : spec_outcome_ok c (r_out (run_response c)) = true.
Proof.
  destruct c as [de st len fe [ok n] wenv fl].
  unfold run_response, spec_outcome_ok, envelope_arrives; cbn [hc_do_err hc_status hc_first_end hc_first_env hc_whole_env hc_fault eo_ok eo_nerrors].
  destruct de; [reflexivity|]. cbn [negb andb].
  destruct (N.eqb st 200) eqn:Hs; cbn [negb andb].
  - destruct fe as [e|]; [|cbn; rewrite ?Hs; reflexivity].
    destruct (faults_before fl e); [cbn; rewrite ?Hs; reflexivity|].
    destruct ok; [|cbn; rewrite ?Hs; reflexivity].
    destruct n as [|n]; cbn; rewrite ?Hs; cbn; [reflexivity|].
    rewrite Nat.eqb_refl. reflexivity.
  - destruct fl; [| destruct wenv as [[wok wn]|]; [destruct wok|]];
      cbn; rewrite ?Hs, ?N.eqb_refl; reflexivity.
Qed.

Definition same_kind (a c : outcome) : bool :=
  match a, c with
  | OTransport, OTransport | ONil, ONil | OOther, OOther => true
  | OHTTPError s _ _, OHTTPError t _ _ => N.eqb s t
  | OGqlErrors n, OGqlErrors m => Nat.eqb n m
  | _, _ => false
  end.

(* the classification is exclusive: any two outcomes it accepts for one input are of the
   same kind (same status / same number of errors) *)
Theorem spec_outcome_exclusive c o1 o2 :
  spec_outcome_ok c o1 = true -> spec_outcome_ok c o2 = true -> same_kind o1 o2 = true.
Proof.
  unfold spec_outcome_ok, same_kind.
  destruct o1, o2; intros H1 H2; try reflexivity;
    repeat match goal with
           | H : _ && _ = true |- _ => apply andb_true_iff in H as [? ?]
           | H : negb _ = true |- _ => apply negb_true_iff in H
           | H : N.eqb _ _ = true |- _ => apply N.eqb_eq in H
           | H : N.eqb _ _ = false |- _ => apply N.eqb_neq in H
           | H : Nat.eqb _ _ = true |- _ => apply Nat.eqb_eq in H
           | H : Nat.ltb _ _ = true |- _ => apply Nat.ltb_lt in H
           end; subst; try congruence; try lia.
  - apply N.eqb_eq. congruence.
  - apply Nat.eqb_eq. congruence.
Qed.

(* exactly one documented outcome: existence (the model's) + exclusivity *)
Theorem exactly_one_outcome c :
  exists o, spec_outcome_ok c o = true /\ forall o', spec_outcome_ok c o' = true -> same_kind o o' = true.
Proof.
  exists (r_out (run_response c)). split; [apply run_response_classified|].
  intros o' H. apply (spec_outcome_exclusive c); [apply run_response_classified | exact H].
Qed.

Theorem run_response_closes c : spec_close_ok c (run_response c) = true.
Proof.
  unfold run_response, spec_close_ok.
  destruct (hc_do_err c); [reflexivity|].
  destruct (negb (N.eqb (hc_status c) 200)); [reflexivity|].
  destruct (hc_first_end c) as [e|]; [|reflexivity].
  destruct (faults_before (hc_fault c) e); [reflexivity|].
  destruct (eo_ok (hc_first_env c)); reflexivity.
Qed.

Theorem run_response_keeps_data c : spec_data_ok (run_response c) = true.
Proof.
  unfold run_response, spec_data_ok.
  destruct (hc_do_err c); [reflexivity|].
  destruct (negb (N.eqb (hc_status c) 200)).
  - destruct (hc_fault c); [|destruct (hc_whole_env c) as [e|]; [destruct (eo_ok e)|]]; reflexivity.
  - destruct (hc_first_end c) as [e|]; [|reflexivity].
    destruct (faults_before (hc_fault c) e); [reflexivity|].
    destruct (eo_ok (hc_first_env c)); [|reflexivity].
    simpl. destruct (Nat.ltb 0 _); reflexivity.
Qed.

(* status is carried verbatim, for every non-200 status and every body/fault *)
Theorem http_error_carries_status c :
  hc_do_err c = false -> hc_status c <> 200 ->
  exists fb n, r_out (run_response c) = OHTTPError (hc_status c) fb n.
Proof.
  intros Hd Hs. unfold run_response. rewrite Hd.
  destruct (N.eqb_spec (hc_status c) 200) as [E|E]; [contradiction|]. simpl.
  destruct (hc_fault c); [eauto|]. destruct (hc_whole_env c) as [e|]; [destruct (eo_ok e)|]; eauto.
Qed.
