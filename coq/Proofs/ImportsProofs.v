(* Theorems about the import-alias model Gen/Imports.v (generate/imports.go). *)
From Verif Require Import Base.Str Gen.Consts Gen.Imports.
From Coq Require Import Arith PeanoNat FinFun.
Local Open Scope nat_scope.

(* ================= dec (strconv.Itoa on naturals) ================= *)

Lemma value_digits_le : forall f n, n < f -> value_le (digits_le f n) = n.
Proof.
  induction f as [|f IH]; intros n H; [lia|].
  cbn [digits_le]. destruct (Nat.ltb_spec n 10) as [L|L]; cbn [value_le].
  - lia.
  - pose proof (Nat.div_mod n 10 ltac:(lia)) as D.
    pose proof (Nat.mod_upper_bound n 10 ltac:(lia)) as M.
    rewrite IH by lia. lia.
Qed.

Lemma digits_le_lt10 : forall f n d, In d (digits_le f n) -> d < 10.
Proof.
  induction f as [|f IH]; intros n d H; cbn [digits_le] in H; [destruct H|].
  destruct (Nat.ltb_spec n 10) as [L|L].
  - destruct H as [<-|[]]. exact L.
  - destruct H as [<-|H].
    + apply Nat.mod_upper_bound. lia.
    + eapply IH. exact H.
Qed.

Lemma char_digit_char d : char_digit (digit_char d) = d.
Proof. unfold char_digit, digit_char. lia. Qed.

Theorem undec_dec : forall n, undec (dec n) = n.
Proof.
  intro n. unfold undec, dec.
  rewrite map_map.
  rewrite (map_ext _ (fun d => d) char_digit_char), map_id, rev_involutive.
  apply value_digits_le. lia.
Qed.

Theorem dec_injective : forall i j, dec i = dec j -> i = j.
Proof.
  intros i j H. rewrite <- (undec_dec i), <- (undec_dec j), H. reflexivity.
Qed.

Lemma dec_nonempty : forall n, dec n <> [].
Proof.
  intros n H. unfold dec in H. apply map_eq_nil in H.
  apply (f_equal (@length _)) in H. rewrite rev_length in H.
  cbn [digits_le] in H. destruct (Nat.ltb n 10); discriminate.
Qed.

Lemma dec_digits : forall n, forallb is_digit (dec n) = true.
Proof.
  intro n. unfold dec. apply forallb_forall. intros c Hc.
  apply in_map_iff in Hc as [d [<- Hd]].
  apply in_rev in Hd. apply digits_le_lt10 in Hd.
  unfold is_digit, digit_char. apply andb_true_iff. split; apply N.leb_le; lia.
Qed.

(* the candidates base, base2, base3, ... are pairwise distinct *)
Lemma cand_injective : forall base i j, base ++ dec i = base ++ dec j -> i = j.
Proof. intros base i j H. apply app_inv_head in H. apply dec_injective. exact H. Qed.

Lemma cand_not_base : forall base k, base ++ dec k <> base.
Proof.
  intros base k H. rewrite <- (app_nil_r base) in H at 2.
  apply app_inv_head in H. exact (dec_nonempty k H).
Qed.

(* ================= pick (the loop of addImportFor) ================= *)

Lemma pick_ok_or_oof : forall f base s used cand,
  (exists a, pick f base s used cand = Ok a) \/ pick f base s used cand = OutOfFuel.
Proof.
  induction f as [|f IH]; intros base s used cand; cbn [pick].
  - right. reflexivity.
  - destruct (mem_str cand used); [apply IH | left; eexists; reflexivity].
Qed.

(* running out of fuel means all the candidates tried are taken *)
Lemma pick_oof_incl : forall base used f s cand,
  pick (S f) base s used cand = OutOfFuel ->
  incl (cand :: map (fun k => base ++ dec k) (seq s f)) used.
Proof.
  intros base used. induction f as [|f IH]; intros s cand H.
  - cbn [pick] in H. destruct (mem_str cand used) eqn:E; [|discriminate].
    intros x [<-|[]]. apply mem_str_In. exact E.
  - cbn [pick] in H. cbn [pick] in IH.
    destruct (mem_str cand used) eqn:E; [|discriminate].
    apply IH in H. intros x [<-|Hx].
    + apply mem_str_In. exact E.
    + apply H. exact Hx.
Qed.

Lemma cands_NoDup : forall base s f,
  NoDup (base :: map (fun k => base ++ dec k) (seq s f)).
Proof.
  intros base s f. constructor.
  - intro H. apply in_map_iff in H as [k [H _]]. exact (cand_not_base base k H).
  - apply Injective_map_NoDup.
    + intros i j H. exact (cand_injective base i j H).
    + apply seq_NoDup.
Qed.

(* the loop ends within |used|+1 candidates: pigeonhole *)
Theorem pick_never_out_of_fuel : forall base used,
  pick (S (length used)) base 2 used base <> OutOfFuel.
Proof.
  intros base used H. apply pick_oof_incl in H.
  apply (NoDup_incl_length (cands_NoDup base 2 (length used))) in H.
  cbn [length] in H. rewrite map_length, seq_length in H. exact (Nat.nle_succ_diag_l _ H).
Qed.

Lemma pick_ok_spec : forall f base s used cand a,
  pick f base s used cand = Ok a ->
  mem_str a used = false /\
  (a = cand \/
   (In cand used /\ exists k, s <= k /\ a = base ++ dec k /\
      forall j, s <= j < k -> In (base ++ dec j) used)).
Proof.
  induction f as [|f IH]; intros base s used cand a H; cbn [pick] in H; [discriminate|].
  destruct (mem_str cand used) eqn:E.
  - apply IH in H as [Hm H]. split; [exact Hm|]. right.
    split; [apply mem_str_In; exact E|].
    destruct H as [->|[Hin [k [Hk [-> Hj]]]]].
    + exists s. split; [lia|]. split; [reflexivity|]. intros j Hj. lia.
    + exists k. split; [lia|]. split; [reflexivity|].
      intros j Hjk. destruct (Nat.eq_dec j s) as [->|N]; [exact Hin|].
      apply Hj. lia.
  - injection H as <-. split; [exact E | left; reflexivity].
Qed.

(* what addImportFor's loop returns: a fresh alias, the FIRST free one in
   base, base2, base3, ... *)
Theorem pick_spec : forall base used,
  exists a, pick (S (length used)) base 2 used base = Ok a /\
    mem_str a used = false /\
    (a = base \/
     exists k, 2 <= k /\ a = base ++ dec k /\ In base used /\
       forall j, 2 <= j < k -> In (base ++ dec j) used).
Proof.
  intros base used.
  destruct (pick_ok_or_oof (S (length used)) base 2 used base) as [[a H]|H].
  - exists a. split; [exact H|]. apply pick_ok_spec in H as [Hm H].
    split; [exact Hm|]. destruct H as [->|[Hin [k [Hk [-> Hj]]]]].
    + left. reflexivity.
    + right. exists k. auto.
  - exfalso. exact (pick_never_out_of_fuel base used H).
Qed.

(* ================= makeIdentifier ================= *)

Lemma name_start_not_digit : forall c, name_start c = true -> is_digit c = false.
Proof.
  intros c H. unfold name_start, is_letter, is_lower, is_upper, is_us, us in H.
  unfold is_digit. apply andb_false_iff.
  destruct (N.leb_spec 48 c) as [A|A]; [|left; reflexivity].
  destruct (N.leb_spec c 57) as [B|B]; [|right; reflexivity].
  exfalso.
  repeat (apply orb_true_iff in H; destruct H as [H|H]);
    try (apply andb_true_iff in H as [H1 H2]; apply N.leb_le in H1, H2; lia).
  apply N.eqb_eq in H. lia.
Qed.

Lemma digit_not_letter : forall c, is_digit c = true -> is_letter c = false.
Proof.
  intros c H. destruct (is_letter c) eqn:E; [|reflexivity].
  assert (S : name_start c = true) by (unfold name_start; rewrite E; reflexivity).
  apply name_start_not_digit in S. congruence.
Qed.

Lemma munge_cont : forall s kept, forallb name_cont (munge kept s) = true.
Proof.
  induction s as [|c s IH]; intro kept; cbn [munge]; [reflexivity|].
  destruct (is_letter c || is_us c || (kept && is_digit c)) eqn:E; [|apply IH].
  cbn [forallb]. rewrite IH, andb_true_r.
  unfold name_cont, name_start.
  destruct (is_letter c), (is_us c), (is_digit c), kept; try reflexivity; discriminate.
Qed.

Lemma munge_false_start : forall s c r, munge false s = c :: r -> name_start c = true.
Proof.
  induction s as [|d s IH]; intros c r H; cbn [munge] in H; [discriminate|].
  rewrite andb_false_l, orb_false_r in H.
  destruct (is_letter d || is_us d) eqn:E.
  - injection H as <- _. exact E.
  - eapply IH. exact H.
Qed.

Lemma munge_true_id : forall s, forallb name_cont s = true -> munge true s = s.
Proof.
  induction s as [|c s IH]; intro H; cbn [munge]; [reflexivity|].
  cbn [forallb] in H. apply andb_true_iff in H as [H1 H2].
  unfold name_cont, name_start in H1. rewrite andb_true_l, H1, IH by exact H2. reflexivity.
Qed.

Lemma munge_gql_name_id : forall s, is_gql_name s = true -> munge false s = s.
Proof.
  intros [|c s] H; [reflexivity|]. cbn [is_gql_name] in H.
  apply andb_true_iff in H as [H1 H2]. cbn [munge].
  rewrite andb_false_l, orb_false_r. unfold name_start in H1. rewrite H1.
  rewrite munge_true_id by exact H2. reflexivity.
Qed.

Lemma is_identifier_eq : forall s,
  is_identifier s = is_gql_name s && negb (mem_str s go_keywords).
Proof. intros [|c s]; reflexivity. Qed.

(* makeIdentifier always returns something of the shape [_A-Za-z][_0-9A-Za-z]* *)
Lemma make_identifier_gql_name : forall s, is_gql_name (make_identifier s) = true.
Proof.
  intro s. unfold make_identifier. destruct (is_identifier s) eqn:E.
  - rewrite is_identifier_eq in E. apply andb_true_iff in E as [E _]. exact E.
  - destruct (munge false s) as [|c r] eqn:M; [vm_compute; reflexivity|].
    cbn [is_gql_name]. apply andb_true_iff. split.
    + eapply munge_false_start. exact M.
    + pose proof (munge_cont s false) as C. rewrite M in C. cbn [forallb] in C.
      apply andb_true_iff in C as [_ C]. exact C.
Qed.

Theorem make_identifier_is_usable : forall s,
  exists c r, make_identifier s = c :: r /\
    name_start c = true /\ is_digit c = false /\ forallb name_cont r = true.
Proof.
  intro s. pose proof (make_identifier_gql_name s) as H.
  destruct (make_identifier s) as [|c r]; [discriminate|].
  cbn [is_gql_name] in H. apply andb_true_iff in H as [H1 H2].
  exists c, r. split; [reflexivity|]. split; [exact H1|].
  split; [apply name_start_not_digit; exact H1 | exact H2].
Qed.

Corollary make_identifier_nonempty : forall s, make_identifier s <> [].
Proof. intro s. destruct (make_identifier_is_usable s) as [c [r [-> _]]]. discriminate. Qed.

Corollary make_identifier_chars : forall s, forallb name_cont (make_identifier s) = true.
Proof.
  intro s. destruct (make_identifier_is_usable s) as [c [r [-> [H1 [_ H2]]]]].
  cbn [forallb]. unfold name_cont at 1. rewrite H1, H2. reflexivity.
Qed.

(* ... but NOT always something go/token.IsIdentifier accepts: a keyword is
   rejected by IsIdentifier, then every one of its characters is a letter, so
   the munging loop rebuilds exactly the keyword. *)
Theorem make_identifier_keyword_refuted : exists s, is_identifier (make_identifier s) = false.
Proof. exists (b "type"). vm_compute. reflexivity. Qed.

(* exactly when: the result fails IsIdentifier iff the munged input is a keyword
   (for instance "type", "go", "ty-pe", "1map", "range!") *)
Theorem make_identifier_fails_iff : forall s,
  is_identifier (make_identifier s) = false <-> In (munge false s) go_keywords.
Proof.
  intro s. rewrite is_identifier_eq, make_identifier_gql_name, andb_true_l, negb_false_iff,
    mem_str_In.
  unfold make_identifier. destruct (is_identifier s) eqn:E.
  - rewrite is_identifier_eq in E. apply andb_true_iff in E as [E1 E2].
    rewrite munge_gql_name_id by exact E1. tauto.
  - destruct (munge false s) as [|c r]; [|tauto].
    split; intro H; apply mem_str_In in H; vm_compute in H; discriminate.
Qed.

Lemma keywords_all_letters : forall k, In k go_keywords -> forallb is_letter k = true.
Proof.
  assert (H : forallb (forallb is_letter) go_keywords = true) by (vm_compute; reflexivity).
  intros k Hk. rewrite forallb_forall in H. apply H. exact Hk.
Qed.

(* a suffixed candidate is never a keyword *)
Lemma suffixed_not_keyword : forall base k, ~ In (base ++ dec k) go_keywords.
Proof.
  intros base k H. apply keywords_all_letters in H.
  rewrite forallb_app in H. apply andb_true_iff in H as [_ H].
  pose proof (dec_digits k) as D. pose proof (dec_nonempty k) as N.
  destruct (dec k) as [|c r]; [congruence|].
  cbn [forallb] in H, D. apply andb_true_iff in H as [H _]. apply andb_true_iff in D as [D _].
  apply digit_not_letter in D. congruence.
Qed.

Lemma suffixed_gql_name : forall base k, is_gql_name base = true -> is_gql_name (base ++ dec k) = true.
Proof.
  intros [|c r] k H; [discriminate|]. cbn [is_gql_name app] in *.
  apply andb_true_iff in H as [H1 H2]. rewrite H1, forallb_app, H2. cbn [andb].
  pose proof (dec_digits k) as D. rewrite forallb_forall in D. apply forallb_forall.
  intros x Hx. unfold name_cont. rewrite (D x Hx). apply orb_true_r.
Qed.

(* ================= association lists ================= *)

Lemma assoc_None_notin {A} : forall (l : list (str * A)) k, assoc k l = None -> ~ In k (map fst l).
Proof.
  induction l as [|[k' v] l IH]; intros k H; cbn [assoc map fst] in *; [tauto|].
  destruct (str_eqb k k') eqn:E; [discriminate|].
  apply str_eqb_neq in E. intros [H1|H1]; [congruence | exact (IH k H H1)].
Qed.

Lemma assoc_Some_In {A} : forall (l : list (str * A)) k v, assoc k l = Some v -> In (k, v) l.
Proof.
  induction l as [|[k' v'] l IH]; intros k v H; cbn [assoc] in H; [discriminate|].
  destruct (str_eqb k k') eqn:E.
  - apply str_eqb_eq in E. injection H as <-. subst. left. reflexivity.
  - right. apply IH. exact H.
Qed.

Lemma assoc_app_Some {A} : forall (l l' : list (str * A)) k v,
  assoc k l = Some v -> assoc k (l ++ l') = Some v.
Proof.
  induction l as [|[k' v'] l IH]; intros l' k v H; cbn [assoc app] in *; [discriminate|].
  destruct (str_eqb k k'); [exact H | apply IH; exact H].
Qed.

Lemma assoc_app_None {A} : forall (l l' : list (str * A)) k,
  assoc k l = None -> assoc k (l ++ l') = assoc k l'.
Proof.
  induction l as [|[k' v'] l IH]; intros l' k H; cbn [assoc app] in *; [reflexivity|].
  destruct (str_eqb k k'); [discriminate | apply IH; exact H].
Qed.

Lemma NoDup_snoc {A} : forall (l : list A) a, NoDup l -> ~ In a l -> NoDup (l ++ [a]).
Proof.
  induction l as [|x l IH]; intros a Hn Hi; cbn [app].
  - constructor; [intros []|constructor].
  - inversion Hn as [|? ? Hx Hl]; subst. constructor.
    + rewrite in_app_iff. intros [H|[H|[]]]; [contradiction|].
      subst. apply Hi. left. reflexivity.
    + apply IH; [exact Hl|]. intro H. apply Hi. right. exact H.
Qed.

Lemma NoDup_snd_inj {A B} : forall (l : list (A * B)) p q a,
  NoDup (map snd l) -> In (p, a) l -> In (q, a) l -> p = q.
Proof.
  induction l as [|[k v] l IH]; intros p q a Hn Hp Hq; [destruct Hp|].
  cbn [map snd] in Hn. inversion Hn as [|? ? Hx Hl]; subst.
  destruct Hp as [Hp|Hp], Hq as [Hq|Hq].
  - congruence.
  - injection Hp as -> ->. exfalso. apply Hx. apply (in_map snd) in Hq. exact Hq.
  - injection Hq as -> ->. exfalso. apply Hx. apply (in_map snd) in Hp. exact Hp.
  - eapply IH; eauto.
Qed.

(* ================= addImportFor / ref ================= *)

Definition pkg_base (path : str) : str := make_identifier (last_segment path).

(* the shape of the alias of [path] *)
Definition alias_shape (path a : str) : Prop :=
  a = pkg_base path \/ exists k, 2 <= k /\ a = pkg_base path ++ dec k.

Lemma alias_shape_gql_name : forall p a, alias_shape p a -> is_gql_name a = true.
Proof.
  intros p a [->|[k [_ ->]]].
  - apply make_identifier_gql_name.
  - apply suffixed_gql_name, make_identifier_gql_name.
Qed.

(* addImportFor always succeeds, with a fresh alias: the first free one of
   base, base2, base3, ... *)
Theorem add_import_for_spec : forall st path,
  exists a,
    add_import_for st path
      = Ok ({| imps := imps st ++ [(path, a)]; used := a :: used st |}, a) /\
    ~ In a (used st) /\
    (a = pkg_base path \/
     exists k, 2 <= k /\ a = pkg_base path ++ dec k /\ In (pkg_base path) (used st) /\
       forall j, 2 <= j < k -> In (pkg_base path ++ dec j) (used st)).
Proof.
  intros st path. unfold add_import_for. fold (pkg_base path).
  destruct (pick_spec (pkg_base path) (used st)) as [a [H [Hm Hs]]].
  exists a. rewrite H. split; [reflexivity|]. split; [apply mem_str_not_In; exact Hm | exact Hs].
Qed.

Lemma add_import_for_Ok : forall st path st1 a,
  add_import_for st path = Ok (st1, a) ->
  st1 = {| imps := imps st ++ [(path, a)]; used := a :: used st |} /\
  ~ In a (used st) /\ alias_shape path a.
Proof.
  intros st path st1 a H.
  destruct (add_import_for_spec st path) as [a' [E [Hn Hs]]].
  rewrite E in H. injection H as <- <-. split; [reflexivity|]. split; [exact Hn|].
  destruct Hs as [->|[k [Hk [-> _]]]]; [left; reflexivity | right; exists k; auto].
Qed.

Lemma ref_pkg_total : forall st p, exists st1 a, ref_pkg st p = Ok (st1, a).
Proof.
  intros st p. unfold ref_pkg. destruct (assoc p (imps st)) as [a|].
  - exists st, a. reflexivity.
  - destruct (add_import_for_spec st p) as [a [E _]]. eexists _, a. exact E.
Qed.

(* the invariant of the generator's two maps *)
Definition imp_inv (st : imp_state) : Prop :=
  NoDup (map snd (imps st)) /\
  NoDup (map fst (imps st)) /\
  (forall p a, In (p, a) (imps st) -> In a (used st)) /\
  (forall p a, In (p, a) (imps st) -> alias_shape p a).

Lemma imp_inv_init : imp_inv imp_init.
Proof.
  unfold imp_inv, imp_init; cbn. split; [constructor|]. split; [constructor|].
  split; intros ? ? [].
Qed.

(* one reference: keeps the invariant, binds the path to the returned alias,
   and never rebinds anything *)
Lemma ref_pkg_step : forall st p st1 a,
  ref_pkg st p = Ok (st1, a) ->
  assoc p (imps st1) = Some a /\
  (forall q x, assoc q (imps st) = Some x -> assoc q (imps st1) = Some x) /\
  (imp_inv st -> imp_inv st1).
Proof.
  intros st p st1 a H. unfold ref_pkg in H. destruct (assoc p (imps st)) as [a0|] eqn:E.
  - injection H as <- <-. auto.
  - apply add_import_for_Ok in H as [-> [Hfresh Hshape]]. cbn [imps used].
    split; [|split].
    + rewrite assoc_app_None by exact E. cbn [assoc]. rewrite str_eqb_refl. reflexivity.
    + intros q x Hq. apply assoc_app_Some. exact Hq.
    + intros [I1 [I2 [I3 I4]]]. unfold imp_inv. cbn [imps used].
      rewrite !map_app. cbn [map fst snd]. repeat split.
      * apply NoDup_snoc; [exact I1|]. intro Hin. apply in_map_iff in Hin as [[q x] [Hx Hin]].
        cbn [snd] in Hx. subst x. apply Hfresh. eapply I3. exact Hin.
      * apply NoDup_snoc; [exact I2|]. apply assoc_None_notin. exact E.
      * intros q x Hin. apply in_app_iff in Hin as [Hin|[Hin|[]]].
        -- right. eapply I3. exact Hin.
        -- injection Hin as <- <-. left. reflexivity.
      * intros q x Hin. apply in_app_iff in Hin as [Hin|[Hin|[]]].
        -- apply I4. exact Hin.
        -- injection Hin as <- <-. exact Hshape.
Qed.

Lemma run_refs_from_cons : forall st p ps st2 al',
  run_refs_from st (p :: ps) = Ok (st2, al') ->
  exists st1 a al, ref_pkg st p = Ok (st1, a) /\
    run_refs_from st1 ps = Ok (st2, al) /\ al' = a :: al.
Proof.
  intros st p ps st2 al' H. cbn [run_refs_from] in H.
  destruct (ref_pkg st p) as [[st1 a]| | |] eqn:E1; try discriminate. cbn [bind] in H.
  destruct (run_refs_from st1 ps) as [[st2' al]| | |] eqn:E2; try discriminate. cbn [bind] in H.
  injection H as <- <-. exists st1, a, al. auto.
Qed.

Lemma run_refs_from_total : forall paths st, exists st' al, run_refs_from st paths = Ok (st', al).
Proof.
  induction paths as [|p ps IH]; intro st; cbn [run_refs_from].
  - eexists _, _. reflexivity.
  - destruct (ref_pkg_total st p) as [st1 [a E]]. rewrite E. cbn [bind].
    destruct (IH st1) as [st2 [al E2]]. rewrite E2. cbn [bind]. eexists _, _. reflexivity.
Qed.

Lemma run_refs_from_spec : forall paths st st' al,
  run_refs_from st paths = Ok (st', al) ->
  (forall q x, assoc q (imps st) = Some x -> assoc q (imps st') = Some x) /\
  map Some al = map (fun p => assoc p (imps st')) paths /\
  (imp_inv st -> imp_inv st').
Proof.
  induction paths as [|p ps IH]; intros st st' al H.
  - cbn [run_refs_from] in H. injection H as <- <-. auto.
  - apply run_refs_from_cons in H as [st1 [a [al0 [E1 [E2 ->]]]]].
    apply ref_pkg_step in E1 as [A1 [M1 I1]].
    apply IH in E2 as [M2 [T2 I2]].
    split; [|split].
    + intros q x Hq. apply M2, M1, Hq.
    + cbn [map]. rewrite (M2 _ _ A1), T2. reflexivity.
    + intro I. apply I2, I1, I.
Qed.

(* ---- the invariant over every sequence of references ---- *)
Theorem run_refs_invariant : forall paths st al,
  run_refs paths = Ok (st, al) ->
  NoDup (map snd (imps st)) /\
  NoDup (map fst (imps st)) /\
  (forall p a, In (p, a) (imps st) -> In a (used st)) /\
  length al = length paths.
Proof.
  intros paths st al H. unfold run_refs in H.
  apply run_refs_from_spec in H as [_ [T I]].
  destruct (I imp_inv_init) as [I1 [I2 [I3 _]]].
  repeat split; try assumption.
  apply (f_equal (@length _)) in T. rewrite !map_length in T. exact T.
Qed.

(* ---- totality: never Err / Panic / OutOfFuel ---- *)
Theorem run_refs_total : forall paths, exists st al, run_refs paths = Ok (st, al).
Proof. intro paths. apply run_refs_from_total. Qed.

(* every alias handed out has the shape [_A-Za-z][_0-9A-Za-z]*, is the package's
   base name or that name with a decimal suffix >= 2, and fails
   go/token.IsIdentifier only when it is an (unsuffixed) keyword *)
Theorem run_refs_alias_shapes : forall paths st al,
  run_refs paths = Ok (st, al) ->
  forall p a, In (p, a) (imps st) ->
    alias_shape p a /\ is_gql_name a = true /\
    (is_identifier a = false -> a = pkg_base p /\ In a go_keywords).
Proof.
  intros paths st al H p a Hin. unfold run_refs in H.
  apply run_refs_from_spec in H as [_ [_ I]].
  destruct (I imp_inv_init) as [_ [_ [_ I4]]].
  pose proof (I4 p a Hin) as S. pose proof (alias_shape_gql_name p a S) as G.
  split; [exact S|]. split; [exact G|].
  intro F. rewrite is_identifier_eq, G, andb_true_l, negb_false_iff, mem_str_In in F.
  split; [|exact F]. destruct S as [->|[k [_ ->]]]; [reflexivity|].
  exfalso. exact (suffixed_not_keyword _ _ F).
Qed.

(* the final table explains every alias returned along the way *)
Theorem run_refs_table : forall paths st al,
  run_refs paths = Ok (st, al) ->
  map Some al = map (fun p => assoc p (imps st)) paths.
Proof.
  intros paths st al H. unfold run_refs in H.
  apply run_refs_from_spec in H as [_ [T _]]. exact T.
Qed.

(* ---- stability ---- *)

(* referring to a path again, after any further references, returns the alias
   it was given first and does not change the state *)
Theorem ref_stable : forall st p st1 a qs st2 al,
  ref_pkg st p = Ok (st1, a) ->
  run_refs_from st1 qs = Ok (st2, al) ->
  ref_pkg st2 p = Ok (st2, a).
Proof.
  intros st p st1 a qs st2 al H1 H2.
  apply ref_pkg_step in H1 as [A1 _].
  apply run_refs_from_spec in H2 as [M2 _].
  unfold ref_pkg. rewrite (M2 _ _ A1). reflexivity.
Qed.

Corollary ref_stable_now : forall st p st1 a,
  ref_pkg st p = Ok (st1, a) -> ref_pkg st1 p = Ok (st1, a).
Proof. intros st p st1 a H. exact (ref_stable st p st1 a [] st1 [] H eq_refl). Qed.

(* within one run: same path <-> same alias *)
Theorem run_refs_alias_iff_path : forall paths st al i j p q a a',
  run_refs paths = Ok (st, al) ->
  nth_error paths i = Some p -> nth_error paths j = Some q ->
  nth_error al i = Some a -> nth_error al j = Some a' ->
  (p = q <-> a = a').
Proof.
  intros paths st al i j p q a a' H Hp Hq Ha Ha'.
  pose proof (run_refs_table _ _ _ H) as T.
  destruct (run_refs_invariant _ _ _ H) as [I1 _].
  assert (Ap : assoc p (imps st) = Some a).
  { apply (map_nth_error Some) in Ha. rewrite T in Ha.
    rewrite (map_nth_error (fun p => assoc p (imps st)) _ _ Hp) in Ha. congruence. }
  assert (Aq : assoc q (imps st) = Some a').
  { apply (map_nth_error Some) in Ha'. rewrite T in Ha'.
    rewrite (map_nth_error (fun p => assoc p (imps st)) _ _ Hq) in Ha'. congruence. }
  split.
  - intros ->. congruence.
  - intros ->. apply assoc_Some_In in Ap, Aq. exact (NoDup_snd_inj _ _ _ _ I1 Ap Aq).
Qed.

(* ================= the replay used by Corr/Impcorr.v ================= *)

Lemma nodup_str_NoDup : forall l, nodup_str l = true <-> NoDup l.
Proof.
  induction l as [|x l IH]; cbn [nodup_str].
  - split; [constructor | reflexivity].
  - rewrite andb_true_iff, negb_true_iff, mem_str_not_In, IH. split.
    + intros [H1 H2]. constructor; assumption.
    + intro H. inversion H; subst. auto.
Qed.

(* on pairwise distinct paths, direct addImportFor calls are a run of references,
   so every theorem above applies to a replayed log *)
Lemma run_adds_from_eq : forall paths st,
  NoDup paths -> (forall p, In p paths -> assoc p (imps st) = None) ->
  run_adds_from st paths = run_refs_from st paths.
Proof.
  induction paths as [|p ps IH]; intros st Hn Hnone; [reflexivity|].
  cbn [run_adds_from run_refs_from]. inversion Hn as [|? ? Hp Hps]; subst.
  unfold ref_pkg at 1. rewrite (Hnone p (or_introl eq_refl)).
  destruct (add_import_for st p) as [[st1 a]| | |] eqn:E; try reflexivity. cbn [bind].
  rewrite IH; [reflexivity | exact Hps |].
  intros q Hq. apply add_import_for_Ok in E as [-> _]. cbn [imps].
  rewrite assoc_app_None by (apply Hnone; right; exact Hq). cbn [assoc].
  destruct (str_eqb q p) eqn:Eq; [|reflexivity].
  apply str_eqb_eq in Eq. subst. contradiction.
Qed.

Theorem run_adds_eq_run_refs : forall paths, NoDup paths -> run_adds paths = run_refs paths.
Proof.
  intros paths Hn. apply run_adds_from_eq; [exact Hn|]. intros p _. reflexivity.
Qed.

(* ================= non-vacuity ================= *)

(* three packages with the same last segment *)
Example ex_three_types :
  run_aliases [b "a.example/x/types"; b "b.example/types"; b "go/types"]
  = Some [b "types"; b "types2"; b "types3"].
Proof. vm_compute. reflexivity. Qed.

(* a package literally named types2, referenced first, takes that alias; the
   loop skips it for the second .../types *)
Example ex_types2_first :
  run_aliases [b "c.example/types2"; b "a.example/types"; b "b.example/types"]
  = Some [b "types2"; b "types"; b "types3"].
Proof. vm_compute. reflexivity. Qed.

(* ... and referenced last, it is the one that gets renamed: types22 *)
Example ex_types2_last :
  run_aliases [b "a.example/types"; b "b.example/types"; b "c.example/types2"]
  = Some [b "types"; b "types2"; b "types22"].
Proof. vm_compute. reflexivity. Qed.

(* no usable character in the last segment *)
Example ex_alias :
  run_aliases [b "a.example/123"; b "b.example/--"; b "a.example/123"]
  = Some [b "alias"; b "alias2"; b "alias"].
Proof. vm_compute. reflexivity. Qed.

(* munging: dots and dashes dropped, digits kept once something was kept; no slash at all *)
Example ex_munge :
  run_aliases [b "gopkg.in/yaml.v2"; b "x.example/9go-cmp"; b "context"; b "x.example/v2/"]
  = Some [b "yamlv2"; b "gocmp"; b "context"; b "alias"].
Proof. vm_compute. reflexivity. Qed.

(* keyword last segments are used as they are; only a second one is harmless *)
Example ex_keyword :
  run_aliases [b "x.example/sdk/go"; b "y.example/go"; b "x.example/type"; b "x.example/ra-nge"]
  = Some [b "go"; b "go2"; b "type"; b "range"].
Proof. vm_compute. reflexivity. Qed.

Example ex_dec : map dec [0; 7; 10; 99; 100; 1234] =
  [b "0"; b "7"; b "10"; b "99"; b "100"; b "1234"].
Proof. vm_compute. reflexivity. Qed.

Print Assumptions dec_injective.
Print Assumptions pick_never_out_of_fuel.
Print Assumptions pick_spec.
Print Assumptions add_import_for_spec.
Print Assumptions run_refs_invariant.
Print Assumptions run_refs_total.
Print Assumptions run_refs_alias_shapes.
Print Assumptions run_refs_table.
Print Assumptions ref_stable.
Print Assumptions run_refs_alias_iff_path.
Print Assumptions make_identifier_is_usable.
Print Assumptions make_identifier_keyword_refuted.
Print Assumptions make_identifier_fails_iff.
Print Assumptions run_adds_eq_run_refs.
