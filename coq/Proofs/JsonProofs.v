From Verif Require Import Base.Str Gen.Consts Gen.Gql Gen.Directive Gen.Convert Rt.JsonDecode.
From Coq Require Import ZArith.

Definition np {A} (r : res A) : Prop := match r with Panic _ => False | _ => True end.

Lemma np_bind {A B} (r : res A) (f : A -> res B) : np r -> (forall a, np (f a)) -> np (bind r f).
Proof. destruct r; cbn; auto. Qed.

Lemma np_at_field {A} k (r : res A) : np r -> np (at_field k r).
Proof. destruct r; cbn; auto. Qed.

Lemma np_decode_scalar k j cur : np (decode_scalar k j cur).
Proof. destruct j, k; cbn; try exact I; try (destruct integral; exact I); repeat (match goal with |- np (match ?x with _ => _ end) => destruct x end); exact I. Qed.

Lemma np_map_res {A B} (f : A -> res B) l : (forall x, np (f x)) -> np (map_res f l).
Proof.
  intro H. induction l as [|x r IHr]; [exact I|]. cbn [map_res].
  apply np_bind; [apply H|]. intro a. apply np_bind; [exact IHr | intro; exact I].
Qed.

Lemma np_capture n : forall j, np (capture n j).
Proof.
  induction n as [|k IH]; intro j; cbn [capture]; [exact I|].
  destruct j; try exact I.
  apply np_bind; [|intro; exact I]. apply np_map_res, IH.
Qed.

Lemma np_scan_typename kvs : forall acc, np (scan_typename kvs acc).
Proof.
  induction kvs as [|[k v] r IHr]; intro acc; [exact I|]. cbn [scan_typename].
  destruct (fold_eqb k typename_name); [|apply IHr]. destruct v; try exact I; apply IHr.
Qed.

Section Loops.
  Variable tm : typemap.
  Variable dec : gotype -> jval -> gval -> res gval.
  Variable filler : nat -> bool -> gotype -> raw -> gval -> res gval.
  Hypothesis Hdec : forall t j cur, np (dec t j cur).
  Hypothesis Hfill : forall n p l c cur, np (filler n p l c cur).

  Lemma np_obj_loop fields kvs : forall acc, np (obj_loop dec fields kvs acc).
  Proof.
    induction kvs as [|[k v] r IHr]; intro acc; [exact I|]. cbn [obj_loop].
    destruct (find_key fields k) as [i|]; [|apply IHr].
    destruct (nth_error fields i) as [[s fl]|]; [|apply IHr].
    apply np_bind; [apply np_at_field, Hdec | intro; apply IHr].
  Qed.

  Lemma np_first_pass all kvs : forall acc caps, np (first_pass dec all kvs acc caps).
  Proof.
    induction kvs as [|[k v] r IHr]; intros acc caps; [exact I|]. cbn [first_pass].
    destruct (find_key all k) as [i|]; [|apply IHr].
    destruct (nth_error all i) as [[s [[|] fl]]|]; [| |apply IHr].
    - apply np_bind; [apply np_capture | intro; apply IHr].
    - apply np_bind; [apply np_at_field, Hdec | intro; apply IHr].
  Qed.

  Lemma np_second_pass j caps fls : forall acc, np (second_pass dec filler j caps fls acc).
  Proof.
    induction fls as [|fl r IHr]; intro acc; [exact I|]. cbn [second_pass].
    destruct (special fl); cbn [negb]; [|apply IHr].
    destruct (gf_name fl) as [|c nm].
    - apply np_bind; [apply Hdec | intro; apply IHr].
    - apply np_bind; [apply np_at_field, Hfill | intro; apply IHr].
  Qed.
End Loops.

Section NoPanic.
  Variable tm : typemap.

  (* with the method-hiding wrapper in place, decoding ANY JSON value into ANY generated type
     returns a value or an error: it never panics, for every fuel (depth) *)
  Theorem decode_no_panic : forall fuel,
    (forall t j cur, np (decode tm true fuel t j cur))
    /\ (forall n fields j cur, np (plain_struct tm true fuel n fields j cur))
    /\ (forall n fields j cur, np (unmarshal_struct tm true fuel n fields j cur))
    /\ (forall n ptr leaf c cur, np (fill tm true fuel n ptr leaf c cur))
    /\ (forall i j cur, np (unmarshal_iface tm true fuel i j cur)).
  Proof.
    induction fuel as [|f (IHd & IHp & IHu & IHf & IHi)].
    - repeat split; intros; exact I.
    - split; [|split; [|split; [|split]]].
      + (* decode *)
        intros t j cur. cbn [decode].
        destruct t as [r g m u|n|n|n|n|e|e|r e].
        * destruct (ref_shape r) as [[[] rest]|]; [apply IHd | apply IHd | apply np_decode_scalar].
        * apply np_decode_scalar.
        * apply np_decode_scalar.
        * destruct (assoc n tm) as [[g fields sel inp| | |]|]; try exact I.
          destruct (struct_needs_unmarshal fields); [apply IHu | apply IHp].
        * apply IHi.
        * destruct j; try exact I.
          apply np_bind; [|intro; exact I]. apply np_map_res. intro; apply IHd.
        * destruct j; try exact I; (apply np_bind; [apply IHd | intro; exact I]).
        * exact I.
      + (* plain_struct *)
        intros n fields j cur. cbn [plain_struct]. destruct j; try exact I.
        apply np_bind; [|intro; exact I]. apply np_obj_loop, IHd.
      + (* unmarshal_struct *)
        intros n fields j cur. cbn [unmarshal_struct negb]. destruct j; try exact I.
        apply np_bind; [apply np_first_pass, IHd|].
        intros [acc1 caps]. apply np_bind; [|intro; exact I].
        apply np_second_pass; [apply IHd | apply IHf].
      + (* fill *)
        intros n ptr leaf c cur. cbn [fill]. destruct n as [|k].
        * destruct c as [|j| |l]; try exact I. destruct j; try exact I;
            (apply np_bind; [|intro; exact I]); destruct leaf; try apply IHd; try apply IHi; try apply np_decode_scalar.
        * destruct c as [|j| |l]; try exact I.
          apply np_bind; [|intro; exact I]. apply np_map_res. intro; apply IHf.
      + (* unmarshal_iface *)
        intros i j cur. cbn [unmarshal_iface]. destruct j; try exact I.
        apply np_bind; [apply np_scan_typename|].
        intro tn. destruct (assoc i tm) as [[| g sh impls sel | |]|]; try exact I.
        destruct tn; [exact I|].
        destruct (find_impl tm impls (n :: tn)); [|exact I].
        apply np_bind; [apply IHd | intro; exact I].
  Qed.
End NoPanic.

(* ---- the wrapper is what prevents the loop: without it the method recurses forever ---- *)
Lemma unwrapped_struct_decoder_panics tm f n fields j cur :
  j <> JNull -> exists site, unmarshal_struct tm false (S f) n fields j cur = Panic site.
Proof. intro H. destruct j; try (exfalso; apply H; reflexivity); cbn [unmarshal_struct negb]; eexists; reflexivity. Qed.

(* ---- __typename dispatch ---- *)
Lemma scan_typename_absent kvs : forall acc,
  (forall k v, In (k, v) kvs -> fold_eqb k typename_name = false) -> scan_typename kvs acc = Ok acc.
Proof.
  induction kvs as [|[k v] r IHr]; intros acc H; [reflexivity|]. cbn [scan_typename].
  rewrite (H k v (or_introl eq_refl)). apply IHr. intros k' v' Hin. apply (H k' v'). right; exact Hin.
Qed.

Lemma find_impl_sound tm impls tn impl :
  find_impl tm impls tn = Some impl -> In impl impls /\ exists d, assoc impl tm = Some d /\ decl_gql d = tn.
Proof.
  unfold find_impl. intro H. apply find_some in H. destruct H as [Hin Hd]. split; [exact Hin|].
  destruct (assoc impl tm) as [d|]; [|discriminate]. exists d. split; [reflexivity|]. apply str_eqb_eq, Hd.
Qed.

Lemma find_impl_none tm impls tn :
  (forall impl d, In impl impls -> assoc impl tm = Some d -> decl_gql d <> tn) -> find_impl tm impls tn = None.
Proof.
  intro H. unfold find_impl. destruct (find _ impls) as [impl|] eqn:E; [|reflexivity].
  apply find_some in E. destruct E as [Hin Hd]. destruct (assoc impl tm) as [d|] eqn:Ea; [|discriminate].
  apply str_eqb_eq in Hd. exfalso. exact (H impl d Hin Ea Hd).
Qed.

Lemma bind_ok {A B} (r : res A) (f : A -> res B) y : bind r f = Ok y -> exists x, r = Ok x /\ f x = Ok y.
Proof. destruct r; cbn; try discriminate. intro H. eexists; split; [reflexivity | exact H]. Qed.

(* a successfully decoded abstract value holds the struct generated for the response's
   __typename: one of the interface's implementations, whose GraphQL type is that name, and its
   content is the SAME object decoded as that struct *)
Theorem iface_dispatch tm fuel i kvs cur v :
  unmarshal_iface tm true fuel i (JObj kvs) cur = Ok v ->
  exists f g sh impls sel tn impl d x,
    fuel = S f /\ assoc i tm = Some (DIface g sh impls sel)
    /\ scan_typename kvs [] = Ok tn /\ tn <> []
    /\ In impl impls /\ assoc impl tm = Some d /\ decl_gql d = tn
    /\ decode tm true f (GStruct impl) (JObj kvs) (VStruct impl []) = Ok x
    /\ v = VIface impl x.
Proof.
  destruct fuel as [|f]; [discriminate|]. cbn [unmarshal_iface]. intro H.
  apply bind_ok in H. destruct H as [tn [Hs H]].
  destruct (assoc i tm) as [[| g sh impls sel | |]|] eqn:Ei; try discriminate.
  destruct tn as [|c tn]; [discriminate|].
  destruct (find_impl tm impls (c :: tn)) as [impl|] eqn:Ef; [|discriminate].
  apply bind_ok in H. destruct H as [x [Hd Hv]]. injection Hv as <-.
  destruct (find_impl_sound _ _ _ _ Ef) as [Hin [d [Ha Hg]]].
  exists f, g, sh, impls, sel, (c :: tn), impl, d, x. repeat split; try assumption; try reflexivity. discriminate.
Qed.

(* a missing (or null, or empty) __typename is an error *)
Theorem iface_missing_typename tm f i kvs cur g sh impls sel :
  assoc i tm = Some (DIface g sh impls sel) -> scan_typename kvs [] = Ok [] ->
  unmarshal_iface tm true (S f) i (JObj kvs) cur = Err (b "missing-typename").
Proof. intros Ha Hs. cbn [unmarshal_iface]. rewrite Hs. cbn [bind]. rewrite Ha. reflexivity. Qed.

Corollary iface_no_typename_key tm f i kvs cur g sh impls sel :
  assoc i tm = Some (DIface g sh impls sel) -> (forall k v, In (k, v) kvs -> fold_eqb k typename_name = false) ->
  unmarshal_iface tm true (S f) i (JObj kvs) cur = Err (b "missing-typename").
Proof. intros Ha H. eapply iface_missing_typename; [exact Ha|]. apply scan_typename_absent, H. Qed.

(* a __typename that is not the GraphQL name of any implementation is an error: the value is
   never decoded as some other type *)
Theorem iface_unknown_typename tm f i kvs cur g sh impls sel tn :
  assoc i tm = Some (DIface g sh impls sel) -> scan_typename kvs [] = Ok tn -> tn <> [] ->
  (forall impl d, In impl impls -> assoc impl tm = Some d -> decl_gql d <> tn) ->
  unmarshal_iface tm true (S f) i (JObj kvs) cur = Err (b "unexpected-typename").
Proof.
  intros Ha Hs Hne Hno. cbn [unmarshal_iface]. rewrite Hs. cbn [bind]. rewrite Ha.
  destruct tn as [|c tn]; [exfalso; apply Hne; reflexivity|]. rewrite (find_impl_none _ _ _ Hno). reflexivity.
Qed.

(* a __typename that is not a string is an error *)
Lemma scan_typename_nonstring kvs k v post acc :
  fold_eqb k typename_name = true -> (match v with JStr _ | JNull => False | _ => True end) ->
  (forall k' v', In (k', v') kvs -> fold_eqb k' typename_name = false) ->
  scan_typename (kvs ++ (k, v) :: post) acc = Err EDEC.
Proof.
  intros Hk Hv. revert acc. induction kvs as [|[k0 v0] r IHr]; intros acc H.
  - cbn [app scan_typename]. rewrite Hk. destruct v; try reflexivity; contradiction.
  - cbn [app scan_typename]. rewrite (H k0 v0 (or_introl eq_refl)). apply IHr. intros k' v' Hin. apply (H k' v'). right; exact Hin.
Qed.

(* anything that is not an object or null is an error for an abstract value *)
Theorem iface_not_an_object tm f i j cur :
  (match j with JNull | JObj _ => False | _ => True end) -> unmarshal_iface tm true (S f) i j cur = Err EDEC.
Proof. destruct j; cbn [unmarshal_iface]; try contradiction; reflexivity. Qed.

(* ---- null rules ---- *)
Theorem null_into_pointer tm w f e cur : decode tm w (S f) (GPtr e) JNull cur = Ok VNilPtr.
Proof. reflexivity. Qed.
Theorem null_into_slice tm w f e cur : decode tm w (S f) (GSlice e) JNull cur = Ok VNilSlice.
Proof. reflexivity. Qed.
Theorem null_into_interface tm w f i cur : decode tm w (S (S f)) (GIface i) JNull cur = Ok cur.
Proof. reflexivity. Qed.
Theorem null_into_scalar k cur : decode_scalar k JNull cur = Ok (match k with KAny => VZero | _ => cur end).
Proof. destruct k; reflexivity. Qed.
Theorem null_into_struct tm w f n d cur :
  assoc n tm = Some d -> (exists g fl s i, d = DStruct g fl s i) -> decode tm w (S (S f)) (GStruct n) JNull cur = Ok cur.
Proof.
  intros Ha [g [fl [s [i ->]]]]. cbn [decode]. rewrite Ha. destruct (struct_needs_unmarshal fl); reflexivity.
Qed.

(* the raw capture of the generated code: null for a LIST of abstract (or custom-unmarshaled)
   values is captured as a nil raw list and then `make([]T, len(src))` gives an EMPTY NON-nil
   slice: "nulls become nil slices" fails there (finding D6) *)
Theorem null_list_of_special_gives_empty_slice tm w f k ptr leaf cur :
  capture (S k) JNull = Ok RNilList /\ fill tm w (S f) (S k) ptr leaf RNilList cur = Ok (VSlice []).
Proof. split; reflexivity. Qed.

(* ---- nothing is dropped or moved: the value under a response key is readable at the field
   the key resolves to ---- *)
Lemma assoc_put_same {A} (fs : list (str * A)) k x : assoc k (put_kv fs k x) = Some x.
Proof.
  induction fs as [|[k' y] r IH]; cbn [put_kv assoc]; [rewrite str_eqb_refl; reflexivity|].
  destruct (str_eqb k' k) eqn:E; cbn [assoc].
  - rewrite str_eqb_refl. reflexivity.
  - destruct (str_eqb k k') eqn:E2; [|exact IH].
    apply str_eqb_eq in E2. subst. rewrite str_eqb_refl in E. discriminate.
Qed.

Lemma assoc_put_other {A} (fs : list (str * A)) k k' x : k' <> k -> assoc k' (put_kv fs k x) = assoc k' fs.
Proof.
  intro Hne. induction fs as [|[k0 y] r IH]; cbn [put_kv assoc].
  - destruct (str_eqb k' k) eqn:E; [apply str_eqb_eq in E; contradiction | reflexivity].
  - destruct (str_eqb k0 k) eqn:E; cbn [assoc].
    + apply str_eqb_eq in E. subst k0.
      destruct (str_eqb k' k) eqn:E2; [apply str_eqb_eq in E2; contradiction | reflexivity].
    + destruct (str_eqb k' k0); [reflexivity | exact IH].
Qed.

Lemma get_put_same fs k x d : get_field (put_field fs k x) k d = x.
Proof. unfold get_field, put_field. rewrite assoc_put_same. reflexivity. Qed.
Lemma get_put_other fs k k' x d : k' <> k -> get_field (put_field fs k x) k' d = get_field fs k' d.
Proof. intro H. unfold get_field, put_field. rewrite (assoc_put_other _ _ _ _ H). reflexivity. Qed.

Lemma at_field_ok {A} k (r : res A) x : at_field k r = Ok x -> r = Ok x.
Proof. destruct r; cbn; congruence. Qed.

(* the Go field a response key resolves to: exact tag match first, then ASCII case folding *)
Definition target {A} (fields : list (str * A)) (k : str) : option A :=
  match find_key fields k with
  | Some i => match nth_error fields i with Some (_, fl) => Some fl | None => None end
  | None => None
  end.

Section Reads.
  Variable dec : gotype -> jval -> gval -> res gval.

  Lemma obj_loop_app fields a c : forall acc,
    obj_loop dec fields (a ++ c) acc = bind (obj_loop dec fields a acc) (fun acc' => obj_loop dec fields c acc').
  Proof.
    induction a as [|[k v] r IHr]; intro acc; [reflexivity|]. cbn [app obj_loop].
    destruct (find_key fields k) as [i|]; [|apply IHr].
    destruct (nth_error fields i) as [[s fl]|]; [|apply IHr].
    destruct (at_field _ _); cbn [bind]; try reflexivity. apply IHr.
  Qed.

  Lemma obj_loop_preserves fields key kvs : forall acc fs,
    (forall k' v' fl', In (k', v') kvs -> target fields k' = Some fl' -> field_key fl' <> key) ->
    obj_loop dec fields kvs acc = Ok fs -> forall d, get_field fs key d = get_field acc key d.
  Proof.
    induction kvs as [|[k v] r IHr]; intros acc fs H Hl d; cbn [obj_loop] in Hl; [injection Hl as <-; reflexivity|].
    assert (Hr : forall k' v' fl', In (k', v') r -> target fields k' = Some fl' -> field_key fl' <> key)
      by (intros k' v' fl' Hin; apply (H k' v' fl'); right; exact Hin).
    pose proof (H k v) as Hk. unfold target in Hk.
    destruct (find_key fields k) as [i|]; [|exact (IHr _ _ Hr Hl d)].
    destruct (nth_error fields i) as [[s fl]|]; [|exact (IHr _ _ Hr Hl d)].
    apply bind_ok in Hl. destruct Hl as [x [_ Hl]].
    rewrite (IHr _ _ Hr Hl d). apply get_put_other. intro E. exact (Hk fl (or_introl eq_refl) eq_refl (eq_sym E)).
  Qed.

  (* encoding/json on a struct: the value under key k is decoded into the field k resolves to and
     is what that field holds at the end, provided no LATER key of the object resolves to the same
     Go field (for conformant responses keys are distinct; C02's case-insensitive finding is the
     situation where two distinct keys resolve to one field) *)
  Theorem obj_loop_reads fields pre k v post acc fs fl :
    obj_loop dec fields (pre ++ (k, v) :: post) acc = Ok fs ->
    target fields k = Some fl ->
    (forall k' v' fl', In (k', v') post -> target fields k' = Some fl' -> field_key fl' <> field_key fl) ->
    exists acc' x,
      obj_loop dec fields pre acc = Ok acc'
      /\ dec (gf_type fl) v (get_field acc' (field_key fl) (zero_of (gf_type fl))) = Ok x
      /\ forall d, get_field fs (field_key fl) d = x.
  Proof.
    intros Hl Ht Hpost. rewrite obj_loop_app in Hl. apply bind_ok in Hl. destruct Hl as [acc' [Hpre Hl]].
    exists acc'. cbn [obj_loop] in Hl. unfold target in Ht.
    destruct (find_key fields k) as [i|]; [|discriminate].
    destruct (nth_error fields i) as [[s fl0]|]; [|discriminate]. injection Ht as ->.
    apply bind_ok in Hl. destruct Hl as [x [Hx Hl]]. apply at_field_ok in Hx.
    exists x. split; [exact Hpre|]. split; [exact Hx|]. intro d.
    rewrite (obj_loop_preserves _ _ _ _ _ Hpost Hl d). apply get_put_same.
  Qed.

  (* and a key that resolves to no field changes nothing (unknown keys are ignored, not misfiled) *)
  Theorem obj_loop_ignores_unknown fields k v r acc :
    target fields k = None -> obj_loop dec fields ((k, v) :: r) acc = obj_loop dec fields r acc.
  Proof.
    unfold target. intro H. cbn [obj_loop]. destruct (find_key fields k) as [i|]; [|reflexivity].
    destruct (nth_error fields i) as [[s fl]|]; [discriminate | reflexivity].
  Qed.
End Reads.

(* ---- a concrete program for D6 and for non-vacuity ---- *)
Definition w_fI : gofield := {| gf_name := b "Items"; gf_type := GSlice (GIface (b "QItemsI")); gf_json := b "items"; gf_gql := b "items"; gf_omitempty := false |}.
Definition w_fId : gofield := {| gf_name := b "Id"; gf_type := GOpaque (b "string") (b "ID") [] []; gf_json := b "id"; gf_gql := b "id"; gf_omitempty := false |}.
Definition w_fTn : gofield := {| gf_name := b "Typename"; gf_type := GOpaque (b "string") (b "String") [] []; gf_json := b "__typename"; gf_gql := b "__typename"; gf_omitempty := false |}.
Definition w_tm : typemap :=
  [ (b "QResponse", DStruct (b "Query") [w_fI] [] false);
    (b "QItemsI", DIface (b "I") [] [b "QItemsA"; b "QItemsB"] []);
    (b "QItemsA", DStruct (b "A") [w_fTn; w_fId] [] false);
    (b "QItemsB", DStruct (b "B") [w_fTn] [] false) ].

Definition w_resp_null : jval := JObj [(b "items", JNull)].
Definition w_resp_two : jval :=
  JObj [(b "items", JArr [JObj [(b "__typename", JStr (b "B"))]; JObj [(b "__typename", JStr (b "A")); (b "id", JStr (b "7"))]])].
Definition w_resp_bad : jval := JObj [(b "items", JArr [JObj [(b "__typename", JStr (b "Zebra"))]])].

(* every concrete value decodes into the struct generated for its __typename ... *)
Example w_two_ok :
  decode w_tm true 10 (GStruct (b "QResponse")) w_resp_two (VStruct (b "QResponse") [])
  = Ok (VStruct (b "QResponse") [(b "Items", VSlice [VIface (b "QItemsB") (VStruct (b "QItemsB") [(b "Typename", VScalar (JStr (b "B")))]);
                                                     VIface (b "QItemsA") (VStruct (b "QItemsA") [(b "Typename", VScalar (JStr (b "A"))); (b "Id", VScalar (JStr (b "7")))])])]).
Proof. vm_compute. reflexivity. Qed.

(* ... an unknown one is an error ... *)
Example w_bad_err : exists e, decode w_tm true 10 (GStruct (b "QResponse")) w_resp_bad (VStruct (b "QResponse") []) = Err e.
Proof. eexists. vm_compute. reflexivity. Qed.

(* ... and `items: null` decodes to an EMPTY NON-nil slice, not to a nil slice: the statement
   "nulls become nil slices" is false of the generated decoder for lists of abstract values *)
Theorem null_list_becomes_nil_refuted :
  exists tm t j n fld,
    decode tm true 10 t j (VStruct n []) = Ok (VStruct n [(fld, VSlice [])])
    /\ j = JObj [(b "items", JNull)].
Proof. exists w_tm, (GStruct (b "QResponse")), w_resp_null, (b "QResponse"), (b "Items"). split; [vm_compute|]; reflexivity. Qed.
