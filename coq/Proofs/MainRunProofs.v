From Verif Require Import Base.Str Gen.MainRun.
From Coq Require Import Permutation.

Lemma fs_get_put_same fs p c : fs_get (fs_put fs p c) p = Some c.
Proof. unfold fs_get, fs_put. cbn. rewrite str_eqb_refl. reflexivity. Qed.

Lemma fs_get_put_other fs p q c : q <> p -> fs_get (fs_put fs p c) q = fs_get fs q.
Proof.
  intro H. unfold fs_get, fs_put. cbn. destruct (str_eqb q p) eqn:E; [|reflexivity].
  apply str_eqb_eq in E. contradiction.
Qed.

(* a configuration / schema / operation / code-generation error: nothing at all is attempted *)
Lemma run_generation_error cfg_ok gen fail fs :
  is_generation_error (snd (run cfg_ok gen fail fs)) = true ->
  run cfg_ok gen fail fs = (fs, [], snd (run cfg_ok gen fail fs)) /\ (cfg_ok = false \/ gen = None).
Proof.
  unfold run. destruct cfg_ok; cbn [negb]; [|intros _; split; auto].
  destruct gen as [outs|]; [|intros _; split; auto].
  intro H. exfalso. revert fail fs H. generalize (@nil fop).
  induction outs as [|[p c] rest IH]; intros tr fail fs H; cbn in H; [discriminate|].
  destruct fail as [[|[|k]]|]; cbn in H; try discriminate; eapply IH; exact H.
Qed.

Lemma run_error_iff cfg_ok gen fail fs :
  (cfg_ok = false \/ gen = None) -> run cfg_ok gen fail fs = (fs, [], if cfg_ok then ErrGenerate else ErrConfig).
Proof.
  unfold run. intros [->| ->]; cbn; [reflexivity|]. destruct cfg_ok; reflexivity.
Qed.

(* the write loop without faults *)
Lemma write_all_ok outs : forall fs tr,
  NoDup (map fst outs) ->
  let '(fs', tr', o) := write_all outs None fs tr in
  o = Done /\
  (forall p c, In (p, c) outs -> fs_get fs' p = Some c) /\
  (forall q, ~ In q (map fst outs) -> fs_get fs' q = fs_get fs q) /\
  writes_of tr' = writes_of tr ++ outs.
Proof.
  induction outs as [|[p c] rest IH]; intros fs tr ND; cbn [write_all].
  - repeat split; auto; [intros p c []| rewrite app_nil_r; reflexivity].
  - inversion ND as [|x l Hnin ND']; subst. specialize (IH (fs_put fs p c) (tr ++ [FMkdir p; FWrite p c]) ND').
    destruct (write_all rest None (fs_put fs p c) (tr ++ [FMkdir p; FWrite p c])) as [[fs' tr'] o].
    destruct IH as (Ho & Hin & Hout & Htr). repeat split; [exact Ho| | |].
    + intros q d [E|Hq]; [injection E as <- <-|apply Hin; exact Hq].
      rewrite Hout; [apply fs_get_put_same | exact Hnin].
    + intros q Hq. cbn in Hq. rewrite Hout; [|tauto]. apply fs_get_put_other. intro E; subst; tauto.
    + rewrite Htr. unfold writes_of. rewrite flat_map_app. cbn. rewrite <- app_assoc. reflexivity.
Qed.

Lemma run_success cfg_ok gen fs fs' tr :
  run cfg_ok gen None fs = (fs', tr, Done) ->
  exists outs, cfg_ok = true /\ gen = Some outs.
Proof.
  unfold run. destruct cfg_ok; cbn; [|discriminate]. destruct gen as [outs|]; [|discriminate]. eauto.
Qed.

Theorem success_exact outs fs :
  NoDup (map fst outs) ->
  let '(fs', tr, o) := run true (Some outs) None fs in
  o = Done /\
  (forall p c, In (p, c) outs -> fs_get fs' p = Some c) /\
  (forall q, ~ In q (map fst outs) -> fs_get fs' q = fs_get fs q) /\
  writes_of tr = outs.
Proof.
  intro ND. unfold run. cbn [negb]. pose proof (write_all_ok outs fs [] ND) as H.
  destruct (write_all outs None fs []) as [[fs' tr'] o]. exact H.
Qed.

(* the final file system does not depend on the map-iteration order of the outputs *)
Theorem success_order_independent outs outs' fs q :
  NoDup (map fst outs) -> Permutation outs outs' ->
  fs_get (fst (fst (run true (Some outs) None fs))) q = fs_get (fst (fst (run true (Some outs') None fs))) q.
Proof.
  intros ND P.
  assert (NoDup (map fst outs')) as ND' by (eapply Permutation_NoDup; [apply Permutation_map; exact P | exact ND]).
  pose proof (success_exact outs fs ND) as H. pose proof (success_exact outs' fs ND') as H'.
  destruct (run true (Some outs) None fs) as [[f1 t1] o1]. destruct (run true (Some outs') None fs) as [[f2 t2] o2].
  cbn [fst snd]. destruct H as (_ & Hin & Hout & _). destruct H' as (_ & Hin' & Hout' & _).
  destruct (in_dec str_eq_dec q (map fst outs)) as [I|NI].
  - apply in_map_iff in I as [[p c] [E I]]. cbn in E. subst p.
    rewrite (Hin _ _ I). symmetry. apply Hin'. eapply Permutation_in; eassumption.
  - rewrite (Hout _ NI). symmetry. apply Hout'. intro I. apply NI.
    eapply Permutation_in; [apply Permutation_map; apply Permutation_sym; exact P | exact I].
Qed.

(* whatever fails and whenever: only paths of the generator's outputs are ever touched,
   and each write carries exactly the generator's bytes for that path *)
Lemma write_all_touches outs : forall fail fs tr,
  let '(fs', tr', o) := write_all outs fail fs tr in
  exists extra, tr' = tr ++ extra /\
    (forall p c, In (FWrite p c) extra -> In (p, c) outs) /\
    (forall p, In (FMkdir p) extra -> In p (map fst outs)).
Proof.
  induction outs as [|[p c] rest IH]; intros fail fs tr; cbn [write_all].
  - exists []. rewrite app_nil_r. repeat split; [intros ? ? [] | intros ? []].
  - destruct fail as [[|[|k]]|].
    + exists [FMkdir p]. repeat split; [intros q d [E|[]]; discriminate E | intros q [E|[]]; injection E as <-; left; reflexivity].
    + exists [FMkdir p; FWrite p c]. repeat split.
      * intros q d [E|[E|[]]]; [discriminate E | injection E as <- <-; left; reflexivity].
      * intros q [E|[E|[]]]; [injection E as <-; left; reflexivity | discriminate E].
    + specialize (IH (Some k) (fs_put fs p c) (tr ++ [FMkdir p; FWrite p c])).
      destruct (write_all rest (Some k) (fs_put fs p c) (tr ++ [FMkdir p; FWrite p c])) as [[fs' tr'] o].
      destruct IH as (extra & -> & Hw & Hm). exists ([FMkdir p; FWrite p c] ++ extra).
      rewrite <- app_assoc. repeat split.
      * intros q d [E|[E|I]]; [discriminate E | injection E as <- <-; left; reflexivity | right; apply Hw; exact I].
      * intros q [E|[E|I]]; [injection E as <-; left; reflexivity | discriminate E | right; apply Hm; exact I].
    + specialize (IH None (fs_put fs p c) (tr ++ [FMkdir p; FWrite p c])).
      destruct (write_all rest None (fs_put fs p c) (tr ++ [FMkdir p; FWrite p c])) as [[fs' tr'] o].
      destruct IH as (extra & -> & Hw & Hm). exists ([FMkdir p; FWrite p c] ++ extra).
      rewrite <- app_assoc. repeat split.
      * intros q d [E|[E|I]]; [discriminate E | injection E as <- <-; left; reflexivity | right; apply Hw; exact I].
      * intros q [E|[E|I]]; [injection E as <-; left; reflexivity | discriminate E | right; apply Hm; exact I].
Qed.

Theorem writes_only_generated cfg_ok gen fail fs p c :
  In (FWrite p c) (snd (fst (run cfg_ok gen fail fs))) ->
  exists outs, cfg_ok = true /\ gen = Some outs /\ In (p, c) outs.
Proof.
  unfold run. destruct cfg_ok; cbn; [|intros []]. destruct gen as [outs|]; [|intros []].
  intro H. exists outs. repeat split.
  pose proof (write_all_touches outs fail fs []) as T.
  destruct (write_all outs fail fs []) as [[fs' tr'] o]. destruct T as (extra & -> & Hw & _).
  cbn in H. apply Hw. exact H.
Qed.
