From Verif Require Import Base.Str Base.Sort Gen.Consts Gen.Pipeline.
From Coq Require Import Permutation.

(* ---------- expandFilenames ---------- *)
Theorem expand_order_independent l l' :
  (forall x, In x l <-> In x l') -> expand l = expand l'.
Proof. apply sort_dedup_same_set. Qed.

Lemma expand_In l x : In x (expand l) <-> In x l.
Proof.
  unfold expand, sort_str. split; intro H.
  - apply dedup_In. eapply Permutation_in; [apply sort_by_perm | exact H].
  - eapply Permutation_in; [symmetry; apply sort_by_perm | apply dedup_In; exact H].
Qed.

(* ---------- nothing is lost between the files and the validated document ---------- *)
Lemma collect_In srcs d : In d (collect srcs) <-> exists s, In s srcs /\ In d (src_defs s).
Proof. unfold collect. apply in_flat_map. Qed.

Lemma go_literal_defs_collected n lits lit d :
  In lit lits -> In d lit -> In d (src_defs (SGo n lits)).
Proof. intros H1 H2. cbn. apply in_concat. eauto. Qed.

Lemma ops_frags_partition ds d : In d ds <-> In d (ops_of ds) \/ In d (frags_of ds).
Proof.
  unfold ops_of, frags_of. rewrite !filter_In. destruct (d_op d); cbn; intuition congruence.
Qed.

(* ---------- the type map ---------- *)
Definition tm_wf (tm : typemap) : Prop := NoDup (map fst tm).

Lemma assoc_In_nodup {A} (tm : list (str * A)) n d :
  NoDup (map fst tm) -> In (n, d) tm -> assoc n tm = Some d.
Proof.
  induction tm as [|[k v] r IH]; intros ND H; [destruct H|].
  inversion ND as [|? ? Hn ND']; subst. cbn. destruct H as [E|H].
  - injection E as -> ->. rewrite str_eqb_refl. reflexivity.
  - destruct (str_eqb n k) eqn:E.
    + apply str_eqb_eq in E. subst. exfalso. apply Hn. change k with (fst (k, d)). apply in_map. exact H.
    + apply IH; assumption.
Qed.

Lemma assoc_Some_In {A} (tm : list (str * A)) n d : assoc n tm = Some d -> In (n, d) tm.
Proof.
  induction tm as [|[k v] r IH]; cbn; [discriminate|].
  destruct (str_eqb n k) eqn:E; intro H.
  - apply str_eqb_eq in E. injection H as ->. subst. left. reflexivity.
  - right. apply IH. exact H.
Qed.

Lemma assoc_None_notin {A} (tm : list (str * A)) n : assoc n tm = None -> ~ In n (map fst tm).
Proof.
  induction tm as [|[k v] r IH]; cbn; [tauto|].
  destruct (str_eqb n k) eqn:E; [discriminate|]. intros H [K|K].
  - subst. rewrite str_eqb_refl in E. discriminate.
  - apply IH in H. contradiction.
Qed.

(* the set of bindings a successful run of add_types yields: exactly old ∪ new, and it
   succeeds iff old ∪ new is functional (one declaration per name) *)
Definition functional (l : list (str * N)) : Prop :=
  forall n d d', In (n, d) l -> In (n, d') l -> d = d'.

Lemma add_type_ok tm nd tm' :
  tm_wf tm -> add_type tm nd = GOk tm' ->
  tm_wf tm' /\ (forall x, In x tm' <-> In x tm \/ x = nd).
Proof.
  unfold add_type. destruct nd as [n d]. cbn. intros WF.
  destruct (assoc n tm) as [d0|] eqn:A.
  - destruct (N.eqb_spec d0 d) as [E|E]; [|discriminate]. subst. intro H. injection H as <-.
    split; [exact WF|]. intro x. split; [auto|]. intros [H | ->]; [exact H|]. apply assoc_Some_In. exact A.
  - intro H. injection H as <-. split.
    + constructor; [apply assoc_None_notin; exact A | exact WF].
    + intro x. cbn. split; intros [H|H]; auto.
Qed.

Lemma add_type_err tm nd e :
  add_type tm nd = GErr e -> e = EConflict /\ exists d, In (fst nd, d) tm /\ d <> snd nd.
Proof.
  unfold add_type. destruct (assoc (fst nd) tm) as [d0|] eqn:A; [|discriminate].
  destruct (N.eqb_spec d0 (snd nd)) as [E|E]; [discriminate|]. intro H. injection H as <-.
  split; [reflexivity|]. exists d0. split; [apply assoc_Some_In; exact A | exact E].
Qed.

Lemma add_types_ok nds : forall tm tm',
  tm_wf tm -> add_types tm nds = GOk tm' ->
  tm_wf tm' /\ (forall x, In x tm' <-> In x tm \/ In x nds).
Proof.
  induction nds as [|nd r IH]; intros tm tm' WF H; cbn in H.
  - injection H as <-. split; [exact WF|]. intro x. cbn. tauto.
  - destruct (add_type tm nd) as [tm1|e] eqn:A; [|discriminate].
    apply add_type_ok in A as [WF1 H1]; [|exact WF].
    apply IH in H as [WF' H']; [|exact WF1]. split; [exact WF'|].
    intro x. rewrite H', H1. cbn. intuition (subst; auto).
Qed.

Lemma wf_functional tm : tm_wf tm -> functional tm.
Proof.
  intros WF n d d' H H'. apply (assoc_In_nodup _ _ _ WF) in H. apply (assoc_In_nodup _ _ _ WF) in H'. congruence.
Qed.

Lemma add_types_succeeds_iff nds : forall tm,
  tm_wf tm -> ((exists tm', add_types tm nds = GOk tm') <-> functional (tm ++ nds)).
Proof.
  induction nds as [|nd r IH]; intros tm WF.
  - cbn. rewrite app_nil_r. split; [intros _; apply wf_functional; exact WF | eauto].
  - cbn [add_types]. destruct (add_type tm nd) as [tm1|e] eqn:A.
    + pose proof (add_type_ok _ _ _ WF A) as [WF1 H1]. rewrite (IH tm1 WF1).
      unfold functional. split; intros F n d d' H H'; apply (F n d d').
      all: rewrite in_app_iff in *; cbn in *; rewrite ?H1 in *; intuition (subst; auto).
    + split; [intros [? H]; discriminate H|]. intro F. exfalso.
      apply add_type_err in A as [_ (d & Hin & Hne)]. apply Hne.
      apply (F (fst nd) d (snd nd)); rewrite in_app_iff; [left; exact Hin | right; left; destruct nd; reflexivity].
Qed.

(* order independence of the type map: for two orders of the same declarations, both fail or
   both succeed with the same set of bindings, hence the same sorted list *)
Theorem add_types_perm nds nds' :
  Permutation nds nds' ->
  match add_types [] nds, add_types [] nds' with
  | GOk tm, GOk tm' => sort_by fst tm = sort_by fst tm'
  | GErr _, GErr _ => True
  | _, _ => False
  end.
Proof.
  intro P.
  assert (tm_wf []) as WF0 by constructor.
  pose proof (add_types_succeeds_iff nds [] WF0) as S. pose proof (add_types_succeeds_iff nds' [] WF0) as S'.
  cbn in S, S'.
  assert (functional nds <-> functional nds') as FF.
  { unfold functional. split; intros F n d d' H H'; apply (F n d d');
      eapply Permutation_in; try eassumption; try (symmetry; eassumption). }
  destruct (add_types [] nds) as [tm|e] eqn:A, (add_types [] nds') as [tm'|e'] eqn:A'.
  - apply add_types_ok in A as [WF HA]; [|exact WF0]. apply add_types_ok in A' as [WF' HA']; [|exact WF0].
    apply sort_by_perm_eq; [apply nodup_keys_inj; exact WF|].
    apply NoDup_Permutation; [eapply NoDup_map_inv; exact WF | eapply NoDup_map_inv; exact WF'|].
    intro x. rewrite HA, HA'. cbn. split; intros [[]|H]; right;
      eapply Permutation_in; try eassumption; symmetry; assumption.
  - assert (exists t, GOk tm = GOk t) as H by eauto. apply S, FF, S' in H as [t H]. discriminate H.
  - assert (exists t, GOk tm' = GOk t) as H by eauto. apply S', FF, S in H as [t H]. discriminate H.
  - exact I.
Qed.

(* ---------- Generate: what a successful run certifies ---------- *)
Section Cert.
  Variable V : list def -> bool.
  Variable conv : list def -> def -> option (N * list (str * N)).

  Lemma add_operations_validated frags ops : forall tm done r,
    add_operations conv frags ops tm done = GOk r ->
    forall o, In o ops -> d_name o <> [] /\ mem_str (d_name o) go_keywords = false /\ conv frags o <> None.
  Proof.
    induction ops as [|o ops IH]; intros tm done r H x Hx; [destruct Hx|].
    cbn [add_operations] in H. unfold validate_operation in H.
    destruct (d_name o) as [|c nm] eqn:N; [discriminate|].
    destruct (mem_str (c :: nm) go_keywords) eqn:K; [discriminate|].
    destruct (conv frags o) as [[fn decls]|] eqn:C; [|discriminate].
    destruct (add_types tm decls) as [tm'|e]; [|discriminate].
    destruct Hx as [<-|Hx].
    - rewrite N, K, C. repeat split; discriminate.
    - eapply IH; eassumption.
  Qed.

  (* A successful Generate certifies: every definition of every matched file and of every
     `# @genqlient` literal of every matched Go file is in the ONE document the validator
     accepted; no file was skipped; every operation is named, is not a Go keyword and was converted. *)
  Theorem generate_ok_certifies srcs out :
    generate V conv srcs = GOk out ->
    V (collect srcs) = true
    /\ (forall s, In s srcs -> src_bad s = false)
    /\ (forall s d, In s srcs -> In d (src_defs s) -> In d (collect srcs))
    /\ (forall o, In o (collect srcs) -> d_op o = true ->
          d_name o <> [] /\ mem_str (d_name o) go_keywords = false /\ conv (frags_of (collect srcs)) o <> None)
    /\ ops_of (collect srcs) <> [].
  Proof.
    unfold generate. destruct srcs as [|s0 rest]; [discriminate|].
    set (srcs := s0 :: rest).
    destruct (existsb src_bad srcs) eqn:B; [discriminate|].
    destruct (V (collect srcs)) eqn:HV; cbn [negb]; [|discriminate].
    destruct (ops_of (collect srcs)) as [|o1 ops] eqn:O; [discriminate|].
    destruct (add_operations conv (frags_of (collect srcs)) (sort_by d_name (o1 :: ops)) [] []) as [[tm done]|e] eqn:A; [|discriminate].
    assert (forall o, In o (collect srcs) -> d_op o = true -> In o (sort_by d_name (o1 :: ops))) as Hin.
    { intros o Ho Hop. eapply Permutation_in; [symmetry; apply sort_by_perm|]. rewrite <- O. apply filter_In. auto. }
    intros _. repeat split.
    - intros s Hs. destruct (src_bad s) eqn:E; [|reflexivity].
      assert (existsb src_bad srcs = true) as X by (apply existsb_exists; eauto). congruence.
    - intros s d Hs Hd. apply collect_In. eauto.
    - eapply add_operations_validated; [exact A|]. auto.
    - eapply add_operations_validated; [exact A|]. auto.
    - eapply add_operations_validated; [exact A|]. auto.
    - discriminate.
  Qed.

  (* ... and whenever the validator rejects the merged document, or an operation is anonymous or
     named by a Go keyword, or a file is of an unknown kind, the result is an error: no output *)
  Theorem generate_rejects srcs :
    (V (collect srcs) = false
     \/ (exists o, In o (collect srcs) /\ d_op o = true /\ (d_name o = [] \/ mem_str (d_name o) go_keywords = true))
     \/ (exists s, In s srcs /\ src_bad s = true)) ->
    exists e, generate V conv srcs = GErr e.
  Proof.
    intro H. destruct (generate V conv srcs) as [out|e] eqn:G; [|eauto]. exfalso.
    apply generate_ok_certifies in G as (HV & HB & _ & HO & _).
    destruct H as [H|[(o & Ho & Hop & Hn)|(s & Hs & Hb)]].
    - congruence.
    - destruct (HO o Ho Hop) as (N1 & N2 & _). destruct Hn; congruence.
    - rewrite (HB s Hs) in Hb. discriminate.
  Qed.
End Cert.

(* ---------- the emitted order ---------- *)
Lemma out_types_sorted_independent (tm tm' : typemap) :
  tm_wf tm -> Permutation tm tm' -> sort_by fst tm = sort_by fst tm'.
Proof. intros WF P. apply sort_by_perm_eq; [apply nodup_keys_inj; exact WF | exact P]. Qed.

Lemma out_ops_sorted_independent (done done' : list (str * N)) :
  NoDup (map fst done) -> Permutation done done' -> sort_by fst done = sort_by fst done'.
Proof. intros ND P. apply sort_by_perm_eq; [apply nodup_keys_inj; exact ND | exact P]. Qed.

(* ---------- Generate is invariant under the order in which definitions are collected ---------- *)
Lemma add_types_app a : forall tm c,
  add_types tm (a ++ c) = match add_types tm a with GOk tm' => add_types tm' c | GErr e => GErr e end.
Proof.
  induction a as [|x a IH]; intros tm c; cbn; [reflexivity|].
  destruct (add_type tm x); [apply IH | reflexivity].
Qed.

Lemma perm_filter {A} (f : A -> bool) l l' : Permutation l l' -> Permutation (filter f l) (filter f l').
Proof.
  induction 1 as [|x l l' P IH|x y l|l l' l'' P1 IH1 P2 IH2]; cbn.
  - constructor.
  - destruct (f x); [constructor|]; exact IH.
  - destruct (f x), (f y); try reflexivity. apply perm_swap.
  - etransitivity; eassumption.
Qed.

Section Invariance.
  Variable V : list def -> bool.
  Variable conv : list def -> def -> option (N * list (str * N)).

  Definition op_ok (frags : list def) (o : def) : bool :=
    match validate_operation o with
    | GOk _ => match conv frags o with Some _ => true | None => false end
    | GErr _ => false
    end.
  Definition decls_of (frags : list def) (ops : list def) : list (str * N) :=
    flat_map (fun o => match conv frags o with Some (_, d) => d | None => [] end) ops.
  Definition names_of (frags : list def) (ops : list def) : list (str * N) :=
    map (fun o => (d_name o, match conv frags o with Some (fn, _) => fn | None => 0 end)) ops.

  Lemma add_operations_char frags ops : forall tm done,
    match add_operations conv frags ops tm done with
    | GOk (tm', done') =>
        forallb (op_ok frags) ops = true /\ add_types tm (decls_of frags ops) = GOk tm'
        /\ done' = done ++ names_of frags ops
    | GErr _ =>
        forallb (op_ok frags) ops = false \/ exists e, add_types tm (decls_of frags ops) = GErr e
    end.
  Proof.
    induction ops as [|o ops IH]; intros tm done; cbn [add_operations].
    - cbn. rewrite app_nil_r. auto.
    - cbn [forallb decls_of names_of flat_map map]. unfold op_ok at 1 3.
      destruct (validate_operation o) as [[]|e] eqn:VO; [|left; reflexivity].
      destruct (conv frags o) as [[fn decls]|] eqn:C; [|left; reflexivity].
      cbn [andb]. rewrite add_types_app.
      destruct (add_types tm decls) as [tm1|e1] eqn:A; [|right; eauto].
      specialize (IH tm1 (done ++ [(d_name o, fn)])).
      destruct (add_operations conv frags ops tm1 (done ++ [(d_name o, fn)])) as [[tm' done']|e'].
      + destruct IH as (H1 & H2 & H3). repeat split; [exact H1 | exact H2|].
        rewrite H3, <- app_assoc. reflexivity.
      + exact IH.
  Qed.

  Lemma forallb_perm {A} (f : A -> bool) l l' : Permutation l l' -> forallb f l = forallb f l'.
  Proof.
    induction 1 as [|x l l' P IH|x y l|l l' l'' P1 IH1 P2 IH2]; cbn; try congruence.
    destruct (f x), (f y); reflexivity.
  Qed.

  Lemma add_types_perm_gen nds nds' :
    Permutation nds nds' ->
    match add_types [] nds, add_types [] nds' with
    | GOk tm, GOk tm' => sort_by fst tm = sort_by fst tm'
    | GErr _, GErr _ => True
    | _, _ => False
    end.
  Proof. apply add_types_perm. Qed.

  Theorem add_operations_perm frags ops ops' :
    NoDup (map d_name ops) -> Permutation ops ops' ->
    match add_operations conv frags ops [] [], add_operations conv frags ops' [] [] with
    | GOk (tm, done), GOk (tm', done') =>
        sort_by fst tm = sort_by fst tm' /\ sort_by fst done = sort_by fst done'
    | GErr _, GErr _ => True
    | _, _ => False
    end.
  Proof.
    intros ND P.
    pose proof (add_operations_char frags ops [] []) as H.
    pose proof (add_operations_char frags ops' [] []) as H'.
    assert (Permutation (decls_of frags ops) (decls_of frags ops')) as PD
      by (unfold decls_of; apply Permutation_flat_map; exact P).
    pose proof (add_types_perm_gen _ _ PD) as T.
    pose proof (forallb_perm (op_ok frags) _ _ P) as FB.
    destruct (add_operations conv frags ops [] []) as [[tm done]|e];
      destruct (add_operations conv frags ops' [] []) as [[tm' done']|e'].
    - destruct H as (_ & A & ->). destruct H' as (_ & A' & ->). rewrite A, A' in T. split; [exact T|].
      cbn. apply out_ops_sorted_independent.
      + unfold names_of. rewrite map_map. cbn. exact ND.
      + unfold names_of. apply Permutation_map. exact P.
    - destruct H as (F & A & _). destruct H' as [F'|[e0 A']]; [congruence|]. rewrite A, A' in T. exact T.
    - destruct H' as (F' & A' & _). destruct H as [F|[e0 A]]; [congruence|]. rewrite A, A' in T. exact T.
    - exact I.
  Qed.

  Hypothesis V_perm : forall l l', Permutation l l' -> V l = V l'.
  Hypothesis conv_perm : forall f f' o, Permutation f f' -> conv f o = conv f' o.

  Lemma add_operations_frags_ext f f' : Permutation f f' ->
    forall ops tm done, add_operations conv f ops tm done = add_operations conv f' ops tm done.
  Proof.
    intros P ops. induction ops as [|o ops IH]; intros tm done; cbn; [reflexivity|].
    rewrite (conv_perm f f' o P). destruct (validate_operation o); [|reflexivity].
    destruct (conv f' o) as [[fn d]|]; [|reflexivity]. destruct (add_types tm d); [apply IH | reflexivity].
  Qed.

  (* Two source lists (two layouts) holding the same definitions, in any grouping and order,
     give the same output or both fail. *)
  Theorem generate_layout_independent srcs srcs' :
    srcs <> [] -> srcs' <> [] ->
    (forall s, In s srcs -> src_bad s = false) -> (forall s, In s srcs' -> src_bad s = false) ->
    Permutation (collect srcs) (collect srcs') ->
    NoDup (map d_name (ops_of (collect srcs))) ->
    match generate V conv srcs, generate V conv srcs' with
    | GOk o, GOk o' => o = o'
    | GErr _, GErr _ => True
    | _, _ => False
    end.
  Proof.
    intros NE NE' NB NB' P ND. unfold generate.
    destruct srcs as [|s0 r]; [congruence|]. destruct srcs' as [|s0' r']; [congruence|].
    set (S := s0 :: r) in *. set (S' := s0' :: r') in *.
    assert (existsb src_bad S = false) as -> .
    { destruct (existsb src_bad S) eqn:E; [|reflexivity]. apply existsb_exists in E as (s & Hs & Hb).
      rewrite (NB s Hs) in Hb. discriminate. }
    assert (existsb src_bad S' = false) as -> .
    { destruct (existsb src_bad S') eqn:E; [|reflexivity]. apply existsb_exists in E as (s & Hs & Hb).
      rewrite (NB' s Hs) in Hb. discriminate. }
    rewrite (V_perm _ _ P). destruct (V (collect S')); cbn [negb]; [|exact I].
    assert (Permutation (ops_of (collect S)) (ops_of (collect S'))) as PO by (apply perm_filter; exact P).
    assert (Permutation (frags_of (collect S)) (frags_of (collect S'))) as PF by (apply perm_filter; exact P).
    destruct (ops_of (collect S)) as [|o1 ops] eqn:O; destruct (ops_of (collect S')) as [|o1' ops'] eqn:O'.
    - exact I.
    - apply Permutation_nil in PO. discriminate.
    - apply Permutation_sym, Permutation_nil in PO. discriminate.
    - rewrite <- (add_operations_frags_ext _ _ PF).
      assert (Permutation (sort_by d_name (o1 :: ops)) (sort_by d_name (o1' :: ops'))) as PS.
      { rewrite !sort_by_perm. exact PO. }
      assert (NoDup (map d_name (sort_by d_name (o1 :: ops)))) as NDS.
      { eapply Permutation_NoDup; [apply Permutation_map; symmetry; apply sort_by_perm | exact ND]. }
      pose proof (add_operations_perm (frags_of (collect S)) _ _ NDS PS) as H.
      destruct (add_operations conv (frags_of (collect S)) (sort_by d_name (o1 :: ops)) [] []) as [[tm done]|e];
        destruct (add_operations conv (frags_of (collect S)) (sort_by d_name (o1' :: ops')) [] []) as [[tm' done']|e']; try exact H.
      destruct H as [-> ->]. reflexivity.
  Qed.
End Invariance.

(* ---------- collecting definitions: any layout of the same definitions is a permutation ---------- *)
Lemma collect_app a c : collect (a ++ c) = collect a ++ collect c.
Proof. unfold collect. apply flat_map_app. Qed.

Lemma collect_perm srcs srcs' : Permutation srcs srcs' -> Permutation (collect srcs) (collect srcs').
Proof. unfold collect. apply Permutation_flat_map. Qed.

(* splitting a .graphql file in two, or moving definitions into `# @genqlient` literals of a Go
   file, leaves the collected definitions unchanged *)
Lemma collect_split n1 n2 n ds1 ds2 rest :
  collect (SGraphql n1 ds1 :: SGraphql n2 ds2 :: rest) = collect (SGraphql n (ds1 ++ ds2) :: rest).
Proof. unfold collect. cbn. rewrite app_assoc. reflexivity. Qed.

Lemma collect_go n m lits rest :
  collect (SGo n lits :: rest) = collect (SGraphql m (concat lits) :: rest).
Proof. reflexivity. Qed.
