(* decode (encode v) = v for the wrapper algebra convertType produces for leaf types:
   slices at every list depth around an optional pointer around a scalar-like type. *)
From Verif Require Import Base.Str Gen.Consts Gen.Gql Gen.Directive Gen.Convert Rt.JsonDecode Rt.JsonEncode
  Proofs.JsonProofs Proofs.EncodeProofs.
From Coq Require Import ZArith Lia.

(* a JSON scalar a Go value of kind k can hold *)
Definition fits (k : skind) (j : jval) : bool :=
  match k, j with
  | KStr, JStr _ => true
  | KInt, JNum _ true => true
  | KFloat, JNum _ _ => true
  | KBoolean, JBool _ => true
  | _, _ => false
  end.

Lemma decode_scalar_fits k j cur : fits k j = true -> decode_scalar k j cur = Ok (VScalar j).
Proof. destruct k, j; cbn; try discriminate; try reflexivity. destruct integral; [reflexivity | discriminate]. Qed.

(* the types: []^n ( *? scalar ), scalar = an opaque reference that is not itself `[]..`/`*..`
   and is not map-kinded, or a builtin alias / enum (string-kinded) *)
Definition scalar_type (tm : typemap) (t : gotype) : bool :=
  match t with
  | GOpaque r _ _ _ => match ref_shape r with None => true | _ => false end
  | GAlias _ | GEnum _ => true
  | _ => false
  end.

Fixpoint wrapper_type (tm : typemap) (t : gotype) : bool :=
  match t with
  | GSlice e => wrapper_type tm e
  | GPtr e => scalar_type tm e
  | other => scalar_type tm other
  end.

(* the values of such a type that decoding produces: scalars hold a JSON scalar of their kind *)
Fixpoint canonical (tm : typemap) (t : gotype) (v : gval) {struct v} : Prop :=
  match v with
  | VScalar j => scalar_type tm t = true /\ fits (scalar_kind tm t) j = true
  | VNilPtr => exists e, t = GPtr e
  | VPtr x => exists e, t = GPtr e /\ canonical tm e x
  | VNilSlice => exists e, t = GSlice e
  | VSlice l => exists e, t = GSlice e /\
                (fix all (l : list gval) : Prop := match l with [] => True | x :: r => canonical tm e x /\ all r end) l
  | _ => False
  end.

Definition all_canonical tm e :=
  fix all (l : list gval) : Prop := match l with [] => True | x :: r => canonical tm e x /\ all r end.

Fixpoint gsize (v : gval) : nat :=
  match v with
  | VPtr x => S (gsize x)
  | VSlice l => S (fold_right (fun x n => (gsize x + n)%nat) O l)
  | _ => 1%nat
  end.

Lemma scalar_roundtrip tm w f t j :
  scalar_type tm t = true -> fits (scalar_kind tm t) j = true ->
  forall cur, encode tm (S f) t (VScalar j) = Ok j /\ decode tm w (S f) t j cur = Ok (VScalar j).
Proof.
  intros Hs Hf cur. destruct t; try discriminate Hs; cbn [encode decode].
  - cbn [scalar_type] in Hs. destruct (ref_shape ref) as [[[] rest]|]; try discriminate Hs.
    split; [reflexivity | apply decode_scalar_fits, Hf].
  - split; [reflexivity | apply decode_scalar_fits, Hf].
  - split; [reflexivity | apply decode_scalar_fits, Hf].
Qed.

Lemma fits_not_null k j : fits k j = true -> j <> JNull.
Proof. destruct k, j; cbn; congruence. Qed.

Lemma decode_ptr_nonnull tm w f e j cur :
  j <> JNull ->
  decode tm w (S f) (GPtr e) j cur
  = bind (decode tm w f e j (match cur with VPtr y => y | _ => zero_of e end)) (fun v => Ok (VPtr v)).
Proof. intro H. destruct j; try reflexivity. exfalso; apply H; reflexivity. Qed.

(* marshaling a canonical value and unmarshaling the result gives the value back, for every
   list depth, with or without a pointer, for every fuel that covers the nesting *)
Theorem wrapper_roundtrip tm w : forall v t f cur,
  wrapper_type tm t = true -> canonical tm t v -> (gsize v < f)%nat ->
  exists j, encode tm f t v = Ok j /\ decode tm w f t j cur = Ok v.
Proof.
  fix IH 1. intros v t f cur Ht Hc Hf.
  destruct f as [|f]; [lia|].
  destruct v as [| j | | x | | l | | impl x | n fs]; cbn [canonical] in Hc; try contradiction.
  - (* scalar *)
    destruct Hc as [Hs Hfit]. exists j. apply (scalar_roundtrip tm w f t j Hs Hfit).
  - (* nil pointer *)
    destruct Hc as [e ->]. exists JNull. split; reflexivity.
  - (* pointer *)
    destruct Hc as [e [-> Hx]]. cbn [wrapper_type] in Ht. cbn [gsize] in Hf.
    destruct x as [| j | | | | | | |]; cbn [canonical] in Hx; try contradiction;
      try (destruct Hx as [e' [-> _]]; discriminate Ht); try (destruct Hx as [e' ->]; discriminate Ht).
    destruct Hx as [Hs Hfit]. destruct f as [|f]; [cbn [gsize] in Hf; lia|].
    destruct (scalar_roundtrip tm w f e j Hs Hfit (match cur with VPtr y => y | _ => zero_of e end)) as [He Hd].
    exists j. cbn [encode]. split; [exact He|].
    rewrite (decode_ptr_nonnull tm w (S f) e j cur (fits_not_null _ _ Hfit)). rewrite Hd. reflexivity.
  - (* nil slice *)
    destruct Hc as [e ->]. exists JNull. split; reflexivity.
  - (* slice *)
    destruct Hc as [e [-> Hall]]. cbn [wrapper_type] in Ht. cbn [gsize] in Hf.
    assert (Hl : exists js, map_res (encode tm f e) l = Ok js /\ map_res (fun x => decode tm w f e x (zero_of e)) js = Ok l).
    { revert Hall Hf. induction l as [|x r IHr]; intros Hall Hf.
      - exists []. split; reflexivity.
      - destruct Hall as [Hx Hr]. cbn [fold_right] in Hf.
        destruct (IH x e f (zero_of e) Ht Hx ltac:(lia)) as [jx [Hex Hdx]].
        destruct (IHr Hr ltac:(lia)) as [js [Hes Hds]].
        exists (jx :: js). cbn [map_res]. rewrite Hex, Hes, Hdx, Hds. split; reflexivity. }
    destruct Hl as [js [Hes Hds]]. exists (JArr js). cbn [encode decode]. rewrite Hes, Hds. split; reflexivity.
Qed.

(* non-vacuity: [[*string]] with a null in the middle *)
Example wrapper_roundtrip_example :
  let t := GSlice (GSlice (GPtr (GOpaque (b "string") (b "String") [] []))) in
  let v := VSlice [VSlice [VPtr (VScalar (JStr (b "a"))); VNilPtr]; VNilSlice; VSlice []] in
  wrapper_type [] t = true /\ canonical [] t v
  /\ encode [] 10 t v = Ok (JArr [JArr [JStr (b "a"); JNull]; JNull; JArr []])
  /\ decode [] true 10 t (JArr [JArr [JStr (b "a"); JNull]; JNull; JArr []]) VZero = Ok v.
Proof.
  cbn zeta. split; [reflexivity|]. split.
  - cbn. eexists. split; [reflexivity|]. repeat split; try (eexists; split; [reflexivity|]); cbn; repeat split;
      try (eexists; reflexivity); try (eexists; split; [reflexivity|]; cbn; repeat split; reflexivity).
  - split; vm_compute; reflexivity.
Qed.
