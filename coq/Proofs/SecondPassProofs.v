(* The second pass of a generated UnmarshalJSON: every embedded fragment struct is decoded from
   the SAME object, every abstract / custom field from the raw message captured for its key. *)
From Verif Require Import Base.Str Gen.Consts Gen.Gql Gen.Directive Gen.Convert Rt.JsonDecode Proofs.JsonProofs.
From Coq Require Import ZArith.

(* the Go field a special field is stored under *)
Definition sp_key (fl : gofield) : str := match gf_name fl with [] => field_key fl | n => n end.

Section SecondPass.
  Variable dec : gotype -> jval -> gval -> res gval.
  Variable filler : nat -> bool -> gotype -> raw -> gval -> res gval.

  Lemma second_pass_app j caps a c : forall acc,
    second_pass dec filler j caps (a ++ c) acc
    = bind (second_pass dec filler j caps a acc) (fun acc' => second_pass dec filler j caps c acc').
  Proof.
    induction a as [|fl r IH]; intro acc; [reflexivity|]. cbn [app second_pass].
    destruct (negb (special fl)); [apply IH|].
    destruct (gf_name fl) as [|ch nm].
    - destruct (dec _ _ _); cbn [bind]; try reflexivity. apply IH.
    - destruct (at_field _ _); cbn [bind]; try reflexivity. apply IH.
  Qed.

  Lemma second_pass_preserves j caps key fls : forall acc fs,
    (forall fl, In fl fls -> special fl = true -> sp_key fl <> key) ->
    second_pass dec filler j caps fls acc = Ok fs -> forall d, get_field fs key d = get_field acc key d.
  Proof.
    induction fls as [|fl r IH]; intros acc fs H Hs d; cbn [second_pass] in Hs; [injection Hs as <-; reflexivity|].
    assert (Hr : forall fl', In fl' r -> special fl' = true -> sp_key fl' <> key) by (intros fl' Hin; apply H; right; exact Hin).
    pose proof (H fl (or_introl eq_refl)) as Hk. unfold sp_key in Hk.
    destruct (special fl); cbn [negb] in Hs; [|exact (IH _ _ Hr Hs d)].
    destruct (gf_name fl) as [|ch nm].
    - apply bind_ok in Hs. destruct Hs as [x [_ Hs]]. rewrite (IH _ _ Hr Hs d). apply get_put_other.
      intro E. exact (Hk eq_refl (eq_sym E)).
    - apply bind_ok in Hs. destruct Hs as [x [_ Hs]]. rewrite (IH _ _ Hr Hs d). apply get_put_other.
      intro E. exact (Hk eq_refl (eq_sym E)).
  Qed.

  (* an embedded fragment struct is decoded from the very object the outer struct is decoded from,
     and is what the struct holds for it at the end *)
  Theorem embedded_fragment_gets_the_same_object j caps pre fl post acc fs :
    second_pass dec filler j caps (pre ++ fl :: post) acc = Ok fs ->
    special fl = true -> gf_name fl = [] ->
    (forall fl', In fl' post -> special fl' = true -> sp_key fl' <> field_key fl) ->
    exists acc' x,
      second_pass dec filler j caps pre acc = Ok acc'
      /\ dec (unwrap (gf_type fl)) j (get_field acc' (field_key fl) (zero_of (unwrap (gf_type fl)))) = Ok x
      /\ forall d, get_field fs (field_key fl) d = x.
  Proof.
    intros Hs Hsp Hn Hpost. rewrite second_pass_app in Hs. apply bind_ok in Hs. destruct Hs as [acc' [Hpre Hs]].
    exists acc'. cbn [second_pass] in Hs. rewrite Hsp in Hs. cbn [negb] in Hs. rewrite Hn in Hs.
    apply bind_ok in Hs. destruct Hs as [x [Hx Hs]]. exists x. split; [exact Hpre|]. split; [exact Hx|].
    intro d. rewrite (second_pass_preserves _ _ _ _ _ _ Hpost Hs d). apply get_put_same.
  Qed.

  (* an abstract (or custom-unmarshaled) field is filled from the raw message captured for ITS
     response key in the first pass (absent key: RAbsent, which leaves the zero value) *)
  Theorem special_field_filled_from_its_capture j caps pre fl post acc fs ch nm :
    second_pass dec filler j caps (pre ++ fl :: post) acc = Ok fs ->
    special fl = true -> gf_name fl = ch :: nm ->
    (forall fl', In fl' post -> special fl' = true -> sp_key fl' <> ch :: nm) ->
    exists acc' x,
      second_pass dec filler j caps pre acc = Ok acc'
      /\ filler (sdepth (gf_type fl)) (ispointer (gf_type fl)) (unwrap (gf_type fl))
                (match assoc (ch :: nm) caps with Some c => c | None => RAbsent end)
                (get_field acc' (ch :: nm) (zero_of (gf_type fl))) = Ok x
      /\ forall d, get_field fs (ch :: nm) d = x.
  Proof.
    intros Hs Hsp Hn Hpost. rewrite second_pass_app in Hs. apply bind_ok in Hs. destruct Hs as [acc' [Hpre Hs]].
    exists acc'. cbn [second_pass] in Hs. rewrite Hsp in Hs. cbn [negb] in Hs. rewrite Hn in Hs.
    apply bind_ok in Hs. destruct Hs as [x [Hx Hs]]. apply at_field_ok in Hx. exists x. split; [exact Hpre|]. split; [exact Hx|].
    intro d. rewrite (second_pass_preserves _ _ _ _ _ _ Hpost Hs d). apply get_put_same.
  Qed.
End SecondPass.

(* the first pass captures, for a special field, exactly the raw value under its key *)
Lemma first_pass_captures dec all k v r acc caps i s fl :
  find_key all k = Some i -> nth_error all i = Some (s, (true, fl)) ->
  first_pass dec all ((k, v) :: r) acc caps
  = bind (capture (sdepth (gf_type fl)) v) (fun c => first_pass dec all r acc (put_kv caps (gf_name fl) c)).
Proof. intros Hf Hn. cbn [first_pass]. rewrite Hf, Hn. reflexivity. Qed.
