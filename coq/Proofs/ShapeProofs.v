(* "Never mis-typed": whatever JSON arrives, a value produced by the decoders has the Go kind of
   the type it was decoded into (a pointer type holds nil or a pointer, a slice type nil or a
   slice, an interface type nil or one of ITS implementations, a struct type that struct). *)
From Verif Require Import Base.Str Gen.Consts Gen.Gql Gen.Directive Gen.Convert Rt.JsonDecode Proofs.JsonProofs.
From Coq Require Import ZArith.

Definition ptr_shaped (v : gval) : Prop := v = VNilPtr \/ exists x, v = VPtr x.
Definition slice_shaped (v : gval) : Prop := v = VNilSlice \/ exists l, v = VSlice l.
Definition scalar_shaped (v : gval) : Prop := v = VZero \/ exists j, v = VScalar j.

Definition shape_ok (tm : typemap) (t : gotype) (v : gval) : Prop :=
  match t with
  | GPtr _ => ptr_shaped v
  | GSlice _ => slice_shaped v
  | GIface i => v = VNilIface \/
                exists impl x g sh impls sel, v = VIface impl x /\ assoc i tm = Some (DIface g sh impls sel) /\ In impl impls
  | GStruct n => exists fs, v = VStruct n fs
  | GOpaque r _ _ _ =>
      match ref_shape r with
      | Some (true, _) => slice_shaped v
      | Some (false, _) => ptr_shaped v
      | None => scalar_shaped v
      end
  | GAlias _ | GEnum _ => scalar_shaped v
  | GGeneric _ _ => True
  end.

Lemma decode_scalar_shape k j cur v : decode_scalar k j cur = Ok v -> scalar_shaped cur -> scalar_shaped v.
Proof.
  unfold decode_scalar. intros H Hc.
  destruct j; [destruct k; injection H as <-; try exact Hc; left; reflexivity | | | | |];
    destruct k; try discriminate H;
    repeat (match type of H with context [match ?x with _ => _ end] => destruct x end); try discriminate H;
    injection H as <-; right; eexists; reflexivity.
Qed.

Theorem decode_shape tm : forall fuel t j cur v,
  decode tm true fuel t j cur = Ok v -> shape_ok tm t cur -> shape_ok tm t v.
Proof.
  induction fuel as [|f IH]; intros t j cur v H Hc; [discriminate|].
  destruct t as [r g m u|n|n|n|i|e|e|r e]; cbn [decode] in H; cbn [shape_ok] in *.
  - destruct (ref_shape r) as [[[] rest]|].
    + exact (IH _ _ _ _ H Hc).
    + exact (IH _ _ _ _ H Hc).
    + exact (decode_scalar_shape _ _ _ _ H Hc).
  - exact (decode_scalar_shape _ _ _ _ H Hc).
  - exact (decode_scalar_shape _ _ _ _ H Hc).
  - (* struct *)
    destruct (assoc n tm) as [[g fields sel inp| | |]|]; try discriminate.
    destruct f as [|f']; [destruct (struct_needs_unmarshal fields); discriminate|].
    destruct (struct_needs_unmarshal fields).
    + cbn [unmarshal_struct negb] in H. destruct j; try discriminate; try (injection H as <-; exact Hc).
      apply bind_ok in H. destruct H as [[acc1 caps] [_ H]]. apply bind_ok in H. destruct H as [fs [_ H]].
      injection H as <-. eexists; reflexivity.
    + cbn [plain_struct] in H. destruct j; try discriminate; try (injection H as <-; exact Hc).
      apply bind_ok in H. destruct H as [fs [_ H]]. injection H as <-. eexists; reflexivity.
  - (* interface *)
    destruct j; try (destruct f; discriminate).
    + destruct f; [discriminate|]. cbn [unmarshal_iface] in H. injection H as <-. exact Hc.
    + destruct (iface_dispatch _ _ _ _ _ _ H) as (f' & g & sh & impls & sel & tn & impl & d & x & _ & Ha & _ & _ & Hin & _ & _ & _ & ->).
      right. exists impl, x, g, sh, impls, sel. repeat split; assumption.
  - (* slice *)
    destruct j; try discriminate.
    + injection H as <-. left; reflexivity.
    + apply bind_ok in H. destruct H as [vs [_ H]]. injection H as <-. right; eexists; reflexivity.
  - (* pointer *)
    destruct j; try (injection H as <-; left; reflexivity);
      (apply bind_ok in H; destruct H as [x [_ H]]; injection H as <-; right; eexists; reflexivity).
  - exact I.
Qed.

(* the zero value a fresh field starts from has the right shape, so every decoded field has *)
Lemma zero_shape tm t : shape_ok tm t (zero_of t) \/ (exists r g m u p, t = GOpaque r g m u /\ ref_shape r = Some p).
Proof.
  destruct t; cbn [shape_ok zero_of]; try (left; first [left; reflexivity | eexists; reflexivity | exact I]).
  destruct (ref_shape ref) as [p|] eqn:E; [right; repeat eexists; exact E | left; left; reflexivity].
Qed.
