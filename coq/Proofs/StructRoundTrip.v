(* C06 for STRUCTS: marshaling a value a generated struct type obtained by unmarshaling and
   unmarshaling the result gives the value back, up to the normal form [gnorm] of the
   correspondence check (Corr/Rtcorr.v).  Syntactic equality is false of the model for reasons
   that are not observable in Go: the order of the Go fields in the association list of a
   [VStruct], and "field not listed" = "field holds its zero value" ("" / 0 / nil / {}).

   Level 1  [leaf_struct_roundtrip]        leaf structs (scalars under slices / an optional pointer),
                                           omitempty included, explicit fuel bound
   Level 2  [plain_roundtrip]              nested plain structs (the generated INPUT types): if the fuel
                                           suffices for marshaling, the SAME fuel suffices for unmarshaling
            [plain_roundtrip_enough_fuel]  such a fuel exists (no struct contains itself by value)
            [obtained_roundtrip]           C06 as stated informally: for every v that decode RETURNED
                                           (no omitempty on slice-typed fields, no map-kinded scalars)
   Level 3  [resp_roundtrip], [resp_roundtrip_total]
                                           response structs: embedded fragment structs (any nesting),
                                           interface-typed fields under any number of slices,
                                           `__typename` dispatch, nested response structs

   Key matching: the round trip never needs the case-insensitive fallback for a struct's OWN
   keys (every key of the re-marshaled object IS a tag, and the exact pass comes first), so
   Levels 1-2 have no side condition on case folding (the Level 1 example has tags "ID" and "id").
   It matters only between a struct and its embedded fragment structs, which decode the same
   object: [rf_sep], refuted without it by [embedded_case_collision_refuted].

   Findings about the model that the hypotheses exclude explicitly, each with a witness that
   unmarshaling produces:
     [omitempty_empty_slice_refuted]    omitempty + empty non-nil slice: omitted, comes back nil
     [omitempty_needs_zero_start]       omitempty: the start value must be the zero struct
     [embedded_case_collision_refuted]  outer key / embedded key differing only by case
     [embedded_shared_key_refuted]      embedded fragment sharing a key with the outer struct
     (Proofs/EncodeProofs.v [null_list_roundtrip_refuted]: nil slice of abstract values -> []) *)
From Verif Require Import Base.Str Base.Sort Gen.Consts Gen.Gql Gen.Directive Gen.Convert Rt.JsonDecode Rt.JsonEncode
  Corr.Rtcorr Proofs.JsonProofs Proofs.EncodeProofs Proofs.RoundTrip Proofs.FuelProofs Proofs.TermProofs Proofs.DecodeTerm.
From Coq Require Import ZArith Lia Permutation PeanoNat.
Local Open Scope nat_scope.

(* ------------------------------------------------------------------------------------------ *)
(* unfolding lemmas for the encoder (the decoder's are in Proofs/FuelProofs.v)                *)
(* ------------------------------------------------------------------------------------------ *)
Lemma encode_S tm f (t : gotype) (v : gval) : encode tm (S f) t v =
  match t with
  | GOpaque r g m u =>
      match ref_shape r with
      | Some (true, rest) => encode tm f (GSlice (GOpaque rest g m u)) v
      | Some (false, rest) => encode tm f (GPtr (GOpaque rest g m u)) v
      | None => match v with VScalar j => Ok j | _ => Ok (zero_json (scalar_kind tm t)) end
      end
  | GAlias _ | GEnum _ => match v with VScalar j => Ok j | _ => Ok (zero_json (scalar_kind tm t)) end
  | GGeneric _ _ => Err (b "generic-not-modelled")
  | GPtr e => match v with VPtr x => encode tm f e x | _ => Ok JNull end
  | GSlice e =>
      match v with
      | VSlice l => do js <- map_res (encode tm f e) l; Ok (JArr js)
      | _ => Ok JNull
      end
  | GIface i => encode_iface tm f i v
  | GStruct n => do kvs <- encode_struct tm f n v; Ok (JObj kvs)
  end.
Proof. reflexivity. Qed.

Lemma encode_struct_S tm f (n : str) (v : gval) : encode_struct tm (S f) n v =
  match assoc n tm with
  | Some (DStruct _ fields _ _) =>
      do flat <- flattened_fields tm fields;
      enc_fields (encode tm f) (encode_iface tm f) v flat
  | _ => Err (b "no-such-struct")
  end.
Proof. reflexivity. Qed.

Lemma encode_iface_S tm f (i : str) (v : gval) : encode_iface tm (S f) i v =
  match v with
  | VIface impl x =>
      match assoc i tm, assoc impl tm with
      | Some (DIface _ _ impls _), Some d =>
          if existsb (str_eqb impl) impls then
            do kvs <- encode_struct tm f impl x;
            Ok (JObj ((typename_name, JStr (decl_gql d)) :: filter (fun kv => negb (str_eqb (fst kv) typename_name)) kvs))
          else Err (b "unexpected-concrete-type")
      | _, _ => Err (b "unexpected-concrete-type")
      end
  | _ => Ok JNull
  end.
Proof. reflexivity. Qed.

(* ------------------------------------------------------------------------------------------ *)
(* small generic facts                                                                        *)
(* ------------------------------------------------------------------------------------------ *)
Lemma bind_Ok {A B} (a : A) (k : A -> res B) : bind (Ok a) k = k a.
Proof. reflexivity. Qed.

Lemma assoc_none_notin {A} k (l : list (str * A)) : ~ In k (map fst l) -> assoc k l = None.
Proof.
  induction l as [|[k' x] r IH]; cbn [assoc map fst In]; intro H; [reflexivity|].
  destruct (str_eqb k k') eqn:E.
  - apply str_eqb_eq in E. subst. exfalso. apply H. left. reflexivity.
  - apply IH. intro Hin. apply H. right. exact Hin.
Qed.

Lemma assoc_in_nodup {A} k (x : A) (l : list (str * A)) : NoDup (map fst l) -> In (k, x) l -> assoc k l = Some x.
Proof.
  induction l as [|[k' y] r IH]; cbn [assoc map fst In]; intros Hnd Hin; [destruct Hin|].
  inversion Hnd as [|? ? Hnotin Hnd']; subst.
  destruct Hin as [E|Hin].
  - injection E as -> ->. rewrite str_eqb_refl. reflexivity.
  - destruct (str_eqb k k') eqn:E.
    + apply str_eqb_eq in E. subst. exfalso. apply Hnotin. apply in_map_iff. exists (k', x). split; [reflexivity | exact Hin].
    + exact (IH Hnd' Hin).
Qed.

Lemma assoc_some_in {A} k (x : A) (l : list (str * A)) : assoc k l = Some x -> In (k, x) l.
Proof.
  induction l as [|[k' y] r IH]; cbn [assoc]; [discriminate|].
  destruct (str_eqb k k') eqn:E.
  - intro H. injection H as ->. apply str_eqb_eq in E. subst. left. reflexivity.
  - intro H. right. exact (IH H).
Qed.

Lemma put_kv_fresh {A} (l : list (str * A)) k x : ~ In k (map fst l) -> put_kv l k x = l ++ [(k, x)].
Proof.
  induction l as [|[k' y] r IH]; cbn [put_kv map fst In app]; intro H; [reflexivity|].
  destruct (str_eqb k' k) eqn:E.
  - apply str_eqb_eq in E. subst. exfalso. apply H. left. reflexivity.
  - f_equal. apply IH. intro Hin. apply H. right. exact Hin.
Qed.

Lemma get_field_fresh (acc : list (str * gval)) k d : ~ In k (map fst acc) -> get_field acc k d = d.
Proof. intro H. unfold get_field. rewrite (assoc_none_notin _ _ H). reflexivity. Qed.

Lemma not_in_existsb k seen : ~ In k seen -> existsb (str_eqb k) seen = false.
Proof.
  intro H. destruct (existsb (str_eqb k) seen) eqn:E; [|reflexivity].
  apply existsb_exists in E. destruct E as [x [Hin Hx]]. apply str_eqb_eq in Hx. subst. contradiction.
Qed.

Lemma field_key_named fl : gf_name fl <> [] -> field_key fl = gf_name fl.
Proof. unfold field_key. destruct (gf_name fl); [intro H; exfalso; apply H; reflexivity | reflexivity]. Qed.

Lemma special_false_named fl : special fl = false -> gf_name fl <> [].
Proof. unfold special. destruct (gf_name fl); [discriminate | discriminate]. Qed.

Lemma existsb_special_false fields : (forall fl, In fl fields -> special fl = false) -> struct_needs_unmarshal fields = false.
Proof.
  unfold struct_needs_unmarshal. induction fields as [|fl r IH]; intro H; [reflexivity|]. cbn [existsb].
  rewrite (H fl (or_introl eq_refl)). cbn [orb]. apply IH. intros fl' Hin. apply H. right. exact Hin.
Qed.

(* ---- key matching: a key that IS the tag of a field resolves to that field (the exact pass
   comes first); a key that matches no tag even after case folding resolves to nothing ---- *)
Section FindKey.
  Context {A : Type}.
  Variable k : str.
  Fixpoint exact_from (l : list (str * A)) (i : nat) : option nat :=
    match l with [] => None | (t, _) :: r => if str_eqb t k then Some i else exact_from r (S i) end.
  Fixpoint folded_from (l : list (str * A)) (i : nat) : option nat :=
    match l with [] => None | (t, _) :: r => if fold_eqb t k then Some i else folded_from r (S i) end.

  Lemma find_key_unfold (l : list (str * A)) : find_key l k = match exact_from l O with Some i => Some i | None => folded_from l O end.
  Proof. reflexivity. Qed.

  Lemma exact_from_hit : forall l i n a, NoDup (map fst l) -> nth_error l n = Some (k, a) -> exact_from l i = Some (i + n).
  Proof.
    induction l as [|[t y] r IH]; intros i n a Hnd Hn; [destruct n; discriminate|].
    inversion Hnd as [|? ? Hnotin Hnd']; subst. cbn [exact_from]. destruct n as [|n]; cbn [nth_error] in Hn.
    - injection Hn as -> ->. rewrite str_eqb_refl. f_equal. lia.
    - destruct (str_eqb t k) eqn:E.
      + apply str_eqb_eq in E. subst. exfalso. apply Hnotin. apply nth_error_In in Hn.
        apply in_map_iff. exists (k, a). split; [reflexivity | exact Hn].
      + rewrite (IH (S i) n a Hnd' Hn). f_equal. lia.
  Qed.

  Lemma find_key_hit (l : list (str * A)) a : NoDup (map fst l) -> In (k, a) l -> exists n, find_key l k = Some n /\ nth_error l n = Some (k, a).
  Proof.
    intros Hnd Hin. apply In_nth_error in Hin. destruct Hin as [n Hn]. exists n.
    rewrite find_key_unfold, (exact_from_hit l O n a Hnd Hn). split; [reflexivity | exact Hn].
  Qed.

  Lemma exact_from_first : forall (l : list (str * A)) i a, In (k, a) l ->
    exists n a', exact_from l i = Some (i + n) /\ nth_error l n = Some (k, a').
  Proof.
    induction l as [|[t y] r IH]; intros i a Hin; [destruct Hin|]. cbn [exact_from].
    destruct (str_eqb t k) eqn:E.
    - apply str_eqb_eq in E. subst t. exists 0, y. split; [f_equal; lia | reflexivity].
    - destruct Hin as [E'|Hin]; [injection E' as -> _; rewrite str_eqb_refl in E; discriminate|].
      destruct (IH (S i) a Hin) as [n [a' [H1 H2]]]. exists (S n), a'. split; [rewrite H1; f_equal; lia | exact H2].
  Qed.

  (* the same when the key determines the entry *)
  Lemma find_key_hit_fun (l : list (str * A)) a : (forall a', In (k, a') l -> a' = a) -> In (k, a) l ->
    exists n, find_key l k = Some n /\ nth_error l n = Some (k, a).
  Proof.
    intros Hfun Hin. destruct (exact_from_first l O a Hin) as [n [a' [H1 H2]]]. exists n.
    rewrite find_key_unfold, H1. split; [reflexivity|]. rewrite H2. rewrite (Hfun a' (nth_error_In _ _ H2)). reflexivity.
  Qed.

  Lemma str_eqb_fold_eqb t : str_eqb t k = true -> fold_eqb t k = true.
  Proof. intro H. apply str_eqb_eq in H. subst. unfold fold_eqb. apply str_eqb_refl. Qed.

  Lemma find_key_miss (l : list (str * A)) : (forall t a, In (t, a) l -> fold_eqb t k = false) -> find_key l k = None.
  Proof.
    intro H. rewrite find_key_unfold.
    assert (He : forall i, exact_from l i = None /\ folded_from l i = None).
    { induction l as [|[t y] r IH]; intro i; [split; reflexivity|]. cbn [exact_from folded_from].
      pose proof (H t y (or_introl eq_refl)) as Hf. rewrite Hf.
      destruct (str_eqb t k) eqn:E; [apply str_eqb_fold_eqb in E; congruence|].
      apply IH. intros t' a' Hin. apply (H t' a'). right. exact Hin. }
    destruct (He O) as [-> ->]. reflexivity.
  Qed.
End FindKey.

(* ---- FlattenedFields of a struct without embedded fields is the field list itself ---- *)
Lemma flatten_bfs_named tm : forall queue fuel seen,
  (forall p, In p queue -> gf_name (fst p) <> []) ->
  NoDup (map (fun p => gf_json (fst p)) queue) ->
  (forall p, In p queue -> ~ In (gf_json (fst p)) seen) ->
  length queue < fuel ->
  flatten_bfs tm fuel queue seen = Ok queue.
Proof.
  induction queue as [|[fl path] rest IH]; intros fuel seen Hn Hnd Hs Hl; (destruct fuel as [|f]; [cbn [length] in Hl; lia|]); cbn [flatten_bfs]; [reflexivity|].
  pose proof (Hn (fl, path) (or_introl eq_refl)) as Hne. cbn [fst] in Hne.
  destruct (gf_name fl) as [|c nm] eqn:En; [exfalso; apply Hne; reflexivity|].
  pose proof (Hs (fl, path) (or_introl eq_refl)) as Hns. cbn [fst] in Hns.
  rewrite (not_in_existsb _ _ Hns).
  cbn [map fst] in Hnd. inversion Hnd as [|? ? Hnotin Hnd']; subst.
  rewrite IH; [reflexivity | | exact Hnd' | | cbn [length] in Hl; lia].
  - intros p Hp. apply Hn. right. exact Hp.
  - intros p Hp [E|Hin].
    + apply Hnotin. rewrite E. apply in_map_iff. exists p. split; [reflexivity | exact Hp].
    + exact (Hs p (or_intror Hp) Hin).
Qed.

Lemma flattened_fields_named tm fields :
  (forall fl, In fl fields -> gf_name fl <> []) -> NoDup (map gf_json fields) -> length fields < FLATTEN_FUEL ->
  flattened_fields tm fields = Ok (map (fun fl => (fl, @nil str)) fields).
Proof.
  intros Hn Hnd Hl. unfold flattened_fields. apply flatten_bfs_named.
  - intros p Hp. apply in_map_iff in Hp. destruct Hp as [fl [<- Hin]]. exact (Hn fl Hin).
  - rewrite map_map. exact Hnd.
  - intros p _ [].
  - rewrite map_length. exact Hl.
Qed.

(* ------------------------------------------------------------------------------------------ *)
(* the normal form on struct values                                                           *)
(* ------------------------------------------------------------------------------------------ *)
Definition droppedn (y : gval) : bool :=
  match y with VZero | VNilPtr | VNilSlice | VNilIface | VStruct _ [] => true | _ => false end.
(* the normal form drops a field holding this value: it is the zero value of its type *)
Definition dropped (x : gval) : bool := droppedn (gnorm x).
Definition keepf (kv : str * gval) : list (str * gval) := if dropped (snd kv) then [] else [(fst kv, gnorm (snd kv))].

Lemma gnorm_struct n fs : gnorm (VStruct n fs) = VStruct n (sort_by fst (flat_map keepf fs)).
Proof.
  change (gnorm (VStruct n fs)) with
    (VStruct n (sort_by fst (flat_map (fun kv => let x := gnorm (snd kv) in
                                     match x with
                                     | VZero | VNilPtr | VNilSlice | VNilIface => []
                                     | VStruct _ [] => []
                                     | _ => [(fst kv, x)]
                                     end) fs))).
  f_equal. f_equal. apply flat_map_ext. intros [k x]. unfold keepf, dropped. cbn [fst snd]. cbv zeta.
  destruct (gnorm x) as [| | | | | | | |m l]; try reflexivity. destruct l; reflexivity.
Qed.

Lemma in_keep fs k y : In (k, y) (flat_map keepf fs) <-> exists x, In (k, x) fs /\ dropped x = false /\ y = gnorm x.
Proof.
  rewrite in_flat_map. split.
  - intros [[k' x] [Hin Hk]]. unfold keepf in Hk. cbn [fst snd] in Hk. destruct (dropped x) eqn:E; [destruct Hk|].
    destruct Hk as [Hk|[]]. injection Hk as -> <-. exists x. repeat split; assumption.
  - intros [x [Hin [Hd ->]]]. exists (k, x). split; [exact Hin|]. unfold keepf. cbn [fst snd]. rewrite Hd. left. reflexivity.
Qed.

Lemma keep_keys_nodup fs : NoDup (map fst fs) -> NoDup (map fst (flat_map keepf fs)).
Proof.
  induction fs as [|[k x] r IH]; cbn [map fst flat_map]; intro H; [constructor|].
  inversion H as [|? ? Hnotin Hnd]; subst. rewrite map_app. unfold keepf at 1. cbn [fst snd].
  destruct (dropped x); cbn [map app fst]; [exact (IH Hnd)|]. constructor; [|exact (IH Hnd)].
  intro Hin. apply in_map_iff in Hin. destruct Hin as [[k' y] [Ek Hin]]. cbn [fst] in Ek. subst k'.
  apply in_keep in Hin. destruct Hin as [x0 [Hin _]]. apply Hnotin. apply in_map_iff. exists (k, x0). split; [reflexivity | exact Hin].
Qed.

Lemma nodup_of_keys {A} (l : list (str * A)) : NoDup (map fst l) -> NoDup l.
Proof. apply NoDup_map_inv. Qed.

(* two field lists with the same non-zero contents have the same normal form *)
Lemma norm_fields_eq n fs fs' :
  NoDup (map fst fs) -> NoDup (map fst fs') ->
  (forall k y, In (k, y) (flat_map keepf fs') <-> In (k, y) (flat_map keepf fs)) ->
  gnorm (VStruct n fs') = gnorm (VStruct n fs).
Proof.
  intros H1 H2 H. rewrite !gnorm_struct. f_equal. apply sort_by_perm_eq.
  - apply nodup_keys_inj, keep_keys_nodup, H2.
  - apply NoDup_Permutation; [apply nodup_of_keys, keep_keys_nodup, H2 | apply nodup_of_keys, keep_keys_nodup, H1|].
    intros [k y]. apply H.
Qed.

(* ------------------------------------------------------------------------------------------ *)
(* the loops: marshaling the ordinary fields of a struct and decoding the resulting object    *)
(* ------------------------------------------------------------------------------------------ *)
Lemma map_res_rt {A B C} (e : A -> res B) (d : B -> res C) (R : A -> C -> Prop) : forall l,
  (forall x, In x l -> defined (e x) -> exists j x', e x = Ok j /\ d j = Ok x' /\ R x x') ->
  defined (map_res e l) ->
  exists js l', map_res e l = Ok js /\ map_res d js = Ok l' /\ Forall2 R l l'.
Proof.
  induction l as [|x r IH]; intros H Hd.
  - exists [], []. repeat split; constructor.
  - cbn [map_res] in Hd |- *.
    destruct (H x (or_introl eq_refl) (bind_defined _ _ Hd)) as [j [x' [He [Hdj HR]]]].
    rewrite He in Hd |- *. cbn [bind] in Hd |- *.
    destruct (IH (fun y Hy => H y (or_intror Hy)) (bind_defined _ _ Hd)) as [js [l' [Hes [Hds HF]]]].
    rewrite Hes. cbn [bind]. exists (j :: js), (x' :: l'). cbn [map_res]. rewrite Hdj, Hds. cbn [bind].
    repeat split. constructor; assumption.
Qed.

Section PlainLoop.
  Variable enc : gotype -> gval -> res jval.
  Variable enci : str -> gval -> res jval.
  Variable dec : gotype -> jval -> gval -> res gval.
  Variable v : gval.
  Variable fq : gofield -> gval -> Prop.      (* what is known of the value decoded for a field *)
  Variable allf : list gofield.
  Hypothesis Hjson : NoDup (map gf_json allf).

  Definition omitted (fl : gofield) : bool :=
    gf_omitempty fl && is_empty (gf_type fl) (struct_field v (gf_name fl)).

  (* the fields of the decoded struct: one entry per field that was not omitted, in order *)
  Inductive fields_rt : list gofield -> list (str * gval) -> Prop :=
  | frt_nil : fields_rt [] []
  | frt_skip fl r fs' : omitted fl = true -> fields_rt r fs' -> fields_rt (fl :: r) fs'
  | frt_keep fl r fs' x' : omitted fl = false -> fq fl x' -> fields_rt r fs' -> fields_rt (fl :: r) ((gf_name fl, x') :: fs').

  Lemma plain_loop : forall fls,
    (forall fl, In fl fls -> In fl allf /\ special fl = false) ->
    (forall fl, In fl fls -> defined (enc (gf_type fl) (struct_field v (gf_name fl))) ->
        exists j x', enc (gf_type fl) (struct_field v (gf_name fl)) = Ok j
          /\ dec (gf_type fl) j (zero_of (gf_type fl)) = Ok x' /\ fq fl x') ->
    NoDup (map gf_name fls) ->
    defined (enc_fields enc enci v (map (fun fl => (fl, @nil str)) fls)) ->
    forall acc, (forall fl, In fl fls -> ~ In (gf_name fl) (map fst acc)) ->
    exists kvs fs', enc_fields enc enci v (map (fun fl => (fl, @nil str)) fls) = Ok kvs
      /\ obj_loop dec (map (fun fl => (gf_json fl, fl)) allf) kvs acc = Ok (acc ++ fs') /\ fields_rt fls fs'.
  Proof.
    induction fls as [|fl r IH]; intros Hin Hrt Hnd Hdef acc Hacc.
    - exists [], []. cbn [map enc_fields obj_loop]. rewrite app_nil_r. repeat split. constructor.
    - cbn [map enc_fields select_path] in Hdef |- *.
      destruct (Hin fl (or_introl eq_refl)) as [Hall Hsp]. rewrite Hsp in Hdef |- *.
      inversion Hnd as [|? ? Hnotin Hnd']; subst.
      assert (Hin' : forall fl', In fl' r -> In fl' allf /\ special fl' = false) by (intros fl' H'; apply Hin; right; exact H').
      assert (Hrt' : forall fl', In fl' r -> defined (enc (gf_type fl') (struct_field v (gf_name fl'))) ->
        exists j x', enc (gf_type fl') (struct_field v (gf_name fl')) = Ok j
          /\ dec (gf_type fl') j (zero_of (gf_type fl')) = Ok x' /\ fq fl' x') by (intros fl' H'; apply Hrt; right; exact H').
      change (gf_omitempty fl && is_empty (gf_type fl) (struct_field v (gf_name fl))) with (omitted fl) in Hdef |- *.
      destruct (omitted fl) eqn:Eo.
      + destruct (IH Hin' Hrt' Hnd' Hdef acc (fun fl' H' => Hacc fl' (or_intror H'))) as [kvs [fs' [He [Hd Hf]]]].
        exists kvs, fs'. split; [exact He|]. split; [exact Hd|]. apply frt_skip; assumption.
      + pose proof (bind_defined _ _ Hdef) as Hd1.
        destruct (Hrt fl (or_introl eq_refl) Hd1) as [j [x' [Hej [Hdj Hq]]]].
        rewrite Hej in Hdef |- *. cbn [bind] in Hdef |- *.
        pose proof (bind_defined _ _ Hdef) as Hd2.
        assert (Hacc' : forall fl', In fl' r -> ~ In (gf_name fl') (map fst (acc ++ [(gf_name fl, x')]))).
        { intros fl' H' Hi. rewrite map_app in Hi. apply in_app_or in Hi. destruct Hi as [Hi|Hi].
          - exact (Hacc fl' (or_intror H') Hi).
          - cbn [map fst In] in Hi. destruct Hi as [E|[]]. apply Hnotin. rewrite E. apply in_map. exact H'. }
        destruct (IH Hin' Hrt' Hnd' Hd2 (acc ++ [(gf_name fl, x')]) Hacc') as [kvs [fs' [He [Hd Hf]]]].
        rewrite He. cbn [bind]. exists ((gf_json fl, j) :: kvs), ((gf_name fl, x') :: fs').
        split; [reflexivity|]. split; [|apply frt_keep; assumption].
        cbn [obj_loop].
        destruct (find_key_hit (gf_json fl) (map (fun fl0 => (gf_json fl0, fl0)) allf) fl) as [n [Hfk Hnth]].
        { rewrite map_map. exact Hjson. }
        { apply in_map_iff. exists fl. split; [reflexivity | exact Hall]. }
        rewrite Hfk, Hnth. rewrite (field_key_named fl (special_false_named fl Hsp)).
        rewrite (get_field_fresh acc _ _ (Hacc fl (or_introl eq_refl))). rewrite Hdj. cbn [at_field bind].
        unfold put_field. rewrite (put_kv_fresh acc _ _ (Hacc fl (or_introl eq_refl))). rewrite Hd.
        rewrite <- app_assoc. reflexivity.
  Qed.

  Lemma fields_rt_in fls fs' : fields_rt fls fs' ->
    forall k x', In (k, x') fs' -> exists fl, In fl fls /\ gf_name fl = k /\ omitted fl = false /\ fq fl x'.
  Proof.
    induction 1 as [|fl r fs' Ho _ IH|fl r fs' x' Ho Hq _ IH]; intros k y Hin.
    - destruct Hin.
    - destruct (IH k y Hin) as [fl0 [H1 H2]]. exists fl0. split; [right; exact H1 | exact H2].
    - destruct Hin as [E|Hin].
      + injection E as <- <-. exists fl. repeat split; try assumption. left. reflexivity.
      + destruct (IH k y Hin) as [fl0 [H1 H2]]. exists fl0. split; [right; exact H1 | exact H2].
  Qed.

  Lemma fields_rt_kept fls fs' : fields_rt fls fs' ->
    forall fl, In fl fls -> omitted fl = false -> exists x', In (gf_name fl, x') fs' /\ fq fl x'.
  Proof.
    induction 1 as [|fl r fs' Ho _ IH|fl r fs' x' Ho Hq _ IH]; intros fl0 Hin Ho0.
    - destruct Hin.
    - destruct Hin as [<-|Hin]; [congruence|]. exact (IH fl0 Hin Ho0).
    - destruct Hin as [<-|Hin].
      + exists x'. split; [left; reflexivity | exact Hq].
      + destruct (IH fl0 Hin Ho0) as [y [H1 H2]]. exists y. split; [right; exact H1 | exact H2].
  Qed.

  Lemma fields_rt_nodup fls fs' : fields_rt fls fs' -> NoDup (map gf_name fls) -> NoDup (map fst fs').
  Proof.
    induction 1 as [|fl r fs' Ho Hr IH|fl r fs' x' Ho Hq Hr IH]; intro Hnd.
    - constructor.
    - inversion Hnd; subst. apply IH. assumption.
    - inversion Hnd as [|? ? Hnotin Hnd']; subst. cbn [map fst]. constructor; [|exact (IH Hnd')].
      intro Hin. apply in_map_iff in Hin. destruct Hin as [[k y] [Ek Hin]]. cbn [fst] in Ek. subst k.
      destruct (fields_rt_in _ _ Hr _ _ Hin) as [fl0 [H1 [H2 _]]]. apply Hnotin. rewrite <- H2. apply in_map. exact H1.
  Qed.
End PlainLoop.

(* the decoded struct and the original have the same normal form *)
Lemma struct_norm (v : gval) n fields fs fs' :
  (forall k, struct_field v k = match assoc k fs with Some x => x | None => VZero end) ->
  NoDup (map fst fs) -> NoDup (map gf_name fields) ->
  (forall k x, In (k, x) fs -> In k (map gf_name fields)) ->
  (forall fl, In fl fields -> omitted v fl = true -> dropped (struct_field v (gf_name fl)) = true) ->
  fields_rt v (fun fl x' => match assoc (gf_name fl) fs with Some x => gnorm x' = gnorm x | None => dropped x' = true end) fields fs' ->
  gnorm (VStruct n fs') = gnorm (VStruct n fs).
Proof.
  intros Hsf Hnd Hnames Hkeys Hom Hrt.
  apply norm_fields_eq; [exact Hnd | exact (fields_rt_nodup _ _ _ _ Hrt Hnames)|].
  intros k y. rewrite !in_keep. split.
  - intros [x' [Hin [Hd ->]]].
    destruct (fields_rt_in _ _ _ _ Hrt _ _ Hin) as [fl [Hfl [<- [Ho Hq]]]].
    destruct (assoc (gf_name fl) fs) as [x|] eqn:Ea; [|congruence].
    exists x. split; [exact (assoc_some_in _ _ _ Ea)|]. unfold dropped in *. rewrite <- Hq. split; [exact Hd | reflexivity].
  - intros [x [Hin [Hd ->]]].
    pose proof (Hkeys k x Hin) as Hk. apply in_map_iff in Hk. destruct Hk as [fl [<- Hfl]].
    pose proof (assoc_in_nodup _ _ _ Hnd Hin) as Ea.
    assert (Ho : omitted v fl = false).
    { destruct (omitted v fl) eqn:Eo; [|reflexivity]. pose proof (Hom fl Hfl Eo) as Hx. rewrite Hsf, Ea in Hx. congruence. }
    destruct (fields_rt_kept _ _ _ _ Hrt fl Hfl Ho) as [x' [Hin' Hq]]. rewrite Ea in Hq.
    exists x'. split; [exact Hin'|]. unfold dropped in *. rewrite Hq. split; [exact Hd | reflexivity].
Qed.

Lemma struct_field_fields_of v k :
  struct_field v k = match assoc k (match v with VStruct _ fs => fs | _ => [] end) with Some x => x | None => VZero end.
Proof. destruct v; reflexivity. Qed.

(* ------------------------------------------------------------------------------------------ *)
(* Levels 1 and 2: plain structs                                                              *)
(* ------------------------------------------------------------------------------------------ *)
Lemma all_fix_forall (P : str -> gval -> Prop) fs :
  (fix all (fs : list (str * gval)) : Prop := match fs with [] => True | (k, x) :: r => P k x /\ all r end) fs
  <-> forall k x, In (k, x) fs -> P k x.
Proof.
  induction fs as [|[k x] r IH].
  - split; [intros _ k x [] | intros _; exact I].
  - split.
    + intros [H1 H2] k' x' [E|Hin]; [injection E as <- <-; exact H1 | exact (proj1 IH H2 k' x' Hin)].
    + intro H. split; [apply H; left; reflexivity | apply IH; intros k' x' Hin; apply H; right; exact Hin].
Qed.

Lemma all_fix_forall_list (P : gval -> Prop) l :
  (fix all (l : list gval) : Prop := match l with [] => True | x :: r => P x /\ all r end) l
  <-> forall x, In x l -> P x.
Proof.
  induction l as [|x r IH].
  - split; [intros _ x [] | intros _; exact I].
  - split.
    + intros [H1 H2] x' [<-|Hin]; [exact H1 | exact (proj1 IH H2 x' Hin)].
    + intro H. split; [apply H; left; reflexivity | apply IH; intros x' Hin; apply H; right; exact Hin].
Qed.

Section Plain.
  Variable tm : typemap.
  Variable w : bool.
  (* the names of the struct declarations the theorem is about: a set closed under "type of a
     field" (hypothesis [plain_decls]) *)
  Variable good : str -> Prop.

  (* field types: []^n ( *? base ), base = a scalar-like type or one of the structs *)
  Definition pbase (t : gotype) : Prop := scalar_type tm t = true \/ exists m, t = GStruct m /\ good m.
  Fixpoint ptype (t : gotype) : Prop :=
    match t with GSlice e => ptype e | GPtr e => pbase e | other => pbase other end.

  Record plain_fields (fields : list gofield) : Prop := {
    pf_plain : forall fl, In fl fields -> special fl = false;     (* named, no custom (un)marshaler, not abstract *)
    pf_type : forall fl, In fl fields -> ptype (gf_type fl);
    pf_json : NoDup (map gf_json fields);                          (* one field per JSON name *)
    pf_names : NoDup (map gf_name fields);                         (* Go field names are distinct *)
    pf_len : length fields < FLATTEN_FUEL }.                       (* the fuel of the model's FlattenedFields *)

  Definition plain_decls : Prop :=
    forall m, good m -> exists g fields s i, assoc m tm = Some (DStruct g fields s i) /\ plain_fields fields.

  (* the values decoding produces at such a type.  A struct value lists the Go fields that were
     set (each at most once); a field that is not listed holds its zero value.
     Excluded explicitly:
       - an EMPTY NON-NIL slice in an omitempty field (it is omitted and comes back nil:
         [omitempty_empty_slice_refuted]);
       - a pointer to the zero value of a map-kinded scalar (never produced by decoding). *)
  Fixpoint cval (t : gotype) (v : gval) {struct v} : Prop :=
    match v with
    | VZero => scalar_type tm t = true
    | VScalar j => scalar_type tm t = true /\ fits (scalar_kind tm t) j = true
    | VNilPtr => exists e, t = GPtr e
    | VPtr x => exists e, t = GPtr e /\ cval e x /\ (x = VZero -> scalar_kind tm e <> KAny)
    | VNilSlice => exists e, t = GSlice e
    | VSlice l => exists e, t = GSlice e /\
        (fix all (l : list gval) : Prop := match l with [] => True | x :: r => cval e x /\ all r end) l
    | VStruct n fs =>
        t = GStruct n /\ NoDup (map fst fs) /\
        exists g fields s i, assoc n tm = Some (DStruct g fields s i) /\
          (fix all (fs : list (str * gval)) : Prop :=
             match fs with
             | [] => True
             | (k, x) :: r =>
                 (exists fl, In fl fields /\ gf_name fl = k /\ cval (gf_type fl) x
                             /\ (gf_omitempty fl = true -> x <> VSlice [])) /\ all r
             end) fs
    | VNilIface | VIface _ _ => False
    end.

  Lemma cval_slice_inv t l : cval t (VSlice l) -> exists e, t = GSlice e /\ forall x, In x l -> cval e x.
  Proof.
    cbn [cval]. intros [e [-> H]]. exists e. split; [reflexivity|].
    induction l as [|y r IH]; intros x Hin; [destruct Hin|]. destruct H as [H1 H2].
    destruct Hin as [<-|Hin]; [exact H1 | exact (IH H2 x Hin)].
  Qed.

  Lemma cval_struct_inv t n fs : cval t (VStruct n fs) ->
    t = GStruct n /\ NoDup (map fst fs) /\
    exists g fields s i, assoc n tm = Some (DStruct g fields s i) /\
      forall k x, In (k, x) fs -> exists fl, In fl fields /\ gf_name fl = k /\ cval (gf_type fl) x
                                             /\ (gf_omitempty fl = true -> x <> VSlice []).
  Proof.
    cbn [cval]. intros [-> [Hnd [g [fields [s [i [Ha H]]]]]]]. split; [reflexivity|]. split; [exact Hnd|].
    exists g, fields, s, i. split; [exact Ha|]. clear Hnd.
    induction fs as [|[k0 y] r IH]; intros k x Hin; [destruct Hin|]. destruct H as [H1 H2].
    destruct Hin as [E|Hin]; [injection E as <- <-; exact H1 | exact (IH H2 k x Hin)].
  Qed.

  Lemma pbase_ptype e : pbase e -> ptype e.
  Proof. intros [H|[m [-> H]]]; [destruct e; try discriminate H; left; exact H | right; exists m; split; [reflexivity | exact H]]. Qed.

  Lemma zero_json_jzero k : k <> KAny -> jzero (zero_json k) = true /\ fits k (zero_json k) = true.
  Proof. destruct k; intro H; try (split; reflexivity). exfalso. apply H. reflexivity. Qed.

  (* what is known of the decoded value x' for the original x *)
  Definition geq (t : gotype) (v v' : gval) : Prop :=
    (cval t v -> gnorm v' = gnorm v) /\ (v = VZero -> dropped v' = true).

  Lemma scalar_rt f t v : scalar_type tm t = true -> cval t v \/ v = VZero ->
    exists j v', encode tm (S f) t v = Ok j /\ decode tm w (S f) t j (zero_of t) = Ok v' /\ geq t v v'
                 /\ ((v = VZero -> scalar_kind tm t <> KAny) -> j <> JNull).
  Proof.
    intros Hs Hv.
    assert (Hv' : v = VZero \/ exists j, v = VScalar j /\ fits (scalar_kind tm t) j = true).
    { destruct Hv as [Hv|Hv]; [|left; exact Hv]. destruct v; cbn [cval] in Hv; try contradiction.
      - left. reflexivity.
      - right. exists j. split; [reflexivity | exact (proj2 Hv)].
      - destruct Hv as [e ->]. discriminate Hs.
      - destruct Hv as [e [-> _]]. discriminate Hs.
      - destruct Hv as [e ->]. discriminate Hs.
      - destruct Hv as [e [-> _]]. discriminate Hs.
      - destruct Hv as [-> _]. discriminate Hs. }
    assert (He : encode tm (S f) t v = Ok (match v with VScalar j => j | _ => zero_json (scalar_kind tm t) end)
                 /\ forall j cur, decode tm w (S f) t j cur = decode_scalar (scalar_kind tm t) j cur).
    { rewrite encode_S. destruct t; try discriminate Hs.
      - cbn [scalar_type] in Hs. split; [|intros j cur; rewrite decode_S]; destruct (ref_shape ref) as [[[] rest]|]; try discriminate Hs.
        + destruct v; reflexivity.
        + reflexivity.
      - split; [destruct v; reflexivity | intros; reflexivity].
      - split; [destruct v; reflexivity | intros; reflexivity]. }
    destruct He as [He Hd]. rewrite He.
    assert (Hz : zero_of t = VZero) by (destruct t; try discriminate Hs; reflexivity).
    destruct Hv' as [->|[j [-> Hfit]]].
    - exists (zero_json (scalar_kind tm t)). rewrite Hd, Hz.
      destruct (scalar_kind tm t) eqn:Ek; cbn [zero_json decode_scalar].
      all: try (eexists; split; [reflexivity|]; split; [reflexivity|]; split; [split; intros; reflexivity | intros _; discriminate]).
      exists VZero. split; [reflexivity|]. split; [reflexivity|].
      split; [split; intros; reflexivity|]. intro H. exfalso. apply H; reflexivity.
    - exists j, (VScalar j). split; [reflexivity|]. rewrite Hd. split; [apply decode_scalar_fits, Hfit|].
      split; [split; [reflexivity | discriminate]|]. intros _. exact (fits_not_null _ _ Hfit).
  Qed.

  Lemma is_empty_dropped t x : cval t x \/ x = VZero -> x <> VSlice [] -> is_empty t x = true -> dropped x = true.
  Proof.
    intros Hx Hne He. destruct x; try reflexivity; cbn [is_empty] in He; try discriminate He.
    - destruct Hx as [Hx|Hx]; [|discriminate Hx]. cbn [cval] in Hx. destruct Hx as [_ Hfit].
      unfold dropped. cbn [gnorm]. destruct j as [| [] | id integral | s | l | l]; cbn [json_empty] in He; try discriminate He; try reflexivity.
      + destruct id; try discriminate He. reflexivity.
      + destruct s; try discriminate He. reflexivity.
      + destruct (scalar_kind tm t); discriminate Hfit.
      + destruct (scalar_kind tm t); discriminate Hfit.
    - destruct l; [exfalso; apply Hne; reflexivity | discriminate He].
  Qed.

  Hypothesis Hdecls : plain_decls.

  Definition fields_of (v : gval) : list (str * gval) := match v with VStruct _ fs => fs | _ => [] end.

  Definition RtA (f : nat) : Prop := forall t v, ptype t -> cval t v \/ v = VZero -> defined (encode tm f t v) ->
    exists j v', encode tm f t v = Ok j /\ decode tm w f t j (zero_of t) = Ok v' /\ geq t v v'.
  Definition RtB (f : nat) : Prop := forall m g fields s i v, good m -> assoc m tm = Some (DStruct g fields s i) ->
    cval (GStruct m) v \/ v = VZero -> defined (encode_struct tm f m v) ->
    exists kvs fs', encode_struct tm f m v = Ok kvs
      /\ plain_struct tm w f m (map (fun fl => (gf_json fl, fl)) fields) (JObj kvs) (VStruct m []) = Ok (VStruct m fs')
      /\ gnorm (VStruct m fs') = gnorm (VStruct m (fields_of v)).

  Lemma plain_rt_step f : RtA f -> RtB (S f).
  Proof.
    intros IHA m g fields s i v Hg Ha Hv Hd.
    destruct (Hdecls m Hg) as [g' [fields' [s' [i' [Ha' Hpf]]]]]. rewrite Ha in Ha'. injection Ha' as <- <- <- <-.
    destruct Hpf as [Hsp Hty Hjs Hnm Hlen].
    rewrite encode_struct_S in Hd |- *. rewrite Ha in Hd |- *.
    rewrite (flattened_fields_named tm fields (fun fl H => special_false_named fl (Hsp fl H)) Hjs Hlen) in Hd |- *.
    rewrite bind_Ok in Hd |- *.
    (* what is known of v *)
    assert (Hfs : NoDup (map fst (fields_of v)) /\
                  forall k x, In (k, x) (fields_of v) -> exists fl, In fl fields /\ gf_name fl = k /\ cval (gf_type fl) x
                                             /\ (gf_omitempty fl = true -> x <> VSlice [])).
    { destruct Hv as [Hv| ->]; [|split; [constructor | intros k x []]].
      destruct v as [| j | | x | | l | | impl x | n fs].
      1: discriminate Hv.
      1: destruct Hv as [Hv _]; discriminate Hv.
      1: destruct Hv as [e E]; discriminate E.
      1: destruct Hv as [e [E _]]; discriminate E.
      1: destruct Hv as [e E]; discriminate E.
      1: destruct Hv as [e [E _]]; discriminate E.
      1: destruct Hv.
      1: destruct Hv.
      destruct (cval_struct_inv _ _ _ Hv) as [E [Hnd [g2 [fields2 [s2 [i2 [Ha2 Hall]]]]]]]. injection E as <-.
      rewrite Ha in Ha2. injection Ha2 as <- <- <- <-. split; [exact Hnd | exact Hall]. }
    destruct Hfs as [Hnd Hall].
    assert (Hfield : forall fl, In fl fields -> cval (gf_type fl) (struct_field v (gf_name fl)) \/ struct_field v (gf_name fl) = VZero).
    { intros fl Hfl. rewrite struct_field_fields_of. fold (fields_of v).
      destruct (assoc (gf_name fl) (fields_of v)) as [x|] eqn:Ea; [|right; reflexivity].
      left. destruct (Hall _ _ (assoc_some_in _ _ _ Ea)) as [fl0 [Hfl0 [En [Hc _]]]].
      assert (fl0 = fl) as ->; [|exact Hc].
      exact (nodup_keys_inj gf_name fields Hnm fl0 fl Hfl0 Hfl En). }
    set (fq := fun fl x' => match assoc (gf_name fl) (fields_of v) with Some x => gnorm x' = gnorm x | None => dropped x' = true end).
    destruct (plain_loop (encode tm f) (encode_iface tm f) (fun t j c => decode tm w f t j c) v fq fields Hjs fields) with (acc := @nil (str * gval)) as [kvs [fs' [He [Hl Hrt]]]].
    - intros fl Hfl. split; [exact Hfl | exact (Hsp fl Hfl)].
    - intros fl Hfl Hdef.
      destruct (IHA (gf_type fl) (struct_field v (gf_name fl)) (Hty fl Hfl) (Hfield fl Hfl) Hdef) as [j [x' [Hej [Hdj [Hq1 Hq2]]]]].
      exists j, x'. split; [exact Hej|]. split; [exact Hdj|]. unfold fq.
      pose proof (Hfield fl Hfl) as Hx. rewrite struct_field_fields_of in Hx, Hq1, Hq2. fold (fields_of v) in Hx, Hq1, Hq2.
      destruct (assoc (gf_name fl) (fields_of v)) as [x|] eqn:Ea.
      + destruct Hx as [Hx|Hx]; [exact (Hq1 Hx)|]. subst x.
        (* a listed field holding VZero: both are dropped, and gnorm VZero = VZero *)
        destruct (Hall _ _ (assoc_some_in _ _ _ Ea)) as [fl0 [Hfl0 [En [Hc _]]]].
        assert (fl0 = fl) as -> by exact (nodup_keys_inj gf_name fields Hnm fl0 fl Hfl0 Hfl En).
        exact (Hq1 Hc).
      + exact (Hq2 eq_refl).
    - exact Hnm.
    - exact Hd.
    - intros fl _ [].
    - exists kvs, fs'. split; [exact He|]. rewrite plain_struct_S. cbv zeta. cbn [app] in Hl. rewrite Hl. cbn [bind]. split; [reflexivity|].
      apply (struct_norm v m fields (fields_of v) fs').
      + intro k. rewrite struct_field_fields_of. reflexivity.
      + exact Hnd.
      + exact Hnm.
      + intros k x Hin. destruct (Hall k x Hin) as [fl [Hfl [<- _]]]. apply in_map. exact Hfl.
      + intros fl Hfl Ho. unfold omitted in Ho. apply andb_true_iff in Ho. destruct Ho as [Hoe Hem].
        apply (is_empty_dropped (gf_type fl)); [exact (Hfield fl Hfl) | | exact Hem].
        rewrite struct_field_fields_of. fold (fields_of v).
        destruct (assoc (gf_name fl) (fields_of v)) as [x|] eqn:Ea; [|discriminate].
        destruct (Hall _ _ (assoc_some_in _ _ _ Ea)) as [fl0 [Hfl0 [En [_ Hns]]]].
        assert (fl0 = fl) as -> by exact (nodup_keys_inj gf_name fields Hnm fl0 fl Hfl0 Hfl En).
        exact (Hns Hoe).
      + exact Hrt.
  Qed.

  Lemma forall2_gnorm l l' : Forall2 (fun x x' => gnorm x' = gnorm x) l l' -> map gnorm l' = map gnorm l.
  Proof. induction 1 as [|x x' l l' H _ IH]; [reflexivity|]. cbn [map]. rewrite H, IH. reflexivity. Qed.

  Lemma plain_rt_step_A f : RtA f -> RtB f -> RtA (S f).
  Proof.
    intros IHA IHB t v Ht Hv Hd.
    destruct t as [r g m u|n|n|n|n|e|e|r e].
    - (* opaque *) destruct Ht as [Hs|[m' [E _]]]; [|discriminate E].
      destruct (scalar_rt f _ v Hs Hv) as [j [v' [H1 [H2 [H3 _]]]]]. exists j, v'. repeat split; try assumption; apply H3.
    - destruct Ht as [Hs|[m' [E _]]]; [|discriminate E].
      destruct (scalar_rt f _ v Hs Hv) as [j [v' [H1 [H2 [H3 _]]]]]. exists j, v'. repeat split; try assumption; apply H3.
    - destruct Ht as [Hs|[m' [E _]]]; [|discriminate E].
      destruct (scalar_rt f _ v Hs Hv) as [j [v' [H1 [H2 [H3 _]]]]]. exists j, v'. repeat split; try assumption; apply H3.
    - (* struct *)
      destruct Ht as [Hs|[m' [E Hg]]]; [discriminate Hs|]. injection E as <-.
      destruct (Hdecls n Hg) as [g [fields [s [i [Ha Hpf]]]]].
      rewrite encode_S in Hd |- *.
      destruct (IHB n g fields s i v Hg Ha Hv (bind_defined _ _ Hd)) as [kvs [fs' [He [Hp Hn]]]].
      rewrite He. cbn [bind]. exists (JObj kvs), (VStruct n fs'). split; [reflexivity|].
      rewrite decode_S, Ha. rewrite (existsb_special_false fields (pf_plain _ Hpf)). cbn [zero_of].
      split; [exact Hp|]. split.
      + intro Hc. destruct v as [| j | | x | | l | | impl x | n' fs]; cbn [cval] in Hc.
        1: discriminate Hc.
        1: destruct Hc as [Hc _]; discriminate Hc.
        1: destruct Hc as [e E]; discriminate E.
        1: destruct Hc as [e [E _]]; discriminate E.
        1: destruct Hc as [e E]; discriminate E.
        1: destruct Hc as [e [E _]]; discriminate E.
        1: destruct Hc.
        1: destruct Hc.
        destruct Hc as [E _]. injection E as <-. exact Hn.
      + intros ->. unfold dropped. rewrite Hn. reflexivity.
    - (* interface *) destruct Ht as [Hs|[m' [E _]]]; [discriminate Hs | discriminate E].
    - (* slice *)
      cbn [ptype] in Ht. rewrite encode_S in Hd |- *.
      assert (Hnil : (exists l, v = VSlice l /\ forall x, In x l -> cval e x) \/
                     ((forall l, v <> VSlice l) /\ (cval (GSlice e) v -> v = VNilSlice))).
      { destruct Hv as [Hv| ->]; [|right; split; [intros l; discriminate | intro Hc; discriminate Hc]].
        destruct v as [| j | | x | | l | | impl x | n' fs]; cbn [cval] in Hv.
        1: discriminate Hv.
        1: destruct Hv as [Hv _]; discriminate Hv.
        1: destruct Hv as [e0 E]; discriminate E.
        1: destruct Hv as [e0 [E _]]; discriminate E.
        1: right; split; [intros l; discriminate | intros _; reflexivity].
        2: destruct Hv.
        2: destruct Hv.
        2: destruct Hv as [E _]; discriminate E.
        left. exists l. split; [reflexivity|].
        destruct (cval_slice_inv _ _ Hv) as [e0 [E Hall]]. injection E as <-. exact Hall. }
      destruct Hnil as [[l [-> Hall]]|[Hno Hnil]].
      + destruct (map_res_rt (encode tm f e) (fun x => decode tm w f e x (zero_of e)) (fun x x' => gnorm x' = gnorm x) l) as [js [l' [Hes [Hds HF]]]].
        * intros x Hx Hdx. destruct (IHA e x Ht (or_introl (Hall x Hx)) Hdx) as [j [x' [H1 [H2 [H3 _]]]]].
          exists j, x'. split; [exact H1|]. split; [exact H2|]. exact (H3 (Hall x Hx)).
        * exact (bind_defined _ _ Hd).
        * rewrite Hes. cbn [bind]. exists (JArr js), (VSlice l'). split; [reflexivity|].
          rewrite decode_S, Hds. cbn [bind]. split; [reflexivity|]. split; [|discriminate].
          intros _. cbn [gnorm]. rewrite (forall2_gnorm _ _ HF). reflexivity.
      + exists JNull, VNilSlice. split; [destruct v; try reflexivity; exfalso; exact (Hno l eq_refl)|].
        rewrite decode_S. split; [reflexivity|]. split; [intro Hc; rewrite (Hnil Hc); reflexivity | intros _; reflexivity].
    - (* pointer *)
      cbn [ptype] in Ht. rewrite encode_S in Hd |- *.
      assert (Hnil : (exists x, v = VPtr x /\ cval e x /\ (x = VZero -> scalar_kind tm e <> KAny)) \/
                     ((forall x, v <> VPtr x) /\ (cval (GPtr e) v -> v = VNilPtr))).
      { destruct Hv as [Hv| ->]; [|right; split; [intros l; discriminate | intro Hc; discriminate Hc]].
        destruct v as [| j | | x | | l | | impl x | n' fs]; cbn [cval] in Hv.
        1: discriminate Hv.
        1: destruct Hv as [Hv _]; discriminate Hv.
        1: right; split; [intros l; discriminate | intros _; reflexivity].
        2: destruct Hv as [e0 E]; discriminate E.
        2: destruct Hv as [e0 [E _]]; discriminate E.
        2: destruct Hv.
        2: destruct Hv.
        2: destruct Hv as [E _]; discriminate E.
        left. exists x. split; [reflexivity|]. destruct Hv as [e0 [E Hx]]. injection E as <-. exact Hx. }
      destruct Hnil as [[x [-> [Hx Hk]]]|[Hno Hnil]].
      + (* the element is a scalar or a struct: its JSON is not null *)
        assert (Hj : exists j x', encode tm f e x = Ok j /\ decode tm w f e j (zero_of e) = Ok x' /\ gnorm x' = gnorm x /\ j <> JNull).
        { destruct Ht as [Hs|[m' [-> Hg]]].
          - destruct f as [|f']; [exfalso; apply Hd; reflexivity|].
            destruct (scalar_rt f' e x Hs (or_introl Hx)) as [j [x' [H1 [H2 [[H3 _] H4]]]]].
            exists j, x'. repeat split; try assumption; [exact (H3 Hx) | exact (H4 Hk)].
          - destruct (IHA (GStruct m') x (or_intror (ex_intro _ m' (conj eq_refl Hg))) (or_introl Hx) Hd) as [j [x' [H1 [H2 [H3 _]]]]].
            exists j, x'. repeat split; try assumption; [exact (H3 Hx)|].
            destruct f as [|f']; [discriminate H1|]. rewrite encode_S in H1.
            destruct (encode_struct tm f' m' x); cbn [bind] in H1; try discriminate H1. injection H1 as <-. discriminate. }
        destruct Hj as [j [x' [H1 [H2 [H3 H4]]]]]. exists j, (VPtr x'). split; [exact H1|].
        rewrite (decode_ptr_nonnull tm w f e j _ H4). cbn [zero_of]. rewrite H2. cbn [bind]. split; [reflexivity|].
        split; [|discriminate]. intros _. cbn [gnorm]. rewrite H3. reflexivity.
      + exists JNull, VNilPtr. split; [destruct v; try reflexivity; exfalso; exact (Hno v eq_refl)|].
        rewrite decode_S. split; [reflexivity|]. split; [intro Hc; rewrite (Hnil Hc); reflexivity | intros _; reflexivity].
    - (* generic *) destruct Ht as [Hs|[m' [E _]]]; [discriminate Hs | discriminate E].
  Qed.

  Lemma plain_rt_all : forall f, RtA f /\ RtB f.
  Proof.
    induction f as [|f [IHA IHB]].
    - split.
      + intros t v _ _ Hd. exfalso. apply Hd. reflexivity.
      + intros m g fields s i v _ _ _ Hd. exfalso. apply Hd. reflexivity.
    - split; [exact (plain_rt_step_A f IHA IHB) | exact (plain_rt_step f IHA)].
  Qed.

  (* LEVEL 2.  If the fuel suffices for MARSHALING a canonical value of a plain type, marshaling
     succeeds, unmarshaling the result into the zero value succeeds with the SAME fuel, and the
     value obtained has the same normal form as the original. *)
  Theorem plain_roundtrip : forall f t v,
    ptype t -> cval t v -> encode tm f t v <> OutOfFuel ->
    exists j v', encode tm f t v = Ok j /\ decode tm w f t j (zero_of t) = Ok v' /\ gnorm v' = gnorm v.
  Proof.
    intros f t v Ht Hv Hd. destruct (proj1 (plain_rt_all f) t v Ht (or_introl Hv) Hd) as [j [v' [H1 [H2 [H3 _]]]]].
    exists j, v'. repeat split; try assumption. exact (H3 Hv).
  Qed.
End Plain.

(* ------------------------------------------------------------------------------------------ *)
(* enough fuel exists: marshaling a canonical value of a plain type is defined from some fuel *)
(* on, provided no struct contains itself BY VALUE (Go rejects such a declaration)            *)
(* ------------------------------------------------------------------------------------------ *)
Fixpoint vsize (v : gval) : nat :=
  match v with
  | VPtr x => S (vsize x)
  | VSlice l => S (fold_right (fun x n => vsize x + n) 0 l)
  | VIface _ x => S (vsize x)
  | VStruct _ fs => S (fold_right (fun kv n => vsize (snd kv) + n) 0 fs)
  | _ => 1
  end.

Lemma vsize_slice_in l : forall x, In x l -> vsize x < vsize (VSlice l).
Proof.
  cbn [vsize]. induction l as [|y r IH]; intros x Hin; [destruct Hin|]. cbn [fold_right].
  destruct Hin as [<-|Hin]; [lia|]. specialize (IH x Hin). lia.
Qed.

Lemma vsize_struct_in n fs : forall k x, In (k, x) fs -> vsize x < vsize (VStruct n fs).
Proof.
  cbn [vsize]. induction fs as [|[k0 y] r IH]; intros k x Hin; [destruct Hin|]. cbn [fold_right snd].
  destruct Hin as [E|Hin]; [injection E as <- <-; lia|]. specialize (IH k x Hin). lia.
Qed.

Lemma enc_fields_defined enc enci v : forall fls,
  (forall fl, In fl fls -> special fl = false /\ defined (enc (gf_type fl) (struct_field v (gf_name fl)))) ->
  defined (enc_fields enc enci v (map (fun fl => (fl, @nil str)) fls)).
Proof.
  induction fls as [|fl r IH]; intro H; [discriminate|]. cbn [map enc_fields select_path].
  destruct (H fl (or_introl eq_refl)) as [Hsp Hd]. rewrite Hsp.
  assert (Hr : defined (enc_fields enc enci v (map (fun fl => (fl, @nil str)) r))) by (apply IH; intros fl' H'; apply H; right; exact H').
  destruct (gf_omitempty fl && is_empty _ _); [exact Hr|].
  apply defined_bind; [exact Hd|]. intros j _. apply defined_bind; [exact Hr|]. intros; discriminate.
Qed.

Section PlainFuel.
  Variable tm : typemap.
  Variable good : str -> Prop.
  Hypothesis Hdecls : plain_decls tm good.

  (* no struct of the set has a field whose type is (directly, not behind a pointer or a slice)
     a struct of higher or equal rank *)
  Definition by_value_acyclic : Prop :=
    exists rk : str -> nat, forall m g fields s i fl m',
      good m -> assoc m tm = Some (DStruct g fields s i) -> In fl fields -> gf_type fl = GStruct m' -> rk m' < rk m.

  Definition eventually_enc (t : gotype) (v : gval) : Prop := exists f0, forall f, f0 <= f -> defined (encode tm f t v).

  Lemma struct_enc_from_fields m g fields s i v :
    good m -> assoc m tm = Some (DStruct g fields s i) ->
    (forall fl, In fl fields -> eventually_enc (gf_type fl) (struct_field v (gf_name fl))) ->
    eventually_enc (GStruct m) v.
  Proof.
    intros Hg Ha H. destruct (Hdecls m Hg) as [g' [fields' [s' [i' [Ha' Hpf]]]]]. rewrite Ha in Ha'. injection Ha' as <- <- <- <-.
    destruct Hpf as [Hsp Hty Hjs Hnm Hlen].
    destruct (uniform_bound (fun fl f => defined (encode tm f (gf_type fl) (struct_field v (gf_name fl)))) fields H) as [f1 Hf1].
    exists (S (S f1)). intros f Hf. destruct f as [|[|f]]; try lia.
    rewrite encode_S. apply defined_bind; [|intros; discriminate].
    rewrite encode_struct_S, Ha.
    rewrite (flattened_fields_named tm fields (fun fl H => special_false_named fl (Hsp fl H)) Hjs Hlen), bind_Ok.
    apply enc_fields_defined. intros fl Hfl. split; [exact (Hsp fl Hfl)|]. apply Hf1; [lia | exact Hfl].
  Qed.

  Lemma scalar_enc_defined t v f : scalar_type tm t = true -> defined (encode tm (S f) t v).
  Proof.
    intro Hs. rewrite encode_S. destruct t; try discriminate Hs.
    - cbn [scalar_type] in Hs. destruct (ref_shape ref) as [[[] rest]|]; try discriminate Hs. destruct v; discriminate.
    - destruct v; discriminate.
    - destruct v; discriminate.
  Qed.

  Hypothesis Hacyc : by_value_acyclic.

  Lemma zero_enc_type : forall t, ptype tm good t -> (forall m, t = GStruct m -> eventually_enc (GStruct m) VZero) -> eventually_enc t VZero.
  Proof.
    intros t Ht Hz. destruct t as [r g m u|n|n|n|n|e|e|r e].
    1-3: (destruct Ht as [Hs|[m' [E _]]]; [|discriminate E]; exists 1; intros f Hf; destruct f as [|f]; [lia|]; apply scalar_enc_defined, Hs).
    - exact (Hz n eq_refl).
    - destruct Ht as [Hs|[m' [E _]]]; [discriminate Hs | discriminate E].
    - exists 1. intros f Hf. destruct f as [|f]; [lia|]. rewrite encode_S. discriminate.
    - exists 1. intros f Hf. destruct f as [|f]; [lia|]. rewrite encode_S. discriminate.
    - destruct Ht as [Hs|[m' [E _]]]; [discriminate Hs | discriminate E].
  Qed.

  Lemma zero_enc_struct : forall m, good m -> eventually_enc (GStruct m) VZero.
  Proof.
    destruct Hacyc as [rk Hrk].
    assert (H : forall n m, rk m < n -> good m -> eventually_enc (GStruct m) VZero).
    { induction n as [|n IH]; intros m Hlt Hg; [lia|].
      destruct (Hdecls m Hg) as [g [fields [s [i [Ha Hpf]]]]].
      apply (struct_enc_from_fields m g fields s i VZero Hg Ha). intros fl Hfl. cbn [struct_field].
      apply zero_enc_type; [exact (pf_type _ _ _ Hpf fl Hfl)|]. intros m' E.
      assert (Hg' : good m').
      { pose proof (pf_type _ _ _ Hpf fl Hfl) as Ht. rewrite E in Ht. destruct Ht as [Hs|[m2 [E2 Hg2]]]; [discriminate Hs|]. injection E2 as <-. exact Hg2. }
      apply IH; [|exact Hg']. pose proof (Hrk m g fields s i fl m' Hg Ha Hfl E). lia. }
    intros m Hg. exact (H (S (rk m)) m (Nat.lt_succ_diag_r _) Hg).
  Qed.

  Theorem plain_encode_defined : forall v t, ptype tm good t -> cval tm t v -> eventually_enc t v.
  Proof.
    assert (H : forall n v, vsize v < n -> forall t, ptype tm good t -> cval tm t v -> eventually_enc t v).
    { induction n as [|n IH]; intros v Hlt t Ht Hc; [lia|].
      destruct v as [| j | | x | | l | | impl x | m fs]; cbn [cval] in Hc.
      - exists 1. intros f Hf. destruct f as [|f]; [lia|]. apply scalar_enc_defined, Hc.
      - exists 1. intros f Hf. destruct f as [|f]; [lia|]. apply scalar_enc_defined, (proj1 Hc).
      - destruct Hc as [e ->]. exists 1. intros f Hf. destruct f as [|f]; [lia|]. rewrite encode_S. discriminate.
      - destruct Hc as [e [-> [Hx _]]]. cbn [ptype] in Ht. cbn [vsize] in Hlt.
        destruct (IH x ltac:(lia) e (pbase_ptype _ _ _ Ht) Hx) as [f0 Hf0].
        exists (S f0). intros f Hf. destruct f as [|f]; [lia|]. rewrite encode_S. apply Hf0. lia.
      - destruct Hc as [e ->]. exists 1. intros f Hf. destruct f as [|f]; [lia|]. rewrite encode_S. discriminate.
      - destruct (cval_slice_inv _ _ _ Hc) as [e [-> Hall]]. cbn [ptype] in Ht.
        destruct (uniform_bound (fun x f => defined (encode tm f e x)) l) as [f0 Hf0].
        { intros x Hx. apply (IH x); [pose proof (vsize_slice_in l x Hx); lia | exact Ht | exact (Hall x Hx)]. }
        exists (S f0). intros f Hf. destruct f as [|f]; [lia|]. rewrite encode_S.
        apply defined_bind; [|intros; discriminate]. apply map_res_defined_in. intros x Hx. apply Hf0; [lia | exact Hx].
      - destruct Hc.
      - destruct Hc.
      - destruct (cval_struct_inv _ _ _ _ Hc) as [-> [Hnd [g [fields [s [i [Ha Hall]]]]]]].
        destruct Ht as [Hs|[m' [E Hg]]]; [discriminate Hs|]. injection E as <-.
        destruct (Hdecls m Hg) as [g' [fields' [s' [i' [Ha' Hpf]]]]]. rewrite Ha in Ha'. injection Ha' as <- <- <- <-.
        apply (struct_enc_from_fields m g fields s i _ Hg Ha). intros fl Hfl. cbn [struct_field].
        destruct (assoc (gf_name fl) fs) as [x|] eqn:Ea.
        + pose proof (assoc_some_in _ _ _ Ea) as Hin.
          destruct (Hall _ _ Hin) as [fl0 [Hfl0 [En [Hcx _]]]].
          assert (fl0 = fl) as -> by exact (nodup_keys_inj gf_name fields (pf_names _ _ _ Hpf) fl0 fl Hfl0 Hfl En).
          apply (IH x); [pose proof (vsize_struct_in m fs _ _ Hin); lia | exact (pf_type _ _ _ Hpf fl Hfl) | exact Hcx].
        + apply zero_enc_type; [exact (pf_type _ _ _ Hpf fl Hfl)|]. intros m' E. apply zero_enc_struct.
          pose proof (pf_type _ _ _ Hpf fl Hfl) as Ht. rewrite E in Ht. destruct Ht as [Hs|[m2 [E2 Hg2]]]; [discriminate Hs|]. injection E2 as <-. exact Hg2. }
    intros v. exact (H (S (vsize v)) v (Nat.lt_succ_diag_r _)).
  Qed.

  (* LEVEL 2, with "enough fuel" made explicit *)
  Theorem plain_roundtrip_enough_fuel w : forall t v,
    ptype tm good t -> cval tm t v ->
    exists f0, forall f, f0 <= f ->
      exists j v', encode tm f t v = Ok j /\ decode tm w f t j (zero_of t) = Ok v' /\ gnorm v' = gnorm v.
  Proof.
    intros t v Ht Hc. destruct (plain_encode_defined v t Ht Hc) as [f0 Hf0]. exists f0. intros f Hf.
    exact (plain_roundtrip tm w good Hdecls f t v Ht Hc (Hf0 f Hf)).
  Qed.
End PlainFuel.

(* ------------------------------------------------------------------------------------------ *)
(* LEVEL 1: leaf structs, with an explicit fuel bound                                         *)
(* ------------------------------------------------------------------------------------------ *)
Record leaf_fields (tm : typemap) (fields : list gofield) : Prop := {
  lf_plain : forall fl, In fl fields -> special fl = false;
  lf_type : forall fl, In fl fields -> wrapper_type tm (gf_type fl) = true;
  lf_json : NoDup (map gf_json fields);
  lf_names : NoDup (map gf_name fields);
  lf_len : length fields < FLATTEN_FUEL }.

(* a struct value obtained by unmarshaling: each listed Go field is a field of the declaration,
   listed once, and holds a canonical value of its type; an omitempty field does not hold an
   empty non-nil slice *)
Definition canonical_struct (tm : typemap) (n : str) (fs : list (str * gval)) : Prop := cval tm (GStruct n) (VStruct n fs).

Lemma wrapper_ptype tm good t : wrapper_type tm t = true -> ptype tm good t.
Proof.
  induction t as [r g m u|n|n|n|n|e IH|e IH|r e IH]; cbn [wrapper_type ptype]; intro H; try (left; exact H); try discriminate H.
  - exact (IH H).
Qed.

Lemma wrapper_encode_defined tm : forall t, wrapper_type tm t = true -> forall v f, gsize v <= f -> defined (encode tm f t v).
Proof.
  assert (Hpos : forall v, 1 <= gsize v) by (destruct v; cbn [gsize]; lia).
  induction t as [r g m u|n|n|n|n|e IH|e IH|r e IH]; cbn [wrapper_type]; intros Hw v f Hf; try discriminate Hw;
    (destruct f as [|f]; [pose proof (Hpos v); lia|]).
  1-3: apply scalar_enc_defined; exact Hw.
  - rewrite encode_S. destruct v; try discriminate. apply defined_bind; [|intros; discriminate].
    apply map_res_defined_in. intros x Hx. apply IH; [exact Hw|]. cbn [gsize] in Hf.
    assert (gsize x <= fold_right (fun x n => gsize x + n) 0 l).
    { clear -Hx. induction l as [|y r IHl]; [destruct Hx|]. cbn [fold_right]. destruct Hx as [<-|Hx]; [lia|]. specialize (IHl Hx). lia. }
    lia.
  - rewrite encode_S. destruct v; try discriminate. cbn [gsize] in Hf.
    destruct f as [|f]; [pose proof (Hpos v); lia|]. apply scalar_enc_defined. exact Hw.
Qed.

Theorem leaf_struct_roundtrip tm w n g fields s i fs f :
  assoc n tm = Some (DStruct g fields s i) ->
  leaf_fields tm fields ->
  canonical_struct tm n fs ->
  (forall k x, In (k, x) fs -> gsize x + 2 <= f) -> 3 <= f ->
  exists j v', encode tm f (GStruct n) (VStruct n fs) = Ok j
    /\ decode tm w f (GStruct n) j (VStruct n []) = Ok v'
    /\ gnorm v' = gnorm (VStruct n fs).
Proof.
  intros Ha [Hsp Hty Hjs Hnm Hlen] Hc Hsz Hf.
  set (good := fun m : str => m = n).
  assert (Hdecls : plain_decls tm good).
  { intros m ->. exists g, fields, s, i. split; [exact Ha|]. constructor; try assumption.
    intros fl Hfl. apply wrapper_ptype, Hty, Hfl. }
  apply (plain_roundtrip tm w good Hdecls f (GStruct n) (VStruct n fs)); [right; exists n; split; reflexivity | exact Hc|].
  destruct f as [|[|f]]; try lia. rewrite encode_S. apply defined_bind; [|intros; discriminate].
  rewrite encode_struct_S, Ha.
  rewrite (flattened_fields_named tm fields (fun fl H => special_false_named fl (Hsp fl H)) Hjs Hlen), bind_Ok.
  apply enc_fields_defined. intros fl Hfl. split; [exact (Hsp fl Hfl)|].
  apply wrapper_encode_defined; [exact (Hty fl Hfl)|]. cbn [struct_field].
  destruct (assoc (gf_name fl) fs) as [x|] eqn:Ea.
  - pose proof (Hsz _ _ (assoc_some_in _ _ _ Ea)). lia.
  - cbn [gsize]. lia.
Qed.

(* ---- non-vacuity, Level 1 ---- *)
Ltac nodup_tac := repeat constructor; vm_compute; intuition discriminate.

Definition x_str : gotype := GOpaque (b "string") (b "String") [] [].
Definition x_int : gotype := GOpaque (b "int") (b "Int") [] [].
Definition mkf (name : str) (t : gotype) (json : str) (omit : bool) : gofield :=
  {| gf_name := name; gf_type := t; gf_json := json; gf_gql := json; gf_omitempty := omit |}.

(* two tags that differ only by case ("ID", "id"), an omitempty list, an omitempty pointer *)
Definition x1_fields : list gofield :=
  [ mkf (b "Name") x_str (b "name") false;
    mkf (b "Tags") (GSlice (GPtr x_str)) (b "tags") true;
    mkf (b "Age") (GPtr x_int) (b "age") true;
    mkf (b "UpperID") x_str (b "ID") false;
    mkf (b "LowerID") x_str (b "id") false ].
Definition x1_tm : typemap := [ (b "In", DStruct (b "In") x1_fields [] true) ].
(* fields listed in another order than declared, Name explicitly zero, Age absent *)
Definition x1_fs : list (str * gval) :=
  [ (b "LowerID", VScalar (JStr (b "lower")));
    (b "Tags", VSlice [VPtr (VScalar (JStr (b "a"))); VNilPtr]);
    (b "UpperID", VScalar (JStr (b "UPPER")));
    (b "Name", VZero) ].

Example x1_leaf_fields : leaf_fields x1_tm x1_fields.
Proof.
  constructor.
  - intros fl H. repeat (destruct H as [<-|H]; [reflexivity|]). destruct H.
  - intros fl H. repeat (destruct H as [<-|H]; [reflexivity|]). destruct H.
  - nodup_tac.
  - nodup_tac.
  - apply Nat.ltb_lt. vm_compute. reflexivity.
Qed.

Example x1_canonical : canonical_struct x1_tm (b "In") x1_fs.
Proof.
  unfold canonical_struct, x1_fs. cbn [cval]. split; [reflexivity|]. split; [nodup_tac|].
  exists (b "In"), x1_fields, [], true. split; [reflexivity|].
  split; [exists (mkf (b "LowerID") x_str (b "id") false); split; [cbn; tauto|]; split; [reflexivity|]; split; [split; reflexivity | discriminate]|].
  split; [exists (mkf (b "Tags") (GSlice (GPtr x_str)) (b "tags") true); split; [cbn; tauto|]; split; [reflexivity|]; split; [|discriminate]|].
  { exists (GPtr x_str). split; [reflexivity|]. split; [|split; [|exact I]].
    - exists x_str. split; [reflexivity|]. split; [split; reflexivity | discriminate].
    - exists x_str. reflexivity. }
  split; [exists (mkf (b "UpperID") x_str (b "ID") false); split; [cbn; tauto|]; split; [reflexivity|]; split; [split; reflexivity | discriminate]|].
  split; [exists (mkf (b "Name") x_str (b "name") false); split; [cbn; tauto|]; split; [reflexivity|]; split; [reflexivity | discriminate]|].
  exact I.
Qed.

(* the theorem applies, and this is what it produces: "age" omitted, both ID keys kept apart *)
Example leaf_struct_roundtrip_example :
  (exists j v', encode x1_tm 7 (GStruct (b "In")) (VStruct (b "In") x1_fs) = Ok j
     /\ decode x1_tm true 7 (GStruct (b "In")) j (VStruct (b "In") []) = Ok v'
     /\ gnorm v' = gnorm (VStruct (b "In") x1_fs))
  /\ encode x1_tm 7 (GStruct (b "In")) (VStruct (b "In") x1_fs)
     = Ok (JObj [(b "name", JStr []); (b "tags", JArr [JStr (b "a"); JNull]); (b "ID", JStr (b "UPPER")); (b "id", JStr (b "lower"))])
  /\ decode x1_tm true 7 (GStruct (b "In"))
       (JObj [(b "name", JStr []); (b "tags", JArr [JStr (b "a"); JNull]); (b "ID", JStr (b "UPPER")); (b "id", JStr (b "lower"))])
       (VStruct (b "In") [])
     = Ok (VStruct (b "In") [(b "Name", VScalar (JStr [])); (b "Tags", VSlice [VPtr (VScalar (JStr (b "a"))); VNilPtr]);
                             (b "UpperID", VScalar (JStr (b "UPPER"))); (b "LowerID", VScalar (JStr (b "lower")))]).
Proof.
  split; [|split; vm_compute; reflexivity].
  apply (leaf_struct_roundtrip x1_tm true (b "In") (b "In") x1_fields [] true x1_fs 7 eq_refl x1_leaf_fields x1_canonical); [|lia].
  intros k x H. unfold x1_fs in H. repeat (destruct H as [E|H]; [injection E as <- <-; cbn; lia|]). destruct H.
Qed.

(* REFUTED (hence excluded by [cval]): with omitempty, an EMPTY NON-NIL slice is omitted when
   marshaled and comes back as a NIL slice, which the comparison distinguishes.  The value is one
   that unmarshaling produces (from `{"tags": []}`), the struct satisfies every other hypothesis
   of Level 1. *)
Theorem omitempty_empty_slice_refuted :
  exists tm n g fields s i j0 j v v',
    assoc n tm = Some (DStruct g fields s i) /\ leaf_fields tm fields
    /\ redecode tm (GStruct n) n j0 = Ok (j, v, v')
    /\ gval_eqb (gnorm v') (gnorm v) = false /\ gnorm v' <> gnorm v
    /\ j0 = JObj [(b "tags", JArr [])] /\ j = JObj [(b "name", JStr []); (b "ID", JStr []); (b "id", JStr [])]
    /\ v = VStruct n [(b "Tags", VSlice [])]
    /\ gnorm v' = VStruct n [].
Proof.
  exists x1_tm, (b "In"), (b "In"), x1_fields, [], true, (JObj [(b "tags", JArr [])]).
  eexists. eexists. eexists. split; [reflexivity|]. split; [exact x1_leaf_fields|].
  split; [vm_compute; reflexivity|]. split; [vm_compute; reflexivity|]. split; [vm_compute; discriminate|].
  repeat split; vm_compute; reflexivity.
Qed.

(* with omitempty the START value matters: an omitted (empty) field keeps whatever the value
   decoded into already holds; hence "decode into the zero struct" in the statements *)
Theorem omitempty_needs_zero_start :
  exists tm n fs cur j v',
    canonical_struct tm n fs
    /\ encode tm 7 (GStruct n) (VStruct n fs) = Ok j
    /\ decode tm true 7 (GStruct n) j cur = Ok v'
    /\ gnorm v' <> gnorm (VStruct n fs)
    /\ tm = x1_tm /\ fs = [] /\ cur = VStruct n [(b "Tags", VSlice [VNilPtr])]
    /\ j = JObj [(b "name", JStr []); (b "ID", JStr []); (b "id", JStr [])].
Proof.
  exists x1_tm, (b "In"), [], (VStruct (b "In") [(b "Tags", VSlice [VNilPtr])]). eexists. eexists.
  split.
  { unfold canonical_struct. cbn [cval]. split; [reflexivity|]. split; [constructor|]. exists (b "In"), x1_fields, [], true. split; [reflexivity | exact I]. }
  split; [vm_compute; reflexivity|]. split; [vm_compute; reflexivity|]. split; [vm_compute; discriminate|].
  repeat split; reflexivity.
Qed.

(* ---- non-vacuity, Level 2: a recursive input type (through a pointer) with a struct held by
   value, a list of structs, and an absent by-value struct ---- *)
Definition x2_outer : list gofield :=
  [ mkf (b "Name") x_str (b "name") false;
    mkf (b "Inner") (GStruct (b "Inner")) (b "inner") false;
    mkf (b "Ptr") (GPtr (GStruct (b "Inner"))) (b "ptr") true;
    mkf (b "List") (GSlice (GStruct (b "Inner"))) (b "list") false;
    mkf (b "Rec") (GPtr (GStruct (b "Outer"))) (b "rec") true ].
Definition x2_inner : list gofield :=
  [ mkf (b "X") x_int (b "x") false;
    mkf (b "Y") (GSlice (GPtr x_str)) (b "y") true ].
Definition x2_tm : typemap :=
  [ (b "Outer", DStruct (b "Outer") x2_outer [] true); (b "Inner", DStruct (b "Inner") x2_inner [] true) ].
Definition x2_good (m : str) : Prop := m = b "Outer" \/ m = b "Inner".
Definition x2_v : gval :=
  VStruct (b "Outer")
    [ (b "List", VSlice [ VStruct (b "Inner") [(b "Y", VSlice [VNilPtr]); (b "X", VScalar (JNum 3 true))];
                          VStruct (b "Inner") [] ]);
      (b "Rec", VPtr (VStruct (b "Outer") [(b "Name", VScalar (JStr (b "n")))]));
      (b "Ptr", VNilPtr) ].

Example x2_decls : plain_decls x2_tm x2_good.
Proof.
  intros m [-> | ->].
  - exists (b "Outer"), x2_outer, [], true. split; [reflexivity|]. constructor.
    + intros fl H. repeat (destruct H as [<-|H]; [reflexivity|]). destruct H.
    + intros fl H. unfold x2_outer in H.
      destruct H as [<-|H]; [left; reflexivity|].
      destruct H as [<-|H]; [right; exists (b "Inner"); split; [reflexivity | right; reflexivity]|].
      destruct H as [<-|H]; [right; exists (b "Inner"); split; [reflexivity | right; reflexivity]|].
      destruct H as [<-|H]; [right; exists (b "Inner"); split; [reflexivity | right; reflexivity]|].
      destruct H as [<-|H]; [right; exists (b "Outer"); split; [reflexivity | left; reflexivity]|].
      destruct H.
    + nodup_tac.
    + nodup_tac.
    + apply Nat.ltb_lt. vm_compute. reflexivity.
  - exists (b "Inner"), x2_inner, [], true. split; [reflexivity|]. constructor.
    + intros fl H. repeat (destruct H as [<-|H]; [reflexivity|]). destruct H.
    + intros fl H. unfold x2_inner in H.
      destruct H as [<-|H]; [left; reflexivity|].
      destruct H as [<-|H]; [left; reflexivity|].
      destruct H.
    + nodup_tac.
    + nodup_tac.
    + apply Nat.ltb_lt. vm_compute. reflexivity.
Qed.

Example x2_acyclic : by_value_acyclic x2_tm x2_good.
Proof.
  exists (fun m => if str_eqb m (b "Outer") then 1 else 0).
  intros m g fields s i fl m' [-> | ->] Ha Hfl Ht; vm_compute in Ha; injection Ha as <- <- <- <-.
  - unfold x2_outer in Hfl. repeat (destruct Hfl as [<-|Hfl]; [try discriminate Ht; injection Ht as <-; vm_compute; lia|]). destruct Hfl.
  - unfold x2_inner in Hfl. repeat (destruct Hfl as [<-|Hfl]; [try discriminate Ht; injection Ht as <-; vm_compute; lia|]). destruct Hfl.
Qed.

Example x2_canonical : cval x2_tm (GStruct (b "Outer")) x2_v.
Proof.
  unfold x2_v. cbn [cval]. split; [reflexivity|]. split; [nodup_tac|].
  exists (b "Outer"), x2_outer, [], true. split; [reflexivity|].
  split; [exists (mkf (b "List") (GSlice (GStruct (b "Inner"))) (b "list") false); split; [cbn; tauto|]; split; [reflexivity|]; split; [|discriminate]|].
  { exists (GStruct (b "Inner")). split; [reflexivity|]. split; [|split; [|exact I]].
    - split; [reflexivity|]. split; [nodup_tac|]. exists (b "Inner"), x2_inner, [], true. split; [reflexivity|].
      split; [exists (mkf (b "Y") (GSlice (GPtr x_str)) (b "y") true); split; [cbn; tauto|]; split; [reflexivity|]; split; [|discriminate]|].
      { exists (GPtr x_str). split; [reflexivity|]. split; [exists x_str; reflexivity | exact I]. }
      split; [exists (mkf (b "X") x_int (b "x") false); split; [cbn; tauto|]; split; [reflexivity|]; split; [split; reflexivity | discriminate]|].
      exact I.
    - split; [reflexivity|]. split; [constructor|]. exists (b "Inner"), x2_inner, [], true. split; [reflexivity | exact I]. }
  split; [exists (mkf (b "Rec") (GPtr (GStruct (b "Outer"))) (b "rec") true); split; [cbn; tauto|]; split; [reflexivity|]; split; [|discriminate]|].
  { exists (GStruct (b "Outer")). split; [reflexivity|]. split; [|discriminate].
    split; [reflexivity|]. split; [nodup_tac|]. exists (b "Outer"), x2_outer, [], true. split; [reflexivity|].
    split; [exists (mkf (b "Name") x_str (b "name") false); split; [cbn; tauto|]; split; [reflexivity|]; split; [split; reflexivity | discriminate]|].
    exact I. }
  split; [exists (mkf (b "Ptr") (GPtr (GStruct (b "Inner"))) (b "ptr") true); split; [cbn; tauto|]; split; [reflexivity|]; split; [|discriminate]|].
  { exists (GStruct (b "Inner")). reflexivity. }
  exact I.
Qed.

Example plain_roundtrip_example :
  (exists f0, forall f, f0 <= f -> exists j v', encode x2_tm f (GStruct (b "Outer")) x2_v = Ok j
      /\ decode x2_tm true f (GStruct (b "Outer")) j (VStruct (b "Outer") []) = Ok v' /\ gnorm v' = gnorm x2_v)
  /\ exists j v', encode x2_tm 9 (GStruct (b "Outer")) x2_v = Ok j
      /\ decode x2_tm true 9 (GStruct (b "Outer")) j (VStruct (b "Outer") []) = Ok v' /\ gnorm v' = gnorm x2_v
      /\ v' <> x2_v
      /\ j = JObj [(b "name", JStr []);
                   (b "inner", JObj [(b "x", JNum 0 true)]);
                   (b "list", JArr [JObj [(b "x", JNum 3 true); (b "y", JArr [JNull])]; JObj [(b "x", JNum 0 true)]]);
                   (b "rec", JObj [(b "name", JStr (b "n")); (b "inner", JObj [(b "x", JNum 0 true)]); (b "list", JNull)])].
Proof.
  split.
  - apply (plain_roundtrip_enough_fuel x2_tm x2_good x2_decls x2_acyclic true (GStruct (b "Outer")) x2_v).
    + right. exists (b "Outer"). split; [reflexivity | left; reflexivity].
    + exact x2_canonical.
  - eexists. eexists. split; [vm_compute; reflexivity|]. split; [vm_compute; reflexivity|].
    split; [vm_compute; reflexivity|]. split; [vm_compute; discriminate | reflexivity].
Qed.

(* ========================================================================================== *)
(* LEVEL 3: response structs (embedded fragment structs, interface-typed fields)              *)
(* ========================================================================================== *)

(* ---- fuel: a result obtained with some fuel is obtained with any larger fuel ---- *)
Lemma decode_lift tm w f f' t j cur v : decode tm w f t j cur = Ok v -> f <= f' -> decode tm w f' t j cur = Ok v.
Proof.
  intros H Hle. replace f' with ((f' - f) + f) by lia. rewrite decode_fuel_irrelevant; [exact H|]. rewrite H. discriminate.
Qed.

Lemma fill_lift tm w f f' n p l c cur v : fill tm w f n p l c cur = Ok v -> f <= f' -> fill tm w f' n p l c cur = Ok v.
Proof.
  intros H Hle. induction Hle as [|f' _ IH]; [exact H|].
  destruct (decode_fuel_monotone tm w f') as (_ & _ & _ & Hf & _). rewrite Hf; [exact IH|]. rewrite IH. discriminate.
Qed.

Lemma unmarshal_iface_lift tm w f f' i j cur v : unmarshal_iface tm w f i j cur = Ok v -> f <= f' -> unmarshal_iface tm w f' i j cur = Ok v.
Proof.
  intros H Hle. induction Hle as [|f' _ IH]; [exact H|].
  destruct (decode_fuel_monotone tm w f') as (_ & _ & _ & _ & Hf). rewrite Hf; [exact IH|]. rewrite IH. discriminate.
Qed.

(* finitely many facts that hold from some fuel on hold together at one fuel *)
Lemma common_fuel {A} (Q : A -> nat -> Prop) (l : list A) :
  (forall a f f', Q a f -> f <= f' -> Q a f') ->
  (forall a, In a l -> exists f, Q a f) -> exists F, forall a, In a l -> Q a F.
Proof.
  intros Hmono. induction l as [|a l IH]; intro H.
  - exists 0. intros a [].
  - destruct (H a (or_introl eq_refl)) as [f1 H1]. destruct IH as [f2 H2]; [intros a' Ha'; apply H; right; exact Ha'|].
    exists (Nat.max f1 f2). intros a' [<-|Ha']; [apply (Hmono _ f1); [exact H1 | lia] | apply (Hmono _ f2); [exact (H2 a' Ha') | lia]].
Qed.

(* ---- the fields a struct marshals: its own named fields and, through embedded structs, theirs;
   the path is the chain of embedded struct names ---- *)
Inductive Reach (tm : typemap) : list gofield -> gofield -> list str -> Prop :=
| R_here fields fl : In fl fields -> gf_name fl <> [] -> Reach tm fields fl []
| R_emb fields e m1 g fs1 s i fl p :
    In e fields -> gf_name e = [] -> unwrap (gf_type e) = GStruct m1 ->
    assoc m1 tm = Some (DStruct g fs1 s i) -> Reach tm fs1 fl p -> Reach tm fields fl (m1 :: p).

Lemma reach_single tm fields fl p : Reach tm fields fl p -> exists e, In e fields /\ Reach tm [e] fl p.
Proof.
  intro H. destruct H as [fields fl Hin Hn | fields e m1 g fs1 s i fl p Hin Hn Hu Ha Hr].
  - exists fl. split; [exact Hin|]. apply R_here; [left; reflexivity | exact Hn].
  - exists e. split; [exact Hin|]. eapply R_emb; try eassumption. left. reflexivity.
Qed.

Lemma reach_weaken tm fields e fl p : In e fields -> Reach tm [e] fl p -> Reach tm fields fl p.
Proof.
  intros Hin H. inversion H as [? ? Hi Hn | ? e0 m1 g fs1 s i ? p' Hi Hn Hu Ha Hr]; subst.
  - destruct Hi as [<-|[]]. apply R_here; assumption.
  - destruct Hi as [<-|[]]. eapply R_emb; eassumption.
Qed.

Definition reachq tm (queue : list (gofield * list str)) (x : gofield * list str) : Prop :=
  exists e p0 prel, In (e, p0) queue /\ Reach tm [e] (fst x) prel /\ snd x = p0 ++ prel.

(* FlattenedFields, when no two reachable fields share a JSON name: exactly the reachable fields *)
Lemma flatten_bfs_reach tm fuel : forall queue seen out,
  flatten_bfs tm fuel queue seen = Ok out ->
  (forall x y, reachq tm queue x -> reachq tm queue y -> gf_json (fst x) = gf_json (fst y) -> x = y) ->
  (forall x, In x out -> reachq tm queue x /\ ~ In (gf_json (fst x)) seen) /\
  (forall x, reachq tm queue x -> ~ In (gf_json (fst x)) seen -> In x out).
Proof.
  induction fuel as [|f IH]; intros queue seen out H Hinj; [discriminate|]. cbn [flatten_bfs] in H.
  destruct queue as [|[fl path] rest].
  { injection H as <-. split; [intros x [] | intros x [e [p0 [prel [[] _]]]]]. }
  destruct (gf_name fl) as [|c nm] eqn:En.
  - (* embedded *)
    destruct (unwrap (gf_type fl)) as [| | |n| | | |] eqn:Eu; try discriminate.
    destruct (assoc n tm) as [[g fields s i| | |]|] eqn:Ea; try discriminate.
    assert (Hsel : sel_key fl = n) by (unfold sel_key; rewrite En, Eu; reflexivity).
    rewrite Hsel in H. clear Hsel.
    set (queue' := rest ++ map (fun sub => (sub, path ++ [n])) fields) in *.
    assert (Heq : forall x, reachq tm ((fl, path) :: rest) x <-> reachq tm queue' x).
    { intros [fx px]. unfold reachq. cbn [fst snd]. split.
      - intros [e [p0 [prel [Hin [Hr Hp]]]]]. destruct Hin as [E|Hin].
        + injection E as <- <-.
          inversion Hr as [? ? Hi Hn | ? e0 m1 g1 fs1 s1 i1 ? p' Hi Hn Hu Ha Hr']; subst.
          * destruct Hi as [<-|[]]. congruence.
          * destruct Hi as [<-|[]]. rewrite Eu in Hu. injection Hu as <-. rewrite Ea in Ha. injection Ha as <- <- <- <-.
            destruct (reach_single _ _ _ _ Hr') as [sub [Hsub Hrs]].
            exists sub, (path ++ [n]), p'. split; [|split; [exact Hrs|]].
            { apply in_or_app. right. apply in_map_iff. exists sub. split; [reflexivity | exact Hsub]. }
            { try rewrite Hp; rewrite <- app_assoc; reflexivity. }
        + exists e, p0, prel. split; [apply in_or_app; left; exact Hin | split; assumption].
      - intros [e [p0 [prel [Hin [Hr Hp]]]]]. apply in_app_or in Hin. destruct Hin as [Hin|Hin].
        + exists e, p0, prel. split; [right; exact Hin | split; assumption].
        + apply in_map_iff in Hin. destruct Hin as [sub [E Hsub]]. injection E as <- <-.
          exists fl, path, (n :: prel). split; [left; reflexivity|]. split.
          * eapply R_emb; [left; reflexivity | exact En | exact Eu | exact Ea | exact (reach_weaken _ _ _ _ _ Hsub Hr)].
          * try rewrite Hp; rewrite <- app_assoc; reflexivity. }
    destruct (IH queue' seen out H) as [H1 H2].
    { intros x y Hx Hy. apply Hinj; apply Heq; assumption. }
    split.
    + intros x Hx. destruct (H1 x Hx) as [Hr Hs]. split; [apply Heq; exact Hr | exact Hs].
    + intros x Hx Hs. apply H2; [apply Heq; exact Hx | exact Hs].
  - (* named *)
    assert (Hhead : forall x, reachq tm [(fl, path)] x -> x = (fl, path)).
    { intros [fx px] [e [p0 [prel [Hin [Hr Hp]]]]]. destruct Hin as [E|[]]. injection E as <- <-. cbn [fst snd] in *.
      inversion Hr as [? ? Hi Hn | ? e0 m1 g1 fs1 s1 i1 ? p' Hi Hn Hu Ha Hr']; subst.
      - destruct Hi as [<-|[]]. rewrite app_nil_r. reflexivity.
      - destruct Hi as [<-|[]]. congruence. }
    assert (Hheadr : reachq tm ((fl, path) :: rest) (fl, path)).
    { exists fl, path, []. split; [left; reflexivity|]. split; [|cbn [snd]; rewrite app_nil_r; reflexivity].
      cbn [fst]. apply R_here; [left; reflexivity | rewrite En; discriminate]. }
    assert (Hsplit : forall x, reachq tm ((fl, path) :: rest) x -> x = (fl, path) \/ reachq tm rest x).
    { intros x [e [p0 [prel [Hin [Hr Hp]]]]]. destruct Hin as [E|Hin].
      - left. apply Hhead. exists e, p0, prel. split; [left; exact E | split; assumption].
      - right. exists e, p0, prel. split; [exact Hin | split; assumption]. }
    assert (Hrest : forall x, reachq tm rest x -> reachq tm ((fl, path) :: rest) x).
    { intros x [e [p0 [prel [Hin [Hr Hp]]]]]. exists e, p0, prel. split; [right; exact Hin | split; assumption]. }
    assert (Hinj' : forall x y, reachq tm rest x -> reachq tm rest y -> gf_json (fst x) = gf_json (fst y) -> x = y)
      by (intros x y Hx Hy; apply Hinj; apply Hrest; assumption).
    destruct (existsb (str_eqb (gf_json fl)) seen) eqn:Es.
    + destruct (IH rest seen out H Hinj') as [H1 H2]. split.
      * intros x Hx. destruct (H1 x Hx) as [Hr Hs]. split; [apply Hrest; exact Hr | exact Hs].
      * intros x Hx Hs. destruct (Hsplit x Hx) as [->|Hr]; [|exact (H2 x Hr Hs)].
        exfalso. apply Hs. cbn [fst]. apply existsb_exists in Es. destruct Es as [k [Hk Ek]]. apply str_eqb_eq in Ek. subst. exact Hk.
    + apply bind_ok in H. destruct H as [more [Hm Ho]]. injection Ho as <-.
      destruct (IH rest (gf_json fl :: seen) more Hm Hinj') as [H1 H2]. split.
      * intros x [<-|Hx].
        { split; [exact Hheadr | cbn [fst]; apply existsb_str_false; exact Es]. }
        { destruct (H1 x Hx) as [Hr Hs]. split; [apply Hrest; exact Hr | intro Hi; apply Hs; right; exact Hi]. }
      * intros x Hx Hs. destruct (Hsplit x Hx) as [->|Hr]; [left; reflexivity|].
        destruct (str_eq_dec (gf_json fl) (gf_json (fst x))) as [E|E].
        { left. symmetry. apply Hinj; [exact Hx | exact Hheadr | cbn [fst]; symmetry; exact E]. }
        { right. apply H2; [exact Hr|]. intros [Hi|Hi]; [exact (E Hi) | exact (Hs Hi)]. }
Qed.

Lemma flattened_fields_reach tm fields flat :
  flattened_fields tm fields = Ok flat ->
  (forall fl1 p1 fl2 p2, Reach tm fields fl1 p1 -> Reach tm fields fl2 p2 -> gf_json fl1 = gf_json fl2 -> (fl1, p1) = (fl2, p2)) ->
  forall fl p, In (fl, p) flat <-> Reach tm fields fl p.
Proof.
  unfold flattened_fields. intros H Hinj.
  assert (Heq : forall fl p, reachq tm (map (fun fl => (fl, @nil str)) fields) (fl, p) <-> Reach tm fields fl p).
  { intros fl p. split.
    - intros [e [p0 [prel [Hin [Hr Hp]]]]]. apply in_map_iff in Hin. destruct Hin as [e' [E He]]. injection E as <- <-.
      cbn [fst snd app] in *. subst p. exact (reach_weaken _ _ _ _ _ He Hr).
    - intro Hr. destruct (reach_single _ _ _ _ Hr) as [e [He Hre]]. exists e, [], p.
      split; [apply in_map_iff; exists e; split; [reflexivity | exact He]|]. split; [exact Hre | reflexivity]. }
  destruct (flatten_bfs_reach tm FLATTEN_FUEL _ _ _ H) as [H1 H2].
  { intros [f1 p1] [f2 p2] Hx Hy. cbn [fst]. apply Hinj; apply Heq; assumption. }
  intros fl p. split.
  - intro Hin. apply Heq. exact (proj1 (H1 _ Hin)).
  - intro Hr. apply H2; [apply Heq; exact Hr | intros []].
Qed.

(* ---- what the marshaled object holds under each key ---- *)
Section EncLookup.
  Variable enc : gotype -> gval -> res jval.
  Variable enci : str -> gval -> res jval.
  Variable v : gval.

  Definition entry_value (fl : gofield) (path : list str) : gval := struct_field (select_path v path) (gf_name fl).
  Definition entry_omitted (fl : gofield) (path : list str) : bool :=
    if special fl then gf_omitempty fl && special_empty (sdepth (gf_type fl)) (ispointer (gf_type fl)) (entry_value fl path)
    else gf_omitempty fl && is_empty (gf_type fl) (entry_value fl path).
  Definition entry_enc (fl : gofield) (path : list str) : res jval :=
    if special fl then enc_levels (sdepth (gf_type fl)) (enc_special_leaf enc enci (ispointer (gf_type fl)) (unwrap (gf_type fl))) (entry_value fl path)
    else enc (gf_type fl) (entry_value fl path).

  (* the object [kvs] holds, under the key of this field, what the field marshals to; nothing if omitted *)
  Definition entry_spec (kvs : list (str * jval)) (fl : gofield) (path : list str) : Prop :=
    if entry_omitted fl path then assoc (gf_json fl) kvs = None
    else exists j, assoc (gf_json fl) kvs = Some j /\ entry_enc fl path = Ok j.

  Lemma enc_fields_step fl path r :
    enc_fields enc enci v ((fl, path) :: r) =
    if entry_omitted fl path then enc_fields enc enci v r
    else do j <- entry_enc fl path; do rest <- enc_fields enc enci v r; Ok ((gf_json fl, j) :: rest).
  Proof. cbn [enc_fields]. unfold entry_omitted, entry_enc, entry_value. destruct (special fl); reflexivity. Qed.

  Lemma enc_fields_ok : forall flat,
    (forall fl path, In (fl, path) flat -> defined (entry_enc fl path) -> exists j, entry_enc fl path = Ok j) ->
    defined (enc_fields enc enci v flat) -> exists kvs, enc_fields enc enci v flat = Ok kvs.
  Proof.
    induction flat as [|[fl path] r IH]; intros H Hd; [exists []; reflexivity|].
    rewrite enc_fields_step in Hd |- *.
    assert (H' : forall fl path, In (fl, path) r -> defined (entry_enc fl path) -> exists j, entry_enc fl path = Ok j)
      by (intros fl' p' Hin; apply H; right; exact Hin).
    destruct (entry_omitted fl path); [exact (IH H' Hd)|].
    destruct (H fl path (or_introl eq_refl) (bind_defined _ _ Hd)) as [j Hj]. rewrite Hj in Hd |- *. cbn [bind] in Hd |- *.
    destruct (IH H' (bind_defined _ _ Hd)) as [kvs Hk]. rewrite Hk. cbn [bind]. eexists. reflexivity.
  Qed.

  Lemma enc_fields_lookup : forall flat kvs,
    NoDup (map (fun p => gf_json (fst p)) flat) -> enc_fields enc enci v flat = Ok kvs ->
    forall fl path, In (fl, path) flat -> entry_spec kvs fl path.
  Proof.
    induction flat as [|[fl0 path0] r IH]; intros kvs Hnd H fl path Hin; [destruct Hin|].
    cbn [map fst] in Hnd. inversion Hnd as [|? ? Hnotin Hnd']; subst.
    pose proof (enc_fields_keys enc enci v r) as Hkeys.
    rewrite enc_fields_step in H. unfold entry_spec.
    destruct Hin as [E|Hin].
    - injection E as -> ->. destruct (entry_omitted fl path).
      + apply assoc_none_notin. intro Hk. apply Hnotin. exact (proj1 (Hkeys _ H) _ Hk).
      + apply bind_ok in H. destruct H as [j [Hj H]]. apply bind_ok in H. destruct H as [rest [_ H]]. injection H as <-.
        exists j. cbn [assoc]. rewrite str_eqb_refl. split; [reflexivity | exact Hj].
    - assert (Hne : gf_json fl <> gf_json fl0).
      { intro E. apply Hnotin. rewrite <- E. apply in_map_iff. exists (fl, path). split; [reflexivity | exact Hin]. }
      destruct (entry_omitted fl0 path0).
      + exact (IH kvs Hnd' H fl path Hin).
      + apply bind_ok in H. destruct H as [j [Hj H]]. apply bind_ok in H. destruct H as [rest [Hr H]]. injection H as <-.
        pose proof (IH rest Hnd' Hr fl path Hin) as Hs. unfold entry_spec in Hs. cbn [assoc].
        destruct (str_eqb (gf_json fl) (gf_json fl0)) eqn:E; [apply str_eqb_eq in E; contradiction | exact Hs].
  Qed.
End EncLookup.

(* ---- the decoder's loops on an object with distinct keys, each of which either IS the tag of
   a field or matches no tag even after case folding: every field gets the value under its key ---- *)
Section DecLoops.
  Variable dec : gotype -> jval -> gval -> res gval.
  Variable filler : nat -> bool -> gotype -> raw -> gval -> res gval.
  Variable P : gofield -> jval -> gval -> Prop.

  Section ObjLoop.
    Variable fields : list gofield.
    Hypothesis Hjs : NoDup (map gf_json fields).
    Hypothesis Hnm : NoDup (map gf_name fields).
    Hypothesis Hnamed : forall fl, In fl fields -> gf_name fl <> [].

    Lemma obj_loop_lookup : forall kvs, NoDup (map fst kvs) ->
      (forall k j, In (k, j) kvs ->
         (exists fl, In fl fields /\ gf_json fl = k /\ exists x', dec (gf_type fl) j (zero_of (gf_type fl)) = Ok x' /\ P fl j x')
         \/ find_key (map (fun fl => (gf_json fl, fl)) fields) k = None) ->
      forall acc, (forall fl, In fl fields -> In (gf_json fl) (map fst kvs) -> ~ In (gf_name fl) (map fst acc)) ->
      exists fs', obj_loop dec (map (fun fl => (gf_json fl, fl)) fields) kvs acc = Ok (acc ++ fs') /\ NoDup (map fst fs')
        /\ (forall n x', In (n, x') fs' -> exists fl j, In fl fields /\ gf_name fl = n /\ In (gf_json fl, j) kvs /\ P fl j x')
        /\ (forall fl j, In fl fields -> In (gf_json fl, j) kvs -> exists x', In (gf_name fl, x') fs' /\ P fl j x').
    Proof.
      induction kvs as [|[k j] r IH]; intros Hnd H acc Hacc.
      - exists []. cbn [obj_loop]. rewrite app_nil_r. split; [reflexivity|]. split; [constructor|]. split; [intros n x' [] | intros fl j _ []].
      - cbn [map fst] in Hnd. inversion Hnd as [|? ? Hnotin Hnd']; subst.
        assert (H' : forall k0 j0, In (k0, j0) r ->
           (exists fl, In fl fields /\ gf_json fl = k0 /\ exists x', dec (gf_type fl) j0 (zero_of (gf_type fl)) = Ok x' /\ P fl j0 x')
           \/ find_key (map (fun fl => (gf_json fl, fl)) fields) k0 = None) by (intros k0 j0 Hin; apply H; right; exact Hin).
        assert (Hhit : forall fl, In fl fields -> exists n, find_key (map (fun fl0 => (gf_json fl0, fl0)) fields) (gf_json fl) = Some n
                          /\ nth_error (map (fun fl0 => (gf_json fl0, fl0)) fields) n = Some (gf_json fl, fl)).
        { intros fl Hfl. apply find_key_hit; [rewrite map_map; exact Hjs | apply in_map_iff; exists fl; split; [reflexivity | exact Hfl]]. }
        cbn [obj_loop].
        destruct (H k j (or_introl eq_refl)) as [[fl [Hfl [Ek [x' [Hd HP]]]]] | Hmiss].
        + subst k. destruct (Hhit fl Hfl) as [n [Hfk Hnth]]. rewrite Hfk, Hnth.
          assert (Hfresh : ~ In (gf_name fl) (map fst acc)) by (apply Hacc; [exact Hfl | left; reflexivity]).
          rewrite (field_key_named fl (Hnamed fl Hfl)), (get_field_fresh acc _ _ Hfresh), Hd. cbn [at_field bind].
          unfold put_field. rewrite (put_kv_fresh acc _ _ Hfresh).
          destruct (IH Hnd' H' (acc ++ [(gf_name fl, x')])) as [fs'' [Hl [Hnd2 [Hm1 Hm2]]]].
          { intros fl' Hfl' Hk Hi. rewrite map_app in Hi. apply in_app_or in Hi. destruct Hi as [Hi|Hi].
            - exact (Hacc fl' Hfl' (or_intror Hk) Hi).
            - cbn [map fst In] in Hi. destruct Hi as [E|[]].
              assert (fl = fl') as -> by exact (nodup_keys_inj gf_name fields Hnm fl fl' Hfl Hfl' E). exact (Hnotin Hk). }
          exists ((gf_name fl, x') :: fs''). rewrite Hl, <- app_assoc. split; [reflexivity|]. split; [|split].
          * cbn [map fst]. constructor; [|exact Hnd2]. intro Hi. apply in_map_iff in Hi. destruct Hi as [[n0 y] [En Hi]]. cbn [fst] in En. subst n0.
            destruct (Hm1 _ _ Hi) as [fl2 [j2 [Hfl2 [En2 [Hin2 _]]]]].
            assert (fl2 = fl) as -> by exact (nodup_keys_inj gf_name fields Hnm fl2 fl Hfl2 Hfl En2).
            apply Hnotin. apply in_map_iff. exists (gf_json fl, j2). split; [reflexivity | exact Hin2].
          * intros n0 y [E|Hi].
            { injection E as <- <-. exists fl, j. repeat split; try assumption. left. reflexivity. }
            { destruct (Hm1 _ _ Hi) as [fl2 [j2 [Hfl2 [En2 [Hin2 HP2]]]]]. exists fl2, j2. repeat split; try assumption. right. exact Hin2. }
          * intros fl0 j0 Hfl0 [E|Hin].
            { injection E as E1 <-. assert (fl = fl0) as <- by exact (nodup_keys_inj gf_json fields Hjs fl fl0 Hfl Hfl0 E1).
              exists x'. split; [left; reflexivity | exact HP]. }
            { destruct (Hm2 fl0 j0 Hfl0 Hin) as [y [Hy HPy]]. exists y. split; [right; exact Hy | exact HPy]. }
        + rewrite Hmiss.
          destruct (IH Hnd' H' acc) as [fs'' [Hl [Hnd2 [Hm1 Hm2]]]].
          { intros fl' Hfl' Hk. apply Hacc; [exact Hfl' | right; exact Hk]. }
          exists fs''. split; [exact Hl|]. split; [exact Hnd2|]. split.
          * intros n0 y Hi. destruct (Hm1 _ _ Hi) as [fl2 [j2 [Hfl2 [En2 [Hin2 HP2]]]]]. exists fl2, j2. repeat split; try assumption. right. exact Hin2.
          * intros fl0 j0 Hfl0 [E|Hin].
            { injection E as E1 E2. destruct (Hhit fl0 Hfl0) as [n [Hfk _]]. congruence. }
            { exact (Hm2 fl0 j0 Hfl0 Hin). }
    Qed.
  End ObjLoop.

  Section FirstPass.
    Variable all : list (str * (bool * gofield)).
    Hypothesis Hfun : forall k a a', In (k, a) all -> In (k, a') all -> a' = a.
    Hypothesis Hwf : forall k bb fl, In (k, (bb, fl)) all -> k = gf_json fl /\ gf_name fl <> [].
    Hypothesis Hnames : forall k1 b1 fl1 k2 b2 fl2, In (k1, (b1, fl1)) all -> In (k2, (b2, fl2)) all -> gf_name fl1 = gf_name fl2 -> k1 = k2.

    Lemma first_pass_lookup : forall kvs, NoDup (map fst kvs) ->
      (forall k j, In (k, j) kvs ->
         (exists fl, In (k, (false, fl)) all /\ exists x', dec (gf_type fl) j (zero_of (gf_type fl)) = Ok x' /\ P fl j x')
         \/ (exists fl, In (k, (true, fl)) all /\ exists cp, capture (sdepth (gf_type fl)) j = Ok cp)
         \/ find_key all k = None) ->
      forall acc caps,
      (forall k bb fl, In (k, (bb, fl)) all -> In k (map fst kvs) -> ~ In (gf_name fl) (map fst acc) /\ ~ In (gf_name fl) (map fst caps)) ->
      exists a c, first_pass dec all kvs acc caps = Ok (acc ++ a, caps ++ c) /\ NoDup (map fst a)
        /\ (forall n x', In (n, x') a -> exists fl j, In (gf_json fl, (false, fl)) all /\ gf_name fl = n /\ In (gf_json fl, j) kvs /\ P fl j x')
        /\ (forall fl j, In (gf_json fl, (false, fl)) all -> In (gf_json fl, j) kvs -> exists x', In (gf_name fl, x') a /\ P fl j x')
        /\ (forall fl, In (gf_json fl, (true, fl)) all ->
              match assoc (gf_json fl) kvs with
              | Some j => exists cp, capture (sdepth (gf_type fl)) j = Ok cp /\ assoc (gf_name fl) (caps ++ c) = Some cp
              | None => assoc (gf_name fl) (caps ++ c) = assoc (gf_name fl) caps
              end).
    Proof.
      induction kvs as [|[k j] r IH]; intros Hnd H acc caps Hacc.
      - exists [], []. cbn [first_pass]. rewrite !app_nil_r. split; [reflexivity|]. split; [constructor|].
        split; [intros n x' []|]. split; [intros fl j _ []|]. intros fl _. reflexivity.
      - cbn [map fst] in Hnd. inversion Hnd as [|? ? Hnotin Hnd']; subst.
        assert (H' : forall k0 j0, In (k0, j0) r ->
           (exists fl, In (k0, (false, fl)) all /\ exists x', dec (gf_type fl) j0 (zero_of (gf_type fl)) = Ok x' /\ P fl j0 x')
           \/ (exists fl, In (k0, (true, fl)) all /\ exists cp, capture (sdepth (gf_type fl)) j0 = Ok cp)
           \/ find_key all k0 = None) by (intros k0 j0 Hin; apply H; right; exact Hin).
        assert (Hassoc_r : forall k0, k0 <> k -> assoc k0 ((k, j) :: r) = assoc k0 r).
        { intros k0 Hne. cbn [assoc]. destruct (str_eqb k0 k) eqn:E; [apply str_eqb_eq in E; contradiction | reflexivity]. }
        cbn [first_pass].
        destruct (H k j (or_introl eq_refl)) as [[fl [Hfl [x' [Hd HP]]]] | [[fl [Hfl [cp Hcp]]] | Hmiss]].
        + (* an ordinary field *)
          destruct (Hwf _ _ _ Hfl) as [Ek Hn]. destruct (find_key_hit_fun k all (false, fl) (fun a' Ha' => Hfun _ _ a' Hfl Ha') Hfl) as [n [Hfk Hnth]]. rewrite Hfk, Hnth.
          destruct (Hacc _ _ _ Hfl (or_introl eq_refl)) as [Hfresh _].
          rewrite (field_key_named fl Hn), (get_field_fresh acc _ _ Hfresh), Hd. cbn [at_field bind].
          unfold put_field. rewrite (put_kv_fresh acc _ _ Hfresh).
          destruct (IH Hnd' H' (acc ++ [(gf_name fl, x')]) caps) as [a [c [Hl [Hnd2 [Hm1 [Hm2 Hm3]]]]]].
          { intros k0 bb fl0 Hin0 Hk0. destruct (Hacc _ _ _ Hin0 (or_intror Hk0)) as [Ha Hc]. split; [|exact Hc].
            intro Hi. rewrite map_app in Hi. apply in_app_or in Hi. destruct Hi as [Hi|Hi]; [exact (Ha Hi)|].
            cbn [map fst In] in Hi. destruct Hi as [E|[]]. pose proof (Hnames _ _ _ _ _ _ Hfl Hin0 E) as Ekk. subst k0. exact (Hnotin Hk0). }
          exists ((gf_name fl, x') :: a), c. rewrite Hl, <- app_assoc. split; [reflexivity|]. split; [|split; [|split]].
          * cbn [map fst]. constructor; [|exact Hnd2]. intro Hi. apply in_map_iff in Hi. destruct Hi as [[n0 y] [En Hi]]. cbn [fst] in En. subst n0.
            destruct (Hm1 _ _ Hi) as [fl2 [j2 [Hfl2 [En2 [Hin2 _]]]]].
            pose proof (Hnames _ _ _ _ _ _ Hfl2 Hfl En2) as Ekk. apply Hnotin. rewrite <- Ekk. apply in_map_iff. exists (gf_json fl2, j2). split; [reflexivity | exact Hin2].
          * intros n0 y [E|Hi].
            { injection E as <- <-. exists fl, j. rewrite <- Ek. repeat split; try assumption. left. reflexivity. }
            { destruct (Hm1 _ _ Hi) as [fl2 [j2 [Hfl2 [En2 [Hin2 HP2]]]]]. exists fl2, j2. repeat split; try assumption. right. exact Hin2. }
          * intros fl0 j0 Hfl0 [E|Hin].
            { injection E as E1 <-. rewrite <- E1 in Hfl0.
              assert (Some (k, (false, fl0)) = Some (k, (false, fl))) as E2.
              { destruct (find_key_hit_fun k all (false, fl0) (fun a' Ha' => Hfun _ _ a' Hfl0 Ha') Hfl0) as [n' [Hfk' Hnth']]. rewrite Hfk in Hfk'. injection Hfk' as <-. rewrite <- Hnth, <- Hnth'. reflexivity. }
              injection E2 as ->. exists x'. split; [left; reflexivity | exact HP]. }
            { destruct (Hm2 fl0 j0 Hfl0 Hin) as [y [Hy HPy]]. exists y. split; [right; exact Hy | exact HPy]. }
          * intros fl0 Hfl0. specialize (Hm3 fl0 Hfl0).
            assert (Hne : gf_json fl0 <> k).
            { intro E. rewrite E in Hfl0. destruct (find_key_hit_fun k all (true, fl0) (fun a' Ha' => Hfun _ _ a' Hfl0 Ha') Hfl0) as [n' [Hfk' Hnth']]. rewrite Hfk in Hfk'. injection Hfk' as <-. rewrite Hnth in Hnth'. discriminate. }
            rewrite (Hassoc_r _ Hne). exact Hm3.
        + (* a captured field *)
          destruct (Hwf _ _ _ Hfl) as [Ek Hn]. destruct (find_key_hit_fun k all (true, fl) (fun a' Ha' => Hfun _ _ a' Hfl Ha') Hfl) as [n [Hfk Hnth]]. rewrite Hfk, Hnth.
          destruct (Hacc _ _ _ Hfl (or_introl eq_refl)) as [_ Hfresh].
          rewrite Hcp. cbn [bind]. rewrite (put_kv_fresh caps _ _ Hfresh).
          destruct (IH Hnd' H' acc (caps ++ [(gf_name fl, cp)])) as [a [c [Hl [Hnd2 [Hm1 [Hm2 Hm3]]]]]].
          { intros k0 bb fl0 Hin0 Hk0. destruct (Hacc _ _ _ Hin0 (or_intror Hk0)) as [Ha Hc]. split; [exact Ha|].
            intro Hi. rewrite map_app in Hi. apply in_app_or in Hi. destruct Hi as [Hi|Hi]; [exact (Hc Hi)|].
            cbn [map fst In] in Hi. destruct Hi as [E|[]]. pose proof (Hnames _ _ _ _ _ _ Hfl Hin0 E) as Ekk. subst k0. exact (Hnotin Hk0). }
          exists a, ((gf_name fl, cp) :: c). rewrite Hl, <- app_assoc. split; [reflexivity|]. split; [exact Hnd2|]. split; [|split].
          * intros n0 y Hi. destruct (Hm1 _ _ Hi) as [fl2 [j2 [Hfl2 [En2 [Hin2 HP2]]]]]. exists fl2, j2. repeat split; try assumption. right. exact Hin2.
          * intros fl0 j0 Hfl0 [E|Hin].
            { injection E as E1 <-. rewrite <- E1 in Hfl0. destruct (find_key_hit_fun k all (false, fl0) (fun a' Ha' => Hfun _ _ a' Hfl0 Ha') Hfl0) as [n' [Hfk' Hnth']]. rewrite Hfk in Hfk'. injection Hfk' as <-. rewrite Hnth in Hnth'. discriminate. }
            { exact (Hm2 fl0 j0 Hfl0 Hin). }
          * intros fl0 Hfl0. specialize (Hm3 fl0 Hfl0). cbn [app] in Hm3 |- *.
            destruct (str_eq_dec (gf_json fl0) k) as [E|Hne].
            { rewrite E in Hfl0 |- *. cbn [assoc]. rewrite str_eqb_refl.
              assert (Some (k, (true, fl0)) = Some (k, (true, fl))) as E2.
              { destruct (find_key_hit_fun k all (true, fl0) (fun a' Ha' => Hfun _ _ a' Hfl0 Ha') Hfl0) as [n' [Hfk' Hnth']]. rewrite Hfk in Hfk'. injection Hfk' as <-. rewrite <- Hnth, <- Hnth'. reflexivity. }
              injection E2 as ->. exists cp. split; [exact Hcp|].
              rewrite E in Hm3. rewrite (assoc_none_notin k r Hnotin) in Hm3. rewrite <- app_assoc in Hm3. cbn [app] in Hm3. rewrite Hm3.
              clear -Hfresh. induction caps as [|[k' y] caps' IHc]; cbn [app assoc]; [rewrite str_eqb_refl; reflexivity|].
              destruct (str_eqb (gf_name fl) k') eqn:E; [apply str_eqb_eq in E; subst; exfalso; apply Hfresh; left; reflexivity|].
              apply IHc. intro Hi. apply Hfresh. right. exact Hi. }
            { rewrite (Hassoc_r _ Hne). rewrite <- app_assoc in Hm3. cbn [app] in Hm3.
              destruct (assoc (gf_json fl0) r) as [j0|]; [exact Hm3|]. rewrite Hm3.
              assert (Hnn : gf_name fl0 <> gf_name fl).
              { intro E. apply Hne. exact (Hnames _ _ _ _ _ _ Hfl0 Hfl E). }
              clear -Hnn. induction caps as [|[k' y] caps' IHc]; cbn [app assoc].
              - destruct (str_eqb (gf_name fl0) (gf_name fl)) eqn:E; [apply str_eqb_eq in E; contradiction | reflexivity].
              - destruct (str_eqb (gf_name fl0) k'); [reflexivity | exact IHc]. }
        + (* not a field *)
          rewrite Hmiss.
          destruct (IH Hnd' H' acc caps) as [a [c [Hl [Hnd2 [Hm1 [Hm2 Hm3]]]]]].
          { intros k0 bb fl0 Hin0 Hk0. exact (Hacc _ _ _ Hin0 (or_intror Hk0)). }
          assert (Hnok : forall bb fl0, In (gf_json fl0, (bb, fl0)) all -> gf_json fl0 <> k).
          { intros bb fl0 Hfl0 E. rewrite E in Hfl0. destruct (find_key_hit_fun k all (bb, fl0) (fun a' Ha' => Hfun _ _ a' Hfl0 Ha') Hfl0) as [n' [Hfk' _]]. congruence. }
          exists a, c. split; [exact Hl|]. split; [exact Hnd2|]. split; [|split].
          * intros n0 y Hi. destruct (Hm1 _ _ Hi) as [fl2 [j2 [Hfl2 [En2 [Hin2 HP2]]]]]. exists fl2, j2. repeat split; try assumption. right. exact Hin2.
          * intros fl0 j0 Hfl0 [E|Hin]; [injection E as E1 _; exfalso; exact (Hnok _ _ Hfl0 (eq_sym E1)) | exact (Hm2 fl0 j0 Hfl0 Hin)].
          * intros fl0 Hfl0. rewrite (Hassoc_r _ (Hnok _ _ Hfl0)). exact (Hm3 fl0 Hfl0).
    Qed.
  End FirstPass.

  Section SecondPass.
    Variable j : jval.
    Variable caps : list (str * raw).
    Variable PP : gofield -> gval -> Prop.

    (* what the second pass computes for a special field, starting from its zero value *)
    Definition sp_step (fl : gofield) : res gval :=
      match gf_name fl with
      | [] => dec (unwrap (gf_type fl)) j (zero_of (unwrap (gf_type fl)))
      | name => filler (sdepth (gf_type fl)) (ispointer (gf_type fl)) (unwrap (gf_type fl))
                  (match assoc name caps with Some c => c | None => RAbsent end) (zero_of (gf_type fl))
      end.

    Lemma second_pass_lookup : forall fls, NoDup (map field_key fls) ->
      (forall fl, In fl fls -> special fl = true -> exists x', sp_step fl = Ok x' /\ PP fl x') ->
      forall acc, (forall fl, In fl fls -> special fl = true -> ~ In (field_key fl) (map fst acc)) ->
      exists s, second_pass dec filler j caps fls acc = Ok (acc ++ s) /\ NoDup (map fst s)
        /\ (forall n x', In (n, x') s -> exists fl, In fl fls /\ special fl = true /\ field_key fl = n /\ PP fl x')
        /\ (forall fl, In fl fls -> special fl = true -> exists x', In (field_key fl, x') s /\ PP fl x').
    Proof.
      induction fls as [|fl r IH]; intros Hnd H acc Hacc.
      - exists []. cbn [second_pass]. rewrite app_nil_r. split; [reflexivity|]. split; [constructor|]. split; [intros n x' [] | intros fl []].
      - cbn [map] in Hnd. inversion Hnd as [|? ? Hnotin Hnd']; subst.
        assert (H' : forall fl', In fl' r -> special fl' = true -> exists x', sp_step fl' = Ok x' /\ PP fl' x') by (intros fl' Hin; apply H; right; exact Hin).
        cbn [second_pass]. destruct (special fl) eqn:Esp; cbn [negb].
        + destruct (H fl (or_introl eq_refl) Esp) as [x' [Hx HP]].
          pose proof (Hacc fl (or_introl eq_refl) Esp) as Hfresh.
          assert (Hstep : second_pass dec filler j caps (fl :: r) acc = second_pass dec filler j caps r (acc ++ [(field_key fl, x')])).
          { cbn [second_pass]. rewrite Esp. cbn [negb]. unfold sp_step in Hx. unfold field_key in Hfresh |- *.
            destruct (gf_name fl) as [|ch nm] eqn:En.
            - rewrite (get_field_fresh acc _ _ Hfresh), Hx. cbn [bind]. unfold put_field. rewrite (put_kv_fresh acc _ _ Hfresh). reflexivity.
            - rewrite (get_field_fresh acc _ _ Hfresh), Hx. cbn [at_field bind]. unfold put_field. rewrite (put_kv_fresh acc _ _ Hfresh). reflexivity. }
          cbn [second_pass] in Hstep. rewrite Esp in Hstep. cbn [negb] in Hstep. rewrite Hstep.
          destruct (IH Hnd' H' (acc ++ [(field_key fl, x')])) as [s [Hl [Hnd2 [Hm1 Hm2]]]].
          { intros fl' Hfl' Hsp' Hi. rewrite map_app in Hi. apply in_app_or in Hi. destruct Hi as [Hi|Hi].
            - exact (Hacc fl' (or_intror Hfl') Hsp' Hi).
            - cbn [map fst In] in Hi. destruct Hi as [E|[]]. apply Hnotin. rewrite E. apply in_map. exact Hfl'. }
          exists ((field_key fl, x') :: s). rewrite Hl, <- app_assoc. split; [reflexivity|]. split; [|split].
          * cbn [map fst]. constructor; [|exact Hnd2]. intro Hi. apply in_map_iff in Hi. destruct Hi as [[n0 y] [En Hi]]. cbn [fst] in En. subst n0.
            destruct (Hm1 _ _ Hi) as [fl2 [Hfl2 [_ [En2 _]]]]. apply Hnotin. rewrite <- En2. apply in_map. exact Hfl2.
          * intros n0 y [E|Hi].
            { injection E as <- <-. exists fl. repeat split; try assumption. left. reflexivity. }
            { destruct (Hm1 _ _ Hi) as [fl2 [Hfl2 [Hsp2 [En2 HP2]]]]. exists fl2. repeat split; try assumption. right. exact Hfl2. }
          * intros fl0 [<-|Hin] Hsp0.
            { exists x'. split; [left; reflexivity | exact HP]. }
            { destruct (Hm2 fl0 Hin Hsp0) as [y [Hy HPy]]. exists y. split; [right; exact Hy | exact HPy]. }
        + destruct (IH Hnd' H' acc) as [s [Hl [Hnd2 [Hm1 Hm2]]]].
          { intros fl' Hfl' Hsp'. exact (Hacc fl' (or_intror Hfl') Hsp'). }
          exists s. split; [exact Hl|]. split; [exact Hnd2|]. split.
          * intros n0 y Hi. destruct (Hm1 _ _ Hi) as [fl2 [Hfl2 H2]]. exists fl2. split; [right; exact Hfl2 | exact H2].
          * intros fl0 [<-|Hin] Hsp0; [congruence | exact (Hm2 fl0 Hin Hsp0)].
    Qed.
  End SecondPass.
End DecLoops.

(* ---- types []^k leaf ---- *)
Fixpoint slices (k : nat) (t : gotype) : gotype := match k with O => t | S k => GSlice (slices k t) end.
Lemma sdepth_slices k i : sdepth (slices k (GIface i)) = k.
Proof. induction k as [|k IH]; cbn [slices sdepth]; [reflexivity | rewrite IH; reflexivity]. Qed.
Lemma unwrap_slices k i : unwrap (slices k (GIface i)) = GIface i.
Proof. induction k as [|k IH]; cbn [slices unwrap]; [reflexivity | exact IH]. Qed.
Lemma ispointer_slices k i : ispointer (slices k (GIface i)) = false.
Proof. induction k as [|k IH]; cbn [slices ispointer]; [reflexivity | exact IH]. Qed.
Lemma zero_of_slices k i : zero_of (slices k (GIface i)) = elem_zero k false (GIface i).
Proof. destruct k; reflexivity. Qed.

Lemma map_res_ok_inv {A B} (e : A -> res B) : forall l js, map_res e l = Ok js -> Forall2 (fun x j => e x = Ok j) l js.
Proof.
  induction l as [|x r IH]; intros js H; cbn [map_res] in H.
  - injection H as <-. constructor.
  - apply bind_ok in H. destruct H as [j [Hj H]]. apply bind_ok in H. destruct H as [rest [Hr H]]. injection H as <-.
    constructor; [exact Hj | exact (IH _ Hr)].
Qed.

Lemma assoc_filter_other {A} (k k0 : str) (l : list (str * A)) : k <> k0 ->
  assoc k (filter (fun kv => negb (str_eqb (fst kv) k0)) l) = assoc k l.
Proof.
  intro Hne. induction l as [|[k' x] r IH]; [reflexivity|]. cbn [filter fst].
  destruct (str_eqb k' k0) eqn:E; cbn [negb assoc].
  - apply str_eqb_eq in E. subst k'. destruct (str_eqb k k0) eqn:E2; [apply str_eqb_eq in E2; contradiction | exact IH].
  - destruct (str_eqb k k'); [reflexivity | exact IH].
Qed.

Lemma existsb_str_in k l : In k l -> existsb (str_eqb k) l = true.
Proof. intro H. apply existsb_exists. exists k. split; [exact H | apply str_eqb_refl]. Qed.

Section Resp.
  Variable tm : typemap.
  Variable good : str -> Prop.     (* the response struct declarations the theorem is about *)
  Variable goodi : str -> Prop.    (* the interface declarations *)

  (* a field is ordinary (decoded by encoding/json), an embedded fragment struct, or of an
     interface type under any number of slices *)
  Definition fld_ok (fl : gofield) : Prop :=
    (special fl = false /\ ptype tm good (gf_type fl))
    \/ (gf_name fl = [] /\ exists m, unwrap (gf_type fl) = GStruct m /\ good m)
    \/ (gf_name fl <> [] /\ exists k i, gf_type fl = slices k (GIface i) /\ goodi i).

  (* the JSON keys of a struct: its own and those of its embedded structs *)
  Definition owned (fields : list gofield) (k : str) : Prop := exists fl p, Reach tm fields fl p /\ gf_json fl = k.

  Record resp_fields (fields : list gofield) : Prop := {
    rf_ok : forall fl, In fl fields -> fld_ok fl;
    rf_keys : NoDup (map field_key fields);       (* Go field names and embedded type names are distinct *)
    (* the keys of the struct and of its embedded structs stay pairwise distinct under the case
       folding of the decoder's key matching *)
    rf_sep : forall fl1 p1 fl2 p2, Reach tm fields fl1 p1 -> Reach tm fields fl2 p2 ->
               fold_eqb (gf_json fl1) (gf_json fl2) = true -> (fl1, p1) = (fl2, p2);
    rf_flat : exists flat, flattened_fields tm fields = Ok flat }.   (* the fuel of the model's FlattenedFields suffices *)

  Definition resp_decls : Prop :=
    forall m, good m -> exists g fields s i, assoc m tm = Some (DStruct g fields s i) /\ resp_fields fields.

  (* an implementation: its GraphQL name is not empty; a key that case-folds to `__typename`
     is `__typename` itself, on an ordinary scalar field *)
  Definition impl_ok (impl : str) : Prop :=
    good impl /\ exists g fields s i, assoc impl tm = Some (DStruct g fields s i) /\ g <> [] /\
      forall fl p, Reach tm fields fl p -> fold_eqb (gf_json fl) typename_name = true ->
        gf_json fl = typename_name /\ special fl = false /\ scalar_type tm (gf_type fl) = true.

  Definition iface_decls : Prop :=
    forall i, goodi i -> exists g sh impls sel, assoc i tm = Some (DIface g sh impls sel)
      /\ (forall impl, In impl impls -> impl_ok impl)
      /\ (forall i1 i2 d1 d2, In i1 impls -> In i2 impls -> assoc i1 tm = Some d1 -> assoc i2 tm = Some d2 ->
            decl_gql d1 = decl_gql d2 -> i1 = i2).

  (* the `__typename` field of a concrete value, if selected, names the concrete type *)
  Definition typename_ok (impl : str) (x : gval) : Prop :=
    forall g fields s i fl p, assoc impl tm = Some (DStruct g fields s i) -> Reach tm fields fl p ->
      gf_json fl = typename_name -> struct_field (select_path x p) (gf_name fl) = VScalar (JStr g).

  (* the type of the value stored under a field's key *)
  Definition vtype (fl : gofield) : gotype := match gf_name fl with [] => unwrap (gf_type fl) | _ => gf_type fl end.
  (* fields the decoder always sets, or whose zero value does not survive (recorded finding:
     a nil slice at a special field re-marshals as []) *)
  Definition must_list (fl : gofield) : Prop :=
    gf_name fl = [] \/ (exists m, gf_type fl = GStruct m) \/ (special fl = true /\ exists e, gf_type fl = GSlice e).

  (* the values decoding produces.  Excluded explicitly:
       - a NIL slice of abstract values at any depth ([null_list_roundtrip_refuted]);
       - an empty non-nil slice in an ordinary omitempty field ([omitempty_empty_slice_refuted]);
       - a `__typename` field that disagrees with the concrete type. *)
  Fixpoint cval3 (t : gotype) (v : gval) {struct v} : Prop :=
    match v with
    | VZero => scalar_type tm t = true
    | VScalar j => scalar_type tm t = true /\ fits (scalar_kind tm t) j = true
    | VNilPtr => exists e, t = GPtr e
    | VPtr x => exists e, t = GPtr e /\ cval3 e x /\ (x = VZero -> scalar_kind tm e <> KAny)
    | VNilSlice => exists e, t = GSlice e /\ forall i, unwrap e <> GIface i
    | VSlice l => exists e, t = GSlice e /\
        (fix all (l : list gval) : Prop := match l with [] => True | x :: r => cval3 e x /\ all r end) l
    | VNilIface => exists i, t = GIface i
    | VIface impl x => exists i g sh impls sel, t = GIface i /\ assoc i tm = Some (DIface g sh impls sel) /\ In impl impls
                         /\ cval3 (GStruct impl) x /\ typename_ok impl x
    | VStruct n fs =>
        t = GStruct n /\ NoDup (map fst fs) /\
        exists g fields s i, assoc n tm = Some (DStruct g fields s i) /\
          (fix all (fs : list (str * gval)) : Prop :=
             match fs with
             | [] => True
             | (k, x) :: r =>
                 (exists fl, In fl fields /\ field_key fl = k /\ cval3 (vtype fl) x
                             /\ (gf_omitempty fl = true -> special fl = false -> x <> VSlice [])) /\ all r
             end) fs
          /\ (forall fl, In fl fields -> must_list fl -> In (field_key fl) (map fst fs))
    end.

  Lemma cval3_slice_inv t l : cval3 t (VSlice l) -> exists e, t = GSlice e /\ forall x, In x l -> cval3 e x.
  Proof.
    cbn [cval3]. intros [e [-> H]]. exists e. split; [reflexivity|].
    induction l as [|y r IH]; intros x Hin; [destruct Hin|]. destruct H as [H1 H2].
    destruct Hin as [<-|Hin]; [exact H1 | exact (IH H2 x Hin)].
  Qed.

  Lemma cval3_struct_inv t n fs : cval3 t (VStruct n fs) ->
    t = GStruct n /\ NoDup (map fst fs) /\
    exists g fields s i, assoc n tm = Some (DStruct g fields s i) /\
      (forall k x, In (k, x) fs -> exists fl, In fl fields /\ field_key fl = k /\ cval3 (vtype fl) x
                                             /\ (gf_omitempty fl = true -> special fl = false -> x <> VSlice []))
      /\ (forall fl, In fl fields -> must_list fl -> In (field_key fl) (map fst fs)).
  Proof.
    cbn [cval3]. intros [-> [Hnd [g [fields [s [i [Ha [H Hm]]]]]]]]. split; [reflexivity|]. split; [exact Hnd|].
    exists g, fields, s, i. split; [exact Ha|]. split; [|exact Hm]. clear Hnd Hm.
    induction fs as [|[k0 y] r IH]; intros k x Hin; [destruct Hin|]. destruct H as [H1 H2].
    destruct Hin as [E|Hin]; [injection E as <- <-; exact H1 | exact (IH H2 k x Hin)].
  Qed.

  (* a canonical value is a struct exactly at a struct type *)
  Lemma cval3_at_struct m v : cval3 (GStruct m) v -> exists fs, v = VStruct m fs.
  Proof.
    destruct v as [| j | | x | | l | | impl x | n fs]; cbn [cval3]; intro H.
    - discriminate H.
    - destruct H as [H _]. discriminate H.
    - destruct H as [e E]. discriminate E.
    - destruct H as [e [E _]]. discriminate E.
    - destruct H as [e [E _]]. discriminate E.
    - destruct H as [e [E _]]. discriminate E.
    - destruct H as [i E]. discriminate E.
    - destruct H as [i [g [sh [impls [sel [E _]]]]]]. discriminate E.
    - destruct H as [E _]. injection E as <-. exists fs. reflexivity.
  Qed.

  Lemma cval3_scalar_inv t v : scalar_type tm t = true -> cval3 t v \/ v = VZero ->
    v = VZero \/ exists j, v = VScalar j /\ fits (scalar_kind tm t) j = true.
  Proof.
    intros Hs [Hv|Hv]; [|left; exact Hv]. destruct v as [| j | | x | | l | | impl x | n fs]; cbn [cval3] in Hv.
    - left. reflexivity.
    - right. exists j. split; [reflexivity | exact (proj2 Hv)].
    - destruct Hv as [e ->]. discriminate Hs.
    - destruct Hv as [e [-> _]]. discriminate Hs.
    - destruct Hv as [e [-> _]]. discriminate Hs.
    - destruct Hv as [e [-> _]]. discriminate Hs.
    - destruct Hv as [i ->]. discriminate Hs.
    - destruct Hv as [i [g [sh [impls [sel [-> _]]]]]]. discriminate Hs.
    - destruct Hv as [-> _]. discriminate Hs.
  Qed.

  Definition geq3 (t : gotype) (v v' : gval) : Prop :=
    (cval3 t v -> gnorm v' = gnorm v) /\ (v = VZero -> dropped v' = true).
  Definition evdec (t : gotype) (j : jval) (cur v' : gval) : Prop := exists f1, decode tm true f1 t j cur = Ok v'.

  (* scalars, again (the Level 2 lemma is about [cval]) *)
  Lemma scalar_rt3 f t v j : scalar_type tm t = true -> cval3 t v \/ v = VZero -> encode tm (S f) t v = Ok j ->
    exists v', decode tm true (S f) t j (zero_of t) = Ok v' /\ geq3 t v v' /\ ((v = VZero -> scalar_kind tm t <> KAny) -> j <> JNull).
  Proof.
    intros Hs Hv He. pose proof (cval3_scalar_inv t v Hs Hv) as Hv'.
    assert (Hed : encode tm (S f) t v = Ok (match v with VScalar j => j | _ => zero_json (scalar_kind tm t) end)
                 /\ forall j cur, decode tm true (S f) t j cur = decode_scalar (scalar_kind tm t) j cur).
    { rewrite encode_S. destruct t; try discriminate Hs.
      - cbn [scalar_type] in Hs. split; [|intros j0 cur; rewrite decode_S]; destruct (ref_shape ref) as [[[] rest]|]; try discriminate Hs.
        + destruct v; reflexivity.
        + reflexivity.
      - split; [destruct v; reflexivity | intros; reflexivity].
      - split; [destruct v; reflexivity | intros; reflexivity]. }
    destruct Hed as [He' Hd]. rewrite He' in He. injection He as <-. rewrite Hd.
    assert (Hz : zero_of t = VZero) by (destruct t; try discriminate Hs; reflexivity). rewrite Hz.
    destruct Hv' as [->|[j [-> Hfit]]].
    - destruct (scalar_kind tm t) eqn:Ek; cbn [zero_json decode_scalar].
      all: try (eexists; split; [reflexivity|]; split; [split; intros; reflexivity | intros _; discriminate]).
      exists VZero. split; [reflexivity|]. split; [split; intros; reflexivity|]. intro H. exfalso. apply H; reflexivity.
    - exists (VScalar j). split; [apply decode_scalar_fits, Hfit|].
      split; [split; [reflexivity | discriminate]|]. intros _. exact (fits_not_null _ _ Hfit).
  Qed.

  Lemma is_empty_dropped3 t x : cval3 t x \/ x = VZero -> x <> VSlice [] -> is_empty t x = true -> dropped x = true.
  Proof.
    intros Hx Hne He. destruct x; try reflexivity; cbn [is_empty] in He; try discriminate He.
    - destruct Hx as [Hx|Hx]; [|discriminate Hx]. cbn [cval3] in Hx. destruct Hx as [_ Hfit].
      unfold dropped. cbn [gnorm]. destruct j as [| [] | id integral | s | l | l]; cbn [json_empty] in He; try discriminate He; try reflexivity.
      + destruct id; try discriminate He. reflexivity.
      + destruct s; try discriminate He. reflexivity.
      + destruct (scalar_kind tm t); discriminate Hfit.
      + destruct (scalar_kind tm t); discriminate Hfit.
    - destruct l; [exfalso; apply Hne; reflexivity | discriminate He].
  Qed.

  Definition A3 (f : nat) : Prop := forall t v j, ptype tm good t -> cval3 t v \/ v = VZero ->
    (v = VZero -> forall m, t <> GStruct m) -> encode tm f t v = Ok j ->
    exists v', evdec t j (zero_of t) v' /\ geq3 t v v'.

  Definition I3 (f : nat) : Prop := forall i v j, goodi i -> cval3 (GIface i) v \/ v = VZero -> encode_iface tm f i v = Ok j ->
    match v with
    | VIface _ _ => j <> JNull /\ exists f1 v', unmarshal_iface tm true f1 i j VNilIface = Ok v' /\ gnorm v' = gnorm v
    | _ => j = JNull
    end.

  Definition spec_big (f0 : nat) (fields : list gofield) (v : gval) (big : list (str * jval)) : Prop :=
    forall fl p, Reach tm fields fl p -> entry_spec (encode tm f0) (encode_iface tm f0) v big fl p.
  (* every key of the object is a key of the struct, or matches none of them even after folding *)
  Definition clean (fields : list gofield) (big : list (str * jval)) : Prop :=
    forall k, In k (map fst big) -> owned fields k \/ (forall k', owned fields k' -> fold_eqb k' k = false).

  Definition B3 (f : nat) : Prop := forall m g fields s i v kvs, good m -> assoc m tm = Some (DStruct g fields s i) ->
    cval3 (GStruct m) v -> encode_struct tm f m v = Ok kvs ->
    exists f0, f = S f0 /\ NoDup (map fst kvs) /\ (forall k, In k (map fst kvs) -> owned fields k) /\ spec_big f0 fields v kvs
      /\ forall big, NoDup (map fst big) -> clean fields big -> spec_big f0 fields v big ->
           exists v', evdec (GStruct m) (JObj big) (VStruct m []) v' /\ gnorm v' = gnorm v.

  (* ---- lists of abstract values: marshal, capture, fill ---- *)
  Lemma special_rt f0 i : I3 f0 -> goodi i -> forall k x j,
    cval3 (slices k (GIface i)) x \/ (k = 0 /\ x = VZero) ->
    enc_levels k (encode_iface tm f0 i) x = Ok j ->
    exists c, capture k j = Ok c /\ exists f1 x', fill tm true f1 k false (GIface i) c (elem_zero k false (GIface i)) = Ok x'
      /\ (cval3 (slices k (GIface i)) x -> gnorm x' = gnorm x) /\ (x = VZero -> dropped x' = true).
  Proof.
    intros HI Hi. induction k as [|k IH]; intros x j Hx He.
    - cbn [enc_levels slices] in *. exists (RLeaf j). split; [reflexivity|].
      assert (Hx' : cval3 (GIface i) x \/ x = VZero) by (destruct Hx as [Hx|[_ Hx]]; [left | right]; exact Hx).
      pose proof (HI i x j Hi Hx' He) as H.
      destruct x as [| j0 | | x0 | | l | | impl x0 | n fs];
        try (subst j; exists 1, VNilIface; split; [reflexivity|]; split; [intro Hc; cbn [cval3] in Hc|intros _; reflexivity]).
      + discriminate Hc.
      + destruct Hc as [Hc _]. discriminate Hc.
      + destruct Hc as [e E]. discriminate E.
      + destruct Hc as [e [E _]]. discriminate E.
      + destruct Hc as [e [E _]]. discriminate E.
      + destruct Hc as [e [E _]]. discriminate E.
      + reflexivity.
      + destruct H as [Hnn [f1 [v' [Hu Hg]]]]. exists (S f1), v'. split; [|split; [intros _; exact Hg | discriminate]].
        rewrite fill_S. cbn [elem_zero zero_of]. destruct j; try (exfalso; apply Hnn; reflexivity); rewrite Hu; reflexivity.
      + destruct Hc as [E _]. discriminate E.
    - cbn [slices] in Hx. destruct Hx as [Hx|[E _]]; [|discriminate E].
      assert (Hl : exists l, x = VSlice l /\ forall y, In y l -> cval3 (slices k (GIface i)) y).
      { destruct x as [| j0 | | x0 | | l | | impl x0 | n fs]; cbn [cval3] in Hx.
        - discriminate Hx.
        - destruct Hx as [Hx _]. discriminate Hx.
        - destruct Hx as [e E]. discriminate E.
        - destruct Hx as [e [E _]]. discriminate E.
        - destruct Hx as [e [E Hno]]. injection E as <-. exfalso. exact (Hno i (unwrap_slices k i)).
        - exists l. split; [reflexivity|]. destruct (cval3_slice_inv _ _ Hx) as [e [E Hall]]. injection E as <-. exact Hall.
        - destruct Hx as [i0 E]. discriminate E.
        - destruct Hx as [i0 [g [sh [impls [sel [E _]]]]]]. discriminate E.
        - destruct Hx as [E _]. discriminate E. }
      destruct Hl as [l [-> Hall]]. cbn [enc_levels] in He. apply bind_ok in He. destruct He as [js [Hjs He]]. injection He as <-.
      apply map_res_ok_inv in Hjs.
      assert (H : exists cs F xs', map_res (capture k) js = Ok cs
                 /\ map_res (fun c => fill tm true F k false (GIface i) c (elem_zero k false (GIface i))) cs = Ok xs'
                 /\ map gnorm xs' = map gnorm l).
      { clear Hx. induction Hjs as [|y jy l js Hy _ IHl].
        - exists [], 0, []. repeat split.
        - destruct (IH y jy (or_introl (Hall y (or_introl eq_refl))) Hy) as [c [Hc [f1 [y' [Hf [Hg _]]]]]].
          destruct (IHl (fun z Hz => Hall z (or_intror Hz))) as [cs [F [xs' [Hcs [Hfs Hgs]]]]].
          exists (c :: cs), (Nat.max f1 F), (y' :: xs'). cbn [map_res map]. rewrite Hc, Hcs. cbn [bind].
          rewrite (fill_lift _ _ _ (Nat.max f1 F) _ _ _ _ _ _ Hf (Nat.le_max_l _ _)). cbn [bind].
          assert (Hfs' : map_res (fun c0 => fill tm true (Nat.max f1 F) k false (GIface i) c0 (elem_zero k false (GIface i))) cs = Ok xs').
          { clear -Hfs. revert xs' Hfs. induction cs as [|c0 cs IHc]; intros xs' Hfs; [exact Hfs|]. cbn [map_res] in Hfs |- *.
            apply bind_ok in Hfs. destruct Hfs as [a [Ha Hfs]]. apply bind_ok in Hfs. destruct Hfs as [rest [Hrest Hfs]]. injection Hfs as <-.
            rewrite (fill_lift _ _ _ (Nat.max f1 F) _ _ _ _ _ _ Ha (Nat.le_max_r _ _)), (IHc _ Hrest). reflexivity. }
          rewrite Hfs'. cbn [bind]. split; [reflexivity|]. split; [reflexivity|].
          rewrite (Hg (Hall y (or_introl eq_refl))), Hgs. reflexivity. }
      destruct H as [cs [F [xs' [Hcs [Hfs Hgs]]]]].
      exists (RList cs). cbn [capture]. rewrite Hcs. cbn [bind]. split; [reflexivity|].
      exists (S F), (VSlice xs'). rewrite fill_S, Hfs. cbn [bind]. split; [reflexivity|]. split; [|discriminate].
      intros _. cbn [gnorm]. rewrite Hgs. reflexivity.
  Qed.

  (* ---- small facts used below ---- *)
  Lemma nodup_map_inj {A B} (f : A -> B) (l : list A) :
    NoDup l -> (forall a c, In a l -> In c l -> f a = f c -> a = c) -> NoDup (map f l).
  Proof.
    induction l as [|x r IH]; intros Hnd Hinj; [constructor|]. inversion Hnd as [|? ? Hnotin Hnd']; subst. cbn [map].
    constructor; [|apply IH; [exact Hnd' | intros a c Ha Hc; apply Hinj; right; assumption]].
    intro Hi. apply in_map_iff in Hi. destruct Hi as [y [Ey Hy]]. apply Hnotin.
    rewrite <- (Hinj y x (or_intror Hy) (or_introl eq_refl) Ey). exact Hy.
  Qed.

  Lemma assoc_in_keys {A} k (l : list (str * A)) : In k (map fst l) -> exists x, assoc k l = Some x.
  Proof.
    induction l as [|[k' y] r IH]; cbn [map fst In assoc]; intro H; [destruct H|].
    destruct (str_eqb k k') eqn:E; [exists y; reflexivity|]. destruct H as [H|H]; [subst; rewrite str_eqb_refl in E; discriminate | exact (IH H)].
  Qed.

  Lemma special_embedded fl : gf_name fl = [] -> special fl = true.
  Proof. unfold special. intros ->. reflexivity. Qed.

  Lemma special_iface fl k i : gf_name fl <> [] -> gf_type fl = slices k (GIface i) -> special fl = true.
  Proof. unfold special. intros Hn Ht. destruct (gf_name fl); [exfalso; apply Hn; reflexivity|]. rewrite Ht, unwrap_slices. reflexivity. Qed.

  Lemma field_key_embedded fl m : gf_name fl = [] -> unwrap (gf_type fl) = GStruct m -> field_key fl = m.
  Proof. unfold field_key. intros -> ->. reflexivity. Qed.

  Lemma reach_nil_inv fields fl : Reach tm fields fl [] -> In fl fields /\ gf_name fl <> [].
  Proof. intro H. inversion H; subst. split; assumption. Qed.

  Lemma entry_spec_ext enc enci v1 v2 big fl p1 p2 :
    entry_value v1 fl p1 = entry_value v2 fl p2 -> entry_spec enc enci v1 big fl p1 -> entry_spec enc enci v2 big fl p2.
  Proof. unfold entry_spec, entry_omitted, entry_enc. intros ->. exact (fun H => H). Qed.

  Lemma entry_value_here v fl : gf_name fl <> [] -> entry_value v fl [] = struct_field v (field_key fl).
  Proof. intro Hn. unfold entry_value. cbn [select_path]. rewrite (field_key_named fl Hn). reflexivity. Qed.

  Lemma entry_value_emb m fs m1 x1 fl p : assoc m1 fs = Some x1 -> entry_value (VStruct m fs) fl (m1 :: p) = entry_value x1 fl p.
  Proof. intro Ha. unfold entry_value. cbn [select_path]. rewrite Ha. reflexivity. Qed.

  Lemma in_ord fields k fl :
    In (k, fl) (flat_map (fun fl => if special fl then [] else [(gf_json fl, fl)]) fields) <-> In fl fields /\ special fl = false /\ k = gf_json fl.
  Proof.
    rewrite in_flat_map. split.
    - intros [fl0 [Hin H]]. destruct (special fl0) eqn:E; [destruct H|]. destruct H as [H|[]]. injection H as <- <-. repeat split; assumption.
    - intros [Hin [Hs ->]]. exists fl. split; [exact Hin|]. rewrite Hs. left. reflexivity.
  Qed.

  Lemma in_raws fields k fl :
    In (k, fl) (flat_map (fun fl => if special fl && nonempty (gf_name fl) then [(gf_json fl, fl)] else []) fields)
    <-> In fl fields /\ special fl = true /\ gf_name fl <> [] /\ k = gf_json fl.
  Proof.
    rewrite in_flat_map. split.
    - intros [fl0 [Hin H]]. destruct (special fl0) eqn:E; cbn [andb] in H; [|destruct H].
      destruct (gf_name fl0) eqn:En; cbn [nonempty] in H; [destruct H|]. destruct H as [H|[]]. injection H as <- <-.
      repeat split; try assumption. rewrite En. discriminate.
    - intros [Hin [Hs [Hn ->]]]. exists fl. split; [exact Hin|]. rewrite Hs. destruct (gf_name fl); [exfalso; apply Hn; reflexivity|]. left. reflexivity.
  Qed.

  Definition all_of (fields : list gofield) : list (str * (bool * gofield)) :=
    map (fun p => (fst p, (true, snd p))) (flat_map (fun fl => if special fl && nonempty (gf_name fl) then [(gf_json fl, fl)] else []) fields)
    ++ map (fun p => (fst p, (false, snd p))) (flat_map (fun fl => if special fl then [] else [(gf_json fl, fl)]) fields).

  Lemma in_all_of fields k bb fl :
    In (k, (bb, fl)) (all_of fields) <-> In fl fields /\ k = gf_json fl /\ gf_name fl <> [] /\ special fl = bb.
  Proof.
    unfold all_of. rewrite in_app_iff, !in_map_iff. split.
    - intros [[[k0 fl0] [E H]]|[[k0 fl0] [E H]]]; cbn [fst snd] in E; injection E as <- <- <-.
      + apply in_raws in H. destruct H as [H1 [H2 [H3 H4]]]. repeat split; assumption.
      + apply in_ord in H. destruct H as [H1 [H2 H3]]. repeat split; try assumption. exact (special_false_named _ H2).
    - intros [H1 [H2 [H3 H4]]]. destruct bb.
      + left. exists (k, fl). split; [reflexivity|]. apply in_raws. repeat split; assumption.
      + right. exists (k, fl). split; [reflexivity|]. apply in_ord. repeat split; assumption.
  Qed.

  Hypothesis Hdecls : resp_decls.
  Hypothesis Hifaces : iface_decls.
  (* no struct embeds itself *)
  Variable rk : str -> nat.
  Hypothesis Hrk : forall m g fields s i e m1, good m -> assoc m tm = Some (DStruct g fields s i) ->
    In e fields -> gf_name e = [] -> unwrap (gf_type e) = GStruct m1 -> rk m1 < rk m.

  Section StructDecode.
    Variable f0 : nat.
    Variable m : str.
    Variable fields : list gofield.
    Variable fs : list (str * gval).
    Variable big : list (str * jval).

    (* what is known of the value decoded for a field *)
    Definition fq3 (fl : gofield) (x' : gval) : Prop :=
      match assoc (field_key fl) fs with Some x => gnorm x' = gnorm x | None => dropped x' = true end.

    Lemma final_norm fs' : NoDup (map fst fs) -> NoDup (map fst fs') ->
      (forall n x', In (n, x') fs' -> exists fl, field_key fl = n /\ fq3 fl x') ->
      (forall n x, In (n, x) fs -> dropped x = false -> exists x', In (n, x') fs' /\ gnorm x' = gnorm x) ->
      gnorm (VStruct m fs') = gnorm (VStruct m fs).
    Proof.
      intros Hnd Hnd' H1 H2. apply norm_fields_eq; [exact Hnd | exact Hnd'|]. intros k y. rewrite !in_keep. split.
      - intros [x' [Hin [Hd ->]]]. destruct (H1 _ _ Hin) as [fl [<- Hq]]. unfold fq3 in Hq.
        destruct (assoc (field_key fl) fs) as [x|] eqn:Ea; [|congruence].
        exists x. split; [exact (assoc_some_in _ _ _ Ea)|]. unfold dropped in *. rewrite <- Hq. split; [exact Hd | reflexivity].
      - intros [x [Hin [Hd ->]]]. destruct (H2 _ _ Hin Hd) as [x' [Hin' Hg]]. exists x'. split; [exact Hin'|].
        unfold dropped in *. rewrite Hg. split; [exact Hd | reflexivity].
    Qed.

    (* the decoding steps for one field, all with fuel F *)
    Definition Qf (fl : gofield) (F : nat) : Prop :=
      (special fl = false -> forall j, assoc (gf_json fl) big = Some j ->
         exists x', decode tm true F (gf_type fl) j (zero_of (gf_type fl)) = Ok x' /\ fq3 fl x')
      /\ (gf_name fl = [] ->
         exists x', decode tm true F (unwrap (gf_type fl)) (JObj big) (zero_of (unwrap (gf_type fl))) = Ok x' /\ fq3 fl x')
      /\ (gf_name fl <> [] -> special fl = true ->
         (forall j, assoc (gf_json fl) big = Some j -> exists c, capture (sdepth (gf_type fl)) j = Ok c)
         /\ forall c, match assoc (gf_json fl) big with Some j => capture (sdepth (gf_type fl)) j = Ok c | None => c = RAbsent end ->
              exists x', fill tm true F (sdepth (gf_type fl)) (ispointer (gf_type fl)) (unwrap (gf_type fl)) c (zero_of (gf_type fl)) = Ok x'
                         /\ fq3 fl x').

    Lemma Qf_mono fl F F' : Qf fl F -> F <= F' -> Qf fl F'.
    Proof.
      intros [H1 [H2 H3]] Hle. split; [|split].
      - intros Hs j Hj. destruct (H1 Hs j Hj) as [x' [Hd Hq]]. exists x'. split; [exact (decode_lift _ _ _ _ _ _ _ _ Hd Hle) | exact Hq].
      - intros Hn. destruct (H2 Hn) as [x' [Hd Hq]]. exists x'. split; [exact (decode_lift _ _ _ _ _ _ _ _ Hd Hle) | exact Hq].
      - intros Hn Hs. destruct (H3 Hn Hs) as [Hc Hf]. split; [exact Hc|]. intros c Hcc.
        destruct (Hf c Hcc) as [x' [Hd Hq]]. exists x'. split; [exact (fill_lift _ _ _ _ _ _ _ _ _ _ Hd Hle) | exact Hq].
    Qed.
  End StructDecode.

  Lemma nodup_app {A} (l1 l2 : list A) : NoDup l1 -> NoDup l2 -> (forall x, In x l1 -> ~ In x l2) -> NoDup (l1 ++ l2).
  Proof.
    induction l1 as [|x r IH]; intros H1 H2 Hd; [exact H2|]. inversion H1 as [|? ? Hnotin Hr]; subst. cbn [app].
    constructor; [|apply IH; [exact Hr | exact H2 | intros y Hy; apply Hd; right; exact Hy]].
    intro Hi. apply in_app_or in Hi. destruct Hi as [Hi|Hi]; [exact (Hnotin Hi) | exact (Hd x (or_introl eq_refl) Hi)].
  Qed.

  Lemma existsb_false_forall {A} (p : A -> bool) l : existsb p l = false -> forall x, In x l -> p x = false.
  Proof.
    intros H x Hin. destruct (p x) eqn:E; [|reflexivity].
    assert (existsb p l = true) by (apply existsb_exists; exists x; split; assumption). congruence.
  Qed.

  Lemma unmarshal_struct_obj F n fields kvs :
    unmarshal_struct tm true (S F) n fields (JObj kvs) (VStruct n []) =
    do st <- first_pass (fun t j c => decode tm true F t j c) (all_of fields) kvs [] [];
    let '(acc1, caps) := st in
    do fs <- second_pass (fun t j c => decode tm true F t j c) (fun n p l r c => fill tm true F n p l r c) (JObj kvs) caps fields acc1;
    Ok (VStruct n fs).
  Proof. reflexivity. Qed.

  Lemma fold_eqb_refl k : fold_eqb k k = true.
  Proof. unfold fold_eqb. apply str_eqb_refl. Qed.

  Lemma Qf_ordinary f0 (HA : A3 f0) m fs big fl :
    special fl = false -> ptype tm good (gf_type fl) ->
    (match assoc (field_key fl) fs with Some x => cval3 (vtype fl) x | None => ~ must_list fl end) ->
    entry_spec (encode tm f0) (encode_iface tm f0) (VStruct m fs) big fl [] ->
    exists F, Qf fs big fl F.
  Proof.
    intros Hsp Hpt Hv Hspec. pose proof (special_false_named fl Hsp) as Hn.
    assert (Hvt : vtype fl = gf_type fl) by (unfold vtype; destruct (gf_name fl); [exfalso; apply Hn; reflexivity | reflexivity]).
    destruct (assoc (gf_json fl) big) as [j|] eqn:Ej.
    - unfold entry_spec in Hspec. destruct (entry_omitted (VStruct m fs) fl []); [congruence|].
      destruct Hspec as [j0 [E0 He]]. rewrite Ej in E0. injection E0 as <-.
      unfold entry_enc in He. rewrite Hsp, (entry_value_here _ fl Hn) in He. cbn [struct_field] in He.
      set (x := match assoc (field_key fl) fs with Some x => x | None => VZero end) in *.
      assert (Hx : cval3 (gf_type fl) x \/ x = VZero).
      { unfold x. destruct (assoc (field_key fl) fs); [left; rewrite <- Hvt; exact Hv | right; reflexivity]. }
      assert (Hnz : x = VZero -> forall m', gf_type fl <> GStruct m').
      { unfold x. intros Hz m' Ht. destruct (assoc (field_key fl) fs) as [x0|].
        - subst x0. rewrite Hvt, Ht in Hv. discriminate Hv.
        - apply Hv. right. left. exists m'. exact Ht. }
      destruct (HA (gf_type fl) x j Hpt Hx Hnz He) as [v' [[f1 Hd] [Hg1 Hg2]]].
      exists f1. split; [|split].
      + intros _ j' Hj'. rewrite Ej in Hj'. injection Hj' as <-. exists v'. split; [exact Hd|].
        unfold fq3. unfold x in Hg1, Hg2. destruct (assoc (field_key fl) fs) as [x0|]; [apply Hg1; rewrite <- Hvt; exact Hv | apply Hg2; reflexivity].
      + intro E. contradiction.
      + intros _ E. congruence.
    - exists 0. split; [|split].
      + intros _ j Hj. rewrite Ej in Hj. discriminate.
      + intro E. contradiction.
      + intros _ E. congruence.
  Qed.

  Lemma Qf_iface f0 (HI : I3 f0) m fs big fl k i :
    gf_name fl <> [] -> gf_type fl = slices k (GIface i) -> goodi i ->
    (match assoc (field_key fl) fs with Some x => cval3 (vtype fl) x | None => ~ must_list fl end) ->
    entry_spec (encode tm f0) (encode_iface tm f0) (VStruct m fs) big fl [] ->
    exists F, Qf fs big fl F.
  Proof.
    intros Hn Ht Hgi Hv Hspec. pose proof (special_iface fl k i Hn Ht) as Hsp.
    assert (Hvt : vtype fl = slices k (GIface i)) by (unfold vtype; destruct (gf_name fl); [exfalso; apply Hn; reflexivity | exact Ht]).
    unfold Qf. rewrite Ht, sdepth_slices, ispointer_slices, unwrap_slices, zero_of_slices.
    unfold entry_spec, entry_omitted, entry_enc in Hspec. rewrite Hsp, (entry_value_here _ fl Hn) in Hspec. cbn [struct_field] in Hspec.
    rewrite Ht, sdepth_slices, ispointer_slices, unwrap_slices in Hspec.
    set (x := match assoc (field_key fl) fs with Some x => x | None => VZero end) in *.
    change (enc_special_leaf (encode tm f0) (encode_iface tm f0) false (GIface i)) with (encode_iface tm f0 i) in Hspec.
    destruct (assoc (gf_json fl) big) as [j|] eqn:Ej.
    - destruct (gf_omitempty fl && special_empty k false x); [discriminate Hspec|].
      destruct Hspec as [j0 [E0 He]]. injection E0 as <-.
      assert (Hx : cval3 (slices k (GIface i)) x \/ (k = 0 /\ x = VZero)).
      { unfold x. destruct (assoc (field_key fl) fs); [left; rewrite <- Hvt; exact Hv|]. right. split; [|reflexivity].
        destruct k as [|k']; [reflexivity|]. exfalso. apply Hv. right. right. split; [exact Hsp|]. exists (slices k' (GIface i)). exact Ht. }
      destruct (special_rt f0 i HI Hgi k x j Hx He) as [c [Hc [f1 [x' [Hf [Hg1 Hg2]]]]]].
      exists f1. split; [intro E; congruence|]. split; [intro E; contradiction|]. intros _ _. split.
      + intros j' Hj'. injection Hj' as <-. exists c. exact Hc.
      + intros c0 Hc0. rewrite Hc in Hc0. injection Hc0 as <-. exists x'. split; [exact Hf|].
        unfold fq3. unfold x in Hg1, Hg2. destruct (assoc (field_key fl) fs) as [x0|]; [apply Hg1; rewrite <- Hvt; exact Hv | apply Hg2; reflexivity].
    - destruct (gf_omitempty fl && special_empty k false x) eqn:Eo; [|destruct Hspec as [j0 [E0 _]]; discriminate E0].
      apply andb_true_iff in Eo. destruct Eo as [_ Eo]. destruct k as [|k']; [discriminate Eo|].
      assert (Hx : exists x0, assoc (field_key fl) fs = Some x0).
      { destruct (assoc (field_key fl) fs) as [x0|]; [exists x0; reflexivity|]. exfalso. apply Hv. right. right. split; [exact Hsp|]. exists (slices k' (GIface i)). exact Ht. }
      destruct Hx as [x0 Ex0]. unfold x in Eo. rewrite Ex0 in Hv, Eo. rewrite Hvt in Hv. cbn [slices] in Hv.
      assert (x0 = VSlice []) as ->.
      { destruct x0 as [| j0 | | y | | l | | impl y | n0 fs0]; cbn [cval3] in Hv.
        - discriminate Hv.
        - destruct Hv as [Hv _]. discriminate Hv.
        - destruct Hv as [e E]. discriminate E.
        - destruct Hv as [e [E _]]. discriminate E.
        - destruct Hv as [e [E Hno]]. injection E as <-. exfalso. exact (Hno i (unwrap_slices k' i)).
        - destruct l; [reflexivity | discriminate Eo].
        - destruct Hv as [i0 E]. discriminate E.
        - destruct Hv as [i0 [g [sh [impls [sel [E _]]]]]]. discriminate E.
        - destruct Hv as [E _]. discriminate E. }
      exists 1. split; [intro E; congruence|]. split; [intro E; contradiction|]. intros _ _. split.
      + intros j Hj. discriminate Hj.
      + intros c ->. exists (VSlice []). split; [reflexivity|]. unfold fq3. rewrite Ex0. reflexivity.
  Qed.

  (* ---- decoding a response struct from an object that holds, under each of its keys, what the
     corresponding field marshals to (and possibly foreign keys): by induction on the embedding rank ---- *)
  Lemma decode_struct_big f0 (HA : A3 f0) (HI : I3 f0) : forall n m g fields s i v big,
    rk m < n -> good m -> assoc m tm = Some (DStruct g fields s i) -> cval3 (GStruct m) v ->
    NoDup (map fst big) -> clean fields big -> spec_big f0 fields v big ->
    exists v', evdec (GStruct m) (JObj big) (VStruct m []) v' /\ gnorm v' = gnorm v.
  Proof.
    induction n as [|n IHn]; intros m g fields s i v big Hlt Hg Ha Hc Hndb Hclean Hspec; [lia|].
    destruct (Hdecls m Hg) as [g' [fields' [s' [i' [Ha' Hrf]]]]]. rewrite Ha in Ha'. injection Ha' as <- <- <- <-.
    destruct Hrf as [Hok Hkeys Hsep _].
    destruct (cval3_at_struct m v Hc) as [fs ->].
    destruct (cval3_struct_inv _ _ _ Hc) as [_ [Hndfs [g2 [fields2 [s2 [i2 [Ha2 [Hall Hmust]]]]]]]].
    rewrite Ha in Ha2. injection Ha2 as <- <- <- <-.
    assert (Hndf : NoDup fields) by exact (NoDup_map_inv _ _ Hkeys).
    assert (Hkinj : forall a c, In a fields -> In c fields -> field_key a = field_key c -> a = c) by exact (nodup_keys_inj field_key fields Hkeys).
    assert (Hval : forall fl, In fl fields ->
              match assoc (field_key fl) fs with
              | Some x => cval3 (vtype fl) x /\ (gf_omitempty fl = true -> special fl = false -> x <> VSlice [])
              | None => ~ must_list fl
              end).
    { intros fl Hfl. destruct (assoc (field_key fl) fs) as [x|] eqn:Ea.
      - destruct (Hall _ _ (assoc_some_in _ _ _ Ea)) as [fl0 [Hfl0 [Ek [Hcx Hom]]]]. rewrite (Hkinj fl0 fl Hfl0 Hfl Ek) in *. split; assumption.
      - intro Hm. destruct (assoc_in_keys _ _ (Hmust fl Hfl Hm)) as [x Hx]. congruence. }
    assert (Hval' : forall fl, In fl fields -> match assoc (field_key fl) fs with Some x => cval3 (vtype fl) x | None => ~ must_list fl end).
    { intros fl Hfl. pose proof (Hval fl Hfl) as H. destruct (assoc (field_key fl) fs); [exact (proj1 H) | exact H]. }
    assert (Hown : forall fl, In fl fields -> gf_name fl <> [] -> Reach tm fields fl []) by (intros; apply R_here; assumption).
    assert (Hjinj : forall a c, In a fields -> In c fields -> gf_name a <> [] -> gf_name c <> [] -> gf_json a = gf_json c -> a = c).
    { intros a c Ha0 Hc0 Hna Hnc E. pose proof (Hsep a [] c [] (Hown a Ha0 Hna) (Hown c Hc0 Hnc)) as H. rewrite E, fold_eqb_refl in H.
      specialize (H eq_refl). injection H as ->. reflexivity. }
    (* Step 1: each field decodes, with some fuel *)
    assert (HQ : forall fl, In fl fields -> exists F, Qf fs big fl F).
    { intros fl Hfl. destruct (Hok fl Hfl) as [[Hsp Hpt] | [[Hn [m1 [Hu Hg1]]] | [Hn [k [i0 [Ht Hgi]]]]]].
      - apply (Qf_ordinary f0 HA m fs big fl Hsp Hpt (Hval' fl Hfl)). apply Hspec, Hown; [exact Hfl | exact (special_false_named fl Hsp)].
      - (* embedded: the same object, by the induction hypothesis on the rank *)
        pose proof (Hval' fl Hfl) as Hv. pose proof (field_key_embedded fl m1 Hn Hu) as Ek. rewrite Ek in Hv.
        destruct (assoc m1 fs) as [x1|] eqn:Ea; [|exfalso; apply Hv; left; exact Hn].
        unfold vtype in Hv. rewrite Hn, Hu in Hv. clear Ek.
        destruct (Hdecls m1 Hg1) as [g1 [fields1 [s1 [i1 [Ha1 _]]]]].
        assert (Hemb : forall fl' p', Reach tm fields1 fl' p' -> Reach tm fields fl' (m1 :: p')).
        { intros fl' p' Hr'. exact (R_emb tm fields fl m1 g1 fields1 s1 i1 fl' p' Hfl Hn Hu Ha1 Hr'). }
        destruct (IHn m1 g1 fields1 s1 i1 x1 big) as [v' [[f1 Hd] Hgn]].
        + pose proof (Hrk m g fields s i fl m1 Hg Ha Hfl Hn Hu). lia.
        + exact Hg1.
        + exact Ha1.
        + exact Hv.
        + exact Hndb.
        + intros k Hk. destruct (Hclean k Hk) as [[fl0 [p [Hr Ej]]] | Hfor].
          * inversion Hr as [? ? Hi0 Hn0 | ? e0 m1' g1' fs1' s1' i1' ? p'' Hi0 Hn0 Hu0 Ha0 Hr0]; subst.
            { right. intros k' [fl' [p' [Hr' Ej']]]. destruct (fold_eqb k' (gf_json fl0)) eqn:Ef; [|reflexivity].
              rewrite <- Ej' in Ef. pose proof (Hsep fl' (m1 :: p') fl0 [] (Hemb _ _ Hr') Hr Ef) as E. discriminate E. }
            { destruct (str_eq_dec m1' m1) as [->|Hne].
              - left. rewrite Ha1 in Ha0. injection Ha0 as <- <- <- <-. exists fl0, p''. split; [exact Hr0 | reflexivity].
              - right. intros k' [fl' [p' [Hr' Ej']]]. destruct (fold_eqb k' (gf_json fl0)) eqn:Ef; [|reflexivity].
                rewrite <- Ej' in Ef. pose proof (Hsep fl' (m1 :: p') fl0 (m1' :: p'') (Hemb _ _ Hr') Hr Ef) as E. injection E as _ E _. exfalso. apply Hne. symmetry. exact E. }
          * right. intros k' [fl' [p' [Hr' Ej']]]. apply Hfor. exists fl', (m1 :: p'). split; [exact (Hemb _ _ Hr') | exact Ej'].
        + intros fl' p' Hr'. apply (entry_spec_ext _ _ (VStruct m fs) x1 big fl' (m1 :: p') p'); [apply entry_value_emb; exact Ea | apply Hspec, Hemb, Hr'].
        + exists f1. split; [intro E; rewrite (special_embedded fl Hn) in E; discriminate E|]. split; [|intros E; contradiction].
          intros _. rewrite Hu. cbn [zero_of]. exists v'. split; [exact Hd|]. unfold fq3. rewrite (field_key_embedded fl m1 Hn Hu), Ea. exact Hgn.
      - apply (Qf_iface f0 HI m fs big fl k i0 Hn Ht Hgi (Hval' fl Hfl)). apply Hspec, Hown; assumption. }
    (* Step 2: one fuel for all *)
    destruct (common_fuel (Qf fs big) fields (fun a f f' => Qf_mono fs big a f f') HQ) as [F HF].
    (* how the keys of the object resolve *)
    assert (Hkey : forall k j, In (k, j) big ->
              (exists fl, In fl fields /\ gf_name fl <> [] /\ gf_json fl = k /\ assoc (gf_json fl) big = Some j)
              \/ (forall fl, In fl fields -> gf_name fl <> [] -> fold_eqb (gf_json fl) k = false)).
    { intros k j Hin. assert (Hk : In k (map fst big)) by (apply in_map_iff; exists (k, j); split; [reflexivity | exact Hin]).
      destruct (Hclean k Hk) as [[fl0 [p [Hr Ej]]] | Hfor].
      - inversion Hr as [? ? Hi0 Hn0 | ? e0 m1' g1' fs1' s1' i1' ? p'' Hi0 Hn0 Hu0 Ha0 Hr0]; subst.
        + left. exists fl0. repeat split; try assumption. exact (assoc_in_nodup _ _ _ Hndb Hin).
        + right. intros fl Hfl Hn. destruct (fold_eqb (gf_json fl) (gf_json fl0)) eqn:Ef; [|reflexivity].
          pose proof (Hsep fl [] fl0 (m1' :: p'') (Hown fl Hfl Hn) Hr Ef) as E. discriminate E.
      - right. intros fl Hfl Hn. apply Hfor. exists fl, []. split; [exact (Hown fl Hfl Hn) | reflexivity]. }
    (* Step 3: run the decoder *)
    assert (Hrun : exists fs',
              decode tm true (S (S F)) (GStruct m) (JObj big) (VStruct m []) = Ok (VStruct m fs') /\ NoDup (map fst fs')
              /\ (forall n0 x', In (n0, x') fs' -> exists fl, field_key fl = n0 /\ fq3 fs fl x')
              /\ (forall fl, In fl fields ->
                    (special fl = true -> exists x', In (field_key fl, x') fs' /\ fq3 fs fl x')
                    /\ (special fl = false -> forall j, In (gf_json fl, j) big -> exists x', In (field_key fl, x') fs' /\ fq3 fs fl x'))).
    { rewrite decode_S, Ha. destruct (struct_needs_unmarshal fields) eqn:Esn.
      - (* the generated UnmarshalJSON *)
        rewrite unmarshal_struct_obj.
        destruct (first_pass_lookup (fun t j c => decode tm true F t j c) (fun fl j x' => fq3 fs fl x') (all_of fields)) with (kvs := big) (acc := @nil (str * gval)) (caps := @nil (str * raw))
          as [a [c [Hl [Hnda [Hm1 [Hm2 Hm3]]]]]].
        + intros k [b1 fl1] [b2 fl2] H1 H2. apply in_all_of in H1, H2. destruct H1 as [Hf1 [E1 [Hn1 Hs1]]]. destruct H2 as [Hf2 [E2 [Hn2 Hs2]]].
          assert (fl2 = fl1) as -> by (apply Hjinj; try assumption; congruence). congruence.
        + intros k bb fl H. apply in_all_of in H. destruct H as [_ [E [Hn _]]]. split; assumption.
        + intros k1 b1 fl1 k2 b2 fl2 H1 H2 En. apply in_all_of in H1, H2. destruct H1 as [Hf1 [E1 [Hn1 Hs1]]]. destruct H2 as [Hf2 [E2 [Hn2 Hs2]]].
          assert (fl1 = fl2) as -> by (apply Hkinj; try assumption; rewrite (field_key_named _ Hn1), (field_key_named _ Hn2); exact En). congruence.
        + exact Hndb.
        + intros k j Hin. destruct (Hkey k j Hin) as [[fl [Hfl [Hn [Ek Eas]]]] | Hmiss].
          * destruct (HF fl Hfl) as [H1 [_ H3]]. destruct (special fl) eqn:Esp.
            { right. left. exists fl. split; [apply in_all_of; repeat split; try assumption; symmetry; exact Ek|]. exact (proj1 (H3 Hn eq_refl) j Eas). }
            { left. exists fl. split; [apply in_all_of; repeat split; try assumption; symmetry; exact Ek|]. exact (H1 eq_refl j Eas). }
          * right. right. apply find_key_miss. intros t [bb fl] H. apply in_all_of in H. destruct H as [Hfl [-> [Hn _]]]. exact (Hmiss fl Hfl Hn).
        + intros k bb fl _ _. split; intros [].
        + rewrite Hl. cbn [bind app].
          destruct (second_pass_lookup (fun t j c => decode tm true F t j c) (fun n0 p l r c0 => fill tm true F n0 p l r c0) (JObj big) c (fq3 fs) fields Hkeys) with (acc := a)
            as [sp [Hl2 [Hnds [Hs1 Hs2]]]].
          * intros fl Hfl Hsp. destruct (HF fl Hfl) as [_ [H2 H3]]. unfold sp_step. destruct (gf_name fl) as [|ch nm] eqn:En.
            { exact (H2 eq_refl). }
            { assert (Hn : gf_name fl <> []) by (rewrite En; discriminate). destruct (H3 ltac:(discriminate) Hsp) as [_ Hfill].
              assert (Hin : In (gf_json fl, (true, fl)) (all_of fields)) by (apply in_all_of; repeat split; assumption).
              specialize (Hm3 fl Hin). cbn [app] in Hm3. rewrite En in Hm3.
              destruct (assoc (gf_json fl) big) as [j|] eqn:Ej.
              - destruct Hm3 as [cp [Hcp Hac]]. rewrite Hac. apply Hfill. exact Hcp.
              - cbn [assoc] in Hm3. rewrite Hm3. apply Hfill. reflexivity. }
          * intros fl Hfl Hsp Hi. apply in_map_iff in Hi. destruct Hi as [[n0 y] [En Hi]]. cbn [fst] in En. subst n0.
            destruct (Hm1 _ _ Hi) as [fl2 [j2 [Hin2 [En2 _]]]]. apply in_all_of in Hin2. destruct Hin2 as [Hf2 [_ [Hn2 Hs2']]].
            assert (fl2 = fl) as -> by (apply Hkinj; try assumption; rewrite (field_key_named _ Hn2); exact En2). congruence.
          * rewrite Hl2. cbn [bind]. exists (a ++ sp). split; [reflexivity|]. split; [|split].
            { rewrite map_app. apply nodup_app; [exact Hnda | exact Hnds|]. intros k Hk1 Hk2.
              apply in_map_iff in Hk1. destruct Hk1 as [[n1 y1] [E1 Hi1]]. apply in_map_iff in Hk2. destruct Hk2 as [[n2 y2] [E2 Hi2]]. cbn [fst] in E1, E2. subst n1 n2.
              destruct (Hm1 _ _ Hi1) as [fl1 [j1 [Hin1 [En1 _]]]]. apply in_all_of in Hin1. destruct Hin1 as [Hf1 [_ [Hn1 Hsp1]]].
              destruct (Hs1 _ _ Hi2) as [fl2 [Hf2 [Hsp2 [En2 _]]]].
              assert (fl1 = fl2) as -> by (apply Hkinj; try assumption; rewrite (field_key_named _ Hn1), En1, En2; reflexivity). congruence. }
            { intros n0 x' Hi. apply in_app_or in Hi. destruct Hi as [Hi|Hi].
              - destruct (Hm1 _ _ Hi) as [fl1 [j1 [Hin1 [En1 [_ Hq]]]]]. apply in_all_of in Hin1. destruct Hin1 as [_ [_ [Hn1 _]]].
                exists fl1. split; [rewrite (field_key_named _ Hn1); exact En1 | exact Hq].
              - destruct (Hs1 _ _ Hi) as [fl2 [_ [_ [En2 Hq]]]]. exists fl2. split; assumption. }
            { intros fl Hfl. split.
              - intro Hsp. destruct (Hs2 fl Hfl Hsp) as [x' [Hi Hq]]. exists x'. split; [apply in_or_app; right; exact Hi | exact Hq].
              - intros Hsp j Hin. pose proof (special_false_named fl Hsp) as Hn.
                destruct (Hm2 fl j) as [x' [Hi Hq]]; [apply in_all_of; repeat split; assumption | exact Hin|].
                exists x'. split; [apply in_or_app; left; rewrite (field_key_named _ Hn); exact Hi | exact Hq]. }
      - (* plain encoding/json *)
        pose proof (existsb_false_forall _ _ Esn) as Hallsp.
        assert (Hnamed : forall fl, In fl fields -> gf_name fl <> []) by (intros fl Hfl; exact (special_false_named fl (Hallsp fl Hfl))).
        rewrite plain_struct_S. cbv zeta.
        destruct (obj_loop_lookup (fun t j c => decode tm true F t j c) (fun fl j x' => fq3 fs fl x') fields) with (kvs := big) (acc := @nil (str * gval))
          as [fs' [Hl [Hnd' [Hm1 Hm2]]]].
        + apply nodup_map_inj; [exact Hndf|]. intros a c0 Ha0 Hc0 E. apply Hjinj; try assumption; apply Hnamed; assumption.
        + apply nodup_map_inj; [exact Hndf|]. intros a c0 Ha0 Hc0 E. apply Hkinj; try assumption.
          rewrite (field_key_named _ (Hnamed a Ha0)), (field_key_named _ (Hnamed c0 Hc0)). exact E.
        + exact Hnamed.
        + exact Hndb.
        + intros k j Hin. destruct (Hkey k j Hin) as [[fl [Hfl [Hn [Ek Eas]]]] | Hmiss].
          * left. exists fl. split; [exact Hfl|]. split; [exact Ek|]. destruct (HF fl Hfl) as [H1 _]. exact (H1 (Hallsp fl Hfl) j Eas).
          * right. apply find_key_miss. intros t fl H. apply in_map_iff in H. destruct H as [fl0 [E Hfl0]]. injection E as <- <-. exact (Hmiss fl0 Hfl0 (Hnamed fl0 Hfl0)).
        + intros fl _ _ [].
        + cbn [app] in Hl. rewrite Hl. cbn [bind]. exists fs'. split; [reflexivity|]. split; [exact Hnd'|]. split.
          * intros n0 x' Hi. destruct (Hm1 _ _ Hi) as [fl [j [Hfl [En [_ Hq]]]]]. exists fl. split; [rewrite (field_key_named _ (Hnamed fl Hfl)); exact En | exact Hq].
          * intros fl Hfl. split; [intro Hsp; rewrite (Hallsp fl Hfl) in Hsp; discriminate Hsp|].
            intros _ j Hin. destruct (Hm2 fl j Hfl Hin) as [x' [Hi Hq]]. exists x'. split; [rewrite (field_key_named _ (Hnamed fl Hfl)); exact Hi | exact Hq]. }
    destruct Hrun as [fs' [Hdec [Hnd' [Hr1 Hr2]]]].
    exists (VStruct m fs'). split; [exists (S (S F)); exact Hdec|].
    apply (final_norm m fs fs' Hndfs Hnd' Hr1).
    intros n0 x Hin Hdr. destruct (Hall _ _ Hin) as [fl [Hfl [Ek [Hcx Hom]]]].
    pose proof (assoc_in_nodup _ _ _ Hndfs Hin) as Eas. rewrite <- Ek in Eas.
    destruct (Hr2 fl Hfl) as [Hsp1 Hsp0]. destruct (special fl) eqn:Esp.
    - destruct (Hsp1 eq_refl) as [x' [Hi Hq]]. exists x'. rewrite <- Ek. split; [exact Hi|]. unfold fq3 in Hq. rewrite Eas in Hq. exact Hq.
    - pose proof (special_false_named fl Esp) as Hn.
      assert (Hvt : vtype fl = gf_type fl) by (unfold vtype; destruct (gf_name fl); [exfalso; apply Hn; reflexivity | reflexivity]).
      pose proof (Hspec fl [] (Hown fl Hfl Hn)) as Hs. unfold entry_spec, entry_omitted in Hs. rewrite Esp, (entry_value_here _ fl Hn) in Hs.
      cbn [struct_field] in Hs. rewrite Eas in Hs.
      destruct (gf_omitempty fl && is_empty (gf_type fl) x) eqn:Eo.
      + apply andb_true_iff in Eo. destruct Eo as [Eo1 Eo2]. rewrite Hvt in Hcx.
        rewrite (is_empty_dropped3 (gf_type fl) x (or_introl Hcx) (Hom Eo1 eq_refl) Eo2) in Hdr. discriminate Hdr.
      + destruct Hs as [j [Ej _]]. destruct (Hsp0 eq_refl j (assoc_some_in _ _ _ Ej)) as [x' [Hi Hq]].
        exists x'. rewrite <- Ek. split; [exact Hi|]. unfold fq3 in Hq. rewrite Eas in Hq. exact Hq.
  Qed.

  Lemma encode_scalar_value f t j : scalar_type tm t = true -> encode tm (S f) t (VScalar j) = Ok j.
  Proof.
    intro Hs. rewrite encode_S. destruct t; try discriminate Hs; try reflexivity.
    cbn [scalar_type] in Hs. destruct (ref_shape ref) as [[[] rest]|]; try discriminate Hs. reflexivity.
  Qed.

  Lemma find_impl_first impl tn : forall impls,
    (forall i1 d1, In i1 impls -> assoc i1 tm = Some d1 -> decl_gql d1 = tn -> i1 = impl) ->
    In impl impls -> (exists d, assoc impl tm = Some d /\ decl_gql d = tn) -> find_impl tm impls tn = Some impl.
  Proof.
    unfold find_impl. induction impls as [|h r IH]; intros Hinj Hin Hd; [destruct Hin|]. cbn [find].
    destruct (assoc h tm) as [dh|] eqn:Eh.
    - destruct (str_eqb (decl_gql dh) tn) eqn:Eg.
      + apply str_eqb_eq in Eg. rewrite (Hinj h dh (or_introl eq_refl) Eh Eg). reflexivity.
      + destruct Hin as [->|Hin].
        * destruct Hd as [d [Hd1 Hd2]]. rewrite Hd1 in Eh. injection Eh as <-. rewrite Hd2, str_eqb_refl in Eg. discriminate.
        * apply IH; [intros i1 d1 Hi1; apply Hinj; right; exact Hi1 | exact Hin | exact Hd].
    - destruct Hin as [->|Hin].
      + destruct Hd as [d [Hd1 _]]. congruence.
      + apply IH; [intros i1 d1 Hi1; apply Hinj; right; exact Hi1 | exact Hin | exact Hd].
  Qed.

  Lemma sep_exact fields : resp_fields fields ->
    forall fl1 p1 fl2 p2, Reach tm fields fl1 p1 -> Reach tm fields fl2 p2 -> gf_json fl1 = gf_json fl2 -> (fl1, p1) = (fl2, p2).
  Proof. intros Hrf fl1 p1 fl2 p2 H1 H2 E. apply (rf_sep _ Hrf); try assumption. rewrite E. apply fold_eqb_refl. Qed.

  Lemma B3_step f0 : A3 f0 -> I3 f0 -> B3 (S f0).
  Proof.
    intros HA HI m g fields s i v kvs Hg Ha Hc He. exists f0. split; [reflexivity|].
    destruct (Hdecls m Hg) as [g' [fields' [s' [i' [Ha' Hrf]]]]]. rewrite Ha in Ha'. injection Ha' as <- <- <- <-.
    pose proof (encode_struct_keys_once _ _ _ _ _ He) as Hnd.
    rewrite encode_struct_S, Ha in He. destruct (rf_flat _ Hrf) as [flat Hflat]. rewrite Hflat, bind_Ok in He.
    pose proof (flattened_fields_reach tm fields flat Hflat (sep_exact fields Hrf)) as Hreach.
    pose proof (flattened_fields_one_per_json_name _ _ _ Hflat) as Hndj.
    split; [exact Hnd|]. split; [|split].
    - intros k Hk. apply (proj1 (enc_fields_keys _ _ _ _ _ He)) in Hk. apply in_map_iff in Hk. destruct Hk as [[fl p] [Ek Hin]].
      exists fl, p. split; [apply Hreach; exact Hin | exact Ek].
    - intros fl p Hr. apply (enc_fields_lookup _ _ _ flat kvs Hndj He). apply Hreach. exact Hr.
    - intros big Hndb Hclean Hspec. exact (decode_struct_big f0 HA HI (S (rk m)) m g fields s i v big (Nat.lt_succ_diag_r _) Hg Ha Hc Hndb Hclean Hspec).
  Qed.

  Lemma I3_step f : B3 f -> I3 (S f).
  Proof.
    intros HB i v j Hgi Hv He. rewrite encode_iface_S in He.
    destruct v as [| j0 | | x0 | | l | | impl x | n fs]; try (injection He as <-; reflexivity).
    destruct Hv as [Hv|Hv]; [|discriminate Hv]. cbn [cval3] in Hv.
    destruct Hv as [i0 [g [sh [impls [sel [E [Hai [Himpl [Hcx Htn]]]]]]]]]. injection E as <-.
    destruct (Hifaces i Hgi) as [g' [sh' [impls' [sel' [Hai' [Hok Hinj]]]]]]. rewrite Hai in Hai'. injection Hai' as <- <- <- <-.
    destruct (Hok impl Himpl) as [Hgood [gi [fields [s [ii [Haimpl [Hgne HT1]]]]]]].
    rewrite Hai, Haimpl, (existsb_str_in _ _ Himpl) in He.
    apply bind_ok in He. destruct He as [kvs [Hk He]]. injection He as <-. cbn [decl_gql].
    destruct (HB impl gi fields s ii x kvs Hgood Haimpl Hcx Hk) as [f0 [Ef [Hnd [Hown [Hspec Hdec]]]]].
    destruct (Hdecls impl Hgood) as [g2 [fields2 [s2 [i2 [Ha2 Hrf]]]]]. rewrite Haimpl in Ha2. injection Ha2 as <- <- <- <-.
    destruct (rf_flat _ Hrf) as [flat Hflat].
    pose proof (flattened_fields_reach tm fields flat Hflat (sep_exact fields Hrf)) as Hreach.
    set (rest := filter (fun kv => negb (str_eqb (fst kv) typename_name)) kvs).
    assert (Hrest : forall k y, In (k, y) rest -> In (k, y) kvs /\ k <> typename_name).
    { intros k y Hin. apply filter_In in Hin. destruct Hin as [Hin Hne]. split; [exact Hin|]. cbn [fst] in Hne.
      intro E. subst k. rewrite str_eqb_refl in Hne. discriminate Hne. }
    assert (Hrestfold : forall k y, In (k, y) rest -> fold_eqb k typename_name = false).
    { intros k y Hin. destruct (Hrest k y Hin) as [Hin' Hne].
      assert (Hk' : In k (map fst kvs)) by (apply in_map_iff; exists (k, y); split; [reflexivity | exact Hin']).
      destruct (Hown k Hk') as [fl [p [Hr Ej]]].
      destruct (fold_eqb k typename_name) eqn:Efk; [|reflexivity]. rewrite <- Ej in Efk. destruct (HT1 fl p Hr Efk) as [E _]. congruence. }
    split; [discriminate|].
    destruct (Hdec ((typename_name, JStr gi) :: rest)) as [v' [[f1 Hd] Hg]].
    - cbn [map fst]. constructor; [|apply nodup_filter_map; exact Hnd].
      intro Hi. apply in_map_iff in Hi. destruct Hi as [[k y] [Ek Hin]]. cbn [fst] in Ek. subst k. exact (proj2 (Hrest _ _ Hin) eq_refl).
    - intros k Hkk. cbn [map fst In] in Hkk. destruct Hkk as [<-|Hkk].
      + destruct (in_dec str_eq_dec typename_name (map (fun p => gf_json (fst p)) flat)) as [Hin|Hnin].
        * left. apply in_map_iff in Hin. destruct Hin as [[fl p] [Ej Hin]]. exists fl, p. split; [apply Hreach; exact Hin | exact Ej].
        * right. intros k' [fl' [p' [Hr' Ej']]]. destruct (fold_eqb k' typename_name) eqn:Efk; [|reflexivity].
          rewrite <- Ej' in Efk. destruct (HT1 fl' p' Hr' Efk) as [E _]. exfalso. apply Hnin. rewrite <- E.
          apply in_map_iff. exists (fl', p'). split; [reflexivity | apply Hreach; exact Hr'].
      + left. apply in_map_iff in Hkk. destruct Hkk as [[k0 y] [Ek Hin]]. cbn [fst] in Ek. subst k0. apply Hown.
        apply in_map_iff. exists (k, y). split; [reflexivity | exact (proj1 (Hrest _ _ Hin))].
    - intros fl p Hr. pose proof (Hspec fl p Hr) as Hs. unfold entry_spec in *.
      destruct (str_eq_dec (gf_json fl) typename_name) as [E|Hne].
      + assert (Efk : fold_eqb (gf_json fl) typename_name = true) by (rewrite E; apply fold_eqb_refl).
        destruct (HT1 fl p Hr Efk) as [_ [Hspf Hsc]].
        pose proof (Htn gi fields s ii fl p Haimpl Hr E) as Hval. fold (entry_value x fl p) in Hval.
        assert (Eo : entry_omitted x fl p = false).
        { unfold entry_omitted. rewrite Hspf, Hval. cbn [is_empty json_empty]. destruct gi; [exfalso; apply Hgne; reflexivity|]. apply andb_false_r. }
        rewrite Eo in Hs |- *. destruct Hs as [j0 [_ He0]]. exists (JStr gi). split; [rewrite E; cbn [assoc]; rewrite str_eqb_refl; reflexivity|].
        unfold entry_enc in He0 |- *. rewrite Hspf, Hval in He0 |- *. destruct f0 as [|f00]; [discriminate He0|].
        apply encode_scalar_value. exact Hsc.
      + assert (Eb : assoc (gf_json fl) ((typename_name, JStr gi) :: rest) = assoc (gf_json fl) kvs).
        { cbn [assoc]. destruct (str_eqb (gf_json fl) typename_name) eqn:E; [apply str_eqb_eq in E; contradiction|].
          apply assoc_filter_other. exact Hne. }
        rewrite Eb. exact Hs.
    - exists (S f1), (VIface impl v'). split; [|cbn [gnorm]; rewrite Hg; reflexivity].
      rewrite unmarshal_iface_S. cbn [scan_typename]. rewrite fold_eqb_refl.
      rewrite (scan_typename_absent rest gi Hrestfold). cbn [bind]. rewrite Hai.
      destruct gi as [|c gi']; [exfalso; apply Hgne; reflexivity|].
      rewrite (find_impl_first impl (c :: gi') impls).
      + rewrite Hd. reflexivity.
      + intros i1 d1 Hi1 Ha1 Hg1. apply (Hinj i1 impl d1 (DStruct (c :: gi') fields s ii)); try assumption.
      + exact Himpl.
      + exists (DStruct (c :: gi') fields s ii). split; [exact Haimpl | reflexivity].
  Qed.

  Lemma A3_step f : A3 f -> B3 f -> A3 (S f).
  Proof.
    intros HA HB t v j Ht Hv Hnz He.
    destruct t as [r g m u|n|n|n|n|e|e|r e].
    - destruct Ht as [Hs|[m' [E _]]]; [|discriminate E].
      destruct (scalar_rt3 f _ v j Hs Hv He) as [v' [Hd [Hg _]]]. exists v'. split; [exists (S f); exact Hd | exact Hg].
    - destruct Ht as [Hs|[m' [E _]]]; [|discriminate E].
      destruct (scalar_rt3 f _ v j Hs Hv He) as [v' [Hd [Hg _]]]. exists v'. split; [exists (S f); exact Hd | exact Hg].
    - destruct Ht as [Hs|[m' [E _]]]; [|discriminate E].
      destruct (scalar_rt3 f _ v j Hs Hv He) as [v' [Hd [Hg _]]]. exists v'. split; [exists (S f); exact Hd | exact Hg].
    - (* struct *)
      destruct Ht as [Hs|[m' [E Hg]]]; [discriminate Hs|]. injection E as <-.
      destruct Hv as [Hc|Hz]; [|exfalso; exact (Hnz Hz n eq_refl)].
      destruct (Hdecls n Hg) as [g [fields [s [i [Ha Hrf]]]]].
      rewrite encode_S in He. apply bind_ok in He. destruct He as [kvs [Hk He]]. injection He as <-.
      destruct (HB n g fields s i v kvs Hg Ha Hc Hk) as [f0 [_ [Hnd [Hown [Hspec Hdec]]]]].
      destruct (Hdec kvs Hnd (fun k Hkk => or_introl (Hown k Hkk)) Hspec) as [v' [Hd Hgn]].
      exists v'. cbn [zero_of]. split; [exact Hd|]. split; [intros _; exact Hgn|]. intros ->. discriminate Hc.
    - destruct Ht as [Hs|[m' [E _]]]; [discriminate Hs | discriminate E].
    - (* slice *)
      cbn [ptype] in Ht. rewrite encode_S in He.
      assert (Hcase : (exists l, v = VSlice l /\ forall x, In x l -> cval3 e x) \/
                      ((forall l, v <> VSlice l) /\ (cval3 (GSlice e) v -> v = VNilSlice))).
      { destruct Hv as [Hv| ->]; [|right; split; [intros l; discriminate | intro Hc; discriminate Hc]].
        destruct v as [| j0 | | x | | l | | impl x | n' fs]; cbn [cval3] in Hv.
        - discriminate Hv.
        - destruct Hv as [Hv _]. discriminate Hv.
        - destruct Hv as [e0 E]. discriminate E.
        - destruct Hv as [e0 [E _]]. discriminate E.
        - right. split; [intros l; discriminate | intros _; reflexivity].
        - left. exists l. split; [reflexivity|]. destruct (cval3_slice_inv _ _ Hv) as [e0 [E Hall]]. injection E as <-. exact Hall.
        - destruct Hv as [i0 E]. discriminate E.
        - destruct Hv as [i0 [g0 [sh [impls [sel [E _]]]]]]. discriminate E.
        - destruct Hv as [E _]. discriminate E. }
      destruct Hcase as [[l [-> Hall]]|[Hno Hnil]].
      + apply bind_ok in He. destruct He as [js [Hjs He]]. injection He as <-. apply map_res_ok_inv in Hjs.
        assert (H : exists F l', map_res (fun x => decode tm true F e x (zero_of e)) js = Ok l' /\ map gnorm l' = map gnorm l).
        { clear Hnz Hv. induction Hjs as [|y jy l js Hy _ IHl].
          - exists 0, []. split; reflexivity.
          - pose proof (Hall y (or_introl eq_refl)) as Hcy.
            destruct (HA e y jy Ht (or_introl Hcy)) as [y' [[f1 Hd] [Hg _]]]; [|exact Hy|].
            { intros -> m' E. subst e. discriminate Hcy. }
            destruct (IHl (fun z Hz => Hall z (or_intror Hz))) as [F [l' [Hds Hgs]]].
            exists (Nat.max f1 F), (y' :: l'). cbn [map_res map].
            rewrite (decode_lift _ _ _ (Nat.max f1 F) _ _ _ _ Hd (Nat.le_max_l _ _)). cbn [bind].
            assert (Hds' : map_res (fun x => decode tm true (Nat.max f1 F) e x (zero_of e)) js = Ok l').
            { clear -Hds. revert l' Hds. induction js as [|c0 cs IHc]; intros l' Hds; [exact Hds|]. cbn [map_res] in Hds |- *.
              apply bind_ok in Hds. destruct Hds as [a [Ha Hds]]. apply bind_ok in Hds. destruct Hds as [rest [Hrest Hds]]. injection Hds as <-.
              rewrite (decode_lift _ _ _ (Nat.max f1 F) _ _ _ _ Ha (Nat.le_max_r _ _)), (IHc _ Hrest). reflexivity. }
            rewrite Hds'. cbn [bind]. split; [reflexivity|]. rewrite (Hg Hcy), Hgs. reflexivity. }
        destruct H as [F [l' [Hds Hgs]]]. exists (VSlice l'). split; [exists (S F); rewrite decode_S, Hds; reflexivity|].
        split; [|discriminate]. intros _. cbn [gnorm]. rewrite Hgs. reflexivity.
      + assert (j = JNull) as -> by (destruct v; try (injection He as <-; reflexivity); exfalso; exact (Hno l eq_refl)).
        exists VNilSlice. split; [exists 1; reflexivity|]. split; [intro Hc; rewrite (Hnil Hc); reflexivity | intros _; reflexivity].
    - (* pointer *)
      cbn [ptype] in Ht. rewrite encode_S in He.
      assert (Hcase : (exists x, v = VPtr x /\ cval3 e x /\ (x = VZero -> scalar_kind tm e <> KAny)) \/
                      ((forall x, v <> VPtr x) /\ (cval3 (GPtr e) v -> v = VNilPtr))).
      { destruct Hv as [Hv| ->]; [|right; split; [intros l; discriminate | intro Hc; discriminate Hc]].
        destruct v as [| j0 | | x | | l | | impl x | n' fs]; cbn [cval3] in Hv.
        - discriminate Hv.
        - destruct Hv as [Hv _]. discriminate Hv.
        - right. split; [intros l; discriminate | intros _; reflexivity].
        - left. exists x. split; [reflexivity|]. destruct Hv as [e0 [E Hx]]. injection E as <-. exact Hx.
        - destruct Hv as [e0 [E _]]. discriminate E.
        - destruct Hv as [e0 [E _]]. discriminate E.
        - destruct Hv as [i0 E]. discriminate E.
        - destruct Hv as [i0 [g0 [sh [impls [sel [E _]]]]]]. discriminate E.
        - destruct Hv as [E _]. discriminate E. }
      destruct Hcase as [[x [-> [Hx Hk]]]|[Hno Hnil]].
      + assert (Hj : j <> JNull).
        { destruct f as [|f']; [discriminate He|]. destruct Ht as [Hs|[m' [-> Hg]]].
          - destruct (scalar_rt3 f' e x j Hs (or_introl Hx) He) as [_ [_ [_ H4]]]. exact (H4 Hk).
          - rewrite encode_S in He. destruct (encode_struct tm f' m' x); cbn [bind] in He; try discriminate He. injection He as <-. discriminate. }
        destruct (HA e x j (pbase_ptype _ _ _ Ht) (or_introl Hx)) as [x' [[f1 Hd] [Hg _]]]; [|exact He|].
        { intros -> m' E. subst e. discriminate Hx. }
        exists (VPtr x'). split; [exists (S f1); rewrite (decode_ptr_nonnull tm true f1 e j _ Hj); cbn [zero_of]; rewrite Hd; reflexivity|].
        split; [|discriminate]. intros _. cbn [gnorm]. rewrite (Hg Hx). reflexivity.
      + assert (j = JNull) as -> by (destruct v; try (injection He as <-; reflexivity); exfalso; exact (Hno v eq_refl)).
        exists VNilPtr. split; [exists 1; reflexivity|]. split; [intro Hc; rewrite (Hnil Hc); reflexivity | intros _; reflexivity].
    - destruct Ht as [Hs|[m' [E _]]]; [discriminate Hs | discriminate E].
  Qed.

  Lemma resp_all : forall f, A3 f /\ I3 f /\ B3 f.
  Proof.
    induction f as [|f [HA [HI HB]]].
    - split; [|split].
      + intros t v j _ _ _ He. discriminate He.
      + intros i v j _ _ He. discriminate He.
      + intros m g fields s i v kvs _ _ _ He. discriminate He.
    - split; [exact (A3_step f HA HB) | split; [exact (I3_step f HB) | exact (B3_step f HA HI)]].
  Qed.

  (* LEVEL 3.  If marshaling a canonical value of a response type returns a JSON value, then
     unmarshaling that JSON into the zero value succeeds (from some fuel on, with the same result)
     and gives a value with the same normal form. *)
  Theorem resp_roundtrip : forall f t v j,
    ptype tm good t -> cval3 t v -> encode tm f t v = Ok j ->
    exists f1 v', (forall f', f1 <= f' -> decode tm true f' t j (zero_of t) = Ok v') /\ gnorm v' = gnorm v.
  Proof.
    intros f t v j Ht Hc He. destruct (resp_all f) as [HA _].
    destruct (HA t v j Ht (or_introl Hc)) as [v' [[f1 Hd] [Hg _]]]; [|exact He|].
    - intros -> m E. subst t. discriminate Hc.
    - exists f1, v'. split; [intros f' Hle; exact (decode_lift _ _ _ _ _ _ _ _ Hd Hle) | exact (Hg Hc)].
  Qed.
End Resp.


(* ---- non-vacuity, Level 3 ---- *)
Lemma reach_cases tm fields fl p : Reach tm fields fl p ->
  (p = [] /\ In fl fields /\ gf_name fl <> [])
  \/ (exists e m1 g fs1 s i p', p = m1 :: p' /\ In e fields /\ gf_name e = [] /\ unwrap (gf_type e) = GStruct m1
        /\ assoc m1 tm = Some (DStruct g fs1 s i) /\ Reach tm fs1 fl p').
Proof.
  intro H. inversion H as [? ? Hi Hn | ? e m1 g fs1 s i ? p' Hi Hn Hu Ha Hr]; subst.
  - left. repeat split; assumption.
  - right. exists e, m1, g, fs1, s, i, p'. repeat split; assumption.
Qed.

(* enumerate the fields reachable from a concrete field list (embedding depth <= 2) *)
Ltac in_cases Hi := cbn [In] in Hi; repeat (destruct Hi as [<-|Hi]); try (destruct Hi).
Ltac reach_leaf H :=
  let Hi := fresh "Hi" in let Hn := fresh "Hn" in let Hr := fresh "Hr" in
  apply reach_cases in H;
  destruct H as [[-> [Hi Hn]] | [? [? [? [? [? [? [? [-> [Hi [Hn [_ [_ _]]]]]]]]]]]]];
  [ in_cases Hi; try (exfalso; apply Hn; reflexivity) | in_cases Hi; try (discriminate Hn) ].
Ltac reach_enum H :=
  let Hi := fresh "Hi" in let Hn := fresh "Hn" in let Hu := fresh "Hu" in let Ha := fresh "Ha" in let Hr := fresh "Hr" in
  apply reach_cases in H;
  destruct H as [[-> [Hi Hn]] | [? [? [? [? [? [? [? [-> [Hi [Hn [Hu [Ha Hr]]]]]]]]]]]]];
  [ in_cases Hi; try (exfalso; apply Hn; reflexivity)
  | in_cases Hi; try (discriminate Hn); cbn in Hu; injection Hu as <-; vm_compute in Ha; injection Ha as <- <- <- <-; reach_leaf Hr ].

Definition emb (m : str) : gofield := mkf [] (GStruct m) [] false.
Definition y_Q : list gofield :=
  [ mkf (b "Id") x_str (b "id") false; emb (b "Frag"); mkf (b "Owner") (GIface (b "Animal")) (b "owner") false;
    mkf (b "Meta") (GStruct (b "Meta")) (b "meta") false ].
Definition y_Frag : list gofield :=
  [ mkf (b "Name") x_str (b "name") false; mkf (b "Pets") (GSlice (GIface (b "Animal"))) (b "pets") false ].
Definition y_Dog : list gofield :=
  [ mkf (b "Typename") x_str (b "__typename") false; mkf (b "Barks") x_str (b "barks") false;
    mkf (b "Friends") (GSlice (GPtr (GStruct (b "Meta")))) (b "friends") false ].
Definition y_Cat : list gofield := [ mkf (b "Typename") x_str (b "__typename") false ].
Definition y_Meta : list gofield := [ mkf (b "Count") x_int (b "count") false ].
Definition y_tm : typemap :=
  [ (b "Q", DStruct (b "Query") y_Q [] false);
    (b "Frag", DStruct (b "Query") y_Frag [] false);
    (b "Animal", DIface (b "Animal") [] [b "Dog"; b "Cat"] []);
    (b "Dog", DStruct (b "Dog") y_Dog [] false);
    (b "Cat", DStruct (b "Cat") y_Cat [] false);
    (b "Meta", DStruct (b "Meta") y_Meta [] false) ].
Definition y_good (m : str) : Prop := m = b "Q" \/ m = b "Frag" \/ m = b "Dog" \/ m = b "Cat" \/ m = b "Meta".
Definition y_goodi (i : str) : Prop := i = b "Animal".
Definition y_dog : gval :=
  VStruct (b "Dog") [ (b "Friends", VSlice [VNilPtr; VPtr (VStruct (b "Meta") [(b "Count", VScalar (JNum 2 true))])]);
                      (b "Barks", VScalar (JStr (b "y"))); (b "Typename", VScalar (JStr (b "Dog"))) ].
Definition y_cat : gval := VStruct (b "Cat") [ (b "Typename", VScalar (JStr (b "Cat"))) ].
Definition y_v : gval :=
  VStruct (b "Q")
    [ (b "Frag", VStruct (b "Frag") [ (b "Pets", VSlice [VIface (b "Dog") y_dog; VNilIface; VIface (b "Cat") y_cat]);
                                      (b "Name", VScalar (JStr (b "n"))) ]);
      (b "Owner", VNilIface);
      (b "Meta", VStruct (b "Meta") []);
      (b "Id", VScalar (JStr (b "1"))) ].

Ltac sep_tac := intros fl1 p1 fl2 p2 H1 H2 Hf; reach_enum H1; reach_enum H2; try reflexivity; vm_compute in Hf; discriminate Hf.

Example y_decls : resp_decls y_tm y_good y_goodi.
Proof.
  intros m [-> | [-> | [-> | [-> | ->]]]].
  - exists (b "Query"), y_Q, [], false. split; [reflexivity|]. constructor.
    + intros fl H. unfold y_Q in H. in_cases H.
      * left. split; [reflexivity | left; reflexivity].
      * right. left. split; [reflexivity|]. exists (b "Frag"). split; [reflexivity | right; left; reflexivity].
      * right. right. split; [discriminate|]. exists 0, (b "Animal"). split; reflexivity.
      * left. split; [reflexivity|]. right. exists (b "Meta"). split; [reflexivity | do 4 right; reflexivity].
    + nodup_tac.
    + sep_tac.
    + eexists. vm_compute. reflexivity.
  - exists (b "Query"), y_Frag, [], false. split; [reflexivity|]. constructor.
    + intros fl H. unfold y_Frag in H. in_cases H.
      * left. split; [reflexivity | left; reflexivity].
      * right. right. split; [discriminate|]. exists 1, (b "Animal"). split; reflexivity.
    + nodup_tac.
    + sep_tac.
    + eexists. vm_compute. reflexivity.
  - exists (b "Dog"), y_Dog, [], false. split; [reflexivity|]. constructor.
    + intros fl H. unfold y_Dog in H. in_cases H.
      * left. split; [reflexivity | left; reflexivity].
      * left. split; [reflexivity | left; reflexivity].
      * left. split; [reflexivity|]. right. exists (b "Meta"). split; [reflexivity | do 4 right; reflexivity].
    + nodup_tac.
    + sep_tac.
    + eexists. vm_compute. reflexivity.
  - exists (b "Cat"), y_Cat, [], false. split; [reflexivity|]. constructor.
    + intros fl H. unfold y_Cat in H. in_cases H. left. split; [reflexivity | left; reflexivity].
    + nodup_tac.
    + sep_tac.
    + eexists. vm_compute. reflexivity.
  - exists (b "Meta"), y_Meta, [], false. split; [reflexivity|]. constructor.
    + intros fl H. unfold y_Meta in H. in_cases H. left. split; [reflexivity | left; reflexivity].
    + nodup_tac.
    + sep_tac.
    + eexists. vm_compute. reflexivity.
Qed.

Example y_ifaces : iface_decls y_tm y_good y_goodi.
Proof.
  intros i ->. exists (b "Animal"), [], [b "Dog"; b "Cat"], []. split; [reflexivity|]. split.
  - intros impl H. in_cases H.
    + split; [right; right; left; reflexivity|]. exists (b "Dog"), y_Dog, [], false. split; [reflexivity|]. split; [discriminate|].
      intros fl p Hr Hf. reach_enum Hr; try (vm_compute in Hf; discriminate Hf). repeat split; reflexivity.
    + split; [right; right; right; left; reflexivity|]. exists (b "Cat"), y_Cat, [], false. split; [reflexivity|]. split; [discriminate|].
      intros fl p Hr Hf. reach_enum Hr; try (vm_compute in Hf; discriminate Hf). repeat split; reflexivity.
  - intros i1 i2 d1 d2 H1 H2 Ha1 Ha2 Hg. in_cases H1; in_cases H2; try reflexivity;
      vm_compute in Ha1; vm_compute in Ha2; injection Ha1 as <-; injection Ha2 as <-; vm_compute in Hg; discriminate Hg.
Qed.

Definition y_rk (m : str) : nat := if str_eqb m (b "Q") then 1 else 0.
Example y_rank : forall m g fields s i e m1, y_good m -> assoc m y_tm = Some (DStruct g fields s i) ->
  In e fields -> gf_name e = [] -> unwrap (gf_type e) = GStruct m1 -> y_rk m1 < y_rk m.
Proof.
  intros m g fields s i e m1 Hg Ha He Hn Hu.
  destruct Hg as [-> | [-> | [-> | [-> | ->]]]]; vm_compute in Ha; injection Ha as <- <- <- <-;
    in_cases He; try discriminate Hn. cbn in Hu. injection Hu as <-. vm_compute. lia.
Qed.

Lemma y_typename_dog : typename_ok y_tm (b "Dog") y_dog.
Proof.
  intros g fields s i fl p Ha Hr Hj. vm_compute in Ha. injection Ha as <- <- <- <-.
  reach_enum Hr; try (vm_compute in Hj; discriminate Hj). reflexivity.
Qed.
Lemma y_typename_cat : typename_ok y_tm (b "Cat") y_cat.
Proof.
  intros g fields s i fl p Ha Hr Hj. vm_compute in Ha. injection Ha as <- <- <- <-.
  reach_enum Hr; try (vm_compute in Hj; discriminate Hj). reflexivity.
Qed.

Ltac must_tac := let fl := fresh "fl" in let H := fresh "H" in let Hm := fresh "Hm" in
  intros fl H Hm; in_cases H;
  try (vm_compute; tauto);
  exfalso; destruct Hm as [Hm | [[? Hm] | [Hm [? Hm']]]]; try discriminate Hm; try discriminate Hm'.

Example y_canonical : cval3 y_tm (GStruct (b "Q")) y_v.
Proof.
  unfold y_v. cbn [cval3]. split; [reflexivity|]. split; [nodup_tac|].
  exists (b "Query"), y_Q, [], false. split; [reflexivity|]. split; [|must_tac].
  split.
  { exists (emb (b "Frag")). split; [cbn; tauto|]. split; [reflexivity|]. split; [|discriminate].
    split; [reflexivity|]. split; [nodup_tac|]. exists (b "Query"), y_Frag, [], false. split; [reflexivity|]. split; [|must_tac].
    split.
    { exists (mkf (b "Pets") (GSlice (GIface (b "Animal"))) (b "pets") false). split; [cbn; tauto|]. split; [reflexivity|]. split; [|discriminate].
      exists (GIface (b "Animal")). split; [reflexivity|]. split; [|split; [|split; [|exact I]]].
      - exists (b "Animal"), (b "Animal"), [], [b "Dog"; b "Cat"], []. split; [reflexivity|]. split; [reflexivity|]. split; [cbn; tauto|].
        split; [|exact y_typename_dog].
        unfold y_dog. split; [reflexivity|]. split; [nodup_tac|]. exists (b "Dog"), y_Dog, [], false. split; [reflexivity|]. split; [|must_tac].
        split.
        { exists (mkf (b "Friends") (GSlice (GPtr (GStruct (b "Meta")))) (b "friends") false). split; [cbn; tauto|]. split; [reflexivity|]. split; [|discriminate].
          exists (GPtr (GStruct (b "Meta"))). split; [reflexivity|]. split; [exists (GStruct (b "Meta")); reflexivity|]. split; [|exact I].
          exists (GStruct (b "Meta")). split; [reflexivity|]. split; [|discriminate].
          split; [reflexivity|]. split; [nodup_tac|]. exists (b "Meta"), y_Meta, [], false. split; [reflexivity|]. split; [|must_tac].
          split; [|exact I]. exists (mkf (b "Count") x_int (b "count") false). split; [cbn; tauto|]. split; [reflexivity|]. split; [split; reflexivity | discriminate]. }
        split.
        { exists (mkf (b "Barks") x_str (b "barks") false). split; [cbn; tauto|]. split; [reflexivity|]. split; [split; reflexivity | discriminate]. }
        split; [|exact I].
        exists (mkf (b "Typename") x_str (b "__typename") false). split; [cbn; tauto|]. split; [reflexivity|]. split; [split; reflexivity | discriminate].
      - exists (b "Animal"). reflexivity.
      - exists (b "Animal"), (b "Animal"), [], [b "Dog"; b "Cat"], []. split; [reflexivity|]. split; [reflexivity|]. split; [cbn; tauto|].
        split; [|exact y_typename_cat].
        unfold y_cat. split; [reflexivity|]. split; [nodup_tac|]. exists (b "Cat"), y_Cat, [], false. split; [reflexivity|]. split; [|must_tac].
        split; [|exact I].
        exists (mkf (b "Typename") x_str (b "__typename") false). split; [cbn; tauto|]. split; [reflexivity|]. split; [split; reflexivity | discriminate]. }
    split; [|exact I].
    exists (mkf (b "Name") x_str (b "name") false). split; [cbn; tauto|]. split; [reflexivity|]. split; [split; reflexivity | discriminate]. }
  split.
  { exists (mkf (b "Owner") (GIface (b "Animal")) (b "owner") false). split; [cbn; tauto|]. split; [reflexivity|]. split; [|discriminate].
    exists (b "Animal"). reflexivity. }
  split.
  { exists (mkf (b "Meta") (GStruct (b "Meta")) (b "meta") false). split; [cbn; tauto|]. split; [reflexivity|]. split; [|discriminate].
    split; [reflexivity|]. split; [constructor|]. exists (b "Meta"), y_Meta, [], false. split; [reflexivity|]. split; [exact I | must_tac]. }
  split; [|exact I].
  exists (mkf (b "Id") x_str (b "id") false). split; [cbn; tauto|]. split; [reflexivity|]. split; [split; reflexivity | discriminate].
Qed.

(* the theorem applies to this value, and this is the JSON it goes through (`__typename` first
   in each concrete object, the embedded fragment's keys after the struct's own) *)
Example resp_roundtrip_example :
  exists j, encode y_tm 12 (GStruct (b "Q")) y_v = Ok j
    /\ (exists f1 v', (forall f', f1 <= f' -> decode y_tm true f' (GStruct (b "Q")) j (VStruct (b "Q") []) = Ok v') /\ gnorm v' = gnorm y_v)
    /\ j = JObj [(b "id", JStr (b "1")); (b "owner", JNull); (b "meta", JObj [(b "count", JNum 0 true)]);
                 (b "name", JStr (b "n"));
                 (b "pets", JArr [JObj [(b "__typename", JStr (b "Dog")); (b "barks", JStr (b "y"));
                                        (b "friends", JArr [JNull; JObj [(b "count", JNum 2 true)]])];
                                  JNull;
                                  JObj [(b "__typename", JStr (b "Cat"))]])].
Proof.
  eexists. split; [vm_compute; reflexivity|]. split; [|reflexivity].
  apply (resp_roundtrip y_tm y_good y_goodi y_decls y_ifaces y_rk y_rank 12 (GStruct (b "Q")) y_v).
  - right. exists (b "Q"). split; [reflexivity | left; reflexivity].
  - exact y_canonical.
  - vm_compute. reflexivity.
Qed.

(* REFUTED (hence excluded by [rf_sep]): an outer key and an embedded fragment's key that differ
   only by case.  The value is one unmarshaling produces (from `{"ID": "U", "id": null}`): the
   outer pointer field was reset by the folded match of "id"; after re-marshaling, "id" carries
   the fragment's value and the folded match fills the pointer instead. *)
Theorem embedded_case_collision_refuted :
  exists tm n j0 j v v',
    redecode tm (GStruct n) n j0 = Ok (j, v, v')
    /\ gval_eqb (gnorm v') (gnorm v) = false /\ gnorm v' <> gnorm v
    /\ tm = [ (b "Q", DStruct (b "Query") [mkf (b "UpperID") (GPtr x_str) (b "ID") false; emb (b "Frag")] [] false);
              (b "Frag", DStruct (b "Query") [mkf (b "LowerID") x_str (b "id") false] [] false) ]
    /\ j0 = JObj [(b "ID", JStr (b "U")); (b "id", JNull)]
    /\ j = JObj [(b "ID", JNull); (b "id", JStr (b "U"))]
    /\ v = VStruct n [(b "UpperID", VNilPtr); (b "Frag", VStruct (b "Frag") [(b "LowerID", VScalar (JStr (b "U")))])]
    /\ v' = VStruct n [(b "UpperID", VPtr (VScalar (JStr (b "U")))); (b "Frag", VStruct (b "Frag") [(b "LowerID", VScalar (JStr (b "U")))])].
Proof.
  eexists. exists (b "Q"). eexists. eexists. eexists. eexists.
  split; [|split; [|split; [|split; [reflexivity|split; [reflexivity|split; [reflexivity|split; reflexivity]]]]]].
  - vm_compute. reflexivity.
  - vm_compute. reflexivity.
  - vm_compute. discriminate.
Qed.

(* REFUTED (hence excluded by [rf_sep]): an embedded fragment struct that shares a key with the
   outer struct, with a different nullability.  FlattenedFields marshals the outer field only;
   `{"id": null}` gives "" outside and a nil pointer inside, `"id": ""` comes back as a non-nil
   pointer inside. *)
Theorem embedded_shared_key_refuted :
  exists tm n j0 j v v',
    redecode tm (GStruct n) n j0 = Ok (j, v, v')
    /\ gval_eqb (gnorm v') (gnorm v) = false /\ gnorm v' <> gnorm v
    /\ tm = [ (b "Q", DStruct (b "Query") [mkf (b "Id") x_str (b "id") false; emb (b "Frag")] [] false);
              (b "Frag", DStruct (b "Query") [mkf (b "Id") (GPtr x_str) (b "id") false] [] false) ]
    /\ j0 = JObj [(b "id", JNull)]
    /\ j = JObj [(b "id", JStr [])]
    /\ v = VStruct n [(b "Id", VZero); (b "Frag", VStruct (b "Frag") [(b "Id", VNilPtr)])]
    /\ v' = VStruct n [(b "Id", VScalar (JStr [])); (b "Frag", VStruct (b "Frag") [(b "Id", VPtr (VScalar (JStr [])))])].
Proof.
  eexists. exists (b "Q"). eexists. eexists. eexists. eexists.
  split; [|split; [|split; [|split; [reflexivity|split; [reflexivity|split; [reflexivity|split; reflexivity]]]]]].
  - vm_compute. reflexivity.
  - vm_compute. reflexivity.
  - vm_compute. discriminate.
Qed.

(* ========================================================================================== *)
(* C06 in its informal form, for plain (input) types: a value OBTAINED BY UNMARSHALING is      *)
(* canonical, hence marshaling it and unmarshaling the result gives it back                    *)
(* ========================================================================================== *)
Lemma put_kv_in {A} (l : list (str * A)) k x k' x' : In (k', x') (put_kv l k x) -> (k', x') = (k, x) \/ In (k', x') l.
Proof.
  induction l as [|[k0 y] r IH]; cbn [put_kv]; intro H.
  - destruct H as [H|[]]. left. symmetry. exact H.
  - destruct (str_eqb k0 k).
    + destruct H as [H|H]; [left; symmetry; exact H | right; right; exact H].
    + destruct H as [H|H]; [right; left; exact H|]. destruct (IH H) as [E|Hin]; [left; exact E | right; right; exact Hin].
Qed.

Lemma put_kv_nodup {A} (l : list (str * A)) k x : NoDup (map fst l) -> NoDup (map fst (put_kv l k x)).
Proof.
  induction l as [|[k0 y] r IH]; cbn [put_kv map fst]; intro H; [repeat constructor; intros []|].
  inversion H as [|? ? Hnotin Hnd]; subst. destruct (str_eqb k0 k) eqn:E.
  - apply str_eqb_eq in E. subst. cbn [map fst]. constructor; assumption.
  - cbn [map fst]. constructor; [|exact (IH Hnd)]. intro Hi. apply in_map_iff in Hi. destruct Hi as [[k1 y1] [Ek Hi]]. cbn [fst] in Ek. subst k1.
    destruct (put_kv_in _ _ _ _ _ Hi) as [E'|Hin].
    + injection E' as -> _. rewrite str_eqb_refl in E. discriminate.
    + apply Hnotin. apply in_map_iff. exists (k0, y1). split; [reflexivity | exact Hin].
Qed.

Section Obtained.
  Variable tm : typemap.
  Variable w : bool.
  Variable good : str -> Prop.
  Hypothesis Hdecls : plain_decls tm good.

  (* no map-kinded scalar (a decoded map is outside [fits]) *)
  Fixpoint noany (t : gotype) : Prop :=
    match t with GSlice e | GPtr e => noany e | GStruct _ => True | other => scalar_kind tm other <> KAny end.
  (* no omitempty on a slice-typed field: excludes [omitempty_empty_slice_refuted] by TYPE *)
  Definition strict_decls : Prop :=
    forall m g fields s i, good m -> assoc m tm = Some (DStruct g fields s i) ->
      forall fl, In fl fields -> noany (gf_type fl) /\ (gf_omitempty fl = true -> forall e, gf_type fl <> GSlice e).
  Hypothesis Hstrict : strict_decls.

  Lemma cval_slice_intro e l : (forall x, In x l -> cval tm e x) -> cval tm (GSlice e) (VSlice l).
  Proof.
    intro H. cbn [cval]. exists e. split; [reflexivity|]. induction l as [|x r IH]; [exact I|].
    split; [apply H; left; reflexivity | apply IH; intros y Hy; apply H; right; exact Hy].
  Qed.

  Definition fs_ok (fields : list gofield) (fs : list (str * gval)) : Prop :=
    NoDup (map fst fs) /\ forall k x, In (k, x) fs -> exists fl, In fl fields /\ gf_name fl = k /\ cval tm (gf_type fl) x
                                             /\ (gf_omitempty fl = true -> x <> VSlice []).

  Lemma cval_struct_intro m g fields s i fs : assoc m tm = Some (DStruct g fields s i) -> fs_ok fields fs -> cval tm (GStruct m) (VStruct m fs).
  Proof.
    intros Ha [Hnd H]. cbn [cval]. split; [reflexivity|]. split; [exact Hnd|]. exists g, fields, s, i. split; [exact Ha|]. clear Hnd.
    induction fs as [|[k x] r IH]; [exact I|]. split; [apply H; left; reflexivity | apply IH; intros k' x' Hin; apply H; right; exact Hin].
  Qed.

  Lemma cval_struct_fs m g fields s i v : assoc m tm = Some (DStruct g fields s i) -> cval tm (GStruct m) v ->
    fs_ok fields (match v with VStruct _ fs => fs | _ => [] end).
  Proof.
    intros Ha Hc. destruct v as [| j | | x | | l | | impl x | n fs]; cbn [cval] in Hc.
    1: discriminate Hc.
    1: destruct Hc as [Hc _]; discriminate Hc.
    1: destruct Hc as [e E]; discriminate E.
    1: destruct Hc as [e [E _]]; discriminate E.
    1: destruct Hc as [e E]; discriminate E.
    1: destruct Hc as [e [E _]]; discriminate E.
    1: destruct Hc.
    1: destruct Hc.
    destruct (cval_struct_inv _ _ _ _ Hc) as [E [Hnd [g2 [fields2 [s2 [i2 [Ha2 Hall]]]]]]]. injection E as <-.
    rewrite Ha in Ha2. injection Ha2 as <- <- <- <-. split; assumption.
  Qed.

  Lemma zero_cval t : ptype tm good t -> cval tm t (zero_of t).
  Proof.
    intro Ht. destruct t as [r g m u|n|n|n|n|e|e|r e]; cbn [zero_of cval].
    1-3: (destruct Ht as [Hs|[m' [E _]]]; [exact Hs | discriminate E]).
    - destruct Ht as [Hs|[m' [E Hg]]]; [discriminate Hs|]. injection E as <-.
      destruct (Hdecls n Hg) as [g [fields [s [i [Ha _]]]]]. split; [reflexivity|]. split; [constructor|]. exists g, fields, s, i. split; [exact Ha | exact I].
    - destruct Ht as [Hs|[m' [E _]]]; [discriminate Hs | discriminate E].
    - exists e. reflexivity.
    - exists e. reflexivity.
    - destruct Ht as [Hs|[m' [E _]]]; [discriminate Hs | discriminate E].
  Qed.

  Lemma decode_scalar_cval t j cur v : scalar_type tm t = true -> scalar_kind tm t <> KAny -> cval tm t cur ->
    decode_scalar (scalar_kind tm t) j cur = Ok v -> cval tm t v.
  Proof.
    intros Hs Hk Hc H. destruct (scalar_kind tm t) eqn:Ek; try (exfalso; apply Hk; reflexivity);
      destruct j as [| bb | id integral | str0 | l | l]; cbn [decode_scalar] in H; try discriminate H;
      try (injection H as <-; exact Hc); try (injection H as <-; cbn [cval]; rewrite Ek; split; [exact Hs | reflexivity]).
    destruct integral; [injection H as <-; cbn [cval]; rewrite Ek; split; [exact Hs | reflexivity] | discriminate H].
  Qed.

  Section ObjInv.
    Variable dec : gotype -> jval -> gval -> res gval.
    Variable fields : list gofield.
    Hypothesis Hpf : plain_fields tm good fields.
    Hypothesis Hsf : forall fl, In fl fields -> noany (gf_type fl) /\ (gf_omitempty fl = true -> forall e, gf_type fl <> GSlice e).
    Hypothesis Hdec : forall fl j cur x, In fl fields -> cval tm (gf_type fl) cur -> dec (gf_type fl) j cur = Ok x -> cval tm (gf_type fl) x.

    Lemma obj_loop_inv : forall kvs acc fs, fs_ok fields acc ->
      obj_loop dec (map (fun fl => (gf_json fl, fl)) fields) kvs acc = Ok fs -> fs_ok fields fs.
    Proof.
      induction kvs as [|[k j] r IH]; intros acc fs Hacc H; cbn [obj_loop] in H; [injection H as <-; exact Hacc|].
      destruct (find_key _ k) as [n|]; [|exact (IH _ _ Hacc H)].
      destruct (nth_error _ n) as [[s0 fl]|] eqn:En; [|exact (IH _ _ Hacc H)].
      apply nth_error_In in En. apply in_map_iff in En. destruct En as [fl0 [E Hfl]]. injection E as _ ->.
      apply bind_ok in H. destruct H as [x [Hx H]]. apply at_field_ok in Hx.
      pose proof (special_false_named fl (pf_plain _ _ _ Hpf fl Hfl)) as Hn. rewrite (field_key_named fl Hn) in Hx, H.
      assert (Hcur : cval tm (gf_type fl) (get_field acc (gf_name fl) (zero_of (gf_type fl)))).
      { unfold get_field. destruct (assoc (gf_name fl) acc) as [c|] eqn:Ea; [|apply zero_cval, (pf_type _ _ _ Hpf fl Hfl)].
        destruct (proj2 Hacc _ _ (assoc_some_in _ _ _ Ea)) as [fl1 [Hfl1 [En1 [Hc1 _]]]].
        rewrite (nodup_keys_inj gf_name fields (pf_names _ _ _ Hpf) fl1 fl Hfl1 Hfl En1) in Hc1. exact Hc1. }
      pose proof (Hdec fl j _ x Hfl Hcur Hx) as Hcx.
      apply (IH (put_field acc (gf_name fl) x) fs); [|exact H]. split; [exact (put_kv_nodup acc _ x (proj1 Hacc))|].
      intros k' x' Hin. unfold put_field in Hin. destruct (put_kv_in _ _ _ _ _ Hin) as [E|Hin'].
      - injection E as -> ->. exists fl. repeat split; try assumption. intros Ho ->.
        destruct (cval_slice_inv _ _ _ Hcx) as [e [Et _]]. exact (proj2 (Hsf fl Hfl) Ho e Et).
      - exact (proj2 Hacc _ _ Hin').
    Qed.
  End ObjInv.

  (* decoding into a canonical start value gives a canonical value *)
  Lemma decode_cval : forall f,
    (forall t j cur v, ptype tm good t -> noany t -> cval tm t cur -> decode tm w f t j cur = Ok v -> cval tm t v)
    /\ (forall m g fields s i j cur v, good m -> assoc m tm = Some (DStruct g fields s i) -> cval tm (GStruct m) cur ->
          plain_struct tm w f m (map (fun fl => (gf_json fl, fl)) fields) j cur = Ok v -> cval tm (GStruct m) v).
  Proof.
    induction f as [|f [IHd IHp]]; [split; intros; discriminate|]. split.
    - intros t j cur v Ht Hna Hc H. rewrite decode_S in H.
      destruct t as [r g m u|n|n|n|n|e|e|r e].
      + destruct Ht as [Hs|[m' [E _]]]; [|discriminate E]. pose proof Hs as Hs'. cbn [scalar_type] in Hs'.
        destruct (ref_shape r) as [[[] rest]|]; try discriminate Hs'. exact (decode_scalar_cval _ j cur v Hs Hna Hc H).
      + destruct Ht as [Hs|[m' [E _]]]; [|discriminate E]. exact (decode_scalar_cval _ j cur v Hs Hna Hc H).
      + destruct Ht as [Hs|[m' [E _]]]; [|discriminate E]. exact (decode_scalar_cval _ j cur v Hs Hna Hc H).
      + destruct Ht as [Hs|[m' [E Hg]]]; [discriminate Hs|]. injection E as <-.
        destruct (Hdecls n Hg) as [g [fields [s [i [Ha Hpf]]]]]. rewrite Ha, (existsb_special_false fields (pf_plain _ _ _ Hpf)) in H.
        exact (IHp n g fields s i j cur v Hg Ha Hc H).
      + destruct Ht as [Hs|[m' [E _]]]; [discriminate Hs | discriminate E].
      + cbn [ptype noany] in Ht, Hna. destruct j as [| bb | id integral | str0 | l | l]; try discriminate H.
        * injection H as <-. exists e. reflexivity.
        * apply bind_ok in H. destruct H as [vs [Hvs H]]. injection H as <-. apply cval_slice_intro.
          intros x Hx. destruct (map_res_in _ _ _ Hvs x Hx) as [jx [_ Hd]]. exact (IHd e jx _ x Ht Hna (zero_cval e Ht) Hd).
      + cbn [ptype noany] in Ht, Hna.
        assert (Hcur : cval tm e (match cur with VPtr y => y | _ => zero_of e end)).
        { destruct cur; try (apply zero_cval, pbase_ptype, Ht). cbn [cval] in Hc. destruct Hc as [e0 [E [Hy _]]]. injection E as <-. exact Hy. }
        assert (Hres : forall x, j <> JNull -> decode tm w f e j (match cur with VPtr y => y | _ => zero_of e end) = Ok x -> cval tm (GPtr e) (VPtr x)).
        { intros x Hj Hd. cbn [cval]. exists e. split; [reflexivity|]. split; [exact (IHd e j _ x (pbase_ptype _ _ _ Ht) Hna Hcur Hd)|].
          intros _. destruct e; cbn [noany] in Hna; try exact Hna; cbn; discriminate. }
        destruct j as [| bb | id integral | str0 | l | l]; [injection H as <-; exists e; reflexivity| | | | |];
          (apply bind_ok in H; destruct H as [x [Hd H]]; injection H as <-; apply Hres; [discriminate | exact Hd]).
      + destruct Ht as [Hs|[m' [E _]]]; [discriminate Hs | discriminate E].
    - intros m g fields s i j cur v Hg Ha Hc H. rewrite plain_struct_S in H. cbv zeta in H.
      destruct (Hdecls m Hg) as [g' [fields' [s' [i' [Ha' Hpf]]]]]. rewrite Ha in Ha'. injection Ha' as <- <- <- <-.
      destruct j as [| bb | id integral | str0 | l | l]; try discriminate H; [injection H as <-; exact Hc|].
      apply bind_ok in H. destruct H as [fs [Hfs H]]. injection H as <-.
      apply (cval_struct_intro m g fields s i fs Ha).
      apply (obj_loop_inv (fun t j c => decode tm w f t j c) fields Hpf (Hstrict m g fields s i Hg Ha)) with (kvs := l) (acc := match cur with VStruct _ fs0 => fs0 | _ => [] end).
      + intros fl j0 cur0 x Hfl Hc0 Hd. exact (IHd _ j0 cur0 x (pf_type _ _ _ Hpf fl Hfl) (proj1 (Hstrict m g fields s i Hg Ha fl Hfl)) Hc0 Hd).
      + exact (cval_struct_fs m g fields s i cur Ha Hc).
      + exact Hfs.
  Qed.

  (* C06 for plain types, end to end: every value obtained by unmarshaling (into the zero value)
     marshals to a JSON value from which unmarshaling gives a value with the same normal form *)
  Theorem obtained_roundtrip : forall t j0 f0 v f,
    ptype tm good t -> noany t ->
    decode tm w f0 t j0 (zero_of t) = Ok v ->
    encode tm f t v <> OutOfFuel ->
    exists j v', encode tm f t v = Ok j /\ decode tm w f t j (zero_of t) = Ok v' /\ gnorm v' = gnorm v.
  Proof.
    intros t j0 f0 v f Ht Hna Hd He.
    apply (plain_roundtrip tm w good Hdecls f t v Ht); [|exact He].
    exact (proj1 (decode_cval f0) t j0 _ v Ht Hna (zero_cval t Ht) Hd).
  Qed.
End Obtained.

(* non-vacuity: the Level 2 type map without omitempty on its list field; a JSON document with
   keys in another order, a missing key, nulls and a duplicate key *)
Definition x3_inner : list gofield :=
  [ mkf (b "X") x_int (b "x") false; mkf (b "Y") (GSlice (GPtr x_str)) (b "y") false ].
Definition x3_tm : typemap :=
  [ (b "Outer", DStruct (b "Outer") x2_outer [] true); (b "Inner", DStruct (b "Inner") x3_inner [] true) ].
Definition x3_j0 : jval :=
  JObj [ (b "list", JArr [JObj [(b "y", JArr [JNull; JStr (b "s")]); (b "x", JNum 3 true)]; JObj []; JNull]);
         (b "NAME", JStr (b "folded"));
         (b "rec", JObj [(b "name", JNull); (b "inner", JObj [(b "x", JNull)])]);
         (b "name", JStr (b "exact"));
         (b "ptr", JNull) ].

Example x3_decls : plain_decls x3_tm x2_good.
Proof.
  intros m [-> | ->].
  - exists (b "Outer"), x2_outer, [], true. split; [reflexivity|]. constructor.
    + intros fl H. repeat (destruct H as [<-|H]; [reflexivity|]). destruct H.
    + intros fl H. unfold x2_outer in H.
      destruct H as [<-|H]; [left; reflexivity|].
      destruct H as [<-|H]; [right; exists (b "Inner"); split; [reflexivity | right; reflexivity]|].
      destruct H as [<-|H]; [right; exists (b "Inner"); split; [reflexivity | right; reflexivity]|].
      destruct H as [<-|H]; [right; exists (b "Inner"); split; [reflexivity | right; reflexivity]|].
      destruct H as [<-|H]; [right; exists (b "Outer"); split; [reflexivity | left; reflexivity]|].
      destruct H.
    + nodup_tac.
    + nodup_tac.
    + apply Nat.ltb_lt. vm_compute. reflexivity.
  - exists (b "Inner"), x3_inner, [], true. split; [reflexivity|]. constructor.
    + intros fl H. repeat (destruct H as [<-|H]; [reflexivity|]). destruct H.
    + intros fl H. unfold x3_inner in H.
      destruct H as [<-|H]; [left; reflexivity|].
      destruct H as [<-|H]; [left; reflexivity|].
      destruct H.
    + nodup_tac.
    + nodup_tac.
    + apply Nat.ltb_lt. vm_compute. reflexivity.
Qed.

Example x3_strict : strict_decls x3_tm x2_good.
Proof.
  intros m g fields s i [-> | ->] Ha fl Hfl; vm_compute in Ha; injection Ha as <- <- <- <-.
  - unfold x2_outer in Hfl. in_cases Hfl; (split; [cbn; try exact I; discriminate | intros Ho e E; try discriminate Ho; discriminate E]).
  - unfold x3_inner in Hfl. in_cases Hfl; (split; [cbn; try exact I; discriminate | intros Ho e E; try discriminate Ho; discriminate E]).
Qed.

Example obtained_roundtrip_example :
  exists v, decode x3_tm true 12 (GStruct (b "Outer")) x3_j0 (VStruct (b "Outer") []) = Ok v
    /\ (exists j v', encode x3_tm 12 (GStruct (b "Outer")) v = Ok j
          /\ decode x3_tm true 12 (GStruct (b "Outer")) j (VStruct (b "Outer") []) = Ok v' /\ gnorm v' = gnorm v)
    /\ v = VStruct (b "Outer")
             [ (b "List", VSlice [ VStruct (b "Inner") [(b "Y", VSlice [VNilPtr; VPtr (VScalar (JStr (b "s")))]); (b "X", VScalar (JNum 3 true))];
                                   VStruct (b "Inner") []; VStruct (b "Inner") [] ]);
               (b "Name", VScalar (JStr (b "exact")));
               (b "Rec", VPtr (VStruct (b "Outer") [(b "Name", VZero); (b "Inner", VStruct (b "Inner") [(b "X", VZero)])]));
               (b "Ptr", VNilPtr) ].
Proof.
  eexists. split; [vm_compute; reflexivity|]. split; [|reflexivity].
  apply (obtained_roundtrip x3_tm true x2_good x3_decls x3_strict (GStruct (b "Outer")) x3_j0 12).
  - right. exists (b "Outer"). split; [reflexivity | left; reflexivity].
  - exact I.
  - vm_compute. reflexivity.
  - vm_compute. discriminate.
Qed.

(* ========================================================================================== *)
(* Level 3, continued: marshaling a canonical value of a response type never fails            *)
(* ========================================================================================== *)
Lemma map_res_ok_of_defined {A B} (e : A -> res B) : forall l,
  (forall x, In x l -> defined (e x) -> exists j, e x = Ok j) -> defined (map_res e l) -> exists js, map_res e l = Ok js.
Proof.
  induction l as [|x r IH]; intros H Hd; [exists []; reflexivity|]. cbn [map_res] in Hd |- *.
  destruct (H x (or_introl eq_refl) (bind_defined _ _ Hd)) as [j Hj]. rewrite Hj in Hd |- *. cbn [bind] in Hd |- *.
  destruct (IH (fun y Hy => H y (or_intror Hy)) (bind_defined _ _ Hd)) as [js Hjs]. rewrite Hjs. cbn [bind]. eexists. reflexivity.
Qed.

Lemma reach_named tm fields fl p : Reach tm fields fl p -> gf_name fl <> [].
Proof. induction 1; assumption. Qed.

Section RespEnc.
  Variable tm : typemap.
  Variable good : str -> Prop.
  Variable goodi : str -> Prop.
  Hypothesis Hdecls : resp_decls tm good goodi.
  Hypothesis Hifaces : iface_decls tm good goodi.

  (* the value of every reachable field of a canonical struct value is canonical for its type,
     or the field is not listed (and may be left out) *)
  Lemma entry_cval : forall fields fl p, Reach tm fields fl p ->
    forall m g s i v, good m -> assoc m tm = Some (DStruct g fields s i) -> cval3 tm (GStruct m) v ->
    (cval3 tm (gf_type fl) (entry_value v fl p) \/ (entry_value v fl p = VZero /\ ~ must_list fl)) /\ fld_ok tm good goodi fl.
  Proof.
    induction 1 as [fields fl Hin Hn | fields e m1 g1 fs1 s1 i1 fl p Hin Hn Hu Ha1 Hr IH]; intros m g s i v Hg Ha Hc.
    - destruct (Hdecls m Hg) as [g' [fields' [s' [i' [Ha' Hrf]]]]]. rewrite Ha in Ha'. injection Ha' as <- <- <- <-.
      split; [|exact (rf_ok _ _ _ _ Hrf fl Hin)].
      destruct (cval3_at_struct tm m v Hc) as [fs ->].
      destruct (cval3_struct_inv tm _ _ _ Hc) as [_ [Hnd [g2 [fields2 [s2 [i2 [Ha2 [Hall Hmust]]]]]]]]. rewrite Ha in Ha2. injection Ha2 as <- <- <- <-.
      rewrite (entry_value_here _ fl Hn). cbn [struct_field].
      destruct (assoc (field_key fl) fs) as [x|] eqn:Ea.
      + left. destruct (Hall _ _ (assoc_some_in _ _ _ Ea)) as [fl0 [Hfl0 [Ek [Hcx _]]]].
        rewrite (nodup_keys_inj field_key fields (rf_keys _ _ _ _ Hrf) fl0 fl Hfl0 Hin Ek) in Hcx.
        unfold vtype in Hcx. destruct (gf_name fl); [exfalso; apply Hn; reflexivity | exact Hcx].
      + right. split; [reflexivity|]. intro Hm. destruct (assoc_in_keys _ _ (Hmust fl Hin Hm)) as [x Hx]. congruence.
    - destruct (Hdecls m Hg) as [g' [fields' [s' [i' [Ha' Hrf]]]]]. rewrite Ha in Ha'. injection Ha' as <- <- <- <-.
      destruct (cval3_at_struct tm m v Hc) as [fs ->].
      destruct (cval3_struct_inv tm _ _ _ Hc) as [_ [Hnd [g2 [fields2 [s2 [i2 [Ha2 [Hall Hmust]]]]]]]]. rewrite Ha in Ha2. injection Ha2 as <- <- <- <-.
      assert (Hg1 : good m1).
      { destruct (rf_ok _ _ _ _ Hrf e Hin) as [[Hsp _] | [[_ [m' [Hu' Hg']]] | [Hn' _]]].
        - rewrite (special_embedded e Hn) in Hsp. discriminate Hsp.
        - rewrite Hu in Hu'. injection Hu' as <-. exact Hg'.
        - contradiction. }
      pose proof (field_key_embedded e m1 Hn Hu) as Ek.
      destruct (assoc_in_keys _ _ (Hmust e Hin (or_introl Hn))) as [x1 Ex1]. rewrite Ek in Ex1.
      destruct (Hall _ _ (assoc_some_in _ _ _ Ex1)) as [e0 [He0 [Ek0 [Hcx _]]]]. rewrite <- Ek in Ek0.
      rewrite (nodup_keys_inj field_key fields (rf_keys _ _ _ _ Hrf) e0 e He0 Hin Ek0) in Hcx.
      unfold vtype in Hcx. rewrite Hn, Hu in Hcx.
      rewrite (entry_value_emb m fs m1 x1 fl p Ex1). exact (IH m1 g1 s1 i1 x1 Hg1 Ha1 Hcx).
  Qed.

  Lemma enc_levels_ok i (leaf : gval -> res jval) :
    (forall y, cval3 tm (GIface i) y \/ y = VZero -> defined (leaf y) -> exists j, leaf y = Ok j) ->
    forall k x, cval3 tm (slices k (GIface i)) x \/ (k = 0 /\ x = VZero) -> defined (enc_levels k leaf x) -> exists j, enc_levels k leaf x = Ok j.
  Proof.
    intro Hleaf. induction k as [|k IH]; intros x Hx Hd.
    - cbn [enc_levels slices] in *. apply Hleaf; [|exact Hd]. destruct Hx as [Hx|[_ Hx]]; [left | right]; exact Hx.
    - cbn [enc_levels] in Hd |- *. destruct x as [| j0 | | x0 | | l | | impl x0 | n fs]; try (eexists; reflexivity).
      destruct Hx as [Hx|[E _]]; [|discriminate E]. cbn [slices] in Hx. destruct (cval3_slice_inv tm _ _ Hx) as [e [E Hall]]. injection E as <-.
      destruct (map_res_ok_of_defined (enc_levels k leaf) l) as [js Hjs].
      + intros y Hy Hdy. exact (IH y (or_introl (Hall y Hy)) Hdy).
      + exact (bind_defined _ _ Hd).
      + rewrite Hjs. cbn [bind]. eexists. reflexivity.
  Qed.

  Definition EA (f : nat) : Prop := forall t v, ptype tm good t -> cval3 tm t v \/ (v = VZero /\ forall m, t <> GStruct m) ->
    defined (encode tm f t v) -> exists j, encode tm f t v = Ok j.
  Definition EI (f : nat) : Prop := forall i v, goodi i -> cval3 tm (GIface i) v \/ v = VZero ->
    defined (encode_iface tm f i v) -> exists j, encode_iface tm f i v = Ok j.
  Definition EB (f : nat) : Prop := forall m v, good m -> cval3 tm (GStruct m) v ->
    defined (encode_struct tm f m v) -> exists kvs, encode_struct tm f m v = Ok kvs.

  Lemma enc_ok_all : forall f, EA f /\ EI f /\ EB f.
  Proof.
    induction f as [|f [HA [HI HB]]].
    { split; [|split].
      - intros t v _ _ Hd. exfalso. apply Hd. reflexivity.
      - intros i v _ _ Hd. exfalso. apply Hd. reflexivity.
      - intros m v _ _ Hd. exfalso. apply Hd. reflexivity. }
    split; [|split].
    - (* encode *)
      intros t v Ht Hv Hd. rewrite encode_S in Hd |- *.
      destruct t as [r g m u|n|n|n|n|e|e|r e].
      + destruct Ht as [Hs|[m' [E _]]]; [|discriminate E]. cbn [scalar_type] in Hs.
        destruct (ref_shape r) as [[[] rest]|]; try discriminate Hs. destruct v; eexists; reflexivity.
      + destruct v; eexists; reflexivity.
      + destruct v; eexists; reflexivity.
      + destruct Ht as [Hs|[m' [E Hg]]]; [discriminate Hs|]. injection E as <-.
        destruct Hv as [Hc|[_ Hno]]; [|exfalso; exact (Hno n eq_refl)].
        destruct (HB n v Hg Hc (bind_defined _ _ Hd)) as [kvs Hk]. rewrite Hk. cbn [bind]. eexists. reflexivity.
      + destruct Ht as [Hs|[m' [E _]]]; [discriminate Hs | discriminate E].
      + cbn [ptype] in Ht. destruct v as [| j0 | | x0 | | l | | impl x0 | n fs]; try (eexists; reflexivity).
        destruct Hv as [Hc|[E _]]; [|discriminate E]. destruct (cval3_slice_inv tm _ _ Hc) as [e0 [E Hall]]. injection E as <-.
        destruct (map_res_ok_of_defined (encode tm f e) l) as [js Hjs].
        * intros y Hy Hdy. exact (HA e y Ht (or_introl (Hall y Hy)) Hdy).
        * exact (bind_defined _ _ Hd).
        * rewrite Hjs. cbn [bind]. eexists. reflexivity.
      + cbn [ptype] in Ht. destruct v as [| j0 | | x0 | | l | | impl x0 | n fs]; try (eexists; reflexivity).
        destruct Hv as [Hc|[E _]]; [|discriminate E]. cbn [cval3] in Hc. destruct Hc as [e0 [E [Hx _]]]. injection E as <-.
        exact (HA e x0 (pbase_ptype _ _ _ Ht) (or_introl Hx) Hd).
      + destruct Ht as [Hs|[m' [E _]]]; [discriminate Hs | discriminate E].
    - (* encode_iface *)
      intros i v Hgi Hv Hd. rewrite encode_iface_S in Hd |- *.
      destruct v as [| j0 | | x0 | | l | | impl x | n fs]; try (eexists; reflexivity).
      destruct Hv as [Hv|Hv]; [|discriminate Hv]. cbn [cval3] in Hv.
      destruct Hv as [i0 [g [sh [impls [sel [E [Hai [Himpl [Hcx _]]]]]]]]]. injection E as <-.
      destruct (Hifaces i Hgi) as [g' [sh' [impls' [sel' [Hai' [Hok _]]]]]]. rewrite Hai in Hai'. injection Hai' as <- <- <- <-.
      destruct (Hok impl Himpl) as [Hgood [gi [fields [s [ii [Haimpl _]]]]]].
      rewrite Hai, Haimpl, (existsb_str_in _ _ Himpl) in Hd |- *.
      destruct (HB impl x Hgood Hcx (bind_defined _ _ Hd)) as [kvs Hk]. rewrite Hk. cbn [bind]. eexists. reflexivity.
    - (* encode_struct *)
      intros m v Hg Hc Hd. destruct (Hdecls m Hg) as [g [fields [s [i [Ha Hrf]]]]].
      rewrite encode_struct_S, Ha in Hd |- *. destruct (rf_flat _ _ _ _ Hrf) as [flat Hflat]. rewrite Hflat, bind_Ok in Hd |- *.
      pose proof (flattened_fields_reach tm fields flat Hflat (sep_exact tm good goodi fields Hrf)) as Hreach.
      apply enc_fields_ok; [|exact Hd]. intros fl p Hin Hde. apply Hreach in Hin.
      destruct (entry_cval fields fl p Hin m g s i v Hg Ha Hc) as [Hx Hok].
      pose proof (reach_named _ _ _ _ Hin) as Hn. unfold entry_enc in Hde |- *.
      destruct Hok as [[Hsp Hpt] | [[Hn' _] | [_ [k [i0 [Ht Hgi]]]]]].
      + rewrite Hsp in Hde |- *. apply HA; [exact Hpt | | exact Hde].
        destruct Hx as [Hx|[Hz Hnm]]; [left; exact Hx | right; split; [exact Hz|]]. intros m' E. apply Hnm. right. left. exists m'. exact E.
      + contradiction.
      + rewrite (special_iface fl k i0 Hn Ht) in Hde |- *. rewrite Ht, sdepth_slices, ispointer_slices, unwrap_slices in Hde |- *.
        change (enc_special_leaf (encode tm f) (encode_iface tm f) false (GIface i0)) with (encode_iface tm f i0) in Hde |- *.
        apply (enc_levels_ok i0 (encode_iface tm f i0)); [intros y Hy Hdy; exact (HI i0 y Hgi Hy Hdy) | | exact Hde].
        rewrite Ht in Hx. destruct Hx as [Hx|[Hz Hnm]]; [left; exact Hx | right; split; [|exact Hz]].
        destruct k as [|k']; [reflexivity|]. exfalso. apply Hnm. right. right. split; [exact (special_iface fl _ i0 Hn Ht)|]. exists (slices k' (GIface i0)). exact Ht.
  Qed.

  (* LEVEL 3, complete form: if the fuel suffices for marshaling a canonical value of a response
     type, marshaling SUCCEEDS, and unmarshaling the result succeeds (from some fuel on) and
     gives a value with the same normal form *)
  Theorem resp_roundtrip_total (rk : str -> nat) :
    (forall m g fields s i e m1, good m -> assoc m tm = Some (DStruct g fields s i) ->
       In e fields -> gf_name e = [] -> unwrap (gf_type e) = GStruct m1 -> rk m1 < rk m) ->
    forall f t v, ptype tm good t -> cval3 tm t v -> encode tm f t v <> OutOfFuel ->
    exists j, encode tm f t v = Ok j
      /\ exists f1 v', (forall f', f1 <= f' -> decode tm true f' t j (zero_of t) = Ok v') /\ gnorm v' = gnorm v.
  Proof.
    intros Hrk f t v Ht Hc Hd. destruct (proj1 (enc_ok_all f) t v Ht (or_introl Hc) Hd) as [j Hj].
    exists j. split; [exact Hj|]. exact (resp_roundtrip tm good goodi Hdecls Hifaces rk Hrk f t v j Ht Hc Hj).
  Qed.
End RespEnc.

(* the theorem in its complete form on the Level 3 example *)
Example resp_roundtrip_total_example :
  exists j, encode y_tm 12 (GStruct (b "Q")) y_v = Ok j
    /\ exists f1 v', (forall f', f1 <= f' -> decode y_tm true f' (GStruct (b "Q")) j (VStruct (b "Q") []) = Ok v') /\ gnorm v' = gnorm y_v.
Proof.
  apply (resp_roundtrip_total y_tm y_good y_goodi y_decls y_ifaces y_rk y_rank 12 (GStruct (b "Q")) y_v).
  - right. exists (b "Q"). split; [reflexivity | left; reflexivity].
  - exact y_canonical.
  - vm_compute. discriminate.
Qed.

(* ------------------------------------------------------------------------------------------ *)
Print Assumptions leaf_struct_roundtrip.
Print Assumptions plain_roundtrip.
Print Assumptions plain_roundtrip_enough_fuel.
Print Assumptions obtained_roundtrip.
Print Assumptions resp_roundtrip.
Print Assumptions resp_roundtrip_total.
Print Assumptions omitempty_empty_slice_refuted.
Print Assumptions omitempty_needs_zero_start.
Print Assumptions embedded_case_collision_refuted.
Print Assumptions embedded_shared_key_refuted.
Print Assumptions leaf_struct_roundtrip_example.
Print Assumptions plain_roundtrip_example.
Print Assumptions obtained_roundtrip_example.
Print Assumptions resp_roundtrip_total_example.
