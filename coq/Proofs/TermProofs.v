(* Fuel is a depth bound: for the wrapper algebra of leaf types (slices at any depth, optional
   pointer, scalar-like leaf) decoding ANY JSON value is defined as soon as the fuel exceeds the
   nesting depth of the TYPE -- it never runs out of fuel, whatever the size of the JSON. *)
From Verif Require Import Base.Str Gen.Consts Gen.Gql Gen.Directive Gen.Convert Rt.JsonDecode Rt.JsonEncode
  Proofs.JsonProofs Proofs.FuelProofs Proofs.RoundTrip.
From Coq Require Import ZArith Lia.

Fixpoint tdepth (t : gotype) : nat :=
  match t with GSlice e => S (tdepth e) | GPtr e => S (tdepth e) | _ => 1%nat end.

Lemma map_res_defined {A B} (f : A -> res B) l : (forall x, defined (f x)) -> defined (map_res f l).
Proof.
  intro H. induction l as [|x r IH]; [discriminate|]. cbn [map_res]. unfold defined in *.
  specialize (H x). destruct (f x); cbn [bind]; try congruence. destruct (map_res f r); cbn [bind]; congruence.
Qed.

Lemma decode_scalar_defined k j cur : defined (decode_scalar k j cur).
Proof.
  unfold defined, decode_scalar. destruct j, k; try discriminate; try (destruct integral; discriminate);
    repeat (match goal with |- context [match ?x with _ => _ end] => destruct x end); discriminate.
Qed.

Lemma scalar_defined tm w f t j cur : scalar_type tm t = true -> defined (decode tm w (S f) t j cur).
Proof.
  intro Hs. destruct t; try discriminate Hs; cbn [decode].
  - cbn [scalar_type] in Hs. destruct (ref_shape ref) as [[[] rest]|]; try discriminate Hs. apply decode_scalar_defined.
  - apply decode_scalar_defined.
  - apply decode_scalar_defined.
Qed.

Theorem wrapper_decode_terminates tm w : forall t fuel j cur,
  wrapper_type tm t = true -> (tdepth t < fuel)%nat -> defined (decode tm w fuel t j cur).
Proof.
  induction t as [r g m u|n|n|n|n|e IH|e IH|r e IH]; intros fuel j cur Hw Hf;
    destruct fuel as [|f]; try lia; cbn [wrapper_type] in Hw.
  - apply scalar_defined. exact Hw.
  - apply scalar_defined. exact Hw.
  - apply scalar_defined. exact Hw.
  - discriminate Hw.
  - discriminate Hw.
  - (* slice *) cbn [decode tdepth] in *. destruct j; try discriminate.
    assert (Hd : defined (map_res (fun x => decode tm w f e x (zero_of e)) l)).
    { apply map_res_defined. intro x. apply IH; [exact Hw | lia]. }
    unfold defined in *. destruct (map_res _ l); cbn [bind]; congruence.
  - (* pointer *) cbn [decode tdepth] in *.
    assert (Hd : forall c, defined (decode tm w f e j c)).
    { intro c. destruct f as [|f']; [destruct e; cbn [tdepth] in Hf; lia|]. apply scalar_defined. exact Hw. }
    destruct j; try discriminate; (specialize (Hd (match cur with VPtr x => x | _ => zero_of e end)); unfold defined in *;
      match goal with |- bind ?r _ <> _ => destruct r end; cbn [bind]; congruence).
  - discriminate Hw.
Qed.
