From Verif Require Import Base.Str Gen.Casing Gen.Gql Gen.Directive Gen.Convert Gen.Typing Proofs.DirectiveProofs.

Lemma gotype_eqb_eq x : forall y, gotype_eqb x y = true <-> x = y.
Proof.
  induction x as [r g m u|n|n|n|n|e IH|e IH|r e IH]; intros [r' g' m' u'|n'|n'|n'|n'|e'|e'|r' e']; cbn;
    try (split; [discriminate | discriminate]).
  - rewrite !Bool.andb_true_iff, !str_eqb_eq. split; [intros [[[-> ->] ->] ->]; reflexivity | intro H; injection H; auto].
  - rewrite str_eqb_eq. split; [intros ->; reflexivity | intro H; injection H; auto].
  - rewrite str_eqb_eq. split; [intros ->; reflexivity | intro H; injection H; auto].
  - rewrite str_eqb_eq. split; [intros ->; reflexivity | intro H; injection H; auto].
  - rewrite str_eqb_eq. split; [intros ->; reflexivity | intro H; injection H; auto].
  - rewrite IH. split; [intros ->; reflexivity | intro H; injection H; auto].
  - rewrite IH. split; [intros ->; reflexivity | intro H; injection H; auto].
  - rewrite Bool.andb_true_iff, str_eqb_eq, IH. split; [intros [-> ->]; reflexivity | intro H; injection H; auto].
Qed.

Lemma gotype_eqb_refl x : gotype_eqb x x = true.
Proof. apply gotype_eqb_eq. reflexivity. Qed.

Lemma block_ok_iff n P : forall C, block_ok n P C = true <-> C = wrap_slices n P.
Proof.
  induction n as [|k IH]; intro C; cbn [block_ok wrap_slices].
  - apply gotype_eqb_eq.
  - rewrite Bool.andb_true_iff, gotype_eqb_eq. split.
    + intros [-> _]. reflexivity.
    + intros ->. split; [reflexivity|]. apply IH. reflexivity.
Qed.

(* the emitted block type-checks exactly when the field's Go type is what the templates assume *)
Theorem unmarshal_block_ok_iff W : unmarshal_block_ok W = true <-> W = assumed W.
Proof. unfold unmarshal_block_ok, assumed. apply block_ok_iff. Qed.

(* ---- the types convertType produces ---- *)
Section Shapes.
  Variable cfg : config.

  Lemma named_unwrap g : is_named g = true -> unwrap g = g /\ slice_depth g = O /\ is_pointer g = false /\ has_generic g = false.
  Proof. destruct g; cbn; try discriminate; auto. Qed.

  Lemma named_ok g : is_named g = true -> unmarshal_block_ok g = true /\ has_generic g = false.
  Proof.
    intro N. destruct (named_unwrap g N) as (U & S & P & G). split; [|exact G].
    unfold unmarshal_block_ok, leaf_of. rewrite S, P, U. cbn. apply gotype_eqb_refl.
  Qed.
  Lemma ptr_ok g : is_named g = true -> unmarshal_block_ok (GPtr g) = true /\ has_generic (GPtr g) = false.
  Proof.
    intro N. destruct (named_unwrap g N) as (U & S & P & G). split; [|exact G].
    unfold unmarshal_block_ok, leaf_of. cbn. rewrite U. apply gotype_eqb_refl.
  Qed.
  Lemma unwrap_named g : is_named (unwrap g) = true.
  Proof. induction g; cbn; auto. Qed.
  Lemma generic_not_ok r g : unmarshal_block_ok (GGeneric r g) = false /\ has_generic (GGeneric r g) = true.
  Proof.
    split; [|reflexivity]. unfold unmarshal_block_ok, leaf_of. cbn.
    pose proof (unwrap_named g) as H. destruct (unwrap g); try reflexivity; discriminate H.
  Qed.

  (* for every list depth (induction on the GraphQL type), pointer option, optional setting and
     struct-reference setting: the type built around a named type is of the assumed shape iff no
     generic wrapper is involved *)
  Theorem doc_wrap_block_typed t : forall o sk inner,
    is_named inner = true ->
    let W := doc_wrap cfg t o sk inner in
    unmarshal_block_ok W = negb (has_generic W).
  Proof.
    induction t as [n nn|e IH nn]; intros o sk inner N; cbn zeta.
    - cbn [doc_wrap].
      destruct (named_ok inner N) as [A1 A2]. destruct (ptr_ok inner N) as [B1 B2].
      destruct (generic_not_ok (cfg_generic_type cfg) inner) as [C1 C2].
      destruct (cfg_struct_refs cfg && sk).
      + destruct (d_pointer o) as [[|]|]; rewrite ?A1, ?A2, ?B1, ?B2; reflexivity.
      + destruct (negb (pointer_is_false o) && (get_b (d_pointer o) || negb nn && (cfg_optional cfg =? 1)%N)).
        * rewrite B1, B2. reflexivity.
        * destruct (negb nn && (cfg_optional cfg =? 2)%N); [rewrite C1, C2 | rewrite A1, A2]; reflexivity.
    - cbn [doc_wrap has_generic]. specialize (IH o sk inner N). cbn zeta in IH.
      set (W := doc_wrap cfg e o sk inner) in *.
      rewrite <- IH. unfold unmarshal_block_ok, leaf_of. cbn [slice_depth is_pointer unwrap block_ok wrap_slices].
      destruct (block_ok (slice_depth W) (if is_pointer W then GPtr (unwrap W) else unwrap W) W) eqn:B.
      + apply block_ok_iff in B. rewrite Bool.andb_true_r. apply gotype_eqb_eq. cbn. f_equal. exact B.
      + apply Bool.andb_false_r.
  Qed.

  Fixpoint leaf_nonnull (t : tyref) : bool := match t with TNamed _ nn => nn | TList e _ => leaf_nonnull e end.

  (* a generic wrapper arises exactly for `optional: generic` on a nullable named type when no
     pointer applies and use_struct_references does not *)
  Theorem doc_wrap_has_generic t : forall o sk inner,
    is_named inner = true ->
    has_generic (doc_wrap cfg t o sk inner) =
      negb (cfg_struct_refs cfg && sk)
      && negb (negb (pointer_is_false o) && (get_b (d_pointer o) || negb (leaf_nonnull t) && (cfg_optional cfg =? 1)%N))
      && (negb (leaf_nonnull t) && (cfg_optional cfg =? 2)%N).
  Proof.
    induction t as [n nn|e IH nn]; intros o sk inner N.
    - destruct (named_unwrap inner N) as (U & S & P & G). cbn [doc_wrap leaf_nonnull].
      destruct (cfg_struct_refs cfg && sk); cbn [negb andb].
      + destruct (d_pointer o) as [[|]|]; cbn; rewrite ?G; reflexivity.
      + destruct (negb (pointer_is_false o) && (get_b (d_pointer o) || negb nn && (cfg_optional cfg =? 1)%N)); cbn [negb andb].
        * cbn. exact G.
        * destruct (negb nn && (cfg_optional cfg =? 2)%N); [reflexivity | exact G].
    - cbn [doc_wrap has_generic leaf_nonnull]. apply IH. exact N.
  Qed.
End Shapes.

Lemma strip_wrap n : forall L, strip_slices n (wrap_slices n L) = Some L.
Proof. induction n as [|k IH]; intro L; cbn; [reflexivity | apply IH]. Qed.

Lemma strip_slices_inv n : forall W L, strip_slices n W = Some L -> W = wrap_slices n L.
Proof.
  induction n as [|k IH]; intros W L H; cbn in *; [injection H as ->; reflexivity|].
  destruct W; try discriminate. f_equal. apply IH. exact H.
Qed.

Theorem marshal_block_ok_iff W : marshal_block_ok W = true <-> W = assumed W.
Proof.
  unfold marshal_block_ok, assumed. split.
  - destruct (strip_slices (slice_depth W) W) as [L|] eqn:S; [|discriminate].
    intro E. apply gotype_eqb_eq in E. subst L. apply strip_slices_inv. exact S.
  - intro E. rewrite E at 2. rewrite strip_wrap. apply gotype_eqb_refl.
Qed.

(* the two blocks type-check under exactly the same condition *)
Corollary blocks_agree W : marshal_block_ok W = unmarshal_block_ok W.
Proof.
  destruct (marshal_block_ok W) eqn:M, (unmarshal_block_ok W) eqn:U; try reflexivity.
  - apply marshal_block_ok_iff in M. apply unmarshal_block_ok_iff in M. congruence.
  - apply unmarshal_block_ok_iff in U. apply marshal_block_ok_iff in U. congruence.
Qed.
