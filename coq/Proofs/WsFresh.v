(* C15, fresh ids: in every reachable state of every schedule, the subscribe frames written so
   far carry pairwise distinct ids, each the id of a registered subscription. *)
From Verif Require Import Base.Str Rt.Ws Proofs.WsProofs Proofs.WsOrder.
From Coq Require Import Arith Lia.

Definition sub_ids (l : list wframe) : list nat :=
  flat_map (fun f => match f with WSubscribe i => [i] | _ => [] end) l.

Definition pending (s : st) (n i : nat) : Prop := nth_error (calls s) n = Some (ASubWrite i).

Definition InvF (s : st) : Prop :=
  NoDup (sub_ids (frames s))
  /\ (forall i, In i (sub_ids (frames s)) -> (i < List.length (subs s))%nat)
  /\ (forall n i, pending s n i -> (i < List.length (subs s))%nat /\ ~ In i (sub_ids (frames s)))
  /\ (forall n m i, pending s n i -> pending s m i -> n = m).

(* a state that keeps frames, the length of subs and the set of pending Subscribe calls *)
Lemma invf_keep s s' :
  sub_ids (frames s') = sub_ids (frames s) -> List.length (subs s') = List.length (subs s) ->
  (forall n i, pending s' n i -> pending s n i) -> InvF s -> InvF s'.
Proof.
  intros Hf Hl Hp (H1 & H2 & H3 & H4). unfold InvF. rewrite Hf, Hl.
  split; [exact H1|]. split; [exact H2|]. split.
  - intros n i P. exact (H3 _ _ (Hp _ _ P)).
  - intros n m i P Q. exact (H4 _ _ _ (Hp _ _ P) (Hp _ _ Q)).
Qed.

Lemma pending_set_call s n p m i :
  (forall j, p <> ASubWrite j) -> pending (set_call s n p) m i -> pending s m i /\ m <> n.
Proof.
  unfold pending, set_call. cbn [set_calls calls]. intros Hp H.
  apply nth_upd_inv in H. destruct H as [[-> [x [_ E]]] | [Hne E]]; [exfalso; exact (Hp i (eq_sym E)) | split; [exact E | auto]].
Qed.

Lemma map_unsubscribe_frames s i s' k : map_unsubscribe s i = (s', k) ->
  frames s' = frames s /\ calls s' = calls s /\ List.length (subs s') = List.length (subs s).
Proof.
  unfold map_unsubscribe. intro E.
  destruct (get_sub s i) as [e|]; [|injection E as <- _; auto].
  destruct (s_present e); [|injection E as <- _; auto].
  destruct (s_flag e); injection E as <- _; cbn; [auto|]. repeat split. apply upd_length.
Qed.

Lemma step_InvF s l s' : InvF s -> step s l = Some s' -> InvF s'.
Proof.
  intros H E. destruct l as [| i | | t choice fault | f | | i |]; cbn [step] in E.
  - (* Subscribe is called: a new pending write with the next id *)
    injection E as <-. destruct H as (H1 & H2 & H3 & H4). unfold InvF, pending in *. cbn [set_calls set_subs calls subs frames].
    rewrite app_length. cbn [length].
    split; [exact H1|]. split; [intros i Hi; specialize (H2 _ Hi); lia|]. split.
    + intros n i P. destruct (Nat.lt_ge_cases n (List.length (calls s))) as [Hlt|Hge].
      * rewrite nth_error_app1 in P by exact Hlt. destruct (H3 _ _ P) as [Ha Hb]. split; [lia | exact Hb].
      * rewrite nth_error_app2 in P by exact Hge. destruct (n - List.length (calls s))%nat as [|k]; cbn in P; [injection P as <-|destruct k; discriminate].
        split; [lia|]. intro Hin. specialize (H2 _ Hin). lia.
    + intros n m i P Q.
      destruct (Nat.lt_ge_cases n (List.length (calls s))) as [Hn|Hn], (Nat.lt_ge_cases m (List.length (calls s))) as [Hm|Hm].
      * rewrite nth_error_app1 in P, Q by assumption. exact (H4 _ _ _ P Q).
      * rewrite nth_error_app1 in P by assumption. rewrite nth_error_app2 in Q by assumption.
        destruct (m - List.length (calls s))%nat as [|k]; cbn in Q; [injection Q as <-|destruct k; discriminate].
        destruct (H3 _ _ P). lia.
      * rewrite nth_error_app2 in P by assumption. rewrite nth_error_app1 in Q by assumption.
        destruct (n - List.length (calls s))%nat as [|k]; cbn in P; [injection P as <-|destruct k; discriminate].
        destruct (H3 _ _ Q). lia.
      * rewrite nth_error_app2 in P, Q by assumption.
        destruct (n - List.length (calls s))%nat as [|k] eqn:En; cbn in P; [|destruct k; discriminate].
        destruct (m - List.length (calls s))%nat as [|k] eqn:Em; cbn in Q; [|destruct k; discriminate]. lia.
  - (* Unsubscribe is called *)
    injection E as <-. eapply (invf_keep s); [reflexivity | reflexivity | | exact H].
    intros n j P. unfold pending in *. cbn [set_calls calls] in P.
    destruct (Nat.lt_ge_cases n (List.length (calls s))) as [Hlt|Hge].
    + rewrite nth_error_app1 in P by exact Hlt. exact P.
    + rewrite nth_error_app2 in P by exact Hge. destruct (n - List.length (calls s))%nat as [|k]; cbn in P; [|destruct k; discriminate].
      destruct (sub_ended s i); discriminate.
  - (* Close is called *)
    injection E as <-. eapply (invf_keep s); [reflexivity | reflexivity | | exact H].
    intros n j P. unfold pending in *. cbn [set_collected set_calls calls] in P.
    destruct (Nat.lt_ge_cases n (List.length (calls s))) as [Hlt|Hge].
    + rewrite nth_error_app1 in P by exact Hlt. exact P.
    + rewrite nth_error_app2 in P by exact Hge. destruct (n - List.length (calls s))%nat as [|k]; cbn in P; [|destruct k; discriminate].
      destruct (active_ids s); discriminate.
  - destruct t as [|n].
    + (* reader steps never write frames nor touch calls *)
      assert (G : frames s' = frames s /\ calls s' = calls s /\ List.length (subs s') = List.length (subs s)).
      { unfold step_reader in E. destruct (reader_stuck s); [discriminate|].
        destruct (reader s) as [| |f found fl|j p| | | |].
        - destruct (mutex s); [|discriminate]. injection E as <-. auto.
        - destruct (read_enabled s); [|discriminate]. destruct (inbound s) as [|f r]; [injection E as <-; auto|].
          destruct fault; [injection E as <-; auto|].
          destruct f; try (destruct (lookup _ _)); injection E as <-; auto.
        - destruct (negb found); [injection E as <-; auto|]. destruct fl; [injection E as <-; auto|].
          destruct f as [[j|] p|[j|]|[j|]|]; try (injection E as <-; auto).
          destruct (map_unsubscribe s j) as [s1 k] eqn:M. injection E as <-.
          destruct (map_unsubscribe_frames _ _ _ _ M) as (A & B & C). destruct k; cbn [set_reader frames calls subs]; auto.
        - discriminate.
        - destruct (mutex s); [|discriminate]. injection E as <-. auto.
        - destruct (is_closing s); [injection E as <-; auto|]. destruct (Nat.ltb (err_buf s) 1); injection E as <-; auto.
        - injection E as <-. auto.
        - discriminate. }
      destruct G as (A & B & C). eapply (invf_keep s); [rewrite A; reflexivity | exact C | | exact H].
      intros m j P. unfold pending in *. rewrite B in P. exact P.
    + (* API call threads *)
      unfold step_call in E. destruct (nth_error (calls s) n) as [[i|i|err|err|err|ok]|] eqn:Ec; try discriminate.
      * (* the Subscribe write *)
        destruct H as (H1 & H2 & H3 & H4). destruct (H3 _ _ Ec) as [Hlt Hnot].
        destruct fault; injection E as <-.
        -- (* fails: nothing written, the call is over *)
           unfold InvF. cbn [set_call set_calls set_subs frames subs]. rewrite upd_length.
           split; [exact H1|]. split; [exact H2|]. split.
           ++ intros m j P. destruct (pending_set_call (set_subs s _) n (ADone false) m j ltac:(discriminate) P) as [Q _]. exact (H3 _ _ Q).
           ++ intros a c j P Q. destruct (pending_set_call (set_subs s _) n (ADone false) a j ltac:(discriminate) P) as [P' _].
              destruct (pending_set_call (set_subs s _) n (ADone false) c j ltac:(discriminate) Q) as [Q' _]. exact (H4 _ _ _ P' Q').
        -- (* succeeds: the frame with the fresh id is written *)
           unfold InvF. cbn [set_call set_calls push_frame set_frames frames subs sub_ids flat_map app].
           split; [constructor; [exact Hnot | exact H1]|].
           split; [intros j [<-|Hj]; [exact Hlt | exact (H2 _ Hj)]|]. split.
           ++ intros m j P. destruct (pending_set_call (push_frame s (WSubscribe i)) n (ADone true) m j ltac:(discriminate) P) as [Q Hne].
              split; [exact (proj1 (H3 _ _ Q))|]. intros [<-|Hj]; [exact (Hne (H4 _ _ _ Q Ec)) | exact (proj2 (H3 _ _ Q) Hj)].
           ++ intros a c j P Q. destruct (pending_set_call (push_frame s (WSubscribe i)) n (ADone true) a j ltac:(discriminate) P) as [P' _].
              destruct (pending_set_call (push_frame s (WSubscribe i)) n (ADone true) c j ltac:(discriminate) Q) as [Q' _]. exact (H4 _ _ _ P' Q').
      * (* the Unsubscribe write *)
        destruct fault.
        -- injection E as <-. eapply (invf_keep s); [reflexivity | reflexivity | | exact H].
           intros m j P. exact (proj1 (pending_set_call s n (ADone false) m j ltac:(discriminate) P)).
        -- destruct (map_unsubscribe (push_frame s (WComplete i)) i) as [s1 k] eqn:M. injection E as <-.
           destruct (map_unsubscribe_frames _ _ _ _ M) as (A & B & C).
           eapply (invf_keep s); [cbn [set_call set_calls frames]; rewrite A; reflexivity | cbn [set_call set_calls subs]; exact C | | exact H].
           intros m j P. destruct (pending_set_call s1 n (ADone k) m j ltac:(discriminate) P) as [Q _]. unfold pending in *. rewrite B in Q. exact Q.
      * (* Close: one complete write of UnsubscribeAll *)
        destruct (mem_nat choice (close_collected s)); [|discriminate].
        destruct (map_unsubscribe (if fault then s else push_frame s (WComplete choice)) choice) as [s1 k] eqn:M.
        injection E as <-. destruct (map_unsubscribe_frames _ _ _ _ M) as (A & B & C).
        assert (A' : sub_ids (frames s1) = sub_ids (frames s)) by (rewrite A; destruct fault; reflexivity).
        assert (B' : calls s1 = calls s) by (rewrite B; destruct fault; reflexivity).
        assert (C' : List.length (subs s1) = List.length (subs s)) by (rewrite C; destruct fault; reflexivity).
        eapply (invf_keep s); [cbn [set_call set_calls set_collected frames]; exact A' | cbn [set_call set_calls set_collected subs]; exact C' | | exact H].
        intros m j P.
        assert (Q : pending (set_collected s1 (filter (fun k0 => negb (sub_ended s1 k0)) (remove_nat choice (close_collected s)))) m j).
        { destruct (filter _ _); [exact (proj1 (pending_set_call _ n (ACloseWrite _) m j ltac:(discriminate) P)) | exact (proj1 (pending_set_call _ n (ACloseUnsub _) m j ltac:(discriminate) P))]. }
        unfold pending in *. cbn [set_collected calls] in Q. rewrite B' in Q. exact Q.
      * (* Close: the close frame *)
        injection E as <-. eapply (invf_keep s); [destruct fault; reflexivity | destruct fault; reflexivity | | exact H].
        intros m j P. destruct fault; exact (proj1 (pending_set_call _ n (ACloseLock _) m j ltac:(discriminate) P)).
      * destruct (mutex s); [|discriminate]. injection E as <-. eapply (invf_keep s); [reflexivity | reflexivity | | exact H].
        intros m j P. exact (proj1 (pending_set_call _ n (ADone _) m j ltac:(discriminate) P)).
  - (* server frame *)
    assert (G : frames s' = frames s /\ calls s' = calls s /\ List.length (subs s') = List.length (subs s)).
    { destruct (norm_frame s f) as [[j|] p|[j|]|[j|]|]; injection E as <-; cbn [set_subs set_inbound frames calls subs]; auto.
      repeat split. apply upd_length. }
    destruct G as (A & B & C). eapply (invf_keep s); [rewrite A; reflexivity | exact C | | exact H].
    intros m j P. unfold pending in *. rewrite B in P. exact P.
  - injection E as <-. eapply (invf_keep s); [reflexivity | reflexivity | intros ? ? P; exact P | exact H].
  - (* receive *)
    assert (G : frames s' = frames s /\ calls s' = calls s /\ List.length (subs s') = List.length (subs s)).
    { destruct (reader s) as [| |f found fl|j p| | | |]; try (injection E as <-; auto).
      destruct (get_sub s i) as [e|]; [|injection E as <-; auto].
      destruct (Nat.eqb i j); [|injection E as <-; auto].
      destruct (Nat.ltb 0 (s_closes e)); injection E as <-; cbn [set_reader set_panicked set_subs frames calls subs]; auto.
      repeat split. apply upd_length. }
    destruct G as (A & B & C). eapply (invf_keep s); [rewrite A; reflexivity | exact C | | exact H].
    intros m j P. unfold pending in *. rewrite B in P. exact P.
  - destruct (Nat.ltb 0 (err_buf s)); injection E as <-; (eapply (invf_keep s); [reflexivity | reflexivity | intros ? ? P; exact P | exact H]).
Qed.

Lemma InvF_init : InvF init.
Proof.
  unfold InvF, pending. cbn. split; [constructor|]. split; [intros i []|]. split.
  - intros n i P. destruct n; discriminate.
  - intros n m i P. destruct n; discriminate.
Qed.

(* every subscribe frame written so far carries an id of its own, that of a registered subscription *)
Theorem subscribe_ids_are_fresh s : reachable s ->
  NoDup (sub_ids (frames s)) /\ forall i, In i (sub_ids (frames s)) -> (i < List.length (subs s))%nat.
Proof.
  intro Hr. assert (H : InvF s).
  { revert s Hr. apply reachable_ind; [exact InvF_init|].
    intros s0 l H0. unfold step'. destruct (step s0 l) as [s1|] eqn:E; [exact (step_InvF _ _ _ H0 E) | exact H0]. }
  destruct H as (H1 & H2 & _). split; assumption.
Qed.
