(* C15, the conversation grammar: for every SEQUENCE of API calls (each call starts when the
   previous ones have returned; the application unsubscribes only ids it obtained; nothing is
   called after Close), every interleaving with the reader, the server and the application's
   receives, and every choice of failing connection operations, the frames the client has
   written form a valid graphql-transport-ws conversation: subscribe ids are fresh, there is at
   most one complete per id and only for an id subscribed earlier on the wire, and nothing
   follows the close frame. *)
From Verif Require Import Base.Str Rt.Ws Rt.WsSpec Proofs.WsProofs Proofs.WsOrder Proofs.WsFresh.
From Coq Require Import Arith Lia.

Definition comp_ids (l : list wframe) : list nat :=
  flat_map (fun f => match f with WComplete i => [i] | _ => [] end) l.

(* [frames] is newest first *)
Definition grammar (fr : list wframe) : Prop :=
  NoDup (sub_ids fr) /\ NoDup (comp_ids fr)
  /\ (forall a b i, fr = a ++ WComplete i :: b -> In (WSubscribe i) b)
  /\ (forall a b, fr = a ++ WClose :: b -> a = []).

Local Open Scope nat_scope.

(* ================= list helpers ================= *)
Lemma mem_nat_In x l : mem_nat x l = true <-> In x l.
Proof.
  induction l as [|y r IH]; cbn; [split; [discriminate|intros []]|].
  rewrite orb_true_iff, Nat.eqb_eq, IH. split; intros [H|H]; [left; congruence | right; exact H | left; congruence | right; exact H].
Qed.

Lemma remove_nat_In x l j : In j (remove_nat x l) -> In j l.
Proof.
  induction l as [|y r IH]; cbn; [auto|].
  destruct (Nat.eqb x y); [intro H; right; exact H | intros [H|H]; [left; exact H | right; exact (IH H)]].
Qed.

Lemma remove_nat_NoDup x l : NoDup l -> NoDup (remove_nat x l) /\ ~ In x (remove_nat x l).
Proof.
  induction 1 as [|y r Hy Hr [IH1 IH2]]; cbn; [split; [constructor | intros []]|].
  destruct (Nat.eqb x y) eqn:E.
  - apply Nat.eqb_eq in E. subst y. split; assumption.
  - apply Nat.eqb_neq in E. split.
    + constructor; [intro H; apply Hy; exact (remove_nat_In _ _ _ H) | exact IH1].
    + intros [H|H]; [apply E; congruence | exact (IH2 H)].
Qed.

Lemma active_ids_from_NoDup l : forall k, NoDup (active_ids_from l k).
Proof.
  induction l as [|e r IH]; intro k; cbn [active_ids_from]; [constructor|].
  destruct (s_present e && negb (s_flag e)); cbn [app]; [|apply IH].
  constructor; [|apply IH]. intro H. apply active_ids_from_present in H as (e' & _ & _ & _ & L). lia.
Qed.

Lemma nth_app_last {A} (l : list A) x n y : nth_error (l ++ [x]) n = Some y ->
  (n < List.length l /\ nth_error l n = Some y) \/ (n = List.length l /\ y = x).
Proof.
  intro H. destruct (Nat.lt_ge_cases n (List.length l)) as [Hlt|Hge].
  - rewrite nth_error_app1 in H by exact Hlt. left. auto.
  - rewrite nth_error_app2 in H by exact Hge. right.
    destruct (n - List.length l) as [|k] eqn:En; cbn in H; [|destruct k; discriminate].
    injection H as <-. split; [lia | reflexivity].
Qed.

Lemma nth_app_old {A} (l : list A) x n y : nth_error l n = Some y -> nth_error (l ++ [x]) n = Some y.
Proof.
  intro H. rewrite nth_error_app1; [exact H|]. apply nth_error_Some. congruence.
Qed.

Lemma nth_app_new {A} (l : list A) x : nth_error (l ++ [x]) (List.length l) = Some x.
Proof. rewrite nth_error_app2 by lia. rewrite Nat.sub_diag. reflexivity. Qed.

(* ================= frames: ordering and close-last as recursive predicates ================= *)
Fixpoint ord_ok (fr : list wframe) : Prop :=
  match fr with
  | [] => True
  | WComplete i :: r => In (WSubscribe i) r /\ ord_ok r
  | _ :: r => ord_ok r
  end.

Lemma ord_ok_spec fr : ord_ok fr -> forall a c i, fr = a ++ WComplete i :: c -> In (WSubscribe i) c.
Proof.
  intros H a. revert fr H. induction a as [|x a IH]; intros fr H c i ->; cbn in H.
  - exact (proj1 H).
  - destruct x as [j|j|]; [exact (IH _ H _ _ eq_refl) | exact (IH _ (proj2 H) _ _ eq_refl) | exact (IH _ H _ _ eq_refl)].
Qed.

Lemma ord_ok_comp_sub fr i : ord_ok fr -> In i (comp_ids fr) -> In (WSubscribe i) fr.
Proof.
  induction fr as [|x r IH]; cbn; [intros _ []|].
  destruct x as [j|j|]; cbn.
  - intros H Hi. right. exact (IH H Hi).
  - intros [H1 H2] [->|Hi]; right; [exact H1 | exact (IH H2 Hi)].
  - intros H Hi. right. exact (IH H Hi).
Qed.

Lemma In_sub_ids fr i : In (WSubscribe i) fr <-> In i (sub_ids fr).
Proof.
  induction fr as [|x r IH]; cbn; [tauto|].
  destruct x as [j|j|]; cbn; rewrite <- IH.
  - split; intros [H|H]; [left; congruence | right; exact H | left; congruence | right; exact H].
  - split; [intros [H|H]; [discriminate | exact H] | intro H; right; exact H].
  - split; [intros [H|H]; [discriminate | exact H] | intro H; right; exact H].
Qed.

Definition close_ok (fr : list wframe) : Prop :=
  match fr with [] => True | _ :: r => ~ In WClose r end.

Lemma close_ok_spec fr : close_ok fr -> forall a c, fr = a ++ WClose :: c -> a = [].
Proof.
  intros H [|x a] c E; [reflexivity|]. subst fr. cbn in H. exfalso. apply H. apply in_elt.
Qed.

(* ================= subscription entries only ever move forward ================= *)
Definition lmono (l l' : list sub) : Prop :=
  forall j e', nth_error l' j = Some e' ->
    exists e, nth_error l j = Some e /\ (s_present e' = true -> s_present e = true) /\ (s_flag e = true -> s_flag e' = true).

Lemma lmono_refl l : lmono l l.
Proof. intros j e H. exists e. auto. Qed.

Lemma lmono_upd l i f :
  (forall e, nth_error l i = Some e -> (s_present (f e) = true -> s_present e = true) /\ (s_flag e = true -> s_flag (f e) = true)) ->
  lmono l (upd l i f).
Proof.
  intros Hf j e' H. apply nth_upd_inv in H. destruct H as [[<- (x & Hx & ->)]|[_ H]].
  - exists x. split; [exact Hx|]. apply Hf. exact Hx.
  - exists e'. auto.
Qed.

Lemma map_unsubscribe_K s i s' k : map_unsubscribe s i = (s', k) ->
  frames s' = frames s /\ calls s' = calls s /\ close_collected s' = close_collected s /\
  lmono (subs s) (subs s') /\
  (forall e', nth_error (subs s') i = Some e' -> s_present e' = true -> s_flag e' = true).
Proof.
  unfold map_unsubscribe, get_sub. intro E.
  destruct (nth_error (subs s) i) as [e|] eqn:G.
  - destruct (s_present e) eqn:P.
    + destruct (s_flag e) eqn:F; injection E as <- _.
      * refine (conj eq_refl (conj eq_refl (conj eq_refl (conj (lmono_refl _) _)))). intros e' He' _. congruence.
      * cbn [set_subs frames calls close_collected subs].
        refine (conj eq_refl (conj eq_refl (conj eq_refl (conj _ _)))).
        -- apply lmono_upd. intros x Hx. cbn. rewrite G in Hx. injection Hx as <-. auto.
        -- intros e' He' _. rewrite (nth_upd_same _ _ _ _ G) in He'. injection He' as <-. reflexivity.
    + injection E as <- _. refine (conj eq_refl (conj eq_refl (conj eq_refl (conj (lmono_refl _) _)))). intros e' He' Pe. congruence.
  - injection E as <- _. refine (conj eq_refl (conj eq_refl (conj eq_refl (conj (lmono_refl _) _)))). intros e' He'. congruence.
Qed.

(* ================= at most one call is running ================= *)
Definition U (cs : list apc) : Prop :=
  forall n m a c, nth_error cs n = Some a -> nth_error cs m = Some c -> is_done a = false -> is_done c = false -> n = m.

Lemma upd_call_inv cs n a p m c : U cs -> nth_error cs n = Some a -> is_done a = false ->
  nth_error (upd cs n (fun _ => p)) m = Some c ->
  (m = n /\ c = p) \/ (m <> n /\ nth_error cs m = Some c /\ is_done c = true).
Proof.
  intros HU Ha Da H. apply nth_upd_inv in H. destruct H as [[Hnm (x & _ & Hc)]|[Hne E]]; [left; split; [symmetry; exact Hnm | exact Hc]|].
  right. split; [intro Hx; apply Hne; symmetry; exact Hx|]. split; [exact E|].
  destruct (is_done c) eqn:D; [reflexivity|]. exfalso. apply Hne. exact (HU _ _ _ _ Ha E Da D).
Qed.

Lemma U_upd cs n a p : U cs -> nth_error cs n = Some a -> is_done a = false -> U (upd cs n (fun _ => p)).
Proof.
  intros HU Ha Da n1 m1 a1 c1 H1 H2 D1 D2.
  destruct (upd_call_inv _ _ _ _ _ _ HU Ha Da H1) as [[-> _]|(_ & _ & D)]; [|congruence].
  destruct (upd_call_inv _ _ _ _ _ _ HU Ha Da H2) as [[-> _]|(_ & _ & D)]; [reflexivity|congruence].
Qed.

Lemma all_done_nth s : all_done s = true -> forall n a, nth_error (calls s) n = Some a -> is_done a = true.
Proof.
  unfold all_done. rewrite forallb_forall. intros H n a E. apply H. exact (nth_error_In _ _ E).
Qed.

Lemma U_app_done s p : all_done s = true -> U (calls s ++ [p]).
Proof.
  intros Hd n m a c H1 H2 D1 D2.
  apply nth_app_last in H1 as [[_ H1]|[-> _]]; [rewrite (all_done_nth _ Hd _ _ H1) in D1; discriminate|].
  apply nth_app_last in H2 as [[_ H2]|[-> _]]; [rewrite (all_done_nth _ Hd _ _ H2) in D2; discriminate|].
  reflexivity.
Qed.

Lemma pend_other (cs : list apc) n m a c f : nth_error cs m = Some c -> nth_error cs n = Some a -> a <> c ->
  nth_error (upd cs n f) m = Some c.
Proof.
  intros Hm Hn Hne. rewrite nth_upd_other; [exact Hm|]. intros ->. congruence.
Qed.

(* ================= the invariant ================= *)
Definition quiet (a : apc) : bool := match a with ADone _ | ACloseLock _ => true | _ => false end.
Definition is_closing_call (a : apc) : bool :=
  match a with ACloseUnsub _ | ACloseWrite _ | ACloseLock _ => true | _ => false end.

Record K (s : st) (closed : bool) : Prop := {
  kU : U (calls s);
  kOrd : ord_ok (frames s);
  kNd : NoDup (comp_ids (frames s));
  kCl : close_ok (frames s);
  kQ : In WClose (frames s) -> closed = true /\ forall n a, nth_error (calls s) n = Some a -> quiet a = true;
  kCc : forall n a, nth_error (calls s) n = Some a -> is_closing_call a = true -> closed = true;
  kUn : forall n i, nth_error (calls s) n = Some (AUnsubWrite i) ->
        ~ In i (comp_ids (frames s)) /\ In (WSubscribe i) (frames s);
  kCol : forall i, In i (close_collected s) -> ~ In i (comp_ids (frames s)) /\ In (WSubscribe i) (frames s);
  kColNd : NoDup (close_collected s);
  kColE : close_collected s = [] \/ exists n err, nth_error (calls s) n = Some (ACloseUnsub err);
  kFlag : forall i e, In i (comp_ids (frames s)) -> nth_error (subs s) i = Some e -> s_present e = true -> s_flag e = true;
  kSub : forall i e, nth_error (subs s) i = Some e -> s_present e = true ->
         (exists n, nth_error (calls s) n = Some (ASubWrite i)) \/ In (WSubscribe i) (frames s)
}.

Lemma K_keep s s' closed :
  frames s' = frames s -> calls s' = calls s -> close_collected s' = close_collected s -> lmono (subs s) (subs s') ->
  K s closed -> K s' closed.
Proof.
  intros Hf Hc Hcol Hm [H1 H2 H3 H4 H5 H6 H7 H8 H9 H10 H11 H12].
  constructor; rewrite ?Hf, ?Hc, ?Hcol; try assumption.
  - intros i e' Hin He' P. destruct (Hm _ _ He') as (e & He & Pp & Fl). apply Fl. exact (H11 _ _ Hin He (Pp P)).
  - intros i e' He' P. destruct (Hm _ _ He') as (e & He & Pp & Fl). exact (H12 _ _ He (Pp P)).
Qed.

Lemma K_no_close s closed n a : K s closed -> nth_error (calls s) n = Some a -> quiet a = false -> ~ In WClose (frames s).
Proof.
  intros HK Ha Q H. destruct (kQ _ _ HK H) as [_ Hq]. rewrite (Hq _ _ Ha) in Q. discriminate.
Qed.

Lemma K_col_nil s closed n a : K s closed -> nth_error (calls s) n = Some a -> is_done a = false ->
  (forall err, a <> ACloseUnsub err) -> close_collected s = [].
Proof.
  intros HK Ha D Hne. destruct (kColE _ _ HK) as [E|(m & err & E)]; [exact E|].
  exfalso. assert (m = n) by exact (kU _ _ HK _ _ _ _ E Ha eq_refl D). subst m. rewrite Ha in E. injection E as ->. exact (Hne err eq_refl).
Qed.

Lemma K_init : K init false.
Proof.
  constructor; cbn.
  - intros n m a c H. destruct n; discriminate.
  - exact I.
  - constructor.
  - exact I.
  - intros [].
  - intros n a H. destruct n; discriminate.
  - intros n i H. destruct n; discriminate.
  - intros i [].
  - constructor.
  - left. reflexivity.
  - intros i e [].
  - intros i e H. destruct i; discriminate.
Qed.

(* ================= steps that leave frames, calls and the collected ids alone ================= *)
Ltac keep_refl := refine (conj eq_refl (conj eq_refl (conj eq_refl (lmono_refl _)))).

Lemma step_reader_keep s fault s' : step_reader s fault = Some s' ->
  frames s' = frames s /\ calls s' = calls s /\ close_collected s' = close_collected s /\ lmono (subs s) (subs s').
Proof.
  intro E. unfold step_reader in E. destruct (reader_stuck s); [discriminate|].
  destruct (reader s) as [| |f found fl|j p| | | |].
  - destruct (mutex s); [|discriminate]. injection E as <-. keep_refl.
  - destruct (read_enabled s); [|discriminate]. destruct (inbound s) as [|f r]; [injection E as <-; keep_refl|].
    destruct fault; [injection E as <-; keep_refl|].
    destruct f; try (destruct (lookup _ _)); injection E as <-; keep_refl.
  - destruct (negb found); [injection E as <-; keep_refl|]. destruct fl; [injection E as <-; keep_refl|].
    destruct f as [[j|] p|[j|]|[j|]|]; try (injection E as <-; keep_refl).
    destruct (map_unsubscribe s j) as [s1 k] eqn:M. injection E as <-.
    destruct (map_unsubscribe_K _ _ _ _ M) as (A & B & C & D & _). exact (conj A (conj B (conj C D))).
  - discriminate.
  - destruct (mutex s); [|discriminate]. injection E as <-. keep_refl.
  - destruct (is_closing s); [injection E as <-; keep_refl|]. destruct (Nat.ltb (err_buf s) 1); injection E as <-; keep_refl.
  - injection E as <-. keep_refl.
  - discriminate.
Qed.

(* ================= an API-call thread moves ================= *)
Ltac kcc OD := let m := fresh "m" in let c := fresh "c" in let Hc := fresh "Hc" in let Cc := fresh "Cc" in let Dd := fresh "Dd" in
  intros m c Hc Cc; destruct (OD _ _ _ Hc) as [[_ ->]|(_ & _ & Dd)]; [try discriminate | destruct c; discriminate].
Ltac kun OD := let m := fresh "m" in let j := fresh "j" in let Hc := fresh "Hc" in let Hq := fresh "Hq" in let Dd := fresh "Dd" in
  intros m j Hc; destruct (OD _ _ _ Hc) as [[_ Hq]|(_ & _ & Dd)]; discriminate.

Lemma step_call_K s closed n ch fault s' : K s closed -> step_call s n ch fault = Some s' -> K s' closed.
Proof.
  intros HK E. unfold step_call in E.
  destruct (nth_error (calls s) n) as [[i|i|err|err|err|ok]|] eqn:Ec; try discriminate.
  - (* the Subscribe write *)
    assert (OD : forall p m c, nth_error (upd (calls s) n (fun _ => p)) m = Some c ->
                 (m = n /\ c = p) \/ (m <> n /\ nth_error (calls s) m = Some c /\ is_done c = true))
      by (intros p m c; exact (upd_call_inv _ _ _ _ _ _ (kU _ _ HK) Ec eq_refl)).
    pose proof (K_no_close _ _ _ _ HK Ec eq_refl) as Hnc.
    pose proof (K_col_nil _ _ _ _ HK Ec eq_refl ltac:(discriminate)) as Hnil.
    destruct fault; injection E as <-.
    + constructor; cbn [set_call set_calls set_subs calls subs frames close_collected]; rewrite ?Hnil.
      * exact (U_upd _ _ _ _ (kU _ _ HK) Ec eq_refl).
      * exact (kOrd _ _ HK).
      * exact (kNd _ _ HK).
      * exact (kCl _ _ HK).
      * intro H; exfalso; exact (Hnc H).
      * kcc OD.
      * kun OD.
      * intros j [].
      * constructor.
      * left; reflexivity.
      * intros j e' Hin He' P. apply nth_upd_inv in He' as [[_ (x & _ & ->)]|[_ He']]; [cbn in P; discriminate P | exact (kFlag _ _ HK _ _ Hin He' P)].
      * intros j e' He' P. apply nth_upd_inv in He' as [[_ (x & _ & ->)]|[Hne He']]; [cbn in P; discriminate P|].
        destruct (kSub _ _ HK _ _ He' P) as [(m & Hm)|R]; [left; exists m; apply (pend_other _ _ _ _ _ _ Hm Ec); congruence | right; exact R].
    + constructor; cbn [set_call set_calls push_frame set_frames calls subs frames close_collected]; rewrite ?Hnil.
      * exact (U_upd _ _ _ _ (kU _ _ HK) Ec eq_refl).
      * exact (kOrd _ _ HK).
      * exact (kNd _ _ HK).
      * exact Hnc.
      * intros [H|H]; [discriminate H | exfalso; exact (Hnc H)].
      * kcc OD.
      * kun OD.
      * intros j [].
      * constructor.
      * left; reflexivity.
      * exact (kFlag _ _ HK).
      * intros j e He P. destruct (Nat.eq_dec j i) as [->|Hne]; [right; left; reflexivity|].
        destruct (kSub _ _ HK _ _ He P) as [(m & Hm)|R]; [left; exists m; apply (pend_other _ _ _ _ _ _ Hm Ec); congruence | right; right; exact R].
  - (* the Unsubscribe write *)
    assert (OD : forall p m c, nth_error (upd (calls s) n (fun _ => p)) m = Some c ->
                 (m = n /\ c = p) \/ (m <> n /\ nth_error (calls s) m = Some c /\ is_done c = true))
      by (intros p m c; exact (upd_call_inv _ _ _ _ _ _ (kU _ _ HK) Ec eq_refl)).
    pose proof (K_no_close _ _ _ _ HK Ec eq_refl) as Hnc.
    pose proof (K_col_nil _ _ _ _ HK Ec eq_refl ltac:(discriminate)) as Hnil.
    destruct fault.
    + injection E as <-.
      constructor; cbn [set_call set_calls calls subs frames close_collected]; rewrite ?Hnil.
      * exact (U_upd _ _ _ _ (kU _ _ HK) Ec eq_refl).
      * exact (kOrd _ _ HK).
      * exact (kNd _ _ HK).
      * exact (kCl _ _ HK).
      * intro H; exfalso; exact (Hnc H).
      * kcc OD.
      * kun OD.
      * intros j [].
      * constructor.
      * left; reflexivity.
      * exact (kFlag _ _ HK).
      * intros j e He P.
        destruct (kSub _ _ HK _ _ He P) as [(m & Hm)|R]; [left; exists m; apply (pend_other _ _ _ _ _ _ Hm Ec); discriminate | right; exact R].
    + destruct (map_unsubscribe (push_frame s (WComplete i)) i) as [s1 k] eqn:M. injection E as <-.
      destruct (map_unsubscribe_K _ _ _ _ M) as (A & B & C & D & F).
      cbn [push_frame set_frames frames calls close_collected subs] in A, B, C, D.
      destruct (kUn _ _ HK _ _ Ec) as [Hni Hsi].
      constructor; cbn [set_call set_calls calls subs frames close_collected]; rewrite ?A, ?B, ?C, ?Hnil.
      * exact (U_upd _ _ _ _ (kU _ _ HK) Ec eq_refl).
      * cbn [ord_ok]. split; [exact Hsi | exact (kOrd _ _ HK)].
      * change (NoDup (i :: comp_ids (frames s))). constructor; [exact Hni | exact (kNd _ _ HK)].
      * exact Hnc.
      * intros [H|H]; [discriminate H | exfalso; exact (Hnc H)].
      * kcc OD.
      * kun OD.
      * intros j [].
      * constructor.
      * left; reflexivity.
      * change (forall j e, In j (i :: comp_ids (frames s)) -> nth_error (subs s1) j = Some e -> s_present e = true -> s_flag e = true).
        intros j e' [<-|Hin] He' P; [exact (F _ He' P)|].
        destruct (D _ _ He') as (e & He & Pp & Fl). apply Fl. exact (kFlag _ _ HK _ _ Hin He (Pp P)).
      * intros j e' He' P. destruct (D _ _ He') as (e & He & Pp & _).
        destruct (kSub _ _ HK _ _ He (Pp P)) as [(m & Hm)|R]; [left; exists m; apply (pend_other _ _ _ _ _ _ Hm Ec); discriminate | right; right; exact R].
  - (* Close: one complete write of UnsubscribeAll *)
    assert (OD : forall p m c, nth_error (upd (calls s) n (fun _ => p)) m = Some c ->
                 (m = n /\ c = p) \/ (m <> n /\ nth_error (calls s) m = Some c /\ is_done c = true))
      by (intros p m c; exact (upd_call_inv _ _ _ _ _ _ (kU _ _ HK) Ec eq_refl)).
    pose proof (K_no_close _ _ _ _ HK Ec eq_refl) as Hnc.
    pose proof (kCc _ _ HK _ _ Ec eq_refl) as Hclosed.
    destruct (mem_nat ch (close_collected s)) eqn:Hmem; [|discriminate]. apply mem_nat_In in Hmem.
    destruct (kCol _ _ HK _ Hmem) as [Hni Hsi].
    destruct (map_unsubscribe (if fault then s else push_frame s (WComplete ch)) ch) as [s1 k] eqn:M.
    cbv zeta in E. injection E as <-. destruct (map_unsubscribe_K _ _ _ _ M) as (A & B & C & D & F).
    match goal with |- K (set_call (set_collected _ ?r) _ _) _ => set (rest := r) in * end.
    match goal with |- K (set_call _ _ ?q) _ => set (p := q) in * end.
    assert (Hrest : forall j, In j rest -> In j (close_collected s) /\ j <> ch).
    { intros j Hj. apply filter_In in Hj as [Hj _]. split; [exact (remove_nat_In _ _ _ Hj)|].
      intros ->. exact (proj2 (remove_nat_NoDup ch _ (kColNd _ _ HK)) Hj). }
    assert (Hnd : NoDup rest) by (apply NoDup_filter; exact (proj1 (remove_nat_NoDup ch _ (kColNd _ _ HK)))).
    assert (Hp2 : forall j, AUnsubWrite j <> p) by (intro j; unfold p; destruct rest; discriminate).
    assert (HE : rest = [] \/ exists e, p = ACloseUnsub e)
      by (unfold p; destruct rest; [left; reflexivity | right; eexists; reflexivity]).
    clearbody p. clearbody rest.
    destruct fault; cbn [push_frame set_frames frames calls close_collected subs] in A, B, C, D.
    + constructor; cbn [set_call set_calls set_collected calls subs frames close_collected]; rewrite ?A, ?B, ?C.
      * exact (U_upd _ _ _ _ (kU _ _ HK) Ec eq_refl).
      * exact (kOrd _ _ HK).
      * exact (kNd _ _ HK).
      * exact (kCl _ _ HK).
      * intro H; exfalso; exact (Hnc H).
      * intros; exact Hclosed.
      * intros m j Hc. destruct (OD _ _ _ Hc) as [[_ Hq]|(_ & _ & Dd)]; [exfalso; exact (Hp2 _ Hq) | discriminate].
      * intros j Hj. destruct (Hrest _ Hj) as [Hj1 _]. exact (kCol _ _ HK _ Hj1).
      * exact Hnd.
      * destruct HE as [->|[e ->]]; [left; reflexivity | right; exists n, e; exact (nth_upd_same _ _ _ _ Ec)].
      * intros j e' Hin He' P. destruct (D _ _ He') as (e & He & Pp & Fl). apply Fl. exact (kFlag _ _ HK _ _ Hin He (Pp P)).
      * intros j e' He' P. destruct (D _ _ He') as (e & He & Pp & _).
        destruct (kSub _ _ HK _ _ He (Pp P)) as [(m & Hm)|R]; [left; exists m; apply (pend_other _ _ _ _ _ _ Hm Ec); discriminate | right; exact R].
    + constructor; cbn [set_call set_calls set_collected calls subs frames close_collected]; rewrite ?A, ?B, ?C.
      * exact (U_upd _ _ _ _ (kU _ _ HK) Ec eq_refl).
      * cbn [ord_ok]. split; [exact Hsi | exact (kOrd _ _ HK)].
      * change (NoDup (ch :: comp_ids (frames s))). constructor; [exact Hni | exact (kNd _ _ HK)].
      * exact Hnc.
      * intros [H|H]; [discriminate H | exfalso; exact (Hnc H)].
      * intros; exact Hclosed.
      * intros m j Hc. destruct (OD _ _ _ Hc) as [[_ Hq]|(_ & _ & Dd)]; [exfalso; exact (Hp2 _ Hq) | discriminate].
      * intros j Hj. destruct (Hrest _ Hj) as [Hj1 Hj2]. destruct (kCol _ _ HK _ Hj1) as [N1 N2].
        split; [change (~ In j (ch :: comp_ids (frames s))); intros [H|H]; [exact (Hj2 (eq_sym H)) | exact (N1 H)] | right; exact N2].
      * exact Hnd.
      * destruct HE as [->|[e ->]]; [left; reflexivity | right; exists n, e; exact (nth_upd_same _ _ _ _ Ec)].
      * change (forall j e, In j (ch :: comp_ids (frames s)) -> nth_error (subs s1) j = Some e -> s_present e = true -> s_flag e = true).
        intros j e' [<-|Hin] He' P; [exact (F _ He' P)|].
        destruct (D _ _ He') as (e & He & Pp & Fl). apply Fl. exact (kFlag _ _ HK _ _ Hin He (Pp P)).
      * intros j e' He' P. destruct (D _ _ He') as (e & He & Pp & _).
        destruct (kSub _ _ HK _ _ He (Pp P)) as [(m & Hm)|R]; [left; exists m; apply (pend_other _ _ _ _ _ _ Hm Ec); discriminate | right; right; exact R].
  - (* Close: the close frame *)
    assert (OD : forall p m c, nth_error (upd (calls s) n (fun _ => p)) m = Some c ->
                 (m = n /\ c = p) \/ (m <> n /\ nth_error (calls s) m = Some c /\ is_done c = true))
      by (intros p m c; exact (upd_call_inv _ _ _ _ _ _ (kU _ _ HK) Ec eq_refl)).
    pose proof (K_no_close _ _ _ _ HK Ec eq_refl) as Hnc.
    pose proof (K_col_nil _ _ _ _ HK Ec eq_refl ltac:(discriminate)) as Hnil.
    pose proof (kCc _ _ HK _ _ Ec eq_refl) as Hclosed.
    injection E as <-. destruct fault.
    + constructor; cbn [set_call set_calls calls subs frames close_collected]; rewrite ?Hnil.
      * exact (U_upd _ _ _ _ (kU _ _ HK) Ec eq_refl).
      * exact (kOrd _ _ HK).
      * exact (kNd _ _ HK).
      * exact (kCl _ _ HK).
      * intro H; exfalso; exact (Hnc H).
      * intros; exact Hclosed.
      * kun OD.
      * intros j [].
      * constructor.
      * left; reflexivity.
      * exact (kFlag _ _ HK).
      * intros j e He P.
        destruct (kSub _ _ HK _ _ He P) as [(m & Hm)|R]; [left; exists m; apply (pend_other _ _ _ _ _ _ Hm Ec); discriminate | right; exact R].
    + constructor; cbn [set_call set_calls push_frame set_frames calls subs frames close_collected]; rewrite ?Hnil.
      * exact (U_upd _ _ _ _ (kU _ _ HK) Ec eq_refl).
      * exact (kOrd _ _ HK).
      * exact (kNd _ _ HK).
      * exact Hnc.
      * intros _. split; [exact Hclosed|]. intros m c Hc.
        destruct (OD _ _ _ Hc) as [[_ ->]|(_ & _ & Dd)]; [reflexivity | destruct c; try discriminate; reflexivity].
      * intros; exact Hclosed.
      * kun OD.
      * intros j [].
      * constructor.
      * left; reflexivity.
      * exact (kFlag _ _ HK).
      * intros j e He P.
        destruct (kSub _ _ HK _ _ He P) as [(m & Hm)|R]; [left; exists m; apply (pend_other _ _ _ _ _ _ Hm Ec); discriminate | right; right; exact R].
  - (* Close: the connection is closed *)
    assert (OD : forall p m c, nth_error (upd (calls s) n (fun _ => p)) m = Some c ->
                 (m = n /\ c = p) \/ (m <> n /\ nth_error (calls s) m = Some c /\ is_done c = true))
      by (intros p m c; exact (upd_call_inv _ _ _ _ _ _ (kU _ _ HK) Ec eq_refl)).
    pose proof (K_col_nil _ _ _ _ HK Ec eq_refl ltac:(discriminate)) as Hnil.
    destruct (mutex s); [|discriminate]. injection E as <-.
    constructor; cbn [set_call set_calls set_closing calls subs frames close_collected]; rewrite ?Hnil.
    + exact (U_upd _ _ _ _ (kU _ _ HK) Ec eq_refl).
    + exact (kOrd _ _ HK).
    + exact (kNd _ _ HK).
    + exact (kCl _ _ HK).
    + intro H. destruct (kQ _ _ HK H) as [Cl Hq]. split; [exact Cl|]. intros m c Hc.
      destruct (OD _ _ _ Hc) as [[_ ->]|(_ & Hc' & _)]; [reflexivity | exact (Hq _ _ Hc')].
    + kcc OD.
    + kun OD.
    + intros j [].
    + constructor.
    + left; reflexivity.
    + exact (kFlag _ _ HK).
    + intros j e He P.
      destruct (kSub _ _ HK _ _ He P) as [(m & Hm)|R]; [left; exists m; apply (pend_other _ _ _ _ _ _ Hm Ec); discriminate | right; exact R].
Qed.

(* ================= every step keeps the invariant ================= *)
(* what [sequential_from] demands of a call label *)
Definition call_pre (s : st) (closed : bool) (l : label) : Prop :=
  is_call l = true ->
  all_done s = true /\ closed = false /\ match l with LCallUnsub i => obtained s i = true | _ => True end.

Lemma colE_done s closed : K s closed -> all_done s = true -> close_collected s = [].
Proof.
  intros HK Hd. destruct (kColE _ _ HK) as [E|(m & err & E)]; [exact E|].
  pose proof (all_done_nth _ Hd _ _ E) as D. discriminate.
Qed.

Lemma sub_on_wire s closed i e : K s closed -> all_done s = true ->
  nth_error (subs s) i = Some e -> s_present e = true -> In (WSubscribe i) (frames s).
Proof.
  intros HK Hd He P. destruct (kSub _ _ HK _ _ He P) as [(m & Hm)|R]; [|exact R].
  pose proof (all_done_nth _ Hd _ _ Hm) as D. discriminate.
Qed.

Lemma kSub_app s closed p i e : K s closed -> nth_error (subs s) i = Some e -> s_present e = true ->
  (exists n, nth_error (calls s ++ [p]) n = Some (ASubWrite i)) \/ In (WSubscribe i) (frames s).
Proof.
  intros HK He P. destruct (kSub _ _ HK _ _ He P) as [(m & Hm)|R]; [left; exists m; apply nth_app_old; exact Hm | right; exact R].
Qed.

Lemma step_K s closed l s' : InvF s -> K s closed -> call_pre s closed l -> step s l = Some s' ->
  K s' (closed || match l with LCallClose => true | _ => false end).
Proof.
  intros HF HK Hpre E. destruct l as [| i | | t choice fault | f | | i |]; cbn [step] in E.
  - (* Subscribe is called *)
    destruct (Hpre eq_refl) as (Hd & Hcl & _). injection E as <-. rewrite orb_false_r.
    pose proof (colE_done _ _ HK Hd) as Hnil.
    constructor; cbn [set_calls set_subs calls subs frames close_collected].
    + apply U_app_done; exact Hd.
    + exact (kOrd _ _ HK).
    + exact (kNd _ _ HK).
    + exact (kCl _ _ HK).
    + intro H. destruct (kQ _ _ HK H) as [C _]. congruence.
    + intros m c Hc Cc. apply nth_app_last in Hc as [[_ Hc]|[_ ->]]; [|discriminate].
      pose proof (all_done_nth _ Hd _ _ Hc) as D. destruct c; discriminate.
    + intros m j Hc. apply nth_app_last in Hc as [[_ Hc]|[_ Hc]]; [|discriminate].
      pose proof (all_done_nth _ Hd _ _ Hc) as D. discriminate.
    + exact (kCol _ _ HK).
    + exact (kColNd _ _ HK).
    + left; exact Hnil.
    + intros i e Hin He P. apply nth_app_last in He as [[_ He]|[-> _]]; [exact (kFlag _ _ HK _ _ Hin He P)|].
      exfalso. apply (ord_ok_comp_sub _ _ (kOrd _ _ HK)) in Hin. apply In_sub_ids in Hin.
      destruct HF as (_ & H2 & _). specialize (H2 _ Hin). lia.
    + intros i e He P. apply nth_app_last in He as [[_ He]|[-> _]].
      * exact (kSub_app _ _ _ _ _ HK He P).
      * left. exists (List.length (calls s)). apply nth_app_new.
  - (* Unsubscribe is called *)
    destruct (Hpre eq_refl) as (Hd & Hcl & Hob). injection E as <-. rewrite orb_false_r.
    pose proof (colE_done _ _ HK Hd) as Hnil.
    constructor; cbn [set_calls calls subs frames close_collected].
    + apply U_app_done; exact Hd.
    + exact (kOrd _ _ HK).
    + exact (kNd _ _ HK).
    + exact (kCl _ _ HK).
    + intro H. destruct (kQ _ _ HK H) as [C _]. congruence.
    + intros m c Hc Cc. apply nth_app_last in Hc as [[_ Hc]|[_ ->]]; [|destruct (sub_ended s i); discriminate].
      pose proof (all_done_nth _ Hd _ _ Hc) as D. destruct c; discriminate.
    + intros m j Hc. apply nth_app_last in Hc as [[_ Hc]|[_ Hc]]; [pose proof (all_done_nth _ Hd _ _ Hc) as D; discriminate|].
      unfold obtained, sub_ended, get_sub in Hob, Hc. destruct (nth_error (subs s) i) as [e|] eqn:He; [|discriminate].
      rewrite Hob in Hc. cbn in Hc. destruct (s_flag e) eqn:Fl; [discriminate|]. injection Hc as ->.
      split; [intro Hin; rewrite (kFlag _ _ HK _ _ Hin He Hob) in Fl; discriminate | exact (sub_on_wire _ _ _ _ HK Hd He Hob)].
    + exact (kCol _ _ HK).
    + exact (kColNd _ _ HK).
    + left; exact Hnil.
    + exact (kFlag _ _ HK).
    + intros j e He P. exact (kSub_app _ _ _ _ _ HK He P).
  - (* Close is called *)
    destruct (Hpre eq_refl) as (Hd & Hcl & _). injection E as <-. rewrite orb_true_r.
    constructor; cbn [set_collected set_calls calls subs frames close_collected].
    + apply U_app_done; exact Hd.
    + exact (kOrd _ _ HK).
    + exact (kNd _ _ HK).
    + exact (kCl _ _ HK).
    + intro H. destruct (kQ _ _ HK H) as [C _]. congruence.
    + intros; reflexivity.
    + intros m j Hc. apply nth_app_last in Hc as [[_ Hc]|[_ Hc]]; [pose proof (all_done_nth _ Hd _ _ Hc) as D; discriminate|].
      destruct (active_ids s); discriminate.
    + intros j Hj. apply close_collects_only_active in Hj as (e & He & P & Fl).
      split; [intro Hin; rewrite (kFlag _ _ HK _ _ Hin He P) in Fl; discriminate | exact (sub_on_wire _ _ _ _ HK Hd He P)].
    + apply active_ids_from_NoDup.
    + destruct (active_ids s) as [|x r]; [left; reflexivity | right; exists (List.length (calls s)), false; apply nth_app_new].
    + exact (kFlag _ _ HK).
    + intros j e He P. exact (kSub_app _ _ _ _ _ HK He P).
  - rewrite orb_false_r. destruct t as [|n].
    + destruct (step_reader_keep _ _ _ E) as (A & B & C & D). exact (K_keep _ _ _ A B C D HK).
    + exact (step_call_K _ _ _ _ _ _ HK E).
  - (* server frame *)
    rewrite orb_false_r.
    destruct (norm_frame s f) as [[j|] p|[j|]|[j|]|]; injection E as <-;
      (apply (K_keep s); [reflexivity | reflexivity | reflexivity | | exact HK]);
      cbn [set_subs set_inbound subs]; first [apply lmono_refl | apply lmono_upd; intros x _; cbn; auto].
  - rewrite orb_false_r. injection E as <-. apply (K_keep s); [reflexivity | reflexivity | reflexivity | apply lmono_refl | exact HK].
  - (* receive *)
    rewrite orb_false_r.
    assert (G : frames s' = frames s /\ calls s' = calls s /\ close_collected s' = close_collected s /\ lmono (subs s) (subs s')).
    { destruct (reader s) as [| |f found fl|j p| | | |]; try (injection E as <-; keep_refl).
      destruct (get_sub s i) as [e|]; [|injection E as <-; keep_refl].
      destruct (Nat.eqb i j); [|injection E as <-; keep_refl].
      destruct (Nat.ltb 0 (s_closes e)); injection E as <-; [keep_refl|].
      refine (conj eq_refl (conj eq_refl (conj eq_refl _))). cbn [set_reader set_subs subs].
      apply lmono_upd. intros x _. cbn. auto. }
    destruct G as (A & B & C & D). exact (K_keep _ _ _ A B C D HK).
  - rewrite orb_false_r. destruct (Nat.ltb 0 (err_buf s)); injection E as <-;
      (apply (K_keep s); [reflexivity | reflexivity | reflexivity | apply lmono_refl | exact HK]).
Qed.

Lemma K_run ls : forall s closed, InvF s -> K s closed -> sequential_from s closed ls = true ->
  InvF (fold_left step' ls s) /\ exists closed', K (fold_left step' ls s) closed'.
Proof.
  induction ls as [|l r IH]; intros s closed HF HK Hs; cbn [fold_left].
  - split; [exact HF | exists closed; exact HK].
  - cbn [sequential_from] in Hs. apply andb_true_iff in Hs as [Hpre Hs].
    assert (P : call_pre s closed l).
    { intro Hc. rewrite Hc in Hpre. apply andb_true_iff in Hpre as [Hpre H3]. apply andb_true_iff in Hpre as [H1 H2].
      split; [exact H1|]. split; [destruct closed; [discriminate | reflexivity]|]. destruct l; try exact I. exact H3. }
    unfold step' in *. destruct (step s l) as [s1|] eqn:E.
    + exact (IH s1 _ (step_InvF _ _ _ HF E) (step_K _ _ _ _ HF HK P E) Hs).
    + assert (Hcl : (closed || match l with LCallClose => true | _ => false end)%bool = closed)
        by (destruct l; try (apply orb_false_r); cbn in E; discriminate E).
      rewrite Hcl in Hs. exact (IH s closed HF HK Hs).
Qed.

(* ================= the theorems ================= *)
Theorem conversation_grammar ls : sequential ls = true -> grammar (frames (run ls)).
Proof.
  intro H. destruct (K_run ls init false InvF_init K_init H) as [HF [c HK]].
  change (fold_left step' ls init) with (run ls) in *.
  unfold grammar. split; [exact (proj1 HF)|]. split; [exact (kNd _ _ HK)|].
  split; [exact (ord_ok_spec _ (kOrd _ _ HK)) | exact (close_ok_spec _ (kCl _ _ HK))].
Qed.

Lemma sub_ids_app a c : sub_ids (a ++ c) = sub_ids a ++ sub_ids c.
Proof. unfold sub_ids. apply flat_map_app. Qed.
Lemma comp_ids_app a c : comp_ids (a ++ c) = comp_ids a ++ comp_ids c.
Proof. unfold comp_ids. apply flat_map_app. Qed.

Lemma sub_ids_rev fr : sub_ids (rev fr) = rev (sub_ids fr).
Proof.
  induction fr as [|x r IH]; [reflexivity|]. cbn [rev]. rewrite sub_ids_app, IH.
  destruct x; cbn; [reflexivity | rewrite app_nil_r; reflexivity | rewrite app_nil_r; reflexivity].
Qed.
Lemma comp_ids_rev fr : comp_ids (rev fr) = rev (comp_ids fr).
Proof.
  induction fr as [|x r IH]; [reflexivity|]. cbn [rev]. rewrite comp_ids_app, IH.
  destruct x; cbn; [rewrite app_nil_r; reflexivity | reflexivity | rewrite app_nil_r; reflexivity].
Qed.

(* the left-to-right check, on a list l that is oldest first *)
Lemma conv_ok_gen l : forall S C,
  NoDup (sub_ids l) -> NoDup (comp_ids l) ->
  (forall i, In i (sub_ids l) -> ~ In i S) -> (forall i, In i (comp_ids l) -> ~ In i C) ->
  (forall a c i, l = a ++ WComplete i :: c -> In i S \/ In (WSubscribe i) a) ->
  (forall a c, l = a ++ WClose :: c -> c = []) ->
  conv_ok S C l = true.
Proof.
  induction l as [|x r IH]; intros S C N1 N2 F1 F2 O Cl; [reflexivity|].
  destruct x as [i|i|]; cbn [conv_ok].
  - cbn in N1, F1. inversion N1 as [|? ? Hi N1']; subst.
    apply andb_true_iff. split.
    + destruct (mem_nat i S) eqn:M; [|reflexivity]. apply mem_nat_In in M. exfalso. exact (F1 i (or_introl eq_refl) M).
    + apply IH; [exact N1' | exact N2 | | exact F2 | | ].
      * intros j Hj [<-|Hs]; [exact (Hi Hj) | exact (F1 j (or_intror Hj) Hs)].
      * intros a c j ->. destruct (O (WSubscribe i :: a) c j eq_refl) as [H|[H|H]].
        -- left; right; exact H.
        -- injection H as ->. left; left; reflexivity.
        -- right; exact H.
      * intros a c ->. exact (Cl (WSubscribe i :: a) c eq_refl).
  - cbn in N2, F2. inversion N2 as [|? ? Hi N2']; subst.
    apply andb_true_iff. split; [apply andb_true_iff; split|].
    + apply mem_nat_In. destruct (O [] r i eq_refl) as [H|[]]. exact H.
    + destruct (mem_nat i C) eqn:M; [|reflexivity]. apply mem_nat_In in M. exfalso. exact (F2 i (or_introl eq_refl) M).
    + apply IH; [exact N1 | exact N2' | exact F1 | | | ].
      * intros j Hj [<-|Hs]; [exact (Hi Hj) | exact (F2 j (or_intror Hj) Hs)].
      * intros a c j ->. destruct (O (WComplete i :: a) c j eq_refl) as [H|[H|H]].
        -- left; exact H.
        -- discriminate H.
        -- right; exact H.
      * intros a c ->. exact (Cl (WComplete i :: a) c eq_refl).
  - rewrite (Cl [] r eq_refl). reflexivity.
Qed.

Lemma rev_split {A} (fr : list A) a x c : rev fr = a ++ x :: c -> fr = rev c ++ x :: rev a.
Proof.
  intro H. rewrite <- (rev_involutive fr), H, rev_app_distr. cbn [rev]. rewrite <- app_assoc. reflexivity.
Qed.

Theorem grammar_conv_ok fr : grammar fr -> conv_ok [] [] (rev fr) = true.
Proof.
  intros (G1 & G2 & G3 & G4). apply conv_ok_gen.
  - rewrite sub_ids_rev. apply NoDup_rev. exact G1.
  - rewrite comp_ids_rev. apply NoDup_rev. exact G2.
  - intros i _ [].
  - intros i _ [].
  - intros a c i H. apply rev_split in H. right. apply in_rev. exact (G3 _ _ _ H).
  - intros a c H. apply rev_split in H. apply G4 in H. destruct c as [|y c]; [reflexivity|].
    cbn [rev] in H. destruct (rev c); discriminate H.
Qed.

Theorem conversation_accepted ls : sequential ls = true -> conv_ok [] [] (rev (frames (run ls))) = true.
Proof. intro H. apply grammar_conv_ok. apply conversation_grammar. exact H. Qed.

(* ================= non-vacuity ================= *)
(* two Subscribes succeed (ids 0 and 1); Unsubscribe 0 is called and its write FAILS; the server completes
   subscription 1 and the reader processes that frame; Close then writes the missing complete frame for 0
   (none for 1) and the close frame. *)
Definition ls0 : list label :=
  [ LCallSub; LStep (TCall 0) 0 false;
    LCallSub; LStep (TCall 1) 0 false;
    LCallUnsub 0; LStep (TCall 2) 0 true;
    LServer (FComplete (Some 1)); LStep TReader 0 false; LStep TReader 0 false; LStep TReader 0 false;
    LCallClose; LStep (TCall 3) 0 false; LStep (TCall 3) 0 false; LStep (TCall 3) 0 false ].

Example conversation_nonvacuous :
  sequential ls0 = true
  /\ frames (run ls0) = [WClose; WComplete 0; WSubscribe 1; WSubscribe 0]
  /\ calls (run ls0) = [ADone true; ADone true; ADone false; ADone true]
  /\ conv_ok [] [] (rev (frames (run ls0))) = true.
Proof. vm_compute. repeat split; reflexivity. Qed.

Print Assumptions conversation_grammar.
Print Assumptions conversation_accepted.
